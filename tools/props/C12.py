"""C12 - GroupBy aggregates equal a reference partition-and-fold.

Case (JSON):
  {"op": "aggregate" | "groups",
   "names": [column names], "rows": [[cell, ...], ...],
   "keys": [key column names], "keyform": "list" | "tuple" | "str"   (str: a single name passed bare),
   "reqs": [[FUNC, column], ...], "lazy": bool (generator-backed frame), "build": "rows" | "dicts",
   "perm": [a permutation of range(len(rows))]}
cell = null | int | bool | str | ["f", float.hex()]

Observation: {"main": R, "other": R (same call on the frame backed the other way), "shuffled": R (rows
permuted by perm, list-backed), "single": [R per request, requested alone through aggregate],
"wrapper": [R per request through min/max/sum/avg/count, or null when there is no wrapper]}
R = {"raise": exception class, "after": rowcount afterwards}
  | {"hdr": [column names], "rows": [[ocell, ...], ...], "after": rowcount afterwards}
ocell = cell | ["q", numerator, denominator]   (a decimal.Decimal, as the exact rational it denotes)
"""
import itertools
from fractions import Fraction

from vlib import coqlit as L

ID = "C12"
READY = True
TECHNIQUE = ("Coq proof (code model of _map/aggregate = partition-and-fold specification, by a generic grouping lemma over "
             "insertion-ordered dictionaries; permutation invariance; single vs joint requests) + model/implementation correspondence evaluated in Coq")
LEVEL_TEXT = ("Machine-checked Coq theorems over an executable model of group_by.py written the way the code is written (emission of "
              "(key, column, value) triples, first-seen key bookkeeping, null-skipping collection into nested insertion-ordered dicts, "
              "per-group folds, result dictionaries, DataFrame(list of dicts)): for every frame, every key column list over an arbitrary "
              "cell type with decidable equality and every non-empty request list the model equals the partition-and-fold specification; "
              "one output row per distinct key in first-seen order; MIN/MAX/SUM/COUNT/AVG are the least/greatest element, the sum, the "
              "length and sum/length of the group's non-null values (null, COUNT 0, for none); a request's cells are the same whether "
              "asked alone or with others; any permutation of the rows gives a permutation of the same output rows; lazily and eagerly "
              "backed frames give the same output. The model is tied to the code by running real DataFrames (list-, generator- and "
              "dict-built) and evaluating the model on the same inputs inside Coq, cell by cell, header and row order included; an "
              "independent property oracle on the implementation supplies replayable failing inputs.")
LEVEL_NOTE = ("Trusted: Coq kernel + vm_compute; the hand-written model; the harness's canonicalisation of Python values (bool/int/integral "
              "float collapse to one integer so that structural equality of model cells is Python's ==; other floats by bit pattern; NaN never "
              "generated). AVG is the exact rational in the theorems; the implementation's decimal.Decimal (28 significant digits, half-even) "
              "is compared against that rational rounded by a Gallina model of the decimal division, which is validated by the run, not proved. "
              "Value columns hold integers (any size) and nulls: float SUM/AVG depend on row order through IEEE addition and Decimal sums round, "
              "so they are outside the exact-arithmetic theorems; MIN/MAX/SUM/AVG over text/float columns are not modelled (only COUNT is "
              "requested on such columns). Labels are modelled as (function, column) pairs rendered to the text FUNC(column); a frame column "
              "literally named like a label is not modelled. Ragged rows are not modelled. No axioms (Print Assumptions: closed).")
DESIGN_REF = "DESIGN.md section 8, C12"
COQ_IMPORTS = "From Coq Require Import QArith.\nFrom Orso Require Import Model.C12."
COQ_CHECKS = {"agg": "c12_check_agg", "groups": "c12_check_groups"}
COQ_SHOW = {"agg": "c12_show_agg", "groups": "c12_show_groups"}
RULE = ("frames of 0..15 rows with 1-2 key columns drawn from small pools of text / integers (incl. -1 and -2, equal hashes) / floats "
        "(integral ones equal to ints, -0.0, inf) / booleans / nulls so that groups collide, two integer value columns with nulls anywhere "
        "and whole groups forced to null, 1..4 (function, column) requests with repeated columns and repeated requests, COUNT(*) and "
        "unknown columns, a small malformed share (unknown key column, SUM over an unknown column, duplicated key column); each case is run "
        "list-backed and generator-backed, on a shuffle of its rows, and request by request; non-trivial = well-formed with at least one "
        "output group; distinct by canonical JSON of (rows, keys, requests, laziness)")
TRUSTED = [
    "C12 model (coq/Model/C12.v): dicts as insertion-ordered association lists; _map's generator as its two outputs (the yielded "
    "triples and the final _group_keys); labels as (function, column) pairs with a rendering function (proved injective)",
    "canonicalisation in tools/props/C12.py: bool/int/integral float -> integer, other floats by bits, text by code points, Decimal -> exact fraction",
    "modelled, validated by the correspondence, not proved: decimal.Decimal division at 28 digits half-even (dec_round in Model/C12.v); "
    "CPython dict ordering/equality, min/max/sum, tuple.index behind the model's definitions",
]
ASSUMPTIONS = [
    "cell equality is decidable and is Leibniz equality after canonicalisation (premise K_eqb a b = true <-> a = b of every theorem); NaN keys excluded",
    "request lists are non-empty (an empty list yields no groups at all: C12_empty_requests)",
    "aggregated columns hold integers or nulls (exact arithmetic); see LEVEL_NOTE",
]
KNOWN_WITNESSES = {}

FUNCS = ["MIN", "MAX", "COUNT", "AVG", "SUM"]


# ----------------------------------------------------------------------------- values
def _py(cell):
    """JSON cell -> Python value."""
    if isinstance(cell, list):
        if cell[0] == "f":
            return float.fromhex(cell[1])
        raise ValueError(cell)
    return cell


def _canon(v):
    """Python value -> canonical hashable form under Python's ==."""
    import decimal

    if v is None:
        return ("n",)
    if isinstance(v, bool):
        return ("i", int(v))
    if isinstance(v, int):
        return ("i", v)
    if isinstance(v, float):
        if v != v:
            raise ValueError("NaN is outside the harness")
        if v in (float("inf"), float("-inf")) or v != int(v):
            return ("f", L.float_bits(v))
        return ("i", int(v))
    if isinstance(v, str):
        return ("t", v)
    if isinstance(v, decimal.Decimal):
        fr = Fraction(v)
        return ("q", fr.numerator, fr.denominator)
    raise ValueError("unexpected value %r" % (v,))


def _json_cell(v):
    """Python value from the implementation -> JSON ocell (raw, not yet collapsed)."""
    import decimal

    if v is None or isinstance(v, (bool, int, str)):
        return v
    if isinstance(v, float):
        return ["f", v.hex()]
    if isinstance(v, decimal.Decimal):
        fr = Fraction(v)
        return ["q", fr.numerator, fr.denominator]
    raise ValueError("unexpected value %r of %s" % (v, type(v).__name__))


def _canon_json(c):
    if isinstance(c, list) and c[0] == "q":
        return ("q", c[1], c[2])
    return _canon(_py(c))


def label(func, col):
    return f"{func}({col})"


# ----------------------------------------------------------------------------- implementation runner
def _frame(case, rows, lazy):
    from orso.dataframe import DataFrame

    names = list(case["names"])
    tuples = [tuple(_py(c) for c in r) for r in rows]
    if case.get("build") == "dicts" and not lazy:
        df = DataFrame([dict(zip(names, t)) for t in tuples])
        if not tuples:
            df = DataFrame(rows=[], schema=names)
        return df
    if lazy:
        return DataFrame(rows=(t for t in tuples), schema=names)
    return DataFrame(rows=list(tuples), schema=names)


def _keys_arg(case):
    ks = list(case["keys"])
    form = case.get("keyform", "list")
    if form == "str" and len(ks) == 1:
        return ks[0]
    if form == "tuple":
        return tuple(ks)
    return ks


def _result(df, call):
    try:
        out = call(df.group_by(_keys_arg_cur[0]))
        hdr = [str(c) for c in out.column_names]
        rows = [[_json_cell(x) for x in r] for r in out]
        res = {"hdr": hdr, "rows": rows}
    except Exception as e:  # the call raised
        res = {"raise": type(e).__name__}
    try:
        res["after"] = int(df.rowcount)
    except Exception as e:
        res["after"] = "raise " + type(e).__name__
    return res


_keys_arg_cur = [None]


def _wrapper(func, col):
    if func == "MIN":
        return lambda g: g.min(col)
    if func == "MAX":
        return lambda g: g.max([col])
    if func == "SUM":
        return lambda g: g.sum((col,))
    if func == "AVG":
        return lambda g: g.avg(col)
    if func == "COUNT" and col == "*":
        return lambda g: g.count()
    return None


def observe(case):
    _keys_arg_cur[0] = _keys_arg(case)
    rows = case["rows"]
    lazy = bool(case["lazy"])
    reqs = [tuple(r) for r in case["reqs"]]
    if case["op"] == "groups":
        call = lambda g: g.groups()
    else:
        call = lambda g: g.aggregate(list(reqs))
    obs = {}

    def run(rws, lz, c):
        try:
            df = _frame(case, rws, lz)
        except Exception as e:
            return {"raise": "construct:" + type(e).__name__, "after": -1}
        return _result(df, c)

    obs["main"] = run(rows, lazy, call)
    obs["other"] = run(rows, not lazy, call)
    perm = case.get("perm") or list(range(len(rows)))
    obs["shuffled"] = run([rows[i] for i in perm], False, call)
    obs["single"] = []
    obs["wrapper"] = []
    if case["op"] == "aggregate":
        for f, c in reqs:
            obs["single"].append(run(rows, False, lambda g, f=f, c=c: g.aggregate([(f, c)])))
            w = _wrapper(f, c)
            obs["wrapper"].append(None if w is None else run(rows, lazy, w))
    return obs


# ----------------------------------------------------------------------------- the property, literally
def _round_sig(fr, prec=28):
    """fr rounded half-even to prec significant decimal digits (exact Fraction arithmetic)."""
    fr = Fraction(fr)
    if fr == 0:
        return fr
    sign = 1 if fr > 0 else -1
    a = abs(fr)
    e = len(str(a.numerator)) - len(str(a.denominator)) - prec
    ten = Fraction(10)
    while a / ten ** e >= 10 ** prec:
        e += 1
    while a / ten ** e < 10 ** (prec - 1):
        e -= 1
    scaled = a / ten ** e
    c = scaled.numerator // scaled.denominator
    rem = scaled - c
    if rem > Fraction(1, 2) or (rem == Fraction(1, 2) and c % 2 == 1):
        c += 1
    return sign * c * ten ** e


def _reference(func, col, group, names):
    """Reference aggregate over the rows of one group.  Returns ('v', canonical cell) or ('undefined',)."""
    if col not in names:
        if func == "COUNT":
            return ("v", ("i", len(group)))
        return ("undefined",)
    j = names.index(col)
    vals = [_py(r[j]) for r in group if _py(r[j]) is not None]
    if func == "COUNT":
        return ("v", ("i", len(vals)))
    if not all(isinstance(x, int) for x in vals):
        return ("undefined",)
    if not vals:
        return ("v", ("n",))
    ints = [int(x) for x in vals]
    if func == "MIN":
        return ("v", ("i", min(ints)))
    if func == "MAX":
        return ("v", ("i", max(ints)))
    if func == "SUM":
        return ("v", ("i", sum(ints)))
    if func == "AVG":
        fr = _round_sig(Fraction(sum(ints), len(ints)))
        return ("v", ("q", fr.numerator, fr.denominator))
    return ("undefined",)


def _cell_equal(ref, got):
    """reference canonical cell vs observed canonical cell (integers and rationals by value)."""
    def val(c):
        if c[0] == "i":
            return Fraction(c[1])
        if c[0] == "q":
            return Fraction(c[1], c[2])
        return None
    if val(ref) is not None and val(got) is not None:
        return val(ref) == val(got)
    return ref == got


def _wellformed(case):
    return all(k in case["names"] for k in case["keys"]) and len(case["keys"]) >= 1


def _may_raise(case):
    """requests whose value the property does not define and on which the code raises TypeError"""
    names = case["names"]
    for f, c in case["reqs"]:
        if f != "COUNT" and _reference(f, c, case["rows"], names)[0] == "undefined":
            return True
    return False


def _table(case, res):
    """R -> {canonical key tuple: {column name: canonical cell}} plus problems."""
    keys = case["keys"]
    out = {}
    for row in res["rows"]:
        d = dict(zip(res["hdr"], row))
        for k in keys:
            if k not in d:
                return None, f"key column {k!r} missing from the output columns {res['hdr']}"
        kt = tuple(_canon_json(d[k]) for k in keys)
        if kt in out:
            return None, f"two output rows for the key {kt}"
        out[kt] = {c: _canon_json(v) for c, v in d.items()}
    return out, None


def oracle(case, obs):
    if not _wellformed(case):
        return None  # unknown key column: the property does not say what happens
    names = case["names"]
    rows = case["rows"]
    keys = case["keys"]
    kidx = [names.index(k) for k in keys]
    main = obs["main"]
    groups = {}
    for r in rows:
        groups.setdefault(tuple(_canon(_py(r[i])) for i in kidx), []).append(r)

    if case["op"] == "groups":
        for tag in ("main", "other", "shuffled"):
            res = obs[tag]
            if "raise" in res:
                return f"groups() ({tag}) raised {res['raise']}; it must return one row per distinct key"
            tab, why = _table(case, res)
            if why:
                return f"groups() ({tag}): {why}"
            if set(tab) != set(groups):
                return f"groups() ({tag}) must return exactly the distinct keys {sorted(map(str, groups))}, got {sorted(map(str, tab))}"
            if len(res["rows"]) != len(groups):
                return f"groups() ({tag}) must return one row per distinct key"
        if obs["other"]["rows"] != main["rows"] or obs["other"]["hdr"] != main["hdr"]:
            return "lazily backed and materialised frames must give the same groups"
        return None

    reqs = [tuple(r) for r in case["reqs"]]
    undefined_ok = _may_raise(case)

    def check(res, tag, rs):
        if "raise" in res:
            if undefined_ok and res["raise"] == "TypeError":
                return "skip"
            return f"{tag}: aggregate raised {res['raise']}; it must return one row per distinct key"
        if rows:
            want_hdr = list(dict.fromkeys([label(f, c) for f, c in rs] + list(keys)))
            if res["hdr"] != want_hdr:
                return f"{tag}: output columns must be the labels FUNC(column) next to the key columns {want_hdr}, got {res['hdr']}"
        tab, why = _table(case, res)
        if why:
            return f"{tag}: {why}"
        if len(res["rows"]) != len(groups) or set(tab) != set(groups):
            return (f"{tag}: one output row per distinct key required: distinct keys {sorted(map(str, groups))}, "
                    f"output keys {sorted(map(str, tab))} ({len(res['rows'])} rows)")
        for kt, grp in groups.items():
            for f, c in rs:
                ref = _reference(f, c, grp, names)
                if ref[0] == "undefined":
                    continue
                got = tab[kt].get(label(f, c))
                if got is None or not _cell_equal(ref[1], got):
                    return f"{tag}: {label(f, c)} of group {kt} must be {ref[1]}, got {got}"
        return None

    w = check(main, "aggregate", reqs)
    if w == "skip":
        return None
    if w:
        return w
    # lazily backed vs materialised
    oth = obs["other"]
    if ("raise" in oth) or oth["hdr"] != main["hdr"] or _rows_canon(oth) != _rows_canon(main):
        return f"lazily backed and materialised frames must give the same result: {main} vs {oth}"
    # row permutation
    sh = obs["shuffled"]
    w = check(sh, "aggregate on permuted rows", reqs)
    if w:
        return w
    if sorted(map(repr, _rows_canon(sh))) != sorted(map(repr, _rows_canon(main))) or (rows and sh["hdr"] != main["hdr"]):
        return f"permuting the input rows must give the same output rows up to order: {main['rows']} vs {sh['rows']}"
    # one at a time
    mtab, _ = _table(case, main)
    for (f, c), res, wr in zip(reqs, obs["single"], obs["wrapper"]):
        w = check(res, f"aggregate([{label(f, c)}]) alone", [(f, c)])
        if w == "skip":
            continue
        if w:
            return w
        stab, _ = _table(case, res)
        for kt in groups:
            if stab[kt].get(label(f, c)) != mtab[kt].get(label(f, c)):
                return (f"{label(f, c)} of group {kt} requested alone is {stab[kt].get(label(f, c))} but "
                        f"{mtab[kt].get(label(f, c))} when requested with the others")
        if wr is not None:
            if "raise" in wr or wr["hdr"] != res["hdr"] or _rows_canon(wr) != _rows_canon(res):
                return f"the convenience wrapper for {label(f, c)} must equal aggregate([...]): {wr} vs {res}"
    return None


def _rows_canon(res):
    return [[_canon_json(c) for c in r] for r in res["rows"]]


# ----------------------------------------------------------------------------- Coq literals
def _coq_val(c, star=False):
    t = _canon_json(c)
    if t[0] == "n":
        return "vn"
    if t[0] == "i":
        return "(vi %s)" % L.Z(t[1])
    if t[0] == "f":
        return "(vf %s)" % L.N(t[1])
    if t[0] == "t":
        if star and t[1] == "*":
            return "vstar"
        return "(vt %s)" % L.text(t[1])
    raise ValueError(t)


def _coq_ocell(c, star):
    t = _canon_json(c)
    if t[0] == "q":
        return "(cq %s %d%%positive)" % (L.Z(t[1]), t[2])
    return "(cv %s)" % _coq_val(c, star)


_EXN = {"ValueError": "OValueError", "TypeError": "OTypeError"}


def _coq_obs(case, res):
    after = res["after"] if isinstance(res["after"], int) else -1
    if "raise" in res:
        return "(ObsRaise %s %s)" % (_EXN.get(res["raise"], "OOther"), L.Z(after))
    keyset = set(case["keys"])
    rows = []
    for r in res["rows"]:
        rows.append(L.lst(_coq_ocell(c, star=(h not in keyset)) for h, c in zip(res["hdr"], r)))
    return "(ObsFrame %s %s %s)" % (L.lst(L.text(h) for h in res["hdr"]), L.lst(rows), L.Z(after))


def _modelled(case):
    """Does the Coq model cover this case?  (non-COUNT requests only over integer/null columns or unknown columns)"""
    names = case["names"]
    for f, c in case.get("reqs", []):
        if f not in FUNCS:
            return False
        if f != "COUNT" and c in names:
            j = names.index(c)
            for r in case["rows"]:
                v = _py(r[j])
                if v is not None and not isinstance(v, int):
                    return False
    for r in case["rows"]:
        if len(r) != len(names):
            return False
    return True


def to_coq(case, obs):
    if not _modelled(case):
        return None
    names = L.lst(L.text(n) for n in case["names"])
    rows = L.lst(L.lst(_coq_val(c) for c in r) for r in case["rows"])
    keys = L.lst(L.text(k) for k in case["keys"])
    o = _coq_obs(case, obs["main"])
    if case["op"] == "groups":
        return ("groups", "((%s, %s, %s, %s, %s) : grp_case)" % (L.boolean(case["lazy"]), names, rows, keys, o))
    reqs = L.lst("(%s, %s)" % (f, L.text(c)) for f, c in case["reqs"])
    return ("agg", "((%s, %s, %s, %s, %s, %s) : agg_case)" % (L.boolean(case["lazy"]), names, rows, keys, reqs, o))


# ----------------------------------------------------------------------------- bookkeeping
def known(case, obs):
    return None


def nontrivial_key(case, obs):
    if not _wellformed(case) or "raise" in obs["main"] or not obs["main"]["rows"]:
        return None
    return repr((case["op"], case["rows"], case["keys"], case["reqs"], case["lazy"]))


def classify(case, obs):
    yield case["op"]
    yield "lazy" if case["lazy"] else "eager"
    n = len(case["rows"])
    yield "rows=0" if n == 0 else "rows=1" if n == 1 else "rows=2-5" if n <= 5 else "rows=6-15" if n <= 15 else "rows>15"
    yield "keys=%d" % len(case["keys"])
    if not _wellformed(case):
        yield "unknown-key-column"
        return
    names = case["names"]
    kidx = [names.index(k) for k in case["keys"]]
    raw = {tuple(repr(_py(r[i])) for i in kidx) for r in case["rows"]}
    can = {tuple(_canon(_py(r[i])) for i in kidx) for r in case["rows"]}
    if len(can) < len(raw):
        yield "keys-equal-across-types(1==1.0==True)"
    flat = [_py(r[i]) for r in case["rows"] for i in kidx]
    ints = {x for x in flat if isinstance(x, int) and not isinstance(x, bool)}
    if -1 in ints and -2 in ints:
        yield "hash-colliding-keys(-1,-2)"
    if any(x is None for x in flat):
        yield "null-key"
    if any(isinstance(x, float) for x in flat):
        yield "float-key"
    if any(isinstance(x, bool) for x in flat):
        yield "bool-key"
    if any(isinstance(x, str) for x in flat):
        yield "text-key"
    yield "groups=%s" % (len(can) if len(can) < 4 else "4+")
    if case["op"] != "aggregate":
        return
    cols = [c for _, c in case["reqs"]]
    yield "requests=%d" % len(cols)
    if len(set(cols)) < len(cols):
        yield "repeated-column"
    if len({tuple(r) for r in case["reqs"]}) < len(case["reqs"]):
        yield "repeated-request"
    for f, c in case["reqs"]:
        yield "func:" + f
        if c == "*":
            yield "column:*"
        elif c not in names:
            yield "column:unknown"
    # all-null group for some requested column
    groups = {}
    for r in case["rows"]:
        groups.setdefault(tuple(_canon(_py(r[i])) for i in kidx), []).append(r)
    for c in set(cols):
        if c in names:
            j = names.index(c)
            if any(all(r[j] is None for r in g) for g in groups.values()):
                yield "all-null-group"
                break
    if "raise" in obs["main"]:
        yield "raised:" + obs["main"]["raise"]
    for f, c in case["reqs"]:
        if f == "AVG" and c in names:
            j = names.index(c)
            for g in groups.values():
                vals = [_py(r[j]) for r in g if r[j] is not None]
                if vals and all(isinstance(x, int) for x in vals):
                    fr = Fraction(sum(vals), len(vals))
                    if _round_sig(fr) != fr:
                        yield "avg-rounded-to-28-digits"
                        return


# ----------------------------------------------------------------------------- generators
NAMES = ["k1", "k2", "v", "w"]


def _case(rows, keys, reqs, lazy=False, op="aggregate", keyform="list", build="rows", perm=None, names=None):
    return {"op": op, "names": list(names or NAMES), "rows": rows, "keys": list(keys), "keyform": keyform,
            "reqs": [list(r) for r in reqs], "lazy": lazy, "build": build,
            "perm": perm if perm is not None else list(reversed(range(len(rows))))}


def corpus():
    # F-C12-1: keys -1 and -2 have equal hashes and were merged (SUM = 3 under key -1)
    yield _case([[-1, None, 1, None], [-2, None, 2, None]], ["k1"], [["SUM", "v"]])
    yield _case([[-1, -2, 1, None], [-2, -1, 2, None], [-1, -1, 4, 1], [-2, -2, 8, 2]], ["k1", "k2"], [["SUM", "v"], ["COUNT", "*"]])
    # F-C12-2: [SUM(v), COUNT(v)] double-counted column v (8, 4 for the values 1, 3)
    yield _case([["a", None, 1, None], ["a", None, 3, None]], ["k1"], [["SUM", "v"], ["COUNT", "v"]])
    yield _case([["a", None, 1, 2], ["a", None, 3, 5], ["b", None, 7, None]], ["k1"],
                [["AVG", "v"], ["MIN", "v"], ["MAX", "w"], ["SUM", "v"]])
    # F-C12-3: all-null groups vanished; MAX of a group without non-null values raised
    yield _case([["a", None, None, None], ["b", None, 1, None]], ["k1"], [["MAX", "v"]])
    yield _case([["a", None, None, None], ["a", None, None, 2]], ["k1"], [["MIN", "v"], ["AVG", "v"], ["SUM", "v"], ["COUNT", "v"]])
    yield _case([["a", None, None, None]], ["k1"], [["COUNT", "v"]], lazy=True)
    # F-C12-4: an empty frame raised StopIteration
    yield _case([], ["k1"], [["SUM", "v"]])
    yield _case([], ["k1", "k2"], [["COUNT", "*"]], lazy=True)
    yield _case([], ["k1"], [], op="groups")
    # equal keys of different Python types, -0.0, big integers, AVG that needs rounding
    yield _case([[1, None, 1, None], [True, None, 2, None], [["f", (1.0).hex()], None, 4, None], [["f", (-0.0).hex()], None, 1, 1], [0, None, 2, 1], [False, None, None, 1]],
                ["k1"], [["SUM", "v"], ["AVG", "w"], ["COUNT", "*"]])
    yield _case([["a", None, 1, 2 ** 70], ["a", None, 1, 1], ["a", None, 0, 0], ["b", None, -1, 10 ** 30], ["b", None, -1, 10 ** 30 + 1], ["b", None, 0, 1]],
                ["k1"], [["AVG", "v"], ["AVG", "w"], ["SUM", "w"], ["MIN", "w"]])
    yield _case([["a", "x", 1, 2], ["a", "y", 1, 2], ["a", "x", 5, None]], ["k1", "k2"], [["COUNT", "zz"], ["MIN", "zz"], ["COUNT", "k2"]])
    yield _case([["a", "x", 1, 2], ["b", "y", 1, 2]], ["k1"], [["SUM", "zz"]])
    yield _case([["a", "x", 1, 2], ["b", "y", 1, 2]], ["nope"], [["SUM", "v"]], lazy=True)
    yield _case([["a", "x", 1, 2], ["b", "y", 1, 2], ["a", "x", 1, 2]], ["k1", "k1"], [["COUNT", "*"], ["COUNT", "*"]])
    yield _case([["a", "x", 1, 2], ["b", "y", 1, 2], ["a", "z", 1, 2]], ["k1", "k2"], [], op="groups", lazy=True)


KEY_POOLS = {
    "text": ["a", "b", "", "é", "A", "ab"],
    "int": [-1, -2, 0, 1, 2, 2 ** 64, -(2 ** 63)],
    "float": [["f", (1.0).hex()], ["f", (-1.0).hex()], ["f", (0.5).hex()], ["f", (-0.0).hex()], ["f", (2.5).hex()],
              ["f", float("inf").hex()], ["f", (-2.0).hex()], ["f", (1e300).hex()]],
    "bool": [True, False],
    "null": [None],
}
VALUE_POOLS = [
    [-5, -1, 0, 1, 2, 3, 7],
    [1, 2, 3],
    [2 ** 70, -(2 ** 70), 10 ** 30, 10 ** 30 + 1, 1, 0, 3],
    [-1, -2],
]


def _key_pool(rng):
    kinds = rng.choice([["text"], ["int"], ["int", "null"], ["float", "int"], ["bool", "int", "float"], ["text", "null"],
                        ["text", "int", "float", "bool", "null"], ["int"], ["null", "bool"]])
    pool = []
    for k in kinds:
        pool += KEY_POOLS[k]
    size = rng.randint(1, min(4, len(pool)))
    return rng.sample(pool, size)


def _random_case(rng, malformed_share=0.08):
    n = rng.choice([0, 1, 1, 2, 2, 3, 3, 4, 5, 6, 8, 10, 12, 15])
    p1, p2 = _key_pool(rng), _key_pool(rng)
    vp, wp = rng.choice(VALUE_POOLS), rng.choice(VALUE_POOLS)
    pnull_v = rng.choice([0.0, 0.2, 0.5, 0.9])
    pnull_w = rng.choice([0.0, 0.3, 1.0])
    rows = []
    for _ in range(n):
        rows.append([rng.choice(p1), rng.choice(p2),
                     None if rng.random() < pnull_v else rng.choice(vp),
                     None if rng.random() < pnull_w else rng.choice(wp)])
    nkeys = rng.choice([1, 1, 2])
    keys = ["k1"] if nkeys == 1 else rng.choice([["k1", "k2"], ["k2", "k1"]])
    if nkeys == 1 and rng.random() < 0.15:
        keys = [rng.choice(["k2", "v"])]
    # force one whole group to null on v (and sometimes w)
    if rows and rng.random() < 0.4:
        kidx = [NAMES.index(k) for k in keys]
        victim = tuple(repr(rows[rng.randrange(n)][i]) for i in kidx)
        both = rng.random() < 0.5
        for r in rows:
            if tuple(repr(r[i]) for i in kidx) == victim:
                r[2] = None
                if both:
                    r[3] = None
    intlike = {c: all(r[NAMES.index(c)] is None or isinstance(r[NAMES.index(c)], int) for r in rows) for c in NAMES}
    cols = ["v", "v", "w", "*", "zz"] + [k for k in ("k1", "k2")]
    reqs = []
    base = [(rng.choice(FUNCS), rng.choice(cols)) for _ in range(rng.randint(1, 3))]
    for _ in range(rng.randint(1, 4)):
        f, c = rng.choice(base) if rng.random() < 0.5 else (rng.choice(FUNCS), rng.choice(cols))
        if c in ("*", "zz") and f != "COUNT":
            f = rng.choice(["COUNT", "COUNT", "MIN", "MAX"])
        if c in ("k1", "k2") and not intlike[c]:
            f = "COUNT"
        reqs.append([f, c])
    op = "aggregate"
    r = rng.random()
    if r < 0.06:
        op, reqs = "groups", []
    elif r < 0.06 + malformed_share:
        m = rng.choice(["badkey", "sumstar", "dupkey"])
        if m == "badkey":
            keys = rng.choice([["nope"], ["k1", "nope"], ["nope", "k1"]])
        elif m == "sumstar":
            reqs.insert(rng.randrange(len(reqs) + 1), [rng.choice(["SUM", "AVG"]), rng.choice(["*", "zz"])])
            reqs = reqs[:4]
        else:
            keys = [keys[0], keys[0]]
    perm = list(range(n))
    rng.shuffle(perm)
    keyform = rng.choice(["list", "list", "tuple", "str"])
    lazy = rng.random() < 0.4
    build = "dicts" if rng.random() < 0.25 else "rows"
    return _case(rows, keys, reqs, lazy=lazy, op=op, keyform=keyform, build=build, perm=perm)


def exhaustive(tier):
    """every frame of up to 3 rows over a tiny alphabet, one key column, every pair of requests over v"""
    kvals = [-1, -2, None]
    vvals = [None, 1, 2]
    maxrows = 2 if tier == "quick" else 3

    def it():
        reqsets = [[["SUM", "v"], ["COUNT", "v"]], [["AVG", "v"], ["MIN", "v"], ["MAX", "v"], ["COUNT", "*"]]]
        for n in range(0, maxrows + 1):
            for ks in itertools.product(kvals, repeat=n):
                for vs in itertools.product(vvals, repeat=n):
                    rows = [[k, None, v, None] for k, v in zip(ks, vs)]
                    for i, rq in enumerate(reqsets):
                        yield _case(rows, ["k1"], rq, lazy=bool((n + i) % 2))

    return it(), (f"all frames of 0..{maxrows} rows with key in {{-1, -2, null}} and value in {{null, 1, 2}}, "
                  "requests [SUM(v), COUNT(v)] and [AVG(v), MIN(v), MAX(v), COUNT(*)]")


def generate(rng, tier):
    count = 700 if tier == "quick" else 14000
    for _ in range(count):
        yield _random_case(rng)


def search(rng):
    while True:
        yield _random_case(rng, malformed_share=0.0)


def shrink(case):
    rows = case["rows"]
    for i in range(len(rows)):
        nr = rows[:i] + rows[i + 1:]
        yield dict(case, rows=nr, perm=list(reversed(range(len(nr)))))
    reqs = case["reqs"]
    if len(reqs) > 1:
        for i in range(len(reqs)):
            yield dict(case, reqs=reqs[:i] + reqs[i + 1:])
    if len(case["keys"]) > 1:
        yield dict(case, keys=case["keys"][:1])
    if case.get("build") == "dicts":
        yield dict(case, build="rows")
    if case.get("keyform") != "list":
        yield dict(case, keyform="list")
    if case["lazy"]:
        yield dict(case, lazy=False)
    for i, r in enumerate(rows):
        for j in (1, 3):
            if r[j] is not None and case["names"][j] not in case["keys"] and all(c != case["names"][j] for _, c in reqs):
                nr = [list(x) for x in rows]
                nr[i][j] = None
                yield dict(case, rows=nr)
