"""C12 - GroupBy aggregates equal a reference partition-and-fold.

Case (JSON):
  {"op": "aggregate" | "groups",
   "names": [column names], "rows": [[cell, ...], ...],
   "keys": [key column names], "keyform": "list" | "tuple" | "str"   (str: a single name passed bare),
   "reqs": [[FUNC, column], ...], "lazy": bool (generator-backed frame), "build": "rows" | "dicts",
   "perm": [a permutation of range(len(rows))]}
cell = null | int | bool | str | ["f", float.hex()]

Observation: {"main": R, "other": R (same call on the frame backed the other way), "shuffled": R (rows
permuted by perm, list-backed), "single": [R per request, requested alone through aggregate],
"wrapper": [R per request through min/max/sum/avg/count, or null when there is no wrapper]}
R = {"raise": exception class, "after": rowcount afterwards}
  | {"hdr": [column names], "rows": [[ocell, ...], ...], "after": rowcount afterwards}
ocell = cell | ["q", numerator, denominator]   (a decimal.Decimal, as the exact rational it denotes)

Session case (objects with identity, used again after the frame changed):
  {"op": "session",
   "frames": [{"names": [...], "rows": [[cell, ...], ...], "lazy": bool, "build": "rows" | "dicts"}, ...],
   "steps": [{"do": "append", "f": i, "row": [cell, ...]}            df_i.append(row)
             {"do": "materialize", "f": i}                           df_i.rowcount
             {"do": "group_by", "f": i, "keys": [...], "keyform": ..}  a new GroupBy object (numbered in creation order)
             {"do": "aggregate", "g": j, "reqs": [[FUNC, col], ...], "via": "aggregate" | "wrapper"}   on the EXISTING object j
             {"do": "groups", "g": j}]}
Observation: {"steps": [one per step: {"ok": true} | {"raise": cls} | {"count": n} | {"hdr", "rows", "scribbled"}],
              "final": [rowcount of every frame at the end],
              "reread": [[step index, rows of the returned frame read again at the end], ...]}
After every call the harness overwrites the list objects it passed (key list, request list) and appends a
marker row to the returned DataFrame, so anything that kept a reference instead of a value shows up later.
"""
import itertools
from fractions import Fraction

from vlib import coqlit as L

ID = "C12"
READY = True
TECHNIQUE = ("Coq proof (code model of _map/aggregate = partition-and-fold specification, by a generic grouping lemma over "
             "insertion-ordered dictionaries; permutation invariance; single vs joint requests) + model/implementation correspondence evaluated in Coq")
LEVEL_TEXT = ("Machine-checked Coq theorems over an executable model of group_by.py written the way the code is written (emission of "
              "(key, column, value) triples, first-seen key bookkeeping, null-skipping collection into nested insertion-ordered dicts, "
              "per-group folds, result dictionaries, DataFrame(list of dicts)): for every frame, every key column list over an arbitrary "
              "cell type with decidable equality and every non-empty request list the model equals the partition-and-fold specification; "
              "one output row per distinct key in first-seen order; MIN/MAX/SUM/COUNT/AVG are the least/greatest element, the sum, the "
              "length and sum/length of the group's non-null values (null, COUNT 0, for none); a request's cells are the same whether "
              "asked alone or with others; any permutation of the rows gives a permutation of the same output rows; lazily and eagerly "
              "backed frames give the same output. The model is tied to the code by running real DataFrames (list-, generator- and "
              "dict-built) and evaluating the model on the same inputs inside Coq, cell by cell, header and row order included; an "
              "independent property oracle on the implementation supplies replayable failing inputs. Object level: a heap of frames and "
              "GroupBy objects with a step function (append a row, materialise, take a GroupBy, aggregate / groups on an EXISTING GroupBy "
              "that refers to its frame and carries _group_keys from call to call, emptied at the start of each pass); proved: at every "
              "state of the heap aggregate and groups() on any GroupBy object are the partition-and-fold / the distinct keys of the rows "
              "its frame holds at that moment, list- or generator-backed (nothing remembered from earlier calls, appended since or "
              "already consumed changes it), and the object afterwards holds the bookkeeping of that pass only; such sessions are run "
              "on live objects and compared with the model step by step. Columns: a name denotes the first column with exactly that "
              "code-point sequence (no case folding / normalisation / trimming), and the result depends on the rows only through the "
              "cells of the key columns and the requested columns (proved); frames with look-alike sibling columns are run and compared.")
LEVEL_NOTE = ("Trusted: Coq kernel + vm_compute; the hand-written model; the harness's canonicalisation of Python values (bool/int/integral "
              "float collapse to one integer so that structural equality of model cells is Python's ==; other floats by bit pattern; NaN never "
              "generated). AVG is the exact rational in the theorems; the implementation's decimal.Decimal (28 significant digits, half-even) "
              "is compared against that rational rounded by a Gallina model of the decimal division, which is validated by the run, not proved. "
              "Value columns hold integers (any size) and nulls: float SUM/AVG depend on row order through IEEE addition and Decimal sums round, "
              "so they are outside the exact-arithmetic theorems; MIN/MAX/SUM/AVG over text/float columns are not modelled (only COUNT is "
              "requested on such columns). Labels are modelled as (function, column) pairs rendered to the text FUNC(column); a frame column "
              "literally named like a label is not modelled. Ragged rows are not modelled. No axioms (Print Assumptions: closed). "
              "Sessions: mutation of a frame is append() and the consumption of its generator only (rows are immutable tuples, the schema does "
              "not change); DataFrame.append refuses integers outside [-2^63, 2^64) (serialisation), so appended rows stay inside. Judged by the "
              "Python oracle only (the model has values, not references): the key list / request list passed in are overwritten after the call, "
              "a marker row is appended to every returned frame and all returned frames are read again at the end. Column names are text = "
              "code points compared exactly in model and oracle (Python str equality); that the harness hands the implementation the same "
              "strings it encodes for Coq is trusted; str / int subclass instances are encoded as their base values.")
DESIGN_REF = "DESIGN.md section 8, C12"
COQ_IMPORTS = "From Coq Require Import QArith.\nFrom Orso Require Import Model.C12."
COQ_CHECKS = {"agg": "c12_check_agg", "groups": "c12_check_groups", "session": "c12_check_session",
              "session_b": "c12_check_session", "session_c": "c12_check_session"}   # one check, three files compiled in parallel
COQ_SHOW = {"agg": "c12_show_agg", "groups": "c12_show_groups", "session": "c12_show_session",
            "session_b": "c12_show_session", "session_c": "c12_show_session"}
RULE = ("frames of 0..15 rows with 1-2 key columns drawn from small pools of text / integers (incl. -1 and -2, equal hashes) / floats "
        "(integral ones equal to ints, -0.0, inf) / booleans / nulls so that groups collide, two integer value columns with nulls anywhere "
        "and whole groups forced to null, 1..4 (function, column) requests with repeated columns and repeated requests, COUNT(*) and "
        "unknown columns, a small malformed share (unknown key column, SUM over an unknown column, duplicated key column); each case is run "
        "list-backed and generator-backed, on a shuffle of its rows, and request by request; non-trivial = well-formed with at least one "
        "output group; distinct by canonical JSON of (rows, keys, requests, laziness). Sessions: 1-2 frames (the second possibly with "
        "its columns in another order, 22% generator-backed) and 4..10 steps drawn from: aggregate on an existing GroupBy object (45% the "
        "same request as last time on that object, 30% the same columns under other functions, through aggregate() or the wrappers), "
        "append a row (mostly to the frame of the object last used), a further GroupBy over the same or another frame, groups(), "
        "materialise; plus every session group_by / aggregate / append one row / aggregate again / groups over a small alphabet. "
        "Column names: besides k1/k2/v/w, 200 cases + 60 sessions per run whose key / value / absent column names come from 18 families "
        "of look-alike names (v/V, id/ID, sharp s / ss, Kelvin sign / k, long s, final sigma, dotless i, composed / decomposed accents, "
        "Angstrom sign, ligature, micro sign / mu, leading / trailing blanks, empty name, prefixes, braces, non-ASCII digits), names "
        "passed as str-subclass instances (25%), integer cells as int-subclass instances; plus the table of every ordered pair of each family")
TRUSTED = [
    "C12 model (coq/Model/C12.v): dicts as insertion-ordered association lists; _map's generator as its two outputs (the yielded "
    "triples and the final _group_keys); labels as (function, column) pairs with a rendering function (proved injective)",
    "canonicalisation in tools/props/C12.py: bool/int/integral float -> integer, other floats by bits, text by code points, Decimal -> exact fraction",
    "session model (coq/Model/C12.v, step/run): frames and GroupBy objects addressed by creation order; a GroupBy holds a reference to "
    "its frame, its key columns and the _group_keys of its last pass; append on a generator-backed frame raises and changes nothing",
    "modelled, validated by the correspondence, not proved: decimal.Decimal division at 28 digits half-even (dec_round in Model/C12.v); "
    "CPython dict ordering/equality, min/max/sum, tuple.index behind the model's definitions",
]
ASSUMPTIONS = [
    "cell equality is decidable and is Leibniz equality after canonicalisation (premise K_eqb a b = true <-> a = b of every theorem); NaN keys excluded",
    "request lists are non-empty (an empty list yields no groups at all: C12_empty_requests)",
    "aggregated columns hold integers or nulls (exact arithmetic); see LEVEL_NOTE",
]
KNOWN_WITNESSES = {}

FUNCS = ["MIN", "MAX", "COUNT", "AVG", "SUM"]


# ----------------------------------------------------------------------------- values
class _IntSub(int):
    """an int subclass instance (IntEnum members, numpy-free counters ... behave like this)"""


class _StrSub(str):
    """a str subclass instance used as a column name"""


def _py(cell):
    """JSON cell -> Python value."""
    if isinstance(cell, list):
        if cell[0] == "f":
            return float.fromhex(cell[1])
        if cell[0] == "I":
            return _IntSub(cell[1])
        raise ValueError(cell)
    return cell


def _nm_arg(case, n):
    """a column name as it is handed to the implementation"""
    return _StrSub(n) if case.get("strsub") else n


def _canon(v):
    """Python value -> canonical hashable form under Python's ==."""
    import decimal

    if v is None:
        return ("n",)
    if isinstance(v, bool):
        return ("i", int(v))
    if isinstance(v, int):
        return ("i", int(v))
    if isinstance(v, float):
        if v != v:
            raise ValueError("NaN is outside the harness")
        if v in (float("inf"), float("-inf")) or v != int(v):
            return ("f", L.float_bits(v))
        return ("i", int(v))
    if isinstance(v, str):
        return ("t", v)
    if isinstance(v, decimal.Decimal):
        fr = Fraction(v)
        return ("q", fr.numerator, fr.denominator)
    raise ValueError("unexpected value %r" % (v,))


def _json_cell(v):
    """Python value from the implementation -> JSON ocell (raw, not yet collapsed)."""
    import decimal

    if v is None or isinstance(v, bool):
        return v
    if isinstance(v, int):
        return int(v)
    if isinstance(v, str):
        return str(v)
    if isinstance(v, float):
        return ["f", v.hex()]
    if isinstance(v, decimal.Decimal):
        fr = Fraction(v)
        return ["q", fr.numerator, fr.denominator]
    raise ValueError("unexpected value %r of %s" % (v, type(v).__name__))


def _canon_json(c):
    if isinstance(c, list) and c[0] == "q":
        return ("q", c[1], c[2])
    return _canon(_py(c))


def label(func, col):
    return f"{func}({col})"


# ----------------------------------------------------------------------------- implementation runner
def _frame(case, rows, lazy):
    from orso.dataframe import DataFrame

    names = list(case["names"])
    tuples = [tuple(_py(c) for c in r) for r in rows]
    if case.get("build") == "dicts" and not lazy:
        df = DataFrame([dict(zip(names, t)) for t in tuples])
        if not tuples:
            df = DataFrame(rows=[], schema=names)
        return df
    if lazy:
        return DataFrame(rows=(t for t in tuples), schema=names)
    return DataFrame(rows=list(tuples), schema=names)


def _keys_arg(case):
    ks = [_nm_arg(case, k) for k in case["keys"]]
    form = case.get("keyform", "list")
    if form == "str" and len(ks) == 1:
        return ks[0]
    if form == "tuple":
        return tuple(ks)
    return ks


def _result(df, call):
    try:
        out = call(df.group_by(_keys_arg_cur[0]))
        hdr = [str(c) for c in out.column_names]
        rows = [[_json_cell(x) for x in r] for r in out]
        res = {"hdr": hdr, "rows": rows}
    except Exception as e:  # the call raised
        res = {"raise": type(e).__name__}
    try:
        res["after"] = int(df.rowcount)
    except Exception as e:
        res["after"] = "raise " + type(e).__name__
    return res


_keys_arg_cur = [None]


def _wrapper(func, col):
    if func == "MIN":
        return lambda g: g.min(col)
    if func == "MAX":
        return lambda g: g.max([col])
    if func == "SUM":
        return lambda g: g.sum((col,))
    if func == "AVG":
        return lambda g: g.avg(col)
    if func == "COUNT" and col == "*":
        return lambda g: g.count()
    return None


def _read(out):
    return [[_json_cell(x) for x in r] for r in out]


def _observe_session(case):
    """Run the steps on live objects; the objects persist across steps (that is the point)."""
    frames = []
    for f in case["frames"]:
        frames.append(_frame({"names": f["names"], "build": f.get("build", "rows")}, f["rows"], bool(f["lazy"])))
    gbs = []
    outs = []
    obs = []
    for i, st in enumerate(case["steps"]):
        do = st["do"]
        try:
            if do == "append":
                frames[st["f"]].append(tuple(_py(c) for c in st["row"]))
                obs.append({"ok": True})
            elif do == "materialize":
                obs.append({"count": int(frames[st["f"]].rowcount)})
            elif do == "group_by":
                arg = _keys_arg(st)
                gbs.append(frames[st["f"]].group_by(arg))
                if isinstance(arg, list):
                    arg[:] = ["#junk"]  # the caller's list is the caller's: overwrite it
                obs.append({"ok": True})
            else:
                gb = gbs[st["g"]]
                if do == "groups":
                    out = gb.groups()
                else:
                    reqs = [tuple(r) for r in st["reqs"]]
                    funcs = {f for f, _ in reqs}
                    if st.get("via") == "wrapper" and reqs == [("COUNT", "*")]:
                        out = gb.count()
                    elif st.get("via") == "wrapper" and len(funcs) == 1 and funcs <= {"MIN", "MAX", "SUM", "AVG"}:
                        cols = [c for _, c in reqs]
                        out = getattr(gb, reqs[0][0].lower())(cols[0] if len(cols) == 1 else cols)
                        if len(cols) > 1:
                            cols[:] = ["#junk"]
                    else:
                        lst = list(reqs)
                        out = gb.aggregate(lst)
                        lst[:] = [("SUM", "#junk")]
                res = {"hdr": [str(c) for c in out.column_names], "rows": _read(out), "scribbled": False}
                if res["hdr"]:
                    try:
                        out.append(tuple(SCRIBBLE for _ in res["hdr"]))  # the returned frame is the caller's too
                        res["scribbled"] = True
                    except Exception:
                        pass
                outs.append((i, out))
                obs.append(res)
        except Exception as e:
            obs.append({"raise": type(e).__name__})
    reread = []
    for i, out in outs:
        try:
            reread.append([i, _read(out)])
        except Exception as e:
            reread.append([i, "raise " + type(e).__name__])
    final = []
    for df in frames:
        try:
            final.append(int(df.rowcount))
        except Exception:
            final.append(-1)
    return {"steps": obs, "final": final, "reread": reread}


def observe(case):
    if case["op"] == "session":
        return _observe_session(case)
    _keys_arg_cur[0] = _keys_arg(case)
    rows = case["rows"]
    lazy = bool(case["lazy"])
    reqs = [(f, _nm_arg(case, c)) for f, c in case["reqs"]]
    if case["op"] == "groups":
        call = lambda g: g.groups()
    else:
        call = lambda g: g.aggregate(list(reqs))
    obs = {}

    def run(rws, lz, c):
        try:
            df = _frame(case, rws, lz)
        except Exception as e:
            return {"raise": "construct:" + type(e).__name__, "after": -1}
        return _result(df, c)

    obs["main"] = run(rows, lazy, call)
    obs["other"] = run(rows, not lazy, call)
    perm = case.get("perm") or list(range(len(rows)))
    obs["shuffled"] = run([rows[i] for i in perm], False, call)
    obs["single"] = []
    obs["wrapper"] = []
    if case["op"] == "aggregate":
        for f, c in reqs:
            obs["single"].append(run(rows, False, lambda g, f=f, c=c: g.aggregate([(f, c)])))
            w = _wrapper(f, c)
            obs["wrapper"].append(None if w is None else run(rows, lazy, w))
    return obs


# ----------------------------------------------------------------------------- the property, literally
def _round_sig(fr, prec=28):
    """fr rounded half-even to prec significant decimal digits (exact Fraction arithmetic)."""
    fr = Fraction(fr)
    if fr == 0:
        return fr
    sign = 1 if fr > 0 else -1
    a = abs(fr)
    e = len(str(a.numerator)) - len(str(a.denominator)) - prec
    ten = Fraction(10)
    while a / ten ** e >= 10 ** prec:
        e += 1
    while a / ten ** e < 10 ** (prec - 1):
        e -= 1
    scaled = a / ten ** e
    c = scaled.numerator // scaled.denominator
    rem = scaled - c
    if rem > Fraction(1, 2) or (rem == Fraction(1, 2) and c % 2 == 1):
        c += 1
    return sign * c * ten ** e


def _reference(func, col, group, names):
    """Reference aggregate over the rows of one group.  Returns ('v', canonical cell) or ('undefined',)."""
    if col not in names:
        if func == "COUNT":
            return ("v", ("i", len(group)))
        return ("undefined",)
    j = names.index(col)
    vals = [_py(r[j]) for r in group if _py(r[j]) is not None]
    if func == "COUNT":
        return ("v", ("i", len(vals)))
    if not all(isinstance(x, int) for x in vals):
        return ("undefined",)
    if not vals:
        return ("v", ("n",))
    ints = [int(x) for x in vals]
    if func == "MIN":
        return ("v", ("i", min(ints)))
    if func == "MAX":
        return ("v", ("i", max(ints)))
    if func == "SUM":
        return ("v", ("i", sum(ints)))
    if func == "AVG":
        fr = _round_sig(Fraction(sum(ints), len(ints)))
        return ("v", ("q", fr.numerator, fr.denominator))
    return ("undefined",)


def _cell_equal(ref, got):
    """reference canonical cell vs observed canonical cell (integers and rationals by value)."""
    def val(c):
        if c[0] == "i":
            return Fraction(c[1])
        if c[0] == "q":
            return Fraction(c[1], c[2])
        return None
    if val(ref) is not None and val(got) is not None:
        return val(ref) == val(got)
    return ref == got


def _wellformed(case):
    return all(k in case["names"] for k in case["keys"]) and len(case["keys"]) >= 1


def _may_raise(case):
    """requests whose value the property does not define and on which the code raises TypeError"""
    names = case["names"]
    for f, c in case["reqs"]:
        if f != "COUNT" and _reference(f, c, case["rows"], names)[0] == "undefined":
            return True
    return False


def _table(case, res):
    """R -> {canonical key tuple: {column name: canonical cell}} plus problems."""
    keys = case["keys"]
    out = {}
    for row in res["rows"]:
        d = dict(zip(res["hdr"], row))
        for k in keys:
            if k not in d:
                return None, f"key column {k!r} missing from the output columns {res['hdr']}"
        kt = tuple(_canon_json(d[k]) for k in keys)
        if kt in out:
            return None, f"two output rows for the key {kt}"
        out[kt] = {c: _canon_json(v) for c, v in d.items()}
    return out, None


def _group_rows(names, rows, keys):
    kidx = [names.index(k) for k in keys]
    groups = {}
    for r in rows:
        groups.setdefault(tuple(_canon(_py(r[i])) for i in kidx), []).append(r)
    return groups


def _may_raise_on(names, rows, reqs):
    for f, c in reqs:
        if f != "COUNT" and _reference(f, c, rows, names)[0] == "undefined":
            return True
    return False


def _check_agg(names, rows, keys, res, tag, rs, undefined_ok):
    """One aggregate result against the reference partition-and-fold of `rows` (the property, literally).
    None = holds, "skip" = TypeError where the property defines no value, else what is required."""
    case = {"keys": keys}
    groups = _group_rows(names, rows, keys)
    if "raise" in res:
        if undefined_ok and res["raise"] == "TypeError":
            return "skip"
        return f"{tag}: aggregate raised {res['raise']}; it must return one row per distinct key"
    if rows:
        want_hdr = list(dict.fromkeys([label(f, c) for f, c in rs] + list(keys)))
        if res["hdr"] != want_hdr:
            return f"{tag}: output columns must be the labels FUNC(column) next to the key columns {want_hdr}, got {res['hdr']}"
    tab, why = _table(case, res)
    if why:
        return f"{tag}: {why}"
    if len(res["rows"]) != len(groups) or set(tab) != set(groups):
        return (f"{tag}: one output row per distinct key required: distinct keys {sorted(map(str, groups))}, "
                f"output keys {sorted(map(str, tab))} ({len(res['rows'])} rows)")
    for kt, grp in groups.items():
        for f, c in rs:
            ref = _reference(f, c, grp, names)
            if ref[0] == "undefined":
                continue
            got = tab[kt].get(label(f, c))
            if got is None or not _cell_equal(ref[1], got):
                return f"{tag}: {label(f, c)} of group {kt} must be {ref[1]}, got {got}"
    return None


def _check_groups(names, rows, keys, res, tag):
    groups = _group_rows(names, rows, keys)
    if "raise" in res:
        return f"groups() ({tag}) raised {res['raise']}; it must return one row per distinct key"
    tab, why = _table({"keys": keys}, res)
    if why:
        return f"groups() ({tag}): {why}"
    if set(tab) != set(groups):
        return f"groups() ({tag}) must return exactly the distinct keys {sorted(map(str, groups))}, got {sorted(map(str, tab))}"
    if len(res["rows"]) != len(groups):
        return f"groups() ({tag}) must return one row per distinct key"
    return None


def oracle(case, obs):
    if case["op"] == "session":
        return _walk(case, obs)[0]
    if not _wellformed(case):
        return None  # unknown key column: the property does not say what happens
    names = case["names"]
    rows = case["rows"]
    keys = case["keys"]
    main = obs["main"]
    groups = _group_rows(names, rows, keys)

    if case["op"] == "groups":
        for tag in ("main", "other", "shuffled"):
            w = _check_groups(names, rows, keys, obs[tag], tag)
            if w:
                return w
        if obs["other"]["rows"] != main["rows"] or obs["other"]["hdr"] != main["hdr"]:
            return "lazily backed and materialised frames must give the same groups"
        return None

    reqs = [tuple(r) for r in case["reqs"]]
    undefined_ok = _may_raise(case)

    def check(res, tag, rs):
        return _check_agg(names, rows, keys, res, tag, rs, undefined_ok)

    w = check(main, "aggregate", reqs)
    if w == "skip":
        return None
    if w:
        return w
    # lazily backed vs materialised
    oth = obs["other"]
    if ("raise" in oth) or oth["hdr"] != main["hdr"] or _rows_canon(oth) != _rows_canon(main):
        return f"lazily backed and materialised frames must give the same result: {main} vs {oth}"
    # row permutation
    sh = obs["shuffled"]
    w = check(sh, "aggregate on permuted rows", reqs)
    if w:
        return w
    if sorted(map(repr, _rows_canon(sh))) != sorted(map(repr, _rows_canon(main))) or (rows and sh["hdr"] != main["hdr"]):
        return f"permuting the input rows must give the same output rows up to order: {main['rows']} vs {sh['rows']}"
    # one at a time
    mtab, _ = _table(case, main)
    for (f, c), res, wr in zip(reqs, obs["single"], obs["wrapper"]):
        w = check(res, f"aggregate([{label(f, c)}]) alone", [(f, c)])
        if w == "skip":
            continue
        if w:
            return w
        stab, _ = _table(case, res)
        for kt in groups:
            if stab[kt].get(label(f, c)) != mtab[kt].get(label(f, c)):
                return (f"{label(f, c)} of group {kt} requested alone is {stab[kt].get(label(f, c))} but "
                        f"{mtab[kt].get(label(f, c))} when requested with the others")
        if wr is not None:
            if "raise" in wr or wr["hdr"] != res["hdr"] or _rows_canon(wr) != _rows_canon(res):
                return f"the convenience wrapper for {label(f, c)} must equal aggregate([...]): {wr} vs {res}"
    return None


# ----------------------------------------------------------------------------- sessions: the property on objects that are used again
SCRIBBLE = "#scribble"


def _walk(case, obs):
    """The property read on a session: every aggregate / groups answer of a GroupBy object must be the reference
    partition-and-fold of the rows its frame holds WHEN THE CALL IS MADE, whatever the object or the frame went
    through before.  The walker keeps, independently of the Coq model, what each frame holds: rows are added by
    append, a generator-backed frame gives its rows to the first scan and holds none afterwards.
    Returns (violation or None, set of labels)."""
    labels = set()
    frames = [{"names": list(f["names"]), "rows": [list(r) for r in f["rows"]], "lazy": bool(f["lazy"]), "unknown": False}
              for f in case["frames"]]
    gbs = []
    returned = {}
    for i, (st, ob) in enumerate(zip(case["steps"], obs["steps"])):
        do = st["do"]
        if do == "append":
            fr = frames[st["f"]]
            if fr["lazy"]:
                labels.add("session:append-to-generator-backed")
                if "raise" not in ob:
                    fr["unknown"] = True
                continue  # nothing is required of append on a generator-backed frame
            if "raise" in ob:
                return f"step {i}: append to a materialised frame raised {ob['raise']}", labels
            fr["rows"].append(list(st["row"]))
        elif do == "materialize":
            fr = frames[st["f"]]
            fr["lazy"] = False
            if not fr["unknown"] and ob.get("count") != len(fr["rows"]):
                return f"step {i}: the frame holds {len(fr['rows'])} rows, rowcount says {ob.get('count', ob)}", labels
        elif do == "group_by":
            if "raise" in ob:
                return f"step {i}: group_by raised {ob['raise']}", labels
            gbs.append({"f": st["f"], "keys": list(st["keys"]), "seen": set(), "used": 0, "frame_len_at_use": None})
        else:
            gb = gbs[st["g"]]
            fr = frames[gb["f"]]
            names, keys, rows = fr["names"], gb["keys"], fr["rows"]
            well = len(keys) >= 1 and all(k in names for k in keys)
            if gb["used"]:
                labels.add("session:groupby-object-reused")
                if gb["frame_len_at_use"] != len(rows) and not fr["lazy"]:
                    labels.add("session:reused-after-append")
            if fr["unknown"]:
                continue
            if not well:
                if fr["lazy"]:
                    fr["unknown"] = True
                continue  # unknown key column: the property does not say what happens
            cur = set(_group_rows(names, rows, keys))
            if do == "groups":
                if not gb["seen"] <= cur:
                    labels.add("session:groups-after-keys-left-the-frame(F-C12-5 class)")
                w = _check_groups(names, rows, keys, ob, f"step {i}, GroupBy #{st['g']}")
                if w:
                    return w + f" - the frame holds {rows} at this point", labels
            else:
                reqs = [tuple(r) for r in st["reqs"]]
                undefined_ok = _may_raise_on(names, rows, reqs)
                w = _check_agg(names, rows, keys, ob, f"step {i}, GroupBy #{st['g']}", reqs, undefined_ok)
                if w == "skip":
                    if fr["lazy"]:
                        fr["unknown"] = True
                    gb["used"] += 1
                    continue
                if w:
                    return w + f" - the frame holds {rows} at this point", labels
            if "hdr" in ob:
                returned[i] = ob
            gb["seen"] |= cur
            gb["used"] += 1
            if fr["lazy"]:
                labels.add("session:generator-backed-scan")
                fr["rows"] = []  # the generator has given its rows
            gb["frame_len_at_use"] = len(fr["rows"])
    # the frames handed back are values: nothing done later may have changed them
    for i, rows_again in obs.get("reread", []):
        ob = returned.get(i)
        if ob is None:
            continue
        want = ob["rows"] + ([[SCRIBBLE] * len(ob["hdr"])] if ob.get("scribbled") else [])
        if rows_again != want:
            return (f"step {i}: the frame returned then reads differently at the end of the session: {rows_again} "
                    f"instead of {want}"), labels
    for fr, n in zip(frames, obs.get("final", [])):
        if not fr["unknown"] and n != len(fr["rows"]):
            return f"at the end a frame holds {len(fr['rows'])} rows but rowcount says {n}", labels
    return None, labels


def _rows_canon(res):
    return [[_canon_json(c) for c in r] for r in res["rows"]]


# ----------------------------------------------------------------------------- Coq literals
def _coq_val(c, star=False):
    t = _canon_json(c)
    if t[0] == "n":
        return "vn"
    if t[0] == "i":
        return "(vi %s)" % L.Z(t[1])
    if t[0] == "f":
        return "(vf %s)" % L.N(t[1])
    if t[0] == "t":
        if star and t[1] == "*":
            return "vstar"
        return "(vt %s)" % L.text(t[1])
    raise ValueError(t)


def _coq_ocell(c, star):
    t = _canon_json(c)
    if t[0] == "q":
        return "(cq %s %d%%positive)" % (L.Z(t[1]), t[2])
    return "(cv %s)" % _coq_val(c, star)


_EXN = {"ValueError": "OValueError", "TypeError": "OTypeError"}


def _coq_obs(case, res):
    after = res["after"] if isinstance(res["after"], int) else -1
    if "raise" in res:
        return "(ObsRaise %s %s)" % (_EXN.get(res["raise"], "OOther"), L.Z(after))
    keyset = set(case["keys"])
    rows = []
    for r in res["rows"]:
        rows.append(L.lst(_coq_ocell(c, star=(h not in keyset)) for h, c in zip(res["hdr"], r)))
    return "(ObsFrame %s %s %s)" % (L.lst(L.text(h) for h in res["hdr"]), L.lst(rows), L.Z(after))


def _modelled(case):
    """Does the Coq model cover this case?  (non-COUNT requests only over integer/null columns or unknown columns)"""
    names = case["names"]
    for f, c in case.get("reqs", []):
        if f not in FUNCS:
            return False
        if f != "COUNT" and c in names:
            j = names.index(c)
            for r in case["rows"]:
                v = _py(r[j])
                if v is not None and not isinstance(v, int):
                    return False
    for r in case["rows"]:
        if len(r) != len(names):
            return False
    return True


def _session_modelled(case):
    for fi, f in enumerate(case["frames"]):
        allrows = list(f["rows"]) + [st["row"] for st in case["steps"] if st["do"] == "append" and st["f"] == fi]
        reqs = []
        g = 0
        owner = []
        for st in case["steps"]:
            if st["do"] == "group_by":
                owner.append(st["f"])
            elif st["do"] == "aggregate" and owner[st["g"]] == fi:
                reqs += st["reqs"]
        if not _modelled({"names": f["names"], "rows": allrows, "reqs": reqs}):
            return False
    return True


_NAME_CONST = {"k1": "n_k1", "k2": "n_k2", "v": "n_v", "w": "n_w", "*": "n_star", "zz": "n_zz", "nope": "n_nope"}


def _check_name_constants():
    import os
    import re
    src = open(os.path.join(os.path.dirname(os.path.abspath(__file__)), "..", "..", "coq", "Model", "C12.v")).read()
    for text, const in _NAME_CONST.items():
        body = "[" + "; ".join(str(ord(ch)) for ch in text) + "]%N"
        if not re.search(r"Definition %s : name := %s\." % (re.escape(const), re.escape(body)), src):
            raise RuntimeError("Model/C12.v: constant %s is not the literal of %r" % (const, text))


_check_name_constants()


def _nm(n):
    return _NAME_CONST.get(n) or L.text(n)


_SOBS_EXN = {"AttributeError": "SAttrError"}


_session_count = [0]


def _session_to_coq(case, obs):
    if not _session_modelled(case):
        return None
    frs = L.lst("(%s, %s, %s)" % (L.boolean(bool(f["lazy"])), L.lst(_nm(n) for n in f["names"]),
                                  L.lst(L.lst(_coq_val(c) for c in r) for r in f["rows"])) for f in case["frames"])
    ops, sobs = [], []
    gkeys = []
    for st, ob in zip(case["steps"], obs["steps"]):
        do = st["do"]
        if do == "append":
            ops.append("(oapp %s %s)" % (L.nat(st["f"]), L.lst(_coq_val(c) for c in st["row"])))
            sobs.append("SUnit" if "ok" in ob else _SOBS_EXN.get(ob.get("raise"), "SOtherError"))
        elif do == "materialize":
            ops.append("(omat %s)" % L.nat(st["f"]))
            sobs.append("(SCount %s)" % L.Z(ob["count"]) if "count" in ob else "SOtherError")
        elif do == "group_by":
            ops.append("(ogb %s %s)" % (L.nat(st["f"]), L.lst(_nm(k) for k in st["keys"])))
            gkeys.append(list(st["keys"]))
            sobs.append("SUnit" if "ok" in ob else "SOtherError")
        else:
            if do == "groups":
                ops.append("(ogrp %s)" % L.nat(st["g"]))
            else:
                ops.append("(oagg %s %s)" % (L.nat(st["g"]), L.lst("(%s, %s)" % (f, _nm(c)) for f, c in st["reqs"])))
            if "raise" in ob:
                sobs.append("(SRaise %s)" % _EXN.get(ob["raise"], "OOther"))
            else:
                keyset = set(gkeys[st["g"]])
                rows = [L.lst(_coq_ocell(c, star=(h not in keyset)) for h, c in zip(ob["hdr"], r)) for r in ob["rows"]]
                sobs.append("(SFrame %s %s)" % (L.lst(_nm(h) for h in ob["hdr"]), L.lst(rows)))
    final = L.lst(L.Z(n) for n in obs["final"])
    _session_count[0] += 1
    return (("session", "session_b", "session_c")[_session_count[0] % 3], "((%s, %s, %s, %s) : session_case)" % (frs, L.lst(ops), L.lst(sobs), final))


def to_coq(case, obs):
    if case["op"] == "session":
        return _session_to_coq(case, obs)
    if not _modelled(case):
        return None
    names = L.lst(L.text(n) for n in case["names"])
    rows = L.lst(L.lst(_coq_val(c) for c in r) for r in case["rows"])
    keys = L.lst(L.text(k) for k in case["keys"])
    o = _coq_obs(case, obs["main"])
    if case["op"] == "groups":
        return ("groups", "((%s, %s, %s, %s, %s) : grp_case)" % (L.boolean(case["lazy"]), names, rows, keys, o))
    reqs = L.lst("(%s, %s)" % (f, L.text(c)) for f, c in case["reqs"])
    return ("agg", "((%s, %s, %s, %s, %s, %s) : agg_case)" % (L.boolean(case["lazy"]), names, rows, keys, reqs, o))


# ----------------------------------------------------------------------------- bookkeeping
def known(case, obs):
    return None


def nontrivial_key(case, obs):
    if case["op"] == "session":
        if not any(ob.get("rows") for ob in obs["steps"]):
            return None
        return repr(("session", case["frames"], case["steps"]))
    if not _wellformed(case) or "raise" in obs["main"] or not obs["main"]["rows"]:
        return None
    return repr((case["op"], case["rows"], case["keys"], case["reqs"], case["lazy"]))


def _fold(n):
    import unicodedata

    return unicodedata.normalize("NFKC", unicodedata.normalize("NFKC", n).casefold()).strip()


def _name_labels(names, asked):
    if len({_fold(n) for n in names}) < len(set(names)):
        yield "names:look-alike-sibling-columns"
    have = set(names)
    folded = {_fold(n) for n in names}
    if any(a not in have and a != "*" and _fold(a) in folded for a in asked):
        yield "names:absent-look-alike-requested"
    if any(ord(ch) > 127 for n in list(names) + list(asked) for ch in n):
        yield "names:non-ascii"


def classify(case, obs):
    yield case["op"]
    if case["op"] == "session":
        asked = [c for st in case["steps"] for _, c in st.get("reqs", [])] + [k for st in case["steps"] for k in st.get("keys", [])]
        seen = set()
        for f in case["frames"]:
            for lab in _name_labels(f["names"], asked):
                if lab not in seen:
                    seen.add(lab)
                    yield "session:" + lab
    else:
        yield from _name_labels(case["names"], [c for _, c in case.get("reqs", [])] + list(case["keys"]))
        if case.get("strsub"):
            yield "names:str-subclass-instances"
        if any(isinstance(c, list) and c[0] == "I" for r in case["rows"] for c in r):
            yield "values:int-subclass-instances"
    if case["op"] == "session":
        yield "session:steps=%s" % (len(case["steps"]) if len(case["steps"]) < 8 else "8+")
        yield "session:frames=%d" % len(case["frames"])
        if any(f["lazy"] for f in case["frames"]):
            yield "session:generator-backed-frame"
        if sum(1 for st in case["steps"] if st["do"] == "group_by") > 1:
            yield "session:several-groupby-objects"
        last = {}
        for st in case["steps"]:
            if st["do"] == "aggregate":
                cols = tuple(dict.fromkeys(c for _, c in st["reqs"]))
                if last.get(st["g"]) == cols:
                    yield "session:same-columns-again-on-same-object"
                    break
                last[st["g"]] = cols
        for lab in sorted(_walk(case, obs)[1]):
            yield lab
        return
    yield "lazy" if case["lazy"] else "eager"
    n = len(case["rows"])
    yield "rows=0" if n == 0 else "rows=1" if n == 1 else "rows=2-5" if n <= 5 else "rows=6-15" if n <= 15 else "rows>15"
    yield "keys=%d" % len(case["keys"])
    if not _wellformed(case):
        yield "unknown-key-column"
        return
    names = case["names"]
    kidx = [names.index(k) for k in case["keys"]]
    raw = {tuple(repr(_py(r[i])) for i in kidx) for r in case["rows"]}
    can = {tuple(_canon(_py(r[i])) for i in kidx) for r in case["rows"]}
    if len(can) < len(raw):
        yield "keys-equal-across-types(1==1.0==True)"
    flat = [_py(r[i]) for r in case["rows"] for i in kidx]
    ints = {x for x in flat if isinstance(x, int) and not isinstance(x, bool)}
    if -1 in ints and -2 in ints:
        yield "hash-colliding-keys(-1,-2)"
    if any(x is None for x in flat):
        yield "null-key"
    if any(isinstance(x, float) for x in flat):
        yield "float-key"
    if any(isinstance(x, bool) for x in flat):
        yield "bool-key"
    if any(isinstance(x, str) for x in flat):
        yield "text-key"
    yield "groups=%s" % (len(can) if len(can) < 4 else "4+")
    if case["op"] != "aggregate":
        return
    cols = [c for _, c in case["reqs"]]
    yield "requests=%d" % len(cols)
    if len(set(cols)) < len(cols):
        yield "repeated-column"
    if len({tuple(r) for r in case["reqs"]}) < len(case["reqs"]):
        yield "repeated-request"
    for f, c in case["reqs"]:
        yield "func:" + f
        if c == "*":
            yield "column:*"
        elif c not in names:
            yield "column:unknown"
    # all-null group for some requested column
    groups = {}
    for r in case["rows"]:
        groups.setdefault(tuple(_canon(_py(r[i])) for i in kidx), []).append(r)
    for c in set(cols):
        if c in names:
            j = names.index(c)
            if any(all(r[j] is None for r in g) for g in groups.values()):
                yield "all-null-group"
                break
    if "raise" in obs["main"]:
        yield "raised:" + obs["main"]["raise"]
    for f, c in case["reqs"]:
        if f == "AVG" and c in names:
            j = names.index(c)
            for g in groups.values():
                vals = [_py(r[j]) for r in g if r[j] is not None]
                if vals and all(isinstance(x, int) for x in vals):
                    fr = Fraction(sum(vals), len(vals))
                    if _round_sig(fr) != fr:
                        yield "avg-rounded-to-28-digits"
                        return


# ----------------------------------------------------------------------------- generators
NAMES = ["k1", "k2", "v", "w"]


def _case(rows, keys, reqs, lazy=False, op="aggregate", keyform="list", build="rows", perm=None, names=None):
    return {"op": op, "names": list(names or NAMES), "rows": rows, "keys": list(keys), "keyform": keyform,
            "reqs": [list(r) for r in reqs], "lazy": lazy, "build": build,
            "perm": perm if perm is not None else list(reversed(range(len(rows))))}


def corpus():
    # F-C12-1: keys -1 and -2 have equal hashes and were merged (SUM = 3 under key -1)
    yield _case([[-1, None, 1, None], [-2, None, 2, None]], ["k1"], [["SUM", "v"]])
    yield _case([[-1, -2, 1, None], [-2, -1, 2, None], [-1, -1, 4, 1], [-2, -2, 8, 2]], ["k1", "k2"], [["SUM", "v"], ["COUNT", "*"]])
    # F-C12-2: [SUM(v), COUNT(v)] double-counted column v (8, 4 for the values 1, 3)
    yield _case([["a", None, 1, None], ["a", None, 3, None]], ["k1"], [["SUM", "v"], ["COUNT", "v"]])
    yield _case([["a", None, 1, 2], ["a", None, 3, 5], ["b", None, 7, None]], ["k1"],
                [["AVG", "v"], ["MIN", "v"], ["MAX", "w"], ["SUM", "v"]])
    # F-C12-3: all-null groups vanished; MAX of a group without non-null values raised
    yield _case([["a", None, None, None], ["b", None, 1, None]], ["k1"], [["MAX", "v"]])
    yield _case([["a", None, None, None], ["a", None, None, 2]], ["k1"], [["MIN", "v"], ["AVG", "v"], ["SUM", "v"], ["COUNT", "v"]])
    yield _case([["a", None, None, None]], ["k1"], [["COUNT", "v"]], lazy=True)
    # F-C12-4: an empty frame raised StopIteration
    yield _case([], ["k1"], [["SUM", "v"]])
    yield _case([], ["k1", "k2"], [["COUNT", "*"]], lazy=True)
    yield _case([], ["k1"], [], op="groups")
    # equal keys of different Python types, -0.0, big integers, AVG that needs rounding
    yield _case([[1, None, 1, None], [True, None, 2, None], [["f", (1.0).hex()], None, 4, None], [["f", (-0.0).hex()], None, 1, 1], [0, None, 2, 1], [False, None, None, 1]],
                ["k1"], [["SUM", "v"], ["AVG", "w"], ["COUNT", "*"]])
    yield _case([["a", None, 1, 2 ** 70], ["a", None, 1, 1], ["a", None, 0, 0], ["b", None, -1, 10 ** 30], ["b", None, -1, 10 ** 30 + 1], ["b", None, 0, 1]],
                ["k1"], [["AVG", "v"], ["AVG", "w"], ["SUM", "w"], ["MIN", "w"]])
    yield _case([["a", "x", 1, 2], ["a", "y", 1, 2], ["a", "x", 5, None]], ["k1", "k2"], [["COUNT", "zz"], ["MIN", "zz"], ["COUNT", "k2"]])
    yield _case([["a", "x", 1, 2], ["b", "y", 1, 2]], ["k1"], [["SUM", "zz"]])
    yield _case([["a", "x", 1, 2], ["b", "y", 1, 2]], ["nope"], [["SUM", "v"]], lazy=True)
    yield _case([["a", "x", 1, 2], ["b", "y", 1, 2], ["a", "x", 1, 2]], ["k1", "k1"], [["COUNT", "*"], ["COUNT", "*"]])
    yield _case([["a", "x", 1, 2], ["b", "y", 1, 2], ["a", "z", 1, 2]], ["k1", "k2"], [], op="groups", lazy=True)
    yield from session_corpus()


def _session(frames, steps):
    frs = []
    for f in frames:
        f = dict(f)
        f.setdefault("names", list(NAMES))
        f.setdefault("lazy", False)
        f.setdefault("build", "rows")
        frs.append(f)
    return {"op": "session", "frames": frs, "steps": steps}


def _gb(f, keys, keyform="list"):
    return {"do": "group_by", "f": f, "keys": list(keys), "keyform": keyform}


def _agg(g, reqs, via="aggregate"):
    return {"do": "aggregate", "g": g, "reqs": [list(r) for r in reqs], "via": via}


def _app(f, row):
    return {"do": "append", "f": f, "row": list(row)}


def _grp(g):
    return {"do": "groups", "g": g}


def _mat(f):
    return {"do": "materialize", "f": f}


def session_corpus():
    base = [["a", None, 1, 10], ["b", None, 2, None], ["a", None, None, 30], ["b", None, 4, 40]]
    later = [["a", None, 100, 1], ["c", None, 7, None], ["b", None, None, 5]]
    # one GroupBy object, the same request before and after rows were appended (a new group among them)
    for reqs in ([["SUM", "v"]], [["COUNT", "*"]], [["MIN", "v"], ["MAX", "w"], ["COUNT", "w"]], [["AVG", "v"], ["SUM", "v"]]):
        yield _session([{"rows": base}], [_gb(0, ["k1"]), _agg(0, reqs)] + [_app(0, r) for r in later] + [_agg(0, reqs), _grp(0)])
    # min() then max() of the same column through the wrappers, count() twice
    yield _session([{"rows": base}], [_gb(0, ["k1"], "str"), _agg(0, [["MIN", "v"]], "wrapper"), _app(0, later[0]),
                                       _agg(0, [["MAX", "v"]], "wrapper"), _app(0, later[1]), _agg(0, [["MIN", "v"]], "wrapper")])
    yield _session([{"rows": base[:1]}], [_gb(0, ["k1"]), _agg(0, [["COUNT", "*"]], "wrapper"), _app(0, base[1]),
                                           _agg(0, [["COUNT", "*"]], "wrapper"), _app(0, base[2]), _agg(0, [["COUNT", "*"]], "wrapper")])
    # an empty frame that fills up under a GroupBy taken while it was empty
    yield _session([{"rows": []}], [_gb(0, ["k1"]), _agg(0, [["SUM", "v"]]), _grp(0), _app(0, base[0]), _agg(0, [["SUM", "v"]]),
                                     _app(0, base[2]), _agg(0, [["SUM", "v"], ["COUNT", "v"]]), _grp(0)])
    # two GroupBy objects over one frame (same and different key columns), interleaved
    yield _session([{"rows": [[-1, "x", 1, None], [-2, "y", 2, 5]]}],
                   [_gb(0, ["k1"]), _gb(0, ["k2", "k1"], "tuple"), _gb(0, ["k1"]), _agg(0, [["SUM", "v"]]), _agg(1, [["SUM", "v"]]),
                    _app(0, [-1, "y", 4, 6]), _agg(2, [["SUM", "v"]]), _agg(1, [["SUM", "v"]]), _agg(0, [["SUM", "v"]]), _grp(1), _grp(2)])
    # two frames with the same columns (the second in another column order), the same requests on both
    yield _session([{"rows": base[:2]}, {"names": ["v", "k1", "w", "k2"], "rows": [[5, "a", None, None], [6, "z", 1, None]]}],
                   [_gb(0, ["k1"]), _gb(1, ["k1"]), _agg(0, [["SUM", "v"], ["COUNT", "*"]]), _agg(1, [["SUM", "v"], ["COUNT", "*"]]),
                    _app(1, [7, "a", 2, None]), _app(0, ["z", None, 8, None]), _agg(1, [["SUM", "v"], ["COUNT", "*"]]),
                    _agg(0, [["SUM", "v"], ["COUNT", "*"]])])
    # a generator-backed frame: the first scan takes the rows; then it is materialised (empty), appended to, aggregated again
    yield _session([{"rows": base, "lazy": True}], [_gb(0, ["k1"]), _agg(0, [["SUM", "v"]]), _agg(0, [["SUM", "v"]]), _app(0, later[0]),
                                                    _mat(0), _app(0, later[1]), _agg(0, [["SUM", "v"]]), _agg(0, [["COUNT", "*"]], "wrapper")])
    yield _session([{"rows": base, "lazy": True}], [_gb(0, ["k1"]), _gb(0, ["k1"]), _mat(0), _agg(0, [["MAX", "w"]]), _app(0, later[2]),
                                                    _agg(1, [["MAX", "w"]]), _agg(0, [["MAX", "w"]])])
    # F-C12-5 (fixed, 5771d3f): groups() of a GroupBy object that had scanned a generator-backed frame listed the
    # keys of the rows the generator had given up (a, b) next to the key of the row the frame holds (c)
    yield _session([{"rows": [["a", None, 1, None], ["b", None, 2, None]], "lazy": True}],
                   [_gb(0, ["k1"]), _agg(0, [["COUNT", "*"]]), _mat(0), _app(0, ["c", None, 5, None]), _grp(0)])
    yield _session([{"rows": [["a", None, 1, None], ["b", None, 2, None]], "lazy": True}],
                   [_gb(0, ["k1"]), _agg(0, [["COUNT", "*"]]), _grp(0), _agg(0, [["COUNT", "*"]]), _grp(0)])
    yield _session([{"rows": [["a", None, 1, None]], "lazy": True}],
                   [_gb(0, ["k1"], "str"), _grp(0), _mat(0), _app(0, ["b", None, None, None]), _agg(0, [["SUM", "v"]], "wrapper"), _grp(0)])


KEY_POOLS = {
    "text": ["a", "b", "", "é", "A", "ab"],
    "int": [-1, -2, 0, 1, 2, 2 ** 64, -(2 ** 63)],
    "float": [["f", (1.0).hex()], ["f", (-1.0).hex()], ["f", (0.5).hex()], ["f", (-0.0).hex()], ["f", (2.5).hex()],
              ["f", float("inf").hex()], ["f", (-2.0).hex()], ["f", (1e300).hex()]],
    "bool": [True, False],
    "null": [None],
}
VALUE_POOLS = [
    [-5, -1, 0, 1, 2, 3, 7],
    [1, 2, 3],
    [2 ** 70, -(2 ** 70), 10 ** 30, 10 ** 30 + 1, 1, 0, 3],
    [-1, -2],
]


def _key_pool(rng):
    kinds = rng.choice([["text"], ["int"], ["int", "null"], ["float", "int"], ["bool", "int", "float"], ["text", "null"],
                        ["text", "int", "float", "bool", "null"], ["int"], ["null", "bool"]])
    pool = []
    for k in kinds:
        pool += KEY_POOLS[k]
    size = rng.randint(1, min(4, len(pool)))
    return rng.sample(pool, size)


def _random_case(rng, malformed_share=0.08):
    n = rng.choice([0, 1, 1, 2, 2, 3, 3, 4, 5, 6, 8, 10, 12, 15])
    p1, p2 = _key_pool(rng), _key_pool(rng)
    vp, wp = rng.choice(VALUE_POOLS), rng.choice(VALUE_POOLS)
    pnull_v = rng.choice([0.0, 0.2, 0.5, 0.9])
    pnull_w = rng.choice([0.0, 0.3, 1.0])
    rows = []
    for _ in range(n):
        rows.append([rng.choice(p1), rng.choice(p2),
                     None if rng.random() < pnull_v else rng.choice(vp),
                     None if rng.random() < pnull_w else rng.choice(wp)])
    nkeys = rng.choice([1, 1, 2])
    keys = ["k1"] if nkeys == 1 else rng.choice([["k1", "k2"], ["k2", "k1"]])
    if nkeys == 1 and rng.random() < 0.15:
        keys = [rng.choice(["k2", "v"])]
    # force one whole group to null on v (and sometimes w)
    if rows and rng.random() < 0.4:
        kidx = [NAMES.index(k) for k in keys]
        victim = tuple(repr(rows[rng.randrange(n)][i]) for i in kidx)
        both = rng.random() < 0.5
        for r in rows:
            if tuple(repr(r[i]) for i in kidx) == victim:
                r[2] = None
                if both:
                    r[3] = None
    intlike = {c: all(r[NAMES.index(c)] is None or isinstance(r[NAMES.index(c)], int) for r in rows) for c in NAMES}
    cols = ["v", "v", "w", "*", "zz"] + [k for k in ("k1", "k2")]
    reqs = []
    base = [(rng.choice(FUNCS), rng.choice(cols)) for _ in range(rng.randint(1, 3))]
    for _ in range(rng.randint(1, 4)):
        f, c = rng.choice(base) if rng.random() < 0.5 else (rng.choice(FUNCS), rng.choice(cols))
        if c in ("*", "zz") and f != "COUNT":
            f = rng.choice(["COUNT", "COUNT", "MIN", "MAX"])
        if c in ("k1", "k2") and not intlike[c]:
            f = "COUNT"
        reqs.append([f, c])
    op = "aggregate"
    r = rng.random()
    if r < 0.06:
        op, reqs = "groups", []
    elif r < 0.06 + malformed_share:
        m = rng.choice(["badkey", "sumstar", "dupkey"])
        if m == "badkey":
            keys = rng.choice([["nope"], ["k1", "nope"], ["nope", "k1"]])
        elif m == "sumstar":
            reqs.insert(rng.randrange(len(reqs) + 1), [rng.choice(["SUM", "AVG"]), rng.choice(["*", "zz"])])
            reqs = reqs[:4]
        else:
            keys = [keys[0], keys[0]]
    perm = list(range(n))
    rng.shuffle(perm)
    keyform = rng.choice(["list", "list", "tuple", "str"])
    lazy = rng.random() < 0.4
    build = "dicts" if rng.random() < 0.25 else "rows"
    return _case(rows, keys, reqs, lazy=lazy, op=op, keyform=keyform, build=build, perm=perm)


def _random_reqs(rng, intlike, like=None):
    """a request list; with `like`, the same columns in the same order under other functions"""
    cols = ["v", "v", "w", "*", "zz", "k1", "k2"]

    def fix(f, c):
        if c in ("*", "zz") and f not in ("COUNT", "MIN", "MAX"):
            f = rng.choice(["COUNT", "COUNT", "MIN", "MAX"])
        if c in ("k1", "k2") and not intlike[c]:
            f = "COUNT"
        return [f, c]

    if like is not None:
        return [fix(rng.choice(FUNCS), c) for _, c in like]
    base = [(rng.choice(FUNCS), rng.choice(cols)) for _ in range(rng.randint(1, 2))]
    reqs = []
    for _ in range(rng.choice([1, 1, 1, 2, 2, 3])):
        f, c = rng.choice(base) if rng.random() < 0.5 else (rng.choice(FUNCS), rng.choice(cols))
        reqs.append(fix(f, c))
    return reqs


def _appendable(c):
    """DataFrame.append serialises the row (ormsgpack): integers outside [-2^63, 2^64) are refused there, which is
    not C12's business - appended rows carry integers inside that range (initial rows keep the big ones)."""
    if isinstance(c, int) and not isinstance(c, bool) and not (-(2 ** 63) <= c < 2 ** 64):
        return (c % (2 ** 61)) + 2 ** 62
    return c


_HUGE = ["f", (1e300).hex()]   # an integral float: a 301-digit integer once canonicalised, ~0.2 s of Coq numeral parsing each


def _random_session(rng):
    # (sessions repeat every key in every result, so the 301-digit key stays with the single-call cases)
    p1, p2 = ([(["f", (0.25).hex()] if x == _HUGE else x) for x in p] for p in (_key_pool(rng), _key_pool(rng)))
    vp, wp = rng.choice(VALUE_POOLS), rng.choice(VALUE_POOLS)
    pnull_v = rng.choice([0.0, 0.2, 0.5])
    pnull_w = rng.choice([0.0, 0.3, 1.0])

    def row():
        return [rng.choice(p1), rng.choice(p2), None if rng.random() < pnull_v else rng.choice(vp),
                None if rng.random() < pnull_w else rng.choice(wp)]

    nfr = 1 if rng.random() < 0.75 else 2
    frames = []
    for i in range(nfr):
        names = list(NAMES)
        if i == 1 and rng.random() < 0.5:
            rng.shuffle(names)
        rows = [row() for _ in range(rng.choice([0, 1, 2, 2, 3, 4, 6]))]
        order = [NAMES.index(n) for n in names]
        frames.append({"names": names, "rows": [[r[j] for j in order] for r in rows], "lazy": rng.random() < 0.22,
                       "build": "dicts" if rng.random() < 0.2 else "rows", "_order": order})
    # key columns hold anything, so only COUNT is asked of them unless every pool value is an integer
    intlike = {"k1": all(isinstance(x, int) for x in p1), "k2": all(isinstance(x, int) for x in p2)}

    def keys():
        r = rng.random()
        if r < 0.6:
            return ["k1"]
        if r < 0.8:
            return rng.choice([["k1", "k2"], ["k2", "k1"]])
        if r < 0.95:
            return [rng.choice(["k2", "v"])]
        return rng.choice([["nope"], ["k1", "nope"]])

    steps = [_gb(0, keys(), rng.choice(["list", "list", "tuple", "str"]))]
    gbs = [0]          # frame of each GroupBy object
    lastreq = {}
    cur = 0
    for _ in range(rng.randint(3, 9)):
        r = rng.random()
        if r < 0.42:
            g = cur if rng.random() < 0.7 else rng.randrange(len(gbs))
            q = rng.random()
            if g in lastreq and q < 0.45:
                reqs = [list(x) for x in lastreq[g]]
            elif g in lastreq and q < 0.75:
                reqs = _random_reqs(rng, intlike, like=lastreq[g])
            else:
                reqs = _random_reqs(rng, intlike)
            lastreq[g] = reqs
            cur = g
            steps.append(_agg(g, reqs, "wrapper" if rng.random() < 0.3 else "aggregate"))
        elif r < 0.70:
            f = gbs[cur] if rng.random() < 0.8 else rng.randrange(nfr)
            rw = [_appendable(c) for c in row()]
            steps.append(_app(f, [rw[j] for j in frames[f]["_order"]]))
        elif r < 0.80:
            f = gbs[cur] if rng.random() < 0.6 else rng.randrange(nfr)
            k = keys()
            if rng.random() < 0.5:
                k = list(steps[0]["keys"])
            steps.append(_gb(f, k, rng.choice(["list", "tuple", "str"])))
            gbs.append(f)
            if rng.random() < 0.5:
                cur = len(gbs) - 1
        elif r < 0.90:
            steps.append(_grp(cur if rng.random() < 0.7 else rng.randrange(len(gbs))))
        else:
            steps.append(_mat(rng.randrange(nfr)))
    for f in frames:
        del f["_order"]
    return {"op": "session", "frames": frames, "steps": steps}


# ----------------------------------------------------------------------------- column names that are easily taken for one another
# Each family: names that are different strings (different columns) but coincide under lower(), casefold(), Unicode
# normalisation (NFC/NFKC), trimming, or are prefixes / brace variants of one another.
NAME_FAMILIES = [
    ["v", "V"],
    ["id", "ID", "Id", "iD"],
    ["k1", "K1"],
    ["stra\u00dfe", "strasse", "STRASSE", "STRA\u1e9eE"],      # sharp s, capital sharp s
    ["\u00df", "ss", "SS"],
    ["\u212a", "k", "K"],                                     # Kelvin sign
    ["\u017f", "s", "S"],                                     # long s
    ["\u03c2", "\u03c3", "\u03a3"],                           # final sigma, sigma, capital sigma
    ["\u0131", "i", "I", "\u0130"],                           # dotless i, dotted capital I
    ["\u00e9", "e\u0301", "\u00c9"],                          # e-acute composed / decomposed
    ["\u00c5", "\u212b", "A\u030a"],                          # A-ring, Angstrom sign, decomposed
    ["\ufb01", "fi", "FI"],                                   # fi ligature (NFKC, casefold)
    ["\u00b5", "\u03bc", "\u039c"],                           # micro sign, mu, capital mu
    ["v", " v", "v ", "v\t"],
    ["", " ", "\u200b"],
    ["n", "nn", "n1"],
    ["{v}", "v}", "{v", "{}"],
    ["1", "\u0661", "\u00b9"],                                # digit one: ASCII, Arabic-Indic, superscript
]
NEUTRAL = {"k1": "c0", "k2": "c1", "v": "c2", "w": "c3", "zz": "c4", "nope": "c5"}


def _rename(case, m):
    r = lambda n: m.get(n, n)
    if case["op"] == "session":
        frames = [dict(f, names=[r(n) for n in f["names"]]) for f in case["frames"]]
        steps = []
        for st in case["steps"]:
            st = dict(st)
            if "keys" in st:
                st["keys"] = [r(k) for k in st["keys"]]
            if "reqs" in st:
                st["reqs"] = [[f, r(c)] for f, c in st["reqs"]]
            steps.append(st)
        return dict(case, frames=frames, steps=steps)
    return dict(case, names=[r(n) for n in case["names"]], keys=[r(k) for k in case["keys"]],
                reqs=[[f, r(c)] for f, c in case["reqs"]])


def _confusable_mapping(rng):
    """role -> name: 2-4 roles take names of one family (at least one of them a column the frame has; `zz` / `nope`
    are the requested-but-absent column and the absent key column), the others neutral names"""
    fam = list(rng.choice(NAME_FAMILIES))
    rng.shuffle(fam)
    n = rng.randint(2, min(len(fam), 4))
    first = rng.choice(["v", "v", "w", "k1", "k1", "k2"])
    others = [x for x in ["k1", "k2", "v", "v", "w", "w", "zz", "nope"] if x != first]
    roles = [first]
    while len(roles) < n:
        x = rng.choice(others)
        if x not in roles:
            roles.append(x)
    m = dict(NEUTRAL)
    for role, name in zip(roles, fam):
        m[role] = name
    return m


def _with_intsub(rng, case):
    """some integer value cells become int-subclass instances (equal values, another type)"""
    rows = [list(r) for r in case["rows"]]
    for r in rows:
        for j in (2, 3):
            if isinstance(r[j], int) and not isinstance(r[j], bool) and rng.random() < 0.3:
                r[j] = ["I", r[j]]
    return dict(case, rows=rows)


def _random_named_case(rng):
    case = _random_case(rng, malformed_share=0.12)
    if rng.random() < 0.3:
        case = _with_intsub(rng, case)
    case = _rename(case, _confusable_mapping(rng))
    case["strsub"] = rng.random() < 0.25
    return case


def _random_named_session(rng):
    return _rename(_random_session(rng), _confusable_mapping(rng))


def _name_table(tier):
    """every pair of names of every family as sibling columns / as present and absent column"""
    idx = 0
    for fam in NAME_FAMILIES:
        for a in fam:
            for b in fam:
                if a == b:
                    continue
                idx += 1
                lazy = bool(idx % 2)
                build = "dicts" if idx % 3 == 0 else "rows"
                if a < b:
                    # two value columns
                    yield _case([["x", 1, 100], ["x", 2, None], ["y", None, 300], ["y", 4, 400]], ["c0"],
                                [["SUM", a], ["SUM", b], ["COUNT", a], ["MAX", b]], names=["c0", a, b], lazy=lazy, build=build)
                # a is the key, b a sibling column that partitions the rows differently
                yield _case([[1, "p", 10], [1, "q", 20], [2, "p", 30]], [a], [["SUM", "c2"], ["COUNT", "*"]],
                            names=[a, b, "c2"], lazy=lazy, build=build, keyform=("str", "list", "tuple")[idx % 3])
                # the frame has a only; b is requested (an absent column: COUNT = group size) and, thorough tier, used as key
                yield _case([["x", 1], ["x", None], ["y", 3]], ["c0"], [["COUNT", b], ["SUM", a], ["COUNT", a]],
                            names=["c0", a], lazy=lazy, build=build)
                if tier != "quick" or idx % 4 == 0:
                    yield _case([["x", 1], ["y", 3]], [b], [["SUM", "c1"]], names=[a, "c1"], lazy=lazy)


def _exhaustive_sessions(tier):
    """one GroupBy object asked twice with one row appended in between, every small frame and every row"""
    kvals = [-1, -2]
    vvals = [None, 1]
    maxrows = 1 if tier == "quick" else 2
    pairs = [([["SUM", "v"]], [["SUM", "v"]]), ([["MIN", "v"]], [["MAX", "v"]]), ([["COUNT", "*"]], [["COUNT", "*"]]),
             ([["SUM", "v"], ["COUNT", "v"]], [["AVG", "v"], ["COUNT", "v"]])]
    cells = list(itertools.product(kvals, vvals))
    for n in range(0, maxrows + 1):
        for rows in itertools.product(cells, repeat=n):
            for new in cells:
                for i, (r1, r2) in enumerate(pairs):
                    yield _session([{"rows": [[k, None, v, None] for k, v in rows]}],
                                   [_gb(0, ["k1"]), _agg(0, r1, "wrapper" if i % 2 else "aggregate"), _app(0, [new[0], None, new[1], None]),
                                    _agg(0, r2, "wrapper" if i % 2 else "aggregate"), _grp(0)])


def exhaustive(tier):
    """every frame of up to 3 rows over a tiny alphabet, one key column, every pair of requests over v"""
    kvals = [-1, -2, None]
    vvals = [None, 1, 2]
    maxrows = 2 if tier == "quick" else 3

    def it():
        reqsets = [[["SUM", "v"], ["COUNT", "v"]], [["AVG", "v"], ["MIN", "v"], ["MAX", "v"], ["COUNT", "*"]]]
        for n in range(0, maxrows + 1):
            for ks in itertools.product(kvals, repeat=n):
                for vs in itertools.product(vvals, repeat=n):
                    rows = [[k, None, v, None] for k, v in zip(ks, vs)]
                    for i, rq in enumerate(reqsets):
                        yield _case(rows, ["k1"], rq, lazy=bool((n + i) % 2))
        yield from _exhaustive_sessions(tier)
        yield from _name_table(tier)

    srows = 1 if tier == "quick" else 2
    return it(), (f"all frames of 0..{maxrows} rows with key in {{-1, -2, null}} and value in {{null, 1, 2}}, "
                  "requests [SUM(v), COUNT(v)] and [AVG(v), MIN(v), MAX(v), COUNT(*)]; all sessions "
                  f"group_by / aggregate / append one row / aggregate on the same object / groups over frames of 0..{srows} rows "
                  "with key in {-1, -2}, value in {null, 1}, any such row appended, four request pairs over the same columns; "
                  f"every ordered pair of names of each of the {len(NAME_FAMILIES)} families of look-alike column names (case, case "
                  "folding, Unicode normalisation, trimming, prefixes, braces) as two value columns, as key column and sibling, "
                  "and as present / absent column")


def generate(rng, tier):
    count = 700 if tier == "quick" else 14000
    for _ in range(count):
        yield _random_case(rng)
    for _ in range(260 if tier == "quick" else 5200):
        yield _random_session(rng)
    for _ in range(200 if tier == "quick" else 4000):
        yield _random_named_case(rng)
    for _ in range(60 if tier == "quick" else 1200):
        yield _random_named_session(rng)


def search(rng):
    while True:
        yield _random_case(rng, malformed_share=0.0)
        yield _random_session(rng)
        yield _random_named_case(rng)
        yield _random_named_session(rng)


def _shrink_session(case):
    frames, steps = case["frames"], case["steps"]
    # drop one step (a group_by goes with everything that uses its object; later objects are renumbered)
    for i, st in enumerate(steps):
        if st["do"] == "group_by":
            g = sum(1 for x in steps[:i] if x["do"] == "group_by")
            ns = []
            for j, x in enumerate(steps):
                if j == i or (x["do"] in ("aggregate", "groups") and x["g"] == g):
                    continue
                if x["do"] in ("aggregate", "groups") and x["g"] > g:
                    x = dict(x, g=x["g"] - 1)
                ns.append(x)
            if any(x["do"] in ("aggregate", "groups") for x in ns):
                yield dict(case, steps=ns)
        else:
            yield dict(case, steps=steps[:i] + steps[i + 1:])
    # drop the last frame if nothing refers to it
    if len(frames) > 1 and not any(st.get("f") == len(frames) - 1 for st in steps):
        yield dict(case, frames=frames[:-1])
    for fi, f in enumerate(frames):
        for i in range(len(f["rows"])):
            nf = dict(f, rows=f["rows"][:i] + f["rows"][i + 1:])
            yield dict(case, frames=frames[:fi] + [nf] + frames[fi + 1:])
        if f["lazy"]:
            yield dict(case, frames=frames[:fi] + [dict(f, lazy=False)] + frames[fi + 1:])
        if f.get("build") == "dicts":
            yield dict(case, frames=frames[:fi] + [dict(f, build="rows")] + frames[fi + 1:])
    for i, st in enumerate(steps):
        if st["do"] == "aggregate":
            if len(st["reqs"]) > 1:
                for j in range(len(st["reqs"])):
                    yield dict(case, steps=steps[:i] + [dict(st, reqs=st["reqs"][:j] + st["reqs"][j + 1:])] + steps[i + 1:])
            if st.get("via") == "wrapper":
                yield dict(case, steps=steps[:i] + [dict(st, via="aggregate")] + steps[i + 1:])
        if st["do"] == "group_by":
            if len(st["keys"]) > 1:
                yield dict(case, steps=steps[:i] + [dict(st, keys=st["keys"][:1])] + steps[i + 1:])
            if st.get("keyform") != "list":
                yield dict(case, steps=steps[:i] + [dict(st, keyform="list")] + steps[i + 1:])


def shrink(case):
    if case["op"] == "session":
        yield from _shrink_session(case)
        return
    rows = case["rows"]
    for i in range(len(rows)):
        nr = rows[:i] + rows[i + 1:]
        yield dict(case, rows=nr, perm=list(reversed(range(len(nr)))))
    reqs = case["reqs"]
    if len(reqs) > 1:
        for i in range(len(reqs)):
            yield dict(case, reqs=reqs[:i] + reqs[i + 1:])
    if len(case["keys"]) > 1:
        yield dict(case, keys=case["keys"][:1])
    if case.get("build") == "dicts":
        yield dict(case, build="rows")
    if case.get("keyform") != "list":
        yield dict(case, keyform="list")
    if case["lazy"]:
        yield dict(case, lazy=False)
    if case.get("strsub"):
        yield dict(case, strsub=False)
    for i, r in enumerate(rows):
        for j in (1, 3):
            if j < len(r) and r[j] is not None and case["names"][j] not in case["keys"] and all(c != case["names"][j] for _, c in reqs):
                nr = [list(x) for x in rows]
                nr[i][j] = None
                yield dict(case, rows=nr)
