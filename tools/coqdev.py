#!/usr/bin/env python3
"""coqdev.py build [targets...]   - lock, regenerate _CoqProject/Makefile, make the targets
   (default: everything) and print the first error with context.  Use this instead of
   calling make directly so that concurrent builders do not trample each other.
   coqdev.py hygiene              - scan for forbidden constructs."""
import os, sys
HERE = os.path.dirname(os.path.abspath(__file__))
sys.path.insert(0, HERE)
os.environ.setdefault("VERIF_JOBS", "4")
from vlib import coqrun
if len(sys.argv) > 1 and sys.argv[1] == "hygiene":
    bad = coqrun.hygiene()
    print("\n".join(bad) or "clean")
    sys.exit(1 if bad else 0)
targets = sys.argv[2:] if len(sys.argv) > 2 else []
ok, log, cmd, dt = coqrun.make(targets, timeout_s=int(os.environ.get("COQDEV_TIMEOUT", "900")))
lines = [l for l in log.splitlines() if not l.startswith(("COQC", "COQDEP", "CLEAN"))]
print("\n".join(lines[-60:]))
print(("OK" if ok else "FAILED"), "%.1fs" % dt, cmd)
sys.exit(0 if ok else 1)
