#!/usr/bin/env python3
"""Regenerates the 'Repaired' table of DESIGN.md section 9 from known_findings.jsonl."""
import json
import os
import re

VERIF = os.path.dirname(os.path.dirname(os.path.abspath(__file__)))


def main():
    ents = [json.loads(l) for l in open(os.path.join(VERIF, "known_findings.jsonl")) if l.strip() and not l.startswith("#")]
    fixed = sorted((e for e in ents if e.get("status") == "fixed"),
                   key=lambda e: (e["property"], int(re.sub(r"\D", "", e["id"].split("-")[-1]) or 0), e["id"]))
    commits = sorted(set(e.get("commit") for e in fixed))
    head = "**Repaired (%d entries, %d `fix:` commits).**\n\n" % (len(fixed), len(commits))
    rows = ["| %s | %s | `%s` | %s |" % (e["id"], e["property"], e.get("commit"), re.sub(r"\s+", " ", e["what"]).replace("|", "/")) for e in fixed]
    table = head + "| id | property | fix commit | what failed |\n|---|---|---|---|\n" + "\n".join(rows) + "\n"
    p = os.path.join(VERIF, "DESIGN.md")
    s = open(p).read()
    b, e = "<!-- repaired-table:begin -->\n", "<!-- repaired-table:end -->\n"
    if b in s:
        s = s[: s.index(b) + len(b)] + table + s[s.index(e):]
    else:
        i = s.index("**Repaired (")
        j = s.index("\n\n", s.index("| id | property | fix commit | what failed |")) + 1
        s = s[:i] + b + table + e + s[j:]
    open(p, "w").write(s)
    print(len(fixed), "fixed entries,", len(commits), "commits;", sum(1 for x in ents if x.get("status") == "known"), "known")


if __name__ == "__main__":
    main()
