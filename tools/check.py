#!/usr/bin/env python3
"""check.py <property id> [--tier quick|thorough] [--replay FILE] | --gen-all

Registered in MANIFEST.json for every property.  Re-executes itself under the
repository's interpreter (/venv/bin/python) with PYTHONPATH pointing at the tree under
examination (ORSO_REPO, default /repo) so that the implementation is always the
current working tree."""
import os
import sys

HERE = os.path.dirname(os.path.abspath(__file__))
VENV_PY = "/venv/bin/python"


def reexec():
    repo = os.environ.get("ORSO_REPO", "/repo")
    if os.environ.get("ORSO_VERIF_CHILD") == "1":
        return
    env = dict(os.environ)
    env["ORSO_VERIF_CHILD"] = "1"
    env["ORSO_VERIF"] = "1"
    env["ORSO_REPO"] = repo
    env["PYTHONPATH"] = repo + os.pathsep + HERE
    env["PYTHONHASHSEED"] = "0"
    env["PYTHONDONTWRITEBYTECODE"] = "1"
    env.pop("PYTHONSTARTUP", None)
    os.execve(VENV_PY, [VENV_PY, "-W", "ignore", os.path.abspath(__file__)] + sys.argv[1:], env)


def main():
    reexec()
    sys.path.insert(0, HERE)
    import argparse

    ap = argparse.ArgumentParser()
    ap.add_argument("pid", nargs="?")
    ap.add_argument("--tier", default=os.environ.get("VERIF_TIER", "quick"), choices=["quick", "thorough"])
    ap.add_argument("--replay")
    ap.add_argument("--gen-all", action="store_true")
    ap.add_argument("--gen-only", action="store_true", help="regenerate only this property's tables")
    a = ap.parse_args()
    seed = int(os.environ.get("VERIF_SEED", "0") or 0)
    from vlib import framework, coqrun

    if a.gen_all:
        rc = 0
        for f in sorted(os.listdir(os.path.join(HERE, "props"))):
            if f.startswith("C") and f.endswith(".py"):
                P = framework.load_plugin(f[:-3])
                if hasattr(P, "gen"):
                    try:
                        for name, text in P.gen(framework.REPO).items():
                            coqrun.write_if_changed(os.path.join(coqrun.COQ, "Gen", name + ".v"), text)
                    except Exception as e:
                        print("gen failed for", f, repr(e))
                        rc = 1
        coqrun.ensure_makefile()
        return rc
    if not a.pid:
        ap.error("property id required")
    if a.gen_only:
        P = framework.load_plugin(a.pid)
        if hasattr(P, "gen"):
            for name, text in P.gen(framework.REPO).items():
                coqrun.write_if_changed(os.path.join(coqrun.COQ, "Gen", name + ".v"), text)
        return 0
    return framework.main(a.pid, a.tier, seed, a.replay)


if __name__ == "__main__":
    sys.exit(main())
