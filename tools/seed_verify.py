#!/usr/bin/env python3
"""seed_verify.py <property> <change.diff> <demo.py> <meta.json> <seed-id> [--tier quick]

Confirms a seeded change (produced by an independent sub-agent that saw only the property
text) and runs the property's check against it:
  1. scratch worktree of /repo HEAD outside /repo and /verif (+ the shipped compiled .so)
  2. the demonstration passes on the untouched tree
  3. the change applies; the whole pinned suite still passes with it
  4. the demonstration fails with the change
  5. the check (ORSO_REPO=<worktree>) must end in a VIOLATION line
Kept under /verif/seeded/<seed-id>/ (patch.diff, demo.py, meta.json with what was run) only
when 2-4 hold.  The worktree and its build output are removed afterwards."""
import json
import os
import re
import shutil
import subprocess
import sys
import time

VERIF = os.path.dirname(os.path.dirname(os.path.abspath(__file__)))
PY = "/venv/bin/python"


def sh(cmd, cwd=None, env=None, timeout=1800):
    r = subprocess.run(cmd, shell=True, cwd=cwd, env=env, capture_output=True, text=True, timeout=timeout)
    return r.returncode, (r.stdout + r.stderr)


def main():
    pid, diff, demo, meta, sid = sys.argv[1:6]
    tier = "quick"
    if "--tier" in sys.argv:
        tier = sys.argv[sys.argv.index("--tier") + 1]
    wt = f"/tmp/seedchk-{sid}"
    sh(f"git -C /repo worktree remove --force {wt}")
    shutil.rmtree(wt, ignore_errors=True)
    rc, out = sh(f"git -C /repo worktree add -q --detach {wt} HEAD")
    assert rc == 0, out
    for f in ("compiled.cpython-312-x86_64-linux-gnu.so", "compiled.c"):
        if os.path.exists(f"/repo/orso/compute/{f}"):
            shutil.copy(f"/repo/orso/compute/{f}", f"{wt}/orso/compute/{f}")
    env = dict(os.environ, PYTHONPATH=wt, PYTHONHASHSEED="0", PYTHONDONTWRITEBYTECODE="1")
    res = {"property": pid, "seed": sid, "repo_head": sh("git -C /repo rev-parse --short HEAD")[1].strip()}
    try:
        rc, out = sh(f"{PY} {demo}", cwd=wt, env=env, timeout=600)
        res["demo_on_clean"] = rc
        rc, out = sh(f"git apply {diff}", cwd=wt)
        res["applies"] = rc == 0
        if rc != 0:
            res["apply_error"] = out[-500:]
            print(json.dumps(res, indent=1))
            return 2
        passed = None
        if os.environ.get("SEED_VERIFY_SKIP_SUITE") == "1" and os.path.exists(os.path.join(VERIF, "seeded", sid, "meta.json")):
            # regression re-run of an already kept seed: the suite result recorded at confirmation time is reused
            old = json.load(open(os.path.join(VERIF, "seeded", sid, "meta.json"))).get("confirmation", {}).get("suite_with_change", {})
            passed = (old.get("passed", 0), old.get("failed", 1))
        for attempt in range(0 if passed else 2):
            rc, out = sh(f"{PY} -m pytest -q -p no:cacheprovider -n 6 2>&1 | tail -4", cwd=wt, env=env, timeout=1800)
            m = re.search(r"(\d+) passed", out)
            f = re.search(r"(\d+) failed", out)
            passed = (int(m.group(1)) if m else 0, int(f.group(1)) if f else 0)
            if passed[1] == 0:
                break
        res["suite_with_change"] = {"passed": passed[0], "failed": passed[1]}
        rc, out = sh(f"{PY} {demo}", cwd=wt, env=env, timeout=600)
        res["demo_with_change"] = rc
        res["demo_output"] = out[-400:]
        confirmed = res["demo_on_clean"] == 0 and passed[1] == 0 and passed[0] >= 350 and res["demo_with_change"] != 0
        res["confirmed"] = confirmed
        # the check
        t0 = time.time()
        cenv = dict(os.environ, ORSO_REPO=wt, VERIF_JOBS=os.environ.get("VERIF_JOBS", "8"))
        cenv.pop("ORSO_VERIF_CHILD", None)
        rc, out = sh(f"python3 tools/check.py {pid} --tier {tier}", cwd=VERIF, env=cenv, timeout=3600)
        res["check_exit"] = rc
        m = re.search(r"^VIOLATION property=\S+ replay=(\S+)(.*)$", out, re.M)
        res["check_violation_line"] = m.group(0) if m else None
        res["check_found_failing_input"] = bool(m) and "no-failing-input-found" not in m.group(0)
        res["check_wall_s"] = round(time.time() - t0, 1)
        res["check_tail"] = out[-700:]
        if m and os.path.exists(m.group(1)):
            try:
                rp = json.load(open(m.group(1)))
                res["replay_kind"] = rp.get("kind")
                res["replay_required"] = str(rp.get("required"))[:400]
                res["replay_input"] = json.dumps(rp.get("input"))[:600]
            except Exception:
                pass
            os.remove(m.group(1))
        res["detected"] = rc == 1 and bool(m)
        if confirmed:
            d = os.path.join(VERIF, "seeded", sid)
            os.makedirs(d, exist_ok=True)
            for src, name in ((diff, "patch.diff"), (demo, "demo.py")):
                dst = os.path.join(d, name)
                if os.path.realpath(src) != os.path.realpath(dst):
                    shutil.copy(src, dst)
            mj = json.load(open(meta)) if os.path.exists(meta) else {}
            mj.update({"id": sid, "breaks": pid, "confirmation": {k: res[k] for k in ("repo_head", "demo_on_clean", "suite_with_change", "demo_with_change")},
                       "check": {k: res.get(k) for k in ("check_exit", "check_violation_line", "check_found_failing_input", "replay_kind", "replay_required", "replay_input", "check_wall_s")},
                       "ran": [f"git apply patch.diff (scratch worktree of /repo {res['repo_head']})", "pinned pytest suite", "demo.py before/after",
                               f"ORSO_REPO=<worktree> python3 tools/check.py {pid} --tier {tier}"]})
            json.dump(mj, open(os.path.join(d, "meta.json"), "w"), indent=1)
        print(json.dumps({k: v for k, v in res.items() if k not in ("check_tail",)}, indent=1))
        if not res["detected"]:
            print(res["check_tail"])
        return 0 if (confirmed and res["detected"]) else 1
    finally:
        sh(f"git -C /repo worktree remove --force {wt}")
        shutil.rmtree(wt, ignore_errors=True)
        # restore the generated tables of this property from /repo itself
        renv = dict(os.environ)
        renv.pop("ORSO_REPO", None)
        sh(f"python3 tools/check.py {pid} --gen-only", cwd=VERIF, env=renv, timeout=600)


if __name__ == "__main__":
    sys.exit(main())
