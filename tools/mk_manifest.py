#!/usr/bin/env python3
"""Assemble MANIFEST.json from the per-property plugins (tools/props/Cxx.py: LEVEL_TEXT,
LEVEL_NOTE, TECHNIQUE, DESIGN_REF) so that the manifest is valid at all times."""
import ast, json, os, sys
HERE = os.path.dirname(os.path.abspath(__file__))
VERIF = os.path.dirname(HERE)
ALL = ["C%02d" % i for i in range(1, 21)]

def consts(path):
    out = {}
    tree = ast.parse(open(path).read())
    for node in tree.body:
        if isinstance(node, ast.Assign) and len(node.targets) == 1 and isinstance(node.targets[0], ast.Name):
            try:
                out[node.targets[0].id] = ast.literal_eval(node.value)
            except Exception:
                pass
    return out

checks, na = [], []
pending = json.load(open(os.path.join(HERE, "pending.json"))) if os.path.exists(os.path.join(HERE, "pending.json")) else {}
for pid in ALL:
    p = os.path.join(HERE, "props", pid + ".py")
    c = consts(p) if os.path.exists(p) else {}
    approved = json.load(open(os.path.join(HERE, "approved.json")))
    if not c.get("READY", False) or pid not in approved:
        na.append({"property_id": pid, "reason": pending.get(pid, "check not built yet in this round; the design (DESIGN.md section 8) applies the same technique to it")})
        continue
    checks.append({
        "property_id": pid,
        "quick_cmd": f"python3 tools/check.py {pid} --tier quick",
        "thorough_cmd": f"python3 tools/check.py {pid} --tier thorough",
        "evidence_file": f"/verif/evidence/{pid}.json",
        "replay_cmd_template": f"python3 tools/check.py {pid} --replay {{path}}",
        "engine": "coq-models+correspondence",
        "level_claimed": {"category": "proof", "text": c["LEVEL_TEXT"], "design_ref": c.get("DESIGN_REF", "DESIGN.md section 8, " + pid)},
        "level_note": c["LEVEL_NOTE"],
        "technique": c["TECHNIQUE"],
    })
m = {
    "version": 1,
    "setup_cmd": "bash tools/setup.sh",
    "hooks": {
        "guard": "ORSO_VERIF",
        "enable": "no hook commits exist: clocks, schedulers and casters are patched from the harness process; checks set ORSO_VERIF=1 in the child interpreter for uniformity",
        "baseline_off_cmd": "cd /repo && /venv/bin/python -m pytest -ra -q -p no:cacheprovider --timeout=900 --continue-on-collection-errors",
        "source_commits": [],
        "add_only": True,
    },
    "engines": [{"name": "coq-models+correspondence", "path": "tools/check.py", "serves_properties": [c["property_id"] for c in checks],
                 "kind_free_text": "Coq 8.16 development (coq/: Base, Gen regenerated from /repo, Model, Proofs, Props) + per-run correspondence: the implementation is run on generated/exhaustive inputs and the models are evaluated by the Coq VM on the same inputs; property oracle on the implementation for replayable failing inputs"}],
    "checks": checks,
    "not_applicable": na,
    "notes": "See DESIGN.md. known_findings.jsonl lists genuine defects recorded or fixed. Every check honours VERIF_SEED and VERIF_TIER and takes the tree under test from ORSO_REPO (default /repo).",
}
json.dump(m, open(os.path.join(VERIF, "MANIFEST.json"), "w"), indent=1)
print("checks:", [c["property_id"] for c in checks], "not_applicable:", [n["property_id"] for n in na])
