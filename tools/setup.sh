#!/bin/bash
# MANIFEST.setup_cmd: regenerate the tables from /repo, then a full .vo build of the
# whole development from the files on disk (no network, no -vos/-vok).
set -e
cd "$(dirname "$0")/.."
python3 tools/check.py --gen-all
cd coq
timeout 3400 make -j16 > /tmp/orso_verif_setup.$$.log 2>&1 || { tail -50 /tmp/orso_verif_setup.$$.log; rm -f /tmp/orso_verif_setup.$$.log; echo "setup: build failed (per-property checks will report which obligation broke)"; exit 0; }
rm -f /tmp/orso_verif_setup.$$.log
echo "setup: development built"
