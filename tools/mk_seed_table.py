#!/usr/bin/env python3
"""Regenerates the seeded-changes table of DESIGN.md (between the seeded-table markers) from
seeded/*/meta.json (written by tools/seed_verify.py)."""
import glob
import json
import os
import re

VERIF = os.path.dirname(os.path.dirname(os.path.abspath(__file__)))


def cell(s, n):
    s = re.sub(r"\s+", " ", str(s or "")).replace("|", "/")
    return s if len(s) <= n else s[: n - 3] + "..."


def main():
    rows = []
    for d in sorted(glob.glob(os.path.join(VERIF, "seeded", "*"))):
        mp = os.path.join(d, "meta.json")
        if not os.path.exists(mp):
            continue
        m = json.load(open(mp))
        c = m.get("check", {})
        if c.get("check_exit") == 1 and c.get("check_found_failing_input"):
            rep = "exit 1, failing input found: " + cell(c.get("replay_required"), 130)
        elif c.get("check_exit") == 1:
            rep = "exit 1, " + cell(c.get("check_violation_line"), 130)
        else:
            rep = "NOT CAUGHT (exit %s)" % c.get("check_exit")
        rows.append("| %s | %s | %s | %s |" % (os.path.basename(d), cell(m.get("what"), 150), cell(m.get("needs"), 120), rep))
    table = "| seed | change | needs | what the check reported |\n|---|---|---|---|\n" + "\n".join(rows) + "\n"
    p = os.path.join(VERIF, "DESIGN.md")
    s = open(p).read()
    b, e = "<!-- seeded-table:begin -->\n", "<!-- seeded-table:end -->\n"
    if b in s:
        s = s[: s.index(b) + len(b)] + table + s[s.index(e):]
    else:
        # first use: replace the existing table of section 14
        i = s.index("| seed | change | needs | what the check reported |")
        j = s.index("## Appendix A.")
        s = s[:i] + b + table + e + "\n\n" + s[j:]
    open(p, "w").write(s)
    caught = sum("failing input found" in r for r in rows)
    print(f"{len(rows)} seeded changes, {caught} caught with a concrete failing input")


if __name__ == "__main__":
    main()
