From Coq Require Import List ZArith NArith Bool.
From Orso Require Import Base.Civil Gen.C08_Tables Model.C08 Proofs.C08.
Theorem C08_stub : parse_iso VOther = Ok None.
Proof. exact stub_other. Qed.
Print Assumptions C08_stub.
