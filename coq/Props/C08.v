(* C08 - Timestamp parsing round-trips ISO-8601 and epoch forms and is total.
   Property theorems only, about the definitions of Model/C08.v that the correspondence
   evaluates ([parse_iso], the casts); each is closed by [exact] of a lemma from
   Proofs/C08*.v and followed by Print Assumptions.  [render_*] are the specification-side
   ISO renderers (the correspondence checks them against CPython's isoformat()). *)
From Coq Require Import List ZArith NArith Bool.
From Orso Require Import Base.Civil Gen.C08_Tables Model.C08.
From Orso Require Import Proofs.C08_Epoch Proofs.C08_Str Proofs.C08_Utf8 Proofs.C08_Core Proofs.C08.
Import ListNotations.
Open Scope Z_scope.

(* ---- ISO renderings, seconds precision ----
   Every date-time of years 1..9999, 'T' or space, any fraction of 0..6 digits, every
   suffix in {none, Z, +hh:mm, +hhmm, -hh:mm, -hhmm}, as text and as UTF-8 bytes:
   that wall-clock time with whole seconds. *)
Theorem C08_iso_seconds :
  forall y m d h mi s sep fr sf,
  valid_date y m d = true -> valid_time h mi s = true -> is_sep sep = true ->
  forallb ascii_digit fr = true -> (length fr <= 6)%nat -> valid_suffix sf = true ->
  let text := render_seconds y m d h mi s sep fr sf in
  parse_iso (VStr text) = Ok (Some (y, m, d, h, mi, s, 0)) /\
  parse_iso (VBytes (utf8_encode text)) = Ok (Some (y, m, d, h, mi, s, 0)).
Proof. exact iso_seconds. Qed.
Print Assumptions C08_iso_seconds.

(* Beyond 6 fraction digits: still that time exactly when the whole text has at most 33
   characters and, for a '+' offset, the part before it at most 28 (i.e. up to 9 digits
   with no suffix or Z, 8 with +hhmm / -hhmm, 7 with a colon offset) ... *)
Theorem C08_iso_seconds_any_fraction :
  forall y m d h mi s sep fr sf,
  valid_date y m d = true -> valid_time h mi s = true -> is_sep sep = true ->
  forallb ascii_digit fr = true -> valid_suffix sf = true ->
  zlen (render_seconds y m d h mi s sep fr sf) <= 33 ->
  (match sf with SPlus _ _ _ => zlen (render_frac fr) <= 9 | _ => True end) ->
  let text := render_seconds y m d h mi s sep fr sf in
  parse_iso (VStr text) = Ok (Some (y, m, d, h, mi, s, 0)) /\
  parse_iso (VBytes (utf8_encode text)) = Ok (Some (y, m, d, h, mi, s, 0)).
Proof. exact iso_seconds_gen. Qed.
Print Assumptions C08_iso_seconds_any_fraction.

(* ... and None for any non-digit text longer than 33 or shorter than 10 characters. *)
Theorem C08_outside_length_window_none :
  forall s, (33 < zlen s \/ zlen s < 10) -> str_isdigit s = false -> parse_iso (VStr s) = Ok None.
Proof. intros s [H|H] Hd; [exact (too_long_none s H Hd)|exact (too_short_none s H Hd)]. Qed.
Print Assumptions C08_outside_length_window_none.

(* ---- minute precision: that minute, all six suffixes (F-C08-2 fixed) ---- *)
Theorem C08_iso_minutes :
  forall y m d h mi sep sf,
  valid_date y m d = true -> valid_time h mi 0 = true -> is_sep sep = true -> valid_suffix sf = true ->
  let text := render_minutes y m d h mi sep sf in
  parse_iso (VStr text) = Ok (Some (y, m, d, h, mi, 0, 0)) /\
  parse_iso (VBytes (utf8_encode text)) = Ok (Some (y, m, d, h, mi, 0, 0)).
Proof. exact iso_minutes. Qed.
Print Assumptions C08_iso_minutes.

(* ---- date only: midnight, for suffix none / Z / +offset.
   (A date followed by a negative offset is not an ISO 8601 form; the example below
   records that 2020-01-01-05:00 is read as 05:00.) ---- *)
Theorem C08_iso_dateonly :
  forall y m d sf,
  valid_date y m d = true -> valid_suffix sf = true -> not_minus sf = true ->
  let text := render_dateonly y m d sf in
  parse_iso (VStr text) = Ok (Some (y, m, d, 0, 0, 0, 0)) /\
  parse_iso (VBytes (utf8_encode text)) = Ok (Some (y, m, d, 0, 0, 0, 0)).
Proof. exact iso_dateonly. Qed.
Print Assumptions C08_iso_dateonly.

(* ---- bytes: any text given as UTF-8 parses as the text; undecodable bytes give None ---- *)
Theorem C08_bytes_as_text :
  (forall s, forallb scalar s = true -> parse_iso (VBytes (utf8_encode s)) = parse_iso (VStr s)) /\
  (forall b, utf8_decode b = None -> parse_iso (VBytes b) = Ok None).
Proof. split; [exact parse_iso_bytes|exact parse_iso_bad_bytes]. Qed.
Print Assumptions C08_bytes_as_text.

(* ---- native date / datetime: midnight, resp. the same wall clock without microseconds ---- *)
Theorem C08_native_inputs :
  (forall y m d, parse_iso (VDate y m d) = Ok (Some (y, m, d, 0, 0, 0, 0))) /\
  (forall y m d h mi s us, parse_iso (VDatetime y m d h mi s us) = Ok (Some (y, m, d, h, mi, s, 0))).
Proof. split; [exact native_date|exact native_datetime]. Qed.
Print Assumptions C08_native_inputs.

(* ---- the DATE / TIMESTAMP casts agree with parse_iso on every input; so does the TIME
   cast on every input except a native datetime.time, which it returns unchanged
   (parse_time, since 58338dc) while parse_iso, DATE and TIMESTAMP treat it as no date ---- *)
Theorem C08_casts_agree :
  forall x,
  (forall t, parse_iso x = Ok (Some t) ->
     cast_timestamp x = Ok t /\ cast_date x = Ok (date_of t) /\ cast_time x = Ok (time_of t)) /\
  (parse_iso x = Ok None ->
     cast_timestamp x = Raise ValueError /\ cast_date x = Raise ValueError /\
     (is_time x = false -> cast_time x = Raise ValueError)).
Proof. exact casts_agree. Qed.
Print Assumptions C08_casts_agree.

Theorem C08_native_time :
  forall h mi s us,
  parse_iso (VTime h mi s us) = Ok None /\ cast_time (VTime h mi s us) = Ok (h, mi, s, us) /\
  cast_timestamp (VTime h mi s us) = Raise ValueError /\ cast_date (VTime h mi s us) = Raise ValueError.
Proof. exact native_time. Qed.
Print Assumptions C08_native_time.

(* ---- the calendar underneath the epoch branch: every day number is the day number of
   the civil date computed for it, which is a valid date (146097-day sweep + periodicity) ---- *)
Theorem C08_calendar_inverse :
  forall z, let '(y, m, d) := civil_from_days z in
  days_from_civil y m d = z /\ 1 <= m <= 12 /\ 1 <= d <= dim y m.
Proof. exact days_civil_inverse. Qed.
Print Assumptions C08_calendar_inverse.

(* ---- integers are Unix seconds in UTC: in range, the valid civil time whose day number
   and second of day recompose n ... ---- *)
Theorem C08_epoch_in_range :
  forall n, min_epoch <= n <= max_epoch ->
  exists y m d h mi s,
    parse_iso (VInt n) = Ok (Some (y, m, d, h, mi, s, 0)) /\
    valid_date y m d = true /\ valid_time h mi s = true /\ epoch_of (y, m, d, h, mi, s, 0) = n.
Proof. exact epoch_in_range. Qed.
Print Assumptions C08_epoch_in_range.

(* ... and None outside [0001-01-01T00:00:00, 9999-12-31T23:59:59], however large
   (CPython raises ValueError / OverflowError / OSError there; all three are caught). *)
Theorem C08_epoch_out_of_range :
  forall n, n < min_epoch \/ max_epoch < n -> parse_iso (VInt n) = Ok None /\ parse_iso (VNpInt64 n) = Ok None.
Proof. intros n H. split; [exact (epoch_out_of_range n H)|exact (epoch_out_of_range n H)]. Qed.
Print Assumptions C08_epoch_out_of_range.

(* ---- all-digit text (or its UTF-8 bytes) is the integer it spells; beyond int()'s
   digit limit it is nothing like a date ---- *)
Theorem C08_digit_string :
  (forall s, s <> [] -> forallb ascii_digit s = true -> zlen s <= int_max_str_digits ->
     parse_iso (VStr s) = parse_iso (VInt (digits_value s)) /\
     parse_iso (VBytes (utf8_encode s)) = parse_iso (VInt (digits_value s))) /\
  (forall s, forallb ascii_digit s = true -> int_max_str_digits < zlen s -> parse_iso (VStr s) = Ok None).
Proof. split; [exact digit_string|exact digit_string_too_long]. Qed.
Print Assumptions C08_digit_string.

(* ---- floats are Unix seconds too: NaN and the infinities give None; a finite float
   m * 2^e is read as its floor (whole seconds, also before 1970: -1.5 is 23:59:58), and
   [floor_of] is the floor.  (F-C08-3, fixed in c6c13f3: the floor replaced int().) ---- *)
Theorem C08_float_inputs :
  parse_iso (VFloat FNan) = Ok None /\ parse_iso (VNpFloat64 FNan) = Ok None /\
  parse_iso (VFloat FInf) = Ok None /\ parse_iso (VNpFloat64 FInf) = Ok None /\
  (forall m e, parse_iso (VFloat (FFin m e)) = parse_iso (VInt (floor_of m e)) /\
               parse_iso (VNpFloat64 (FFin m e)) = parse_iso (VInt (floor_of m e))) /\
  (forall m e, (0 <= e -> floor_of m e = m * 2 ^ e) /\
               (e < 0 -> floor_of m e * 2 ^ (- e) <= m < (floor_of m e + 1) * 2 ^ (- e))).
Proof.
  split; [exact (proj1 float_nan)|]. split; [exact (proj2 float_nan)|].
  split; [exact (proj1 float_inf)|]. split; [exact (proj2 float_inf)|].
  split; [exact float_finite|exact floor_of_spec].
Qed.
Print Assumptions C08_float_inputs.

(* ---- numpy.datetime64 of any unit, given the whole seconds NumPy's conversion to
   datetime64[s] returned: read as that integer (so, by the epoch theorems, the civil time
   of the floor of the instant in range and None outside); NaT (smallest int64) and a
   conversion overflow give None.  For a fixed-length unit of num/den seconds the floor of
   instant i is [instant_floor num den i]. ---- *)
Theorem C08_np_datetime64 :
  (forall n, parse_iso (VNpDatetime64 (NpSecs n)) = parse_iso (VInt n)) /\
  (forall num den i, parse_iso (VNpDatetime64 (NpSecs (instant_floor num den i))) = parse_iso (VInt ((i * num) / den))) /\
  parse_iso (VNpDatetime64 (NpSecs int64_min)) = Ok None /\
  parse_iso (VNpDatetime64 NpOverflow) = Ok None.
Proof.
  split; [exact np_datetime64_secs|]. split; [intros num den i; exact (np_datetime64_secs _)|].
  split; [exact np_datetime64_nat|exact np_datetime64_overflow].
Qed.
Print Assumptions C08_np_datetime64.

(* ---- objects with to_pydatetime (pandas): exactly like the native value they convert
   to - microseconds dropped - and None when the conversion gives anything else (NaT).
   (F-C08-4, fixed in 81d781c.) ---- *)
Theorem C08_to_pydatetime :
  (forall y m d h mi s us, parse_iso (VToPy (ToDatetime y m d h mi s us)) = parse_iso (VDatetime y m d h mi s us)) /\
  (forall y m d, parse_iso (VToPy (ToDate y m d)) = parse_iso (VDate y m d)) /\
  parse_iso (VToPy ToOther) = Ok None.
Proof. exact topy_native. Qed.
Print Assumptions C08_to_pydatetime.

(* ---- every other modelled input gives None ---- *)
Theorem C08_other_none : parse_iso VOther = Ok None.
Proof. exact other_none. Qed.
Print Assumptions C08_other_none.

(* ---- "a date or nothing like a date": whatever a text yields is a valid date-time with
   whole seconds, and it is yielded only by all-digit text or by text that, after the
   suffix is stripped, passes the positional shape test ... ---- *)
Theorem C08_string_result :
  forall s t, parse_iso (VStr s) = Ok (Some t) ->
  valid_dt t = true /\
  (str_isdigit s = true \/
   (10 <= zlen s <= 33 /\ exists v, strip_suffix s = Ok (Some v) /\ shape_ok v = true)).
Proof. exact string_result. Qed.
Print Assumptions C08_string_result.

(* ... equivalently: text failing the shape test gives None. *)
Theorem C08_shape_fail_none :
  forall s, str_isdigit s = false ->
  (forall v, strip_suffix s = Ok (Some v) -> shape_ok v = false) ->
  parse_iso (VStr s) = Ok None.
Proof. exact shape_fail_none. Qed.
Print Assumptions C08_shape_fail_none.

(* ---- totality: on every modelled input parse_iso returns; no exception escapes (the
   body raises only ValueError / OverflowError / OSError, never IndexError, and the handler
   list read from the source names all three) ---- *)
Theorem C08_total : forall x, exists r, parse_iso x = Ok r.
Proof. exact parse_iso_total. Qed.
Print Assumptions C08_total.

Theorem C08_body_exceptions :
  forall x e, parse_iso_body x = Raise e -> e = ValueError \/ e = OverflowError \/ e = OSError.
Proof. exact body_raises. Qed.
Print Assumptions C08_body_exceptions.

(* ---- non-vacuity and observations ---- *)
(* hypotheses of the round-trip theorems are satisfiable; the renderer produces the expected text *)
Example C08_nonvacuous_seconds :
  valid_date 2024 2 29 = true /\ valid_time 23 59 58 = true /\ is_sep cT = true /\
  forallb ascii_digit [49; 50; 51; 52; 53; 54]%N = true /\ valid_suffix (SMinus true 5 30) = true /\
  render_seconds 2024 2 29 23 59 58 cT [49; 50; 51; 52; 53; 54]%N (SMinus true 5 30) =
    [50; 48; 50; 52; 45; 48; 50; 45; 50; 57; 84; 50; 51; 58; 53; 57; 58; 53; 56; 46; 49; 50; 51; 52; 53; 54; 45; 48; 53; 58; 51; 48]%N /\
  parse_iso (VStr (render_seconds 2024 2 29 23 59 58 cT [49; 50; 51; 52; 53; 54]%N (SMinus true 5 30))) =
    Ok (Some (2024, 2, 29, 23, 59, 58, 0)).
Proof. vm_compute. repeat split; reflexivity. Qed.

(* F-C08-2's witness, now parsed: 2020-01-01T10:00-05:00 *)
Example C08_minute_negative_offset :
  parse_iso (VStr (render_minutes 2020 1 1 10 0 cT (SMinus true 5 0))) = Ok (Some (2020, 1, 1, 10, 0, 0, 0)).
Proof. vm_compute. reflexivity. Qed.

(* F-C08-1's witnesses: 10**20, inf, '9'*20 give None *)
Example C08_overflow_witnesses :
  parse_iso (VInt (10 ^ 20)) = Ok None /\ parse_iso (VFloat FInf) = Ok None /\
  parse_iso (VStr (repeat 57%N 20)) = Ok None.
Proof. vm_compute. repeat split; reflexivity. Qed.

(* observation: a date followed by a negative offset is read as a time *)
Example C08_dateonly_negative_offset :
  parse_iso (VStr (render_dateonly 2020 1 1 (SMinus true 5 0))) = Ok (Some (2020, 1, 1, 5, 0, 0, 0)).
Proof. vm_compute. reflexivity. Qed.

(* observation: a 9-digit fraction parses alone, but not with an offset (text longer than 33) *)
Example C08_nanosecond_fraction :
  let fr := [49; 50; 51; 52; 53; 54; 55; 56; 57]%N in
  parse_iso (VStr (render_seconds 2020 1 1 10 0 0 cT fr SNone)) = Ok (Some (2020, 1, 1, 10, 0, 0, 0)) /\
  parse_iso (VStr (render_seconds 2020 1 1 10 0 0 cT fr (SPlus true 0 0))) = Ok None.
Proof. vm_compute. split; reflexivity. Qed.

(* the former witnesses of F-C08-3 / F-C08-4: -1.5 s, -1.5e9 ns (NumPy gives -2), 0.5 s past 10:00 *)
Example C08_subsecond_witnesses :
  parse_iso (VFloat (FFin (-3) (-1))) = Ok (Some (1969, 12, 31, 23, 59, 58, 0)) /\
  parse_iso (VNpDatetime64 (NpSecs (instant_floor 1 1000000000 (-1500000000)))) = Ok (Some (1969, 12, 31, 23, 59, 58, 0)) /\
  parse_iso (VToPy (ToDatetime 2020 1 1 10 0 0 500000)) = Ok (Some (2020, 1, 1, 10, 0, 0, 0)).
Proof. vm_compute. repeat split; reflexivity. Qed.

(* the range ends *)
Example C08_epoch_ends :
  parse_iso (VInt min_epoch) = Ok (Some (1, 1, 1, 0, 0, 0, 0)) /\
  parse_iso (VInt max_epoch) = Ok (Some (9999, 12, 31, 23, 59, 59, 0)) /\
  parse_iso (VInt 0) = Ok (Some (1970, 1, 1, 0, 0, 0, 0)) /\
  parse_iso (VInt (min_epoch - 1)) = Ok None /\ parse_iso (VInt (max_epoch + 1)) = Ok None /\
  fromtimestamp_utc (max_epoch + 1) = Raise ValueError /\
  fromtimestamp_utc (2 ^ 62) = Raise OSError /\ fromtimestamp_utc (2 ^ 63) = Raise OverflowError.
Proof. vm_compute. repeat split; reflexivity. Qed.

(* a text that is nothing like a date satisfies the hypotheses of C08_shape_fail_none *)
Example C08_shape_fail_nonvacuous :
  let s := [104; 101; 108; 108; 111; 32; 119; 111; 114; 108; 100]%N in
  str_isdigit s = false /\ strip_suffix s = Ok (Some s) /\ shape_ok s = false /\ parse_iso (VStr s) = Ok None.
Proof. vm_compute. repeat split; reflexivity. Qed.
