(* C06 - Type names resolve to exactly the type they denote.
   Property theorems only; each is closed by [exact] of a lemma from Proofs/C06.v and followed
   by Print Assumptions.

   Reading guide (all definitions are in Model/C06.v, tables in Gen/C06_*.v):
     from_name_gen X up s   OrsoTypes.from_name(s) where [up] is str.upper and [X] says, for code points
                            >= 128, whether \d \w \s match and which digit value int() assigns;
     from_name s            the instance for ASCII text (X0, ASCII upper);
     tname / wf_name / render / denote   the well-formed type names of the property, how they are
                            written (upper case, canonical decimals) and the description they denote;
     wfb d                  d is a well-formed description;
     column_model           FlatColumn(type=s), DataFrame.description, from_name(type code);
     schema / description   a whole frame: (column name, carried description) in schema order, and the
                            list DataFrame.description returns for it (lookup of each column BY NAME);
     col_in / declared / schema_of / frame_desc   the columns of a frame as declared (name, type-name
                            string), what each constructor yields, the schema of those that did not
                            raise, and every description entry paired with from_name(its type code);
     sess / op / step / run a session on ONE schema object: its current columns plus the process-wide
                            DataFrame.column_names cache (frame object, names it saw); operations describe
                            through frame f / re-declare a column in place / append / pop / assign a column's
                            attributes in place; [current_view st] = the schema as it is now, rendered;
                            [not_cached f st] / [cached_current f st] / [in_place o st] as defined in the model;
     kwargs / column_kw / decl_model   FlatColumn(type=s, length=?, precision=?, scale=?, element_type=?): each
                            keyword omitted, None, or a value; [unspecified kw] = none carries a value. *)
From Coq Require Import List NArith ZArith Bool String.
From Orso Require Import Base.C06_Defs Gen.C06_Types Gen.C06_Names Gen.C06_Env Gen.C06_Regex Model.C06 Proofs.C06 Proofs.C06_Frame Proofs.C06_Session Proofs.C06_Kw.
Import ListNotations.
Open Scope N_scope.

(* The four pattern literals handed to re.match in _parse_type (regenerated from the AST) are
   the ones the recognisers m_array / m_decimal / m_varchar / m_blob were written for. *)
Theorem C06_regex_texts_are_the_modelled_ones :
  rx_array = txt "ARRAY<([\w\s\[\]\(\)]+)>" /\
  rx_decimal = txt "DECIMAL\((\d+),\s*(\d+)\)" /\
  rx_varchar = txt "VARCHAR\[(\d+)\]" /\
  rx_blob = txt "BLOB\[(\d+)\]" /\
  rx_method = txt "match".
Proof. exact regex_texts_modelled. Qed.
Print Assumptions C06_regex_texts_are_the_modelled_ones.

(* Every well-formed type name - a member name, DECIMAL(p,s) with 0<=s<=p<=38, VARCHAR[n],
   BLOB[n] (n within int()'s digit limit), ARRAY<T> for a member T other than ARRAY/DECIMAL -
   written in ANY letter case (every s whose upper-casing is the canonical spelling), resolves to
   exactly the description it denotes: that type, those parameters, that element type. *)
Theorem C06_names_resolve :
  forall (X : cext) (up : str -> str) (t : tname) (s : str),
  wf_name t = true -> up s = render t -> from_name_gen X up s = Ok (denote t).
Proof. exact names_resolve. Qed.
Print Assumptions C06_names_resolve.

(* The same, starting from the description: every well-formed description that has a name
   (everything but the integer 0 and ARRAY without element type) is what each letter-case variant
   of its rendering resolves to. *)
Theorem C06_descriptions_round_trip :
  forall (X : cext) (up : str -> str) (d : descr) (t : tname) (s : str),
  wfb d = true -> name_of d = Some t ->
  (forall n, d_len d = Some n -> digits_ok n = true) ->
  up s = render t -> from_name_gen X up s = Ok d.
Proof. exact descr_roundtrip. Qed.
Print Assumptions C06_descriptions_round_trip.

(* Any string whatsoever - under any upper-casing function and any treatment of non-ASCII
   characters by \d \w \s and int() - resolves to a well-formed description or is rejected with
   ValueError; no other exception, no ill-formed description. *)
Theorem C06_total :
  forall (X : cext) (up : str -> str) (s : str),
  (exists d, from_name_gen X up s = Ok d /\ wfb d = true) \/ from_name_gen X up s = Raise ValueError.
Proof. exact total. Qed.
Print Assumptions C06_total.

(* DECIMAL(p,s) with parameters outside 0 <= s <= p <= 38 is rejected with ValueError, in every
   letter case, for all p and s (not only those enumerated by the correspondence). *)
Theorem C06_decimal_out_of_range_rejected :
  forall (X : cext) (up : str -> str) (p sc : N) (s : str),
  ~ (sc <= p /\ p <= 38) -> up s = render (NDecimal p sc) -> from_name_gen X up s = Raise ValueError.
Proof. exact decimal_rejected. Qed.
Print Assumptions C06_decimal_out_of_range_rejected.

(* Any spelling DECIMAL(<digits>,<blanks><digits>)<anything> - leading zeros, blanks after the
   comma, trailing text (re.match is not anchored at the end) - is decided by the integer values
   alone: in range it resolves to DECIMAL with exactly those values, otherwise ValueError
   (also when a digit run exceeds int()'s limit). *)
Theorem C06_decimal_any_spelling :
  forall (X : cext) (up : str -> str) (s d1 d2 ws rest : str),
  d1 <> [] -> Forall ascii_digit d1 -> d2 <> [] -> Forall ascii_digit d2 ->
  forallb (is_space X) ws = true ->
  up s = pfx_decimal ++ d1 ++ [ch_comma] ++ ws ++ d2 ++ [ch_rpar] ++ rest ->
  from_name_gen X up s =
    if (max_str_digits <? N.of_nat (List.length d1)) || (max_str_digits <? N.of_nat (List.length d2))
    then Raise ValueError
    else if (int_digits X d2 <=? int_digits X d1) && (int_digits X d1 <=? 38)
         then Ok (mkD (TMember ty_decimal) None (Some (int_digits X d1)) (Some (int_digits X d2)) None)
         else Raise ValueError.
Proof. exact decimal_spelling. Qed.
Print Assumptions C06_decimal_any_spelling.

(* Whatever starts with ARRAY< (after upper-casing) and resolves at all, resolves to ARRAY with
   an element type e such that: the text continues  e>  ; e is an enum member other than ARRAY and
   DECIMAL; e does not start with any blacklisted name; e consists of pattern characters only. *)
Theorem C06_array_element_is_plain_member :
  forall (X : cext) (up : str -> str) (s : str) (d : descr),
  prefixb pfx_array (up s) = true -> from_name_gen X up s = Ok d ->
  exists e rest,
    up s = pfx_array ++ e ++ ch_gt :: rest /\
    d = plain (TMember ty_array) (Some e) /\
    scalar_elt e = true /\
    existsb (fun b => prefixb b e) array_blacklist = false /\
    forallb (is_elem X) e = true.
Proof. exact array_element. Qed.
Print Assumptions C06_array_element_is_plain_member.

(* Hence ARRAY<g> with g unknown (not a member name), nested or otherwise blacklisted (g starts
   with ARRAY, LIST, NUMERIC, BSON, STRING, DECIMAL), or parameterised (g contains ( or [ ) is
   rejected with ValueError. *)
Theorem C06_array_bad_element_rejected :
  forall (X : cext) (up : str -> str) (s g rest : str),
  up s = pfx_array ++ g ++ ch_gt :: rest -> ~ In ch_gt g ->
  (mem g member_names = false \/ existsb (fun b => prefixb b g) array_blacklist = true \/
   In ch_lpar g \/ In ch_lbr g) ->
  from_name_gen X up s = Raise ValueError.
Proof. exact array_bad_element_rejected. Qed.
Print Assumptions C06_array_bad_element_rejected.

(* The type code DataFrame.description reports for a column carrying a well-formed description
   (whose type and element type have enum value = name, i.e. are not the placeholder
   _MISSING_TYPE) resolves back to the column's type, with the precision/scale the description
   reports and the element type the column has. *)
Theorem C06_type_code_round_trip :
  forall d : descr,
  wfb d = true -> proper d = true ->
  exists d', from_name (type_code (column_of d)) = Ok d' /\
             d_ty d' = d_ty (column_of d) /\
             d_prec d' = desc_prec (column_of d) /\ d_scale d' = desc_scale (column_of d) /\
             (forall e, d_elt (column_of d) = Some e -> d_elt d' = Some e).
Proof. exact typecode_roundtrip. Qed.
Print Assumptions C06_type_code_round_trip.

(* End to end: a column declared with a well-formed name (any letter case) carries the type,
   length, element type, precision and scale the name denotes, and its reported type code
   resolves back to the same type with the reported precision/scale and the same element type. *)
Theorem C06_declared_column :
  forall (X : cext) (up : str -> str) (t : tname) (s : str),
  wf_name t = true -> up s = render t -> proper (denote t) = true ->
  exists c d',
    column_model X up s = ColOk c (type_code c) (desc_prec c) (desc_scale c) (Ok d') /\
    d_ty c = d_ty (denote t) /\ d_len c = d_len (denote t) /\ d_elt c = d_elt (denote t) /\
    (forall p, d_prec (denote t) = Some p -> d_prec c = Some p) /\
    (forall sc, d_scale (denote t) = Some sc -> d_scale c = Some sc) /\
    d_ty d' = d_ty c /\ d_prec d' = desc_prec c /\ d_scale d' = desc_scale c /\
    (forall e, d_elt c = Some e -> d_elt d' = Some e).
Proof. exact declared_column. Qed.
Print Assumptions C06_declared_column.

(* ---------------- whole frames (round 2) ---------------- *)

(* DataFrame.description of a frame whose column names are distinct is, entry by entry, a function
   of that entry's own column: no entry depends on any other column of the frame, on their order
   or on how many there are. *)
Theorem C06_description_per_column :
  forall sch : schema,
  NoDup (map fst sch) -> description sch = map (fun nc => entry_of (fst nc) (snd nc)) sch.
Proof. exact description_per_column. Qed.
Print Assumptions C06_description_per_column.

(* Without the distinctness premise: entry k still carries the name of column k, but renders the
   FIRST column of that name (RelationSchema.find_column); there are as many entries as columns. *)
Theorem C06_description_first_match :
  forall (sch : schema) (k : nat) (n : str) (c : descr),
  nth_error sch k = Some (n, c) ->
  List.length (description sch) = List.length sch /\
  exists c', find_column n sch = Some c' /\ nth_error (description sch) k = Some (entry_of n c').
Proof. exact description_first_match_len. Qed.
Print Assumptions C06_description_first_match.

(* In a frame with distinct column names, whatever the other columns are: the entry at the
   position of a column carrying a well-formed, proper description reports that column's own type
   code, and the code resolves back to the column's type, reported precision/scale, element type. *)
Theorem C06_frame_type_code_round_trip :
  forall (sch : schema) (k : nat) (n : str) (d : descr),
  NoDup (map fst sch) -> nth_error sch k = Some (n, column_of d) ->
  wfb d = true -> proper d = true ->
  exists d',
    nth_error (description sch) k =
      Some (n, type_code (column_of d), desc_prec (column_of d), desc_scale (column_of d)) /\
    from_name (type_code (column_of d)) = Ok d' /\
    d_ty d' = d_ty (column_of d) /\
    d_prec d' = desc_prec (column_of d) /\ d_scale d' = desc_scale (column_of d) /\
    (forall e, d_elt (column_of d) = Some e -> d_elt d' = Some e).
Proof. exact frame_type_code_round_trip. Qed.
Print Assumptions C06_frame_type_code_round_trip.

(* End to end on [declared] / [frame_desc] (what the frame correspondence evaluates): in a frame
   of any columns with distinct names - other columns may be of the same base type with other
   parameters, or may have been rejected - a column declared with a well-formed name (any letter
   case) is constructed, carries what the name denotes, has exactly one description entry under
   its name, and that entry's type code resolves back to its type / precision / scale / element. *)
Theorem C06_declared_frame :
  forall (cols : list col_in) (ci : col_in) (t : tname),
  NoDup (map ci_name cols) -> In ci cols ->
  wf_name t = true -> ci_upper ci = render t -> proper (denote t) = true ->
  exists c d',
    declared ci = Ok c /\
    In (entry_of (ci_name ci) c, Ok d') (frame_desc cols) /\
    (forall o, In o (frame_desc cols) -> e_name (fst o) = ci_name ci -> o = (entry_of (ci_name ci) c, Ok d')) /\
    d_ty c = d_ty (denote t) /\ d_len c = d_len (denote t) /\ d_elt c = d_elt (denote t) /\
    (forall p, d_prec (denote t) = Some p -> d_prec c = Some p) /\
    (forall sc, d_scale (denote t) = Some sc -> d_scale c = Some sc) /\
    d_ty d' = d_ty c /\ d_prec d' = desc_prec c /\ d_scale d' = desc_scale c /\
    (forall e, d_elt c = Some e -> d_elt d' = Some e).
Proof. exact declared_frame. Qed.
Print Assumptions C06_declared_frame.

(* ---------------- sessions on one mutable schema object (round 3) ---------------- *)

(* Whatever state a session has reached, .description through a frame object the column_names
   cache does not remember (a new DataFrame on the schema, or any frame but the last one
   described) answers the schema as it is NOW: no dependence on earlier declarations, earlier
   calls or the operations in between. *)
Theorem C06_session_describe_fresh :
  forall (st0 : sess) (ops : list op) (f : nat),
  let st := fst (run st0 ops) in
  not_cached f st -> snd (step st (ODescribe f)) = current_view st.
Proof. exact run_describe_fresh. Qed.
Print Assumptions C06_session_describe_fresh.

(* The same frame object again: once it has answered the current view, re-declaring a column in
   place under its name (schema.columns[i] = FlatColumn(same name, other type)) or assigning a
   column object's type attributes does not leave anything stale - the next .description
   through that very frame answers the re-declared schema. *)
Theorem C06_session_redeclared_in_place :
  forall (st : sess) (f : nat) (o : op),
  cached_current f st -> in_place o st ->
  snd (step (fst (step st o)) (ODescribe f)) = current_view (fst (step st o)).
Proof. exact describe_after_in_place. Qed.
Print Assumptions C06_session_redeclared_in_place.

(* ... and a describe that answered the current view leaves the frame in that situation *)
Theorem C06_session_describe_establishes :
  forall (st : sess) (f : nat),
  not_cached f st \/ cached_current f st ->
  cached_current f (fst (step st (ODescribe f))) /\ s_schema (fst (step st (ODescribe f))) = s_schema st.
Proof. exact step_describe_establishes. Qed.
Print Assumptions C06_session_describe_establishes.

(* End to end after ANY history: if column k of the schema now carries a well-formed proper
   description (column names distinct), the entry .description reports at position k - through
   a fresh frame, or through the cached frame while the names are unchanged - has that column's
   own current type code, which resolves back to its type / precision / scale / element type. *)
Theorem C06_session_type_code_current :
  forall (st0 : sess) (ops : list op) (f k : nat) (n : str) (d : descr),
  let st := fst (run st0 ops) in
  not_cached f st \/ cached_current f st ->
  NoDup (map fst (s_schema st)) -> nth_error (s_schema st) k = Some (n, column_of d) ->
  wfb d = true -> proper d = true ->
  exists l d',
    snd (step st (ODescribe f)) = SDesc (s_schema st) (Ok l) /\
    List.length l = List.length (s_schema st) /\
    nth_error l k = Some ((n, type_code (column_of d), desc_prec (column_of d), desc_scale (column_of d)), Ok d') /\
    d_ty d' = d_ty (column_of d) /\
    d_prec d' = desc_prec (column_of d) /\ d_scale d' = desc_scale (column_of d) /\
    (forall e, d_elt (column_of d) = Some e -> d_elt d' = Some e).
Proof. exact session_type_code_current. Qed.
Print Assumptions C06_session_type_code_current.

(* Copies (round 6): .description of a frame built on a copy.copy / copy.deepcopy / pickle round trip
   of the schema object answers what the schema itself would answer now, and leaves the schema as it
   is; replacing a column object by a copy of itself changes nothing; and after a describe through a
   copy every frame of the session answers the current view. *)
Theorem C06_session_describe_copy :
  forall (st : sess) (how : nat),
  snd (step st (ODescribeCopy how)) = current_view st /\ s_schema (fst (step st (ODescribeCopy how))) = s_schema st.
Proof. exact step_describe_copy. Qed.
Print Assumptions C06_session_describe_copy.

Theorem C06_session_copy_column :
  forall (st : sess) (i how : nat), fst (step st (OCopyColumn i how)) = st.
Proof. exact step_copy_column. Qed.
Print Assumptions C06_session_copy_column.

Theorem C06_session_describe_after_copy :
  forall (st : sess) (how f : nat),
  snd (step (fst (step st (ODescribeCopy how))) (ODescribe f)) = current_view st.
Proof. exact describe_after_copy. Qed.
Print Assumptions C06_session_describe_after_copy.

(* ---------------- the constructor's own keyword arguments (round 4) ---------------- *)

(* Passing None for length / precision / scale / element_type means the same as omitting the
   keyword, in any mixture: the declaration behaves exactly as the type name alone (the
   [column_model] of rounds 1-3), for every string. *)
Theorem C06_explicit_none_is_unspecified :
  forall (ci : col_in) (kw : kwargs),
  unspecified kw = true ->
  decl_model ci kw = column_model (ci_X ci) (fun _ => ci_upper ci) (ci_text ci).
Proof. exact decl_model_unspecified. Qed.
Print Assumptions C06_explicit_none_is_unspecified.

(* Hence the end-to-end statement for such a declaration: a well-formed name in any letter case,
   keywords omitted or None -> the column carries what the name denotes and its reported type
   code resolves back. *)
Theorem C06_declared_column_kw :
  forall (ci : col_in) (kw : kwargs) (t : tname),
  unspecified kw = true ->
  wf_name t = true -> ci_upper ci = render t -> proper (denote t) = true ->
  exists c d',
    decl_model ci kw = ColOk c (type_code c) (desc_prec c) (desc_scale c) (Ok d') /\
    d_ty c = d_ty (denote t) /\ d_len c = d_len (denote t) /\ d_elt c = d_elt (denote t) /\
    (forall p, d_prec (denote t) = Some p -> d_prec c = Some p) /\
    (forall sc, d_scale (denote t) = Some sc -> d_scale c = Some sc) /\
    d_ty d' = d_ty c /\ d_prec d' = desc_prec c /\ d_scale d' = desc_scale c /\
    (forall e, d_elt c = Some e -> d_elt d' = Some e).
Proof. exact declared_column_kw. Qed.
Print Assumptions C06_declared_column_kw.

(* A keyword passed WITH a value is what the column carries, whatever the name says; the type is
   always the name's. *)
Theorem C06_explicit_values_kept :
  forall (kw : kwargs) (e0 : option str) (d : descr),
  d_ty (column_kw kw e0 d) = d_ty d /\
  (forall n, k_len kw = KVal n -> d_len (column_kw kw e0 d) = Some n) /\
  (forall n, k_prec kw = KVal n -> d_prec (column_kw kw e0 d) = Some n) /\
  (forall n, k_scale kw = KVal n -> d_scale (column_kw kw e0 d) = Some n) /\
  (forall m, e0 = Some m -> d_elt (column_kw kw e0 d) = Some m).
Proof. exact explicit_values_kept. Qed.
Print Assumptions C06_explicit_values_kept.

(* ---------------- non-vacuity and worked instances ---------------- *)

(* the hypotheses are satisfiable by non-trivial values, and letter-case variants exist *)
Example C06_nonvacuous_names :
  wf_name (NDecimal 38 38) = true /\ wf_name (NDecimal 10 2) = true /\ wf_name (NVarchar 18446744073709551616) = true /\
  wf_name (NBlob 0) = true /\ wf_name (NArray (txt "TIMESTAMP")) = true /\ wf_name (NBase (txt "JSONB")) = true /\
  upper (txt "dEcImAl(10,2)") = render (NDecimal 10 2) /\
  upper (txt "array<Timestamp>") = render (NArray (txt "TIMESTAMP")) /\
  from_name (txt "dEcImAl(10,2)") = Ok (mkD (TMember (txt "DECIMAL")) None (Some 10) (Some 2) None) /\
  from_name (txt "varchar[12]") = Ok (mkD (TMember (txt "VARCHAR")) (Some 12) None None None) /\
  from_name (txt "array<Timestamp>") = Ok (mkD (TMember (txt "ARRAY")) None None None (Some (txt "TIMESTAMP"))).
Proof. repeat split; vm_compute; reflexivity. Qed.

(* both outcomes of C06_total occur; the out-of-range and bad-element hypotheses are satisfiable *)
Example C06_nonvacuous_rejections :
  from_name (txt "STRING") = Raise ValueError /\
  from_name (txt "DECIMAL(39,1)") = Raise ValueError /\ ~ (1 <= 39 /\ 39 <= 38) /\
  from_name (txt "DECIMAL(5,6)") = Raise ValueError /\
  from_name (txt "ARRAY<ARRAY<INTEGER>>") = Raise ValueError /\
  from_name (txt "ARRAY<VARCHAR[10]>") = Raise ValueError /\
  from_name (txt "ARRAY<INT>") = Raise ValueError /\
  from_name (txt "DECIMAL(010, 02)trailing") = Ok (mkD (TMember (txt "DECIMAL")) None (Some 10) (Some 2) None) /\
  from_name (txt "list") = Ok (mkD (TMember (txt "ARRAY")) None None None None) /\
  name_of (mkD (TMember (txt "ARRAY")) None None None None) = None /\
  from_name (txt "Variant") = Ok (mkD TZero None None None None).
Proof. repeat split; try (vm_compute; reflexivity). intros [_ H]. vm_compute in H. apply H. reflexivity. Qed.

(* a non-trivial interpretation of non-ASCII characters: Arabic-Indic digits (U+0663 = 3, U+0661 = 1)
   matched by \d and valued by int(), and the dotless i upper-cased to I by str.upper *)
Example C06_nonvacuous_unicode :
  let X := ext_of [(1635, (Some 3, true, false)); (1633, (Some 1, true, false))] in
  from_name_gen X (fun _ => txt "DECIMAL(" ++ [1635; 44; 1633; 41]) [100] =
    Ok (mkD (TMember (txt "DECIMAL")) None (Some 3) (Some 1) None) /\
  from_name_gen X0 (fun _ => txt "TIME") [116; 305; 109; 101] = Ok (mkD (TMember (txt "TIME")) None None None None).
Proof. split; vm_compute; reflexivity. Qed.

(* columns and type codes: DECIMAL without parameters gets the context precision and 3/4 of it as
   scale and reports DECIMAL(28,21); VARCHAR[12] reports VARCHAR (the length is not in the code) *)
Example C06_nonvacuous_columns :
  column_model X0 upper (txt "decimal") =
    ColOk (mkD (TMember (txt "DECIMAL")) None (Some 28) (Some 21) None) (txt "DECIMAL(28,21)") (Some 28) (Some 21)
          (Ok (mkD (TMember (txt "DECIMAL")) None (Some 28) (Some 21) None)) /\
  column_model X0 upper (txt "varchar[12]") =
    ColOk (mkD (TMember (txt "VARCHAR")) (Some 12) None None None) (txt "VARCHAR") None None
          (Ok (mkD (TMember (txt "VARCHAR")) None None None None)) /\
  proper (denote (NArray (txt "DATE"))) = true /\ proper (denote (NDecimal 10 2)) = true.
Proof. repeat split; vm_compute; reflexivity. Qed.

(* why [proper] is needed: the placeholder member _MISSING_TYPE has value "0"; its type code
   resolves to the integer 0, not back to the member (cf. known finding F-C16-4b), and the code
   ARRAY<0> of an array of placeholders does not resolve at all *)
Example C06_placeholder_type_code :
  proper (plain (TMember ty_missing) None) = false /\
  from_name (type_code (column_of (plain (TMember ty_missing) None))) = Ok (plain TZero None) /\
  from_name (type_code (column_of (plain (TMember ty_array) (Some ty_missing)))) = Raise ValueError.
Proof. repeat split; vm_compute; reflexivity. Qed.

(* frames: two DECIMAL and two ARRAY columns with different parameters in one frame (plus a
   rejected one, which is left out of the schema); every entry renders its own column.  And why
   the distinct-names premise is there: under a repeated name the first column is rendered twice. *)
Local Open Scope string_scope.
Example C06_nonvacuous_frames :
  let col n s := ((txt n, txt s, [], []) : col_in) in
  let cols := [col "a" "DECIMAL(10,2)"; col "b" "decimal(5,1)"; col "x" "ARRAY<ARRAY>";
               col "c" "ARRAY<INTEGER>"; col "d" "array<varchar>"] in
  NoDup (map ci_name cols) /\
  ci_upper (col "b" "decimal(5,1)") = render (NDecimal 5 1) /\
  map (fun o => e_code (fst o)) (frame_desc cols) =
    [txt "DECIMAL(10,2)"; txt "DECIMAL(5,1)"; txt "ARRAY<INTEGER>"; txt "ARRAY<VARCHAR>"] /\
  map snd (frame_desc cols) =
    [Ok (mkD (TMember (txt "DECIMAL")) None (Some 10) (Some 2) None);
     Ok (mkD (TMember (txt "DECIMAL")) None (Some 5) (Some 1) None);
     Ok (mkD (TMember (txt "ARRAY")) None None None (Some (txt "INTEGER")));
     Ok (mkD (TMember (txt "ARRAY")) None None None (Some (txt "VARCHAR")))] /\
  map (fun o => e_code (fst o)) (frame_desc [col "a" "DECIMAL(10,2)"; col "a" "DECIMAL(5,1)"]) =
    [txt "DECIMAL(10,2)"; txt "DECIMAL(10,2)"].
Proof.
  cbv zeta. split.
  { repeat constructor; vm_compute; intuition discriminate. }
  repeat split; vm_compute; reflexivity.
Qed.

(* sessions: describe, re-declare amount and tags in place, describe through the SAME frame and
   through a new one, pop and re-add label with another type, describe: always the current codes.
   And what the premises exclude (faithful to the implementation's process-wide column_names
   cache): the same frame described again after the NAMES changed still lists the old names - an
   appended column is missing, a renamed one makes .description fail (None.type: AttributeError). *)
Example C06_nonvacuous_sessions :
  let col n s := ((txt n, txt s, [], []) : col_in) in
  let codes o := match o with SDesc _ (Ok l) => Some (map (fun x => e_code (fst x)) l) | _ => None end in
  let st0 := start [col "amount" "DECIMAL(10,2)"; col "tags" "ARRAY<INTEGER>"; col "label" "VARCHAR[12]"] in
  map codes (snd (run st0 [ODescribe 0; OReplace 0 (col "amount" "decimal(38,12)"); OReplace 1 (col "tags" "Array<Varchar>");
                           ODescribe 0; ODescribe 1; OPop (txt "label"); OAppend (col "label" "DECIMAL(5,5)"); ODescribe 2])) =
    [Some [txt "DECIMAL(10,2)"; txt "ARRAY<INTEGER>"; txt "VARCHAR"]; None; None;
     Some [txt "DECIMAL(38,12)"; txt "ARRAY<VARCHAR>"; txt "VARCHAR"];
     Some [txt "DECIMAL(38,12)"; txt "ARRAY<VARCHAR>"; txt "VARCHAR"]; None; None;
     Some [txt "DECIMAL(38,12)"; txt "ARRAY<VARCHAR>"; txt "DECIMAL(5,5)"]] /\
  in_place (OReplace 0 (col "amount" "decimal(38,12)")) (fst (step st0 (ODescribe 0))) /\
  cached_current 0%nat (fst (step st0 (ODescribe 0))) /\
  map codes (snd (run st0 [ODescribe 0; OAppend (col "extra" "DATE"); ODescribe 0])) =
    [Some [txt "DECIMAL(10,2)"; txt "ARRAY<INTEGER>"; txt "VARCHAR"]; None;
     Some [txt "DECIMAL(10,2)"; txt "ARRAY<INTEGER>"; txt "VARCHAR"]] /\
  snd (step (fst (run st0 [ODescribe 0; OReplace 0 (col "total" "BLOB")])) (ODescribe 0)) =
    SDesc (s_schema (fst (run st0 [ODescribe 0; OReplace 0 (col "total" "BLOB")]))) (Raise OtherExn).
Proof.
  cbv zeta. split; [vm_compute; reflexivity|]. split.
  { intros nc H. vm_compute in H. injection H as H. subst nc. vm_compute. reflexivity. }
  repeat split; vm_compute; reflexivity.
Qed.

(* keywords: DECIMAL(10,2) with precision=None, scale=None is DECIMAL(10,2) (not the defaults
   28,21); ARRAY<INTEGER> with element_type=None keeps INTEGER; an explicit value wins; a
   rejected element type name rejects the column *)
Example C06_nonvacuous_keywords :
  let col s := ((txt "c", txt s, [], []) : col_in) in
  unspecified (mkKw KNone KOmit KNone ENone) = true /\
  decl_model (col "DECIMAL(10,2)") (mkKw KNone KNone KNone ENone) =
    ColOk (mkD (TMember (txt "DECIMAL")) None (Some 10) (Some 2) None) (txt "DECIMAL(10,2)") (Some 10) (Some 2)
          (Ok (mkD (TMember (txt "DECIMAL")) None (Some 10) (Some 2) None)) /\
  decl_model (col "array<integer>") (mkKw KOmit KOmit KOmit ENone) =
    ColOk (mkD (TMember (txt "ARRAY")) None None None (Some (txt "INTEGER"))) (txt "ARRAY<INTEGER>") None None
          (Ok (mkD (TMember (txt "ARRAY")) None None None (Some (txt "INTEGER")))) /\
  decl_model (col "DECIMAL") (mkKw KOmit (KVal 10) KNone EOmit) =
    ColOk (mkD (TMember (txt "DECIMAL")) None (Some 10) (Some 7) None) (txt "DECIMAL(10,7)") (Some 10) (Some 7)
          (Ok (mkD (TMember (txt "DECIMAL")) None (Some 10) (Some 7) None)) /\
  decl_model (col "ARRAY") (mkKw KOmit KOmit KOmit (EName (col "date"))) =
    ColOk (mkD (TMember (txt "ARRAY")) None None None (Some (txt "DATE"))) (txt "ARRAY<DATE>") None None
          (Ok (mkD (TMember (txt "ARRAY")) None None None (Some (txt "DATE")))) /\
  decl_model (col "ARRAY") (mkKw KOmit KOmit KOmit (EName (col "STRUCT{a:INTEGER}"))) = ColRaise ValueError.
Proof. cbv zeta. repeat split; vm_compute; reflexivity. Qed.
