From Coq Require Import List NArith.
From Orso Require Import Base.C06_Defs Model.C06 Proofs.C06.
