(* C13 - Streaming histogram conserves mass, order, bounds and mean.
   Property theorems only (each closed by [exact] of a lemma of Proofs/C13*.v).

   [AA fadd fsub fmul fdiv fofZ ftrunc] is the model's arithmetic with EXACT comparisons
   on Q and ARBITRARY functions for +, -, *, /, int->number and int(): whatever those
   compute (binary64 rounding included, since every finite binary64 is a rational and the
   code compares values exactly), the statements below hold.  [QA] is the exact instance.
   [Inv] (unfolded by C13_invariant_meaning) = bins strictly increasing, at most [cap] of
   them, every count >= 1, every centre within [min, max], the gap cache well formed.
   "exists s', f ... = Some s'" also says that the call completes: no Python exception
   (list.index miss, min([]), index out of range) is reachable.

   Reference equivalence (the C13_reference theorems) is proved for any arithmetic whose addition commutes
   (exact rationals and binary64 both do): the reference is [ref_update] of Proofs/C13_ref.v -
   add to an equal centre, else insert in order, then while over capacity merge the FIRST
   closest adjacent pair - and the premise "the closest pair is unique at each step" is
   [uniq_trace] (only the tie between the in-place shortcut's two candidate gaps needs it).
   NOT proved (checked by the differential run in binary64 arithmetic): the mean under
   binary64 ("up to rounding"). *)
From Coq Require Import QArith ZArith List Sorted Lia.
From Orso Require Import Gen.C13_Disto Model.C13 Model.C13_Q Proofs.C13_lists Proofs.C13 Proofs.C13_hist Proofs.C13_prog Proofs.C13_cache Proofs.C13_ref.
Import ListNotations.
Open Scope Q_scope.

Theorem C13_invariant_meaning :
  forall s : @st Q, Inv s ->
  StronglySorted (fun a b : Q * Z => fst a < fst b) (bins s) /\
  (length (bins s) <= cap s)%nat /\
  Forall (fun b : Q * Z => (1 <= snd b)%Z) (bins s) /\
  (bins s <> [] -> exists mn mx, hmin s = Some mn /\ hmax s = Some mx /\
                                 Forall (fun b : Q * Z => mn <= fst b <= mx) (bins s)).
Proof. exact Inv_meaning. Qed.
Print Assumptions C13_invariant_meaning.

(* one weighted update, any arithmetic: completes, keeps the invariant, adds exactly the
   weight, keeps the capacity, and the bounds become min(old min, value) / max(old max, value) *)
Theorem C13_update :
  forall (fadd fsub fmul fdiv : Q -> Q -> Q) (fofZ : Z -> Q) (ftrunc : Q -> Z) (s : @st Q) (v : Q) (c : Z),
  Inv s -> (1 <= c)%Z ->
  exists s', update (AA fadd fsub fmul fdiv fofZ ftrunc) s v c = Some s' /\
             upd_facts fadd fsub fmul fdiv fofZ ftrunc s s' v c.
Proof. exact update_any. Qed.
Print Assumptions C13_update.

(* any history of weighted updates on a fresh histogram, any arithmetic *)
Theorem C13_update_history :
  forall (fadd fsub fmul fdiv : Q -> Q -> Q) (fofZ : Z -> Q) (ftrunc : Q -> Z) (c : nat) (l : list (Q * Z)),
  (2 <= c)%nat -> pos_counts l ->
  exists s, feed (AA fadd fsub fmul fdiv fofZ ftrunc) (empty c) l = Some s /\ Inv s /\
    mass (bins s) = mass l /\ cap s = c /\
    (l <> [] -> exists mn mx,
        hmin s = Some mn /\ hmax s = Some mx /\
        (forall b, In b l -> mn <= fst b <= mx) /\
        (exists b, In b l /\ mn = fst b) /\ (exists b, In b l /\ mx = fst b) /\
        within mn mx (bins s)).
Proof. exact history_any. Qed.
Print Assumptions C13_update_history.

(* merge(h1, h2): mass / order / capacity, bounds extended by h2's centres only (as documented) *)
Theorem C13_merge :
  forall (fadd fsub fmul fdiv : Q -> Q -> Q) (fofZ : Z -> Q) (ftrunc : Q -> Z) (s1 s2 : @st Q),
  Inv s1 -> Inv s2 ->
  exists s', merge (AA fadd fsub fmul fdiv fofZ ftrunc) s1 s2 = Some s' /\ Inv s' /\
    mass (bins s') = (mass (bins s1) + mass (bins s2))%Z /\ cap s' = cap s1 /\
    hmin s' = ext_min fadd fsub fmul fdiv fofZ ftrunc (hmin s1) (bins s2) /\
    hmax s' = ext_max fadd fsub fmul fdiv fofZ ftrunc (hmax s1) (bins s2).
Proof. exact merge_any. Qed.
Print Assumptions C13_merge.

(* h1 + h2: additionally the bounds are the extremes of both operands' bounds *)
Theorem C13_add :
  forall (fadd fsub fmul fdiv : Q -> Q -> Q) (fofZ : Z -> Q) (ftrunc : Q -> Z) (s1 s2 : @st Q),
  Inv s1 -> Inv s2 -> bins s2 <> [] ->
  exists s' m x m2 x2,
    hadd (AA fadd fsub fmul fdiv fofZ ftrunc) s1 s2 = Some s' /\ Inv s' /\
    mass (bins s') = (mass (bins s1) + mass (bins s2))%Z /\ cap s' = cap s1 /\
    ext_min fadd fsub fmul fdiv fofZ ftrunc (hmin s1) (bins s2) = Some m /\
    ext_max fadd fsub fmul fdiv fofZ ftrunc (hmax s1) (bins s2) = Some x /\
    hmin s2 = Some m2 /\ hmax s2 = Some x2 /\
    hmin s' = Some (pmin (AA fadd fsub fmul fdiv fofZ ftrunc) m m2) /\
    hmax s' = Some (pmax (AA fadd fsub fmul fdiv fofZ ftrunc) x x2).
Proof. exact hadd_any. Qed.
Print Assumptions C13_add.

(* bulk load of what numpy.unique / numpy.histogram produced (counts >= 0, not all 0) *)
Theorem C13_bulkload :
  forall (fadd fsub fmul fdiv : Q -> Q -> Q) (fofZ : Z -> Q) (ftrunc : Q -> Z)
         (s : @st Q) (pairs : list (Q * Z)) (dmin dmax : Q),
  Inv s -> Forall (fun p => (0 <= snd p)%Z) pairs ->
  (bins s <> [] \/ pairs = [] \/ exists p, In p pairs /\ (0 < snd p)%Z) ->
  exists s', bulkload (AA fadd fsub fmul fdiv fofZ ftrunc) s pairs dmin dmax = Some s' /\ Inv s' /\
    mass (bins s') = (mass (bins s) + mass pairs)%Z /\ cap s' = cap s /\
    (pairs <> [] -> exists m x,
       ext_min fadd fsub fmul fdiv fofZ ftrunc (hmin s) (filter (fun p => Z.ltb 0 (snd p)) pairs) = Some m /\
       ext_max fadd fsub fmul fdiv fofZ ftrunc (hmax s) (filter (fun p => Z.ltb 0 (snd p)) pairs) = Some x /\
       hmin s' = Some (pmin (AA fadd fsub fmul fdiv fofZ ftrunc) m dmin) /\
       hmax s' = Some (pmax (AA fadd fsub fmul fdiv fofZ ftrunc) x dmax)).
Proof. exact bulkload_any. Qed.
Print Assumptions C13_bulkload.

(* dump / load: same bins, same bounds, a valid histogram again (so further updates are
   covered by C13_update) *)
Theorem C13_dump_load :
  forall (fadd fsub fmul fdiv : Q -> Q -> Q) (fofZ : Z -> Q) (ftrunc : Q -> Z) (s : @st Q) (dc : nat),
  Inv s -> bins s <> [] -> (2 <= dc)%nat ->
  let s' := load (AA fadd fsub fmul fdiv fofZ ftrunc) dc (bins s) (hmin s) (hmax s) in
  Inv s' /\ bins s' = bins s /\ hmin s' = hmin s /\ hmax s' = hmax s.
Proof. exact load_any. Qed.
Print Assumptions C13_dump_load.


(* ANY finite program over several histograms - new histogram, weighted update, merge, +,
   bulk load, dump/load, load of valid bins, estimator queries - whose operations are well
   formed (capacities >= 2, counts >= 1, operands exist, "+" and dump/load on non-empty
   histograms, numpy's pairs with counts >= 0 and not all 0): no operation raises and every
   histogram observed along the way satisfies the invariant.  Any arithmetic.  This is the very
   interpreter ([run_prog]) the correspondence evaluates on the programs the implementation ran. *)
Theorem C13_any_program :
  forall (fadd fsub fmul fdiv : Q -> Q -> Q) (fofZ : Z -> Q) (ftrunc : Q -> Z)
         (p : list (@op Q)) (e : @env Q),
  env_inv e -> prog_ok fadd fsub fmul fdiv fofZ ftrunc e p ->
  Forall obs_ok (run_prog (AA fadd fsub fmul fdiv fofZ ftrunc) e p).
Proof. exact run_prog_ok. Qed.
Print Assumptions C13_any_program.

(* ---- the cached nearest-neighbour bookkeeping ("one stale cached difference silently merges
   the wrong bins").  [cache_exact s]: if the histogram carries a gap cache then the cache IS the
   list of adjacent differences of the current bins, and min_diff is a minimum of it.  ---- *)
Theorem C13_gap_cache_meaning :
  forall (fadd fsub fmul fdiv : Q -> Q -> Q) (fofZ : Z -> Q) (ftrunc : Q -> Z) (s : @st Q) (d : list Q),
  cache_exact fadd fsub fmul fdiv fofZ ftrunc s -> diffs s = Some d ->
  bins s <> [] /\
  (forall j, nth_error d j = match nth_error (bins s) j, nth_error (bins s) (S j) with
                             | Some x, Some y => Some (fsub (fst y) (fst x)) | _, _ => None end) /\
  match min_diff s with
  | Fin m => (forall x, In x d -> m <= x) /\ (exists x, In x d /\ x == m)
  | Inf => d = []
  end.
Proof. exact cache_exact_meaning. Qed.
Print Assumptions C13_gap_cache_meaning.

(* one update keeps the cache exact - for ANY arithmetic, any value, any weight, whichever of
   the four paths (exact hit, in-place merge, append, insert) it takes and however many merges
   _trim performs; no other hypothesis *)
Theorem C13_gap_cache_exact_update :
  forall (fadd fsub fmul fdiv : Q -> Q -> Q) (fofZ : Z -> Q) (ftrunc : Q -> Z) (s s' : @st Q) (v : Q) (c : Z),
  cache_exact fadd fsub fmul fdiv fofZ ftrunc s ->
  update (AA fadd fsub fmul fdiv fofZ ftrunc) s v c = Some s' ->
  cache_exact fadd fsub fmul fdiv fofZ ftrunc s'.
Proof. exact update_exact. Qed.
Print Assumptions C13_gap_cache_exact_update.

(* every histogram observed while running ANY program (new / update / merge / + / bulk load /
   dump-load / load of given bins / queries) has an exact cache; the only requirement is that
   load() is not handed an empty bin list (dump() of an empty histogram raises, so dump/load
   never does) - C13_load_empty_stale below shows the requirement is needed *)
Theorem C13_gap_cache_exact_program :
  forall (fadd fsub fmul fdiv : Q -> Q -> Q) (fofZ : Z -> Q) (ftrunc : Q -> Z)
         (p : list (@op Q)) (e : @env Q),
  env_exact fadd fsub fmul fdiv fofZ ftrunc e -> Forall op_exact_ok p ->
  Forall (obs_exact fadd fsub fmul fdiv fofZ ftrunc) (run_prog (AA fadd fsub fmul fdiv fofZ ftrunc) e p).
Proof. exact run_prog_exact. Qed.
Print Assumptions C13_gap_cache_exact_program.

(* outside the property's histories: load([], None, None) followed by an update leaves a cached
   gap for a one-bin histogram (observation recorded in DESIGN.md; dump() never produces it) *)
Example C13_load_empty_stale :
  option_map (fun s => (length (bins s), diffs s)) (update QA (load QA 2 [] None None) 1 1%Z)
  = Some (1%nat, Some [0]).
Proof. vm_compute. reflexivity. Qed.

(* ---- reference equivalence ---- *)
(* one update: on a valid histogram with an exact cache, whenever the closest pair after the
   insertion is unique, update() returns exactly the reference's bins; any arithmetic whose
   addition commutes *)
Theorem C13_reference_update :
  forall (fadd fsub fmul fdiv : Q -> Q -> Q) (fofZ : Z -> Q) (ftrunc : Q -> Z),
  (forall a b, fadd a b = fadd b a) ->
  forall (s s' : @st Q) (v : Q) (c : Z),
  Inv s -> cache_exact fadd fsub fmul fdiv fofZ ftrunc s ->
  update (AA fadd fsub fmul fdiv fofZ ftrunc) s v c = Some s' ->
  closest_unique (gaps (AA fadd fsub fmul fdiv fofZ ftrunc) (ref_insert (AA fadd fsub fmul fdiv fofZ ftrunc) (bins s) v c)) ->
  ref_update (AA fadd fsub fmul fdiv fofZ ftrunc) (cap s) (bins s) v c = Some (bins s').
Proof. exact update_ref. Qed.
Print Assumptions C13_reference_update.

(* every history from an empty histogram: it completes and ends on the reference's bins *)
Theorem C13_reference_history :
  forall (fadd fsub fmul fdiv : Q -> Q -> Q) (fofZ : Z -> Q) (ftrunc : Q -> Z),
  (forall a b, fadd a b = fadd b a) ->
  forall (cap0 : nat) (l : list (Q * Z)),
  (2 <= cap0)%nat -> pos_counts l -> uniq_trace fadd fsub fmul fdiv fofZ ftrunc cap0 [] l ->
  exists s', feed (AA fadd fsub fmul fdiv fofZ ftrunc) (empty cap0) l = Some s' /\
             ref_feed (AA fadd fsub fmul fdiv fofZ ftrunc) cap0 [] l = Some (bins s').
Proof. exact history_ref. Qed.
Print Assumptions C13_reference_history.

(* merge (hence + and bulkload, which feed update the same way) is the reference run on the
   right operand's bins *)
Theorem C13_reference_merge :
  forall (fadd fsub fmul fdiv : Q -> Q -> Q) (fofZ : Z -> Q) (ftrunc : Q -> Z),
  (forall a b, fadd a b = fadd b a) ->
  forall (s1 s2 : @st Q),
  Inv s1 -> cache_exact fadd fsub fmul fdiv fofZ ftrunc s1 -> Inv s2 ->
  uniq_trace fadd fsub fmul fdiv fofZ ftrunc (cap s1) (bins s1) (bins s2) ->
  exists s', merge (AA fadd fsub fmul fdiv fofZ ftrunc) s1 s2 = Some s' /\ Inv s' /\
             cache_exact fadd fsub fmul fdiv fofZ ftrunc s' /\
             ref_feed (AA fadd fsub fmul fdiv fofZ ftrunc) (cap s1) (bins s1) (bins s2) = Some (bins s').
Proof. exact merge_ref. Qed.
Print Assumptions C13_reference_merge.

(* "+" of independently built histograms: same bins as merge, hence the reference run too *)
Theorem C13_reference_add :
  forall (fadd fsub fmul fdiv : Q -> Q -> Q) (fofZ : Z -> Q) (ftrunc : Q -> Z),
  (forall a b, fadd a b = fadd b a) ->
  forall (s1 s2 : @st Q),
  Inv s1 -> cache_exact fadd fsub fmul fdiv fofZ ftrunc s1 -> Inv s2 -> bins s2 <> [] ->
  uniq_trace fadd fsub fmul fdiv fofZ ftrunc (cap s1) (bins s1) (bins s2) ->
  exists s', hadd (AA fadd fsub fmul fdiv fofZ ftrunc) s1 s2 = Some s' /\ Inv s' /\
             ref_feed (AA fadd fsub fmul fdiv fofZ ftrunc) (cap s1) (bins s1) (bins s2) = Some (bins s').
Proof. exact hadd_ref. Qed.
Print Assumptions C13_reference_add.

(* a bulk load is the reference run on the (value or midpoint, count) pairs numpy produced *)
Theorem C13_reference_bulkload :
  forall (fadd fsub fmul fdiv : Q -> Q -> Q) (fofZ : Z -> Q) (ftrunc : Q -> Z),
  (forall a b, fadd a b = fadd b a) ->
  forall (s : @st Q) (pairs : list (Q * Z)) (dmin dmax : Q),
  Inv s -> cache_exact fadd fsub fmul fdiv fofZ ftrunc s -> pairs <> [] ->
  uniq_trace fadd fsub fmul fdiv fofZ ftrunc (cap s) (bins s) (filter (fun p => Z.ltb 0 (snd p)) pairs) ->
  exists s', bulkload (AA fadd fsub fmul fdiv fofZ ftrunc) s pairs dmin dmax = Some s' /\
             ref_feed (AA fadd fsub fmul fdiv fofZ ftrunc) (cap s) (bins s)
                      (filter (fun p => Z.ltb 0 (snd p)) pairs) = Some (bins s').
Proof. exact bulkload_ref. Qed.
Print Assumptions C13_reference_bulkload.

(* the exact-arithmetic instance *)
Theorem C13_reference_history_exact :
  forall (cap0 : nat) (l : list (Q * Z)),
  (2 <= cap0)%nat -> pos_counts l -> uniq_trace Qplus Qminus Qmult Qdiv inject_Z Qtrunc cap0 [] l ->
  exists s', feed QA (empty cap0) l = Some s' /\ ref_feed QA cap0 [] l = Some (bins s').
Proof. exact history_ref_exact. Qed.
Print Assumptions C13_reference_history_exact.

(* non-vacuity: a 13-step history on 3 bins (in-place merges and trims) meets the uniqueness
   premise, and both sides evaluate to the same three bins *)
Example C13_reference_nonvacuous :
  let l := map (fun z => (inject_Z z, 1%Z)) [10; 20; 40; 24; 13; 80; 81; 5; 36; 36; 7; 100; 2]%Z in
  uniq_trace Qplus Qminus Qmult Qdiv inject_Z Qtrunc 3 [] l /\
  option_map (map (fun b => (Qred (fst b), snd b))) (ref_feed QA 3 [] l)
    = Some [(81 # 7, 7%Z); (112 # 3, 3%Z); (87 # 1, 3%Z)] /\
  option_map (fun s => map (fun b => (Qred (fst b), snd b)) (bins s)) (feed QA (empty 3) l)
    = Some [(81 # 7, 7%Z); (112 # 3, 3%Z); (87 # 1, 3%Z)].
Proof.
  split; [apply uniq_traceb_sound; vm_compute; reflexivity|]. split; vm_compute; reflexivity.
Qed.

(* the default capacity the source gives a reloaded histogram satisfies that premise *)
Theorem C13_default_capacity : (2 <= BIN_COUNT)%nat /\ (1 <= BULK_FACTOR)%nat.
Proof. unfold BIN_COUNT, BULK_FACTOR. split; repeat constructor. Qed.
Print Assumptions C13_default_capacity.

(* exact arithmetic: the first moment is conserved, so the weighted mean of the bins is
   exactly the mean of the inserted values *)
Theorem C13_mean_exact :
  forall (c : nat) (l : list (Q * Z)),
  (2 <= c)%nat -> pos_counts l ->
  exists s, feed QA (empty c) l = Some s /\ Inv s /\
            moment (bins s) == moment l /\ mass (bins s) = mass l.
Proof. exact history_mean. Qed.
Print Assumptions C13_mean_exact.

Theorem C13_mean_exact_step :
  forall (s : @st Q) (v : Q) (c : Z), Inv s -> (1 <= c)%Z ->
  exists s', update QA s v c = Some s' /\ Inv s' /\
             moment (bins s') == moment (bins s) + v * inject_Z c /\
             mass (bins s') = (mass (bins s) + c)%Z.
Proof. exact update_moment. Qed.
Print Assumptions C13_mean_exact_step.

(* Non-vacuity: an 11-step history on a 3-bin histogram (in-place merges, trims, cached
   gaps) evaluated in exact arithmetic. *)
Example C13_nonvacuous :
  let l := map (fun z => (inject_Z z, 1%Z)) [10; 20; 30; 25; 12; 28; 40; 11; 29; 29; 5]%Z in
  pos_counts l /\
  option_map (fun s => (map (fun b => (Qred (fst b), snd b)) (bins s), option_map Qred (hmin s), option_map Qred (hmax s)))
             (feed QA (empty 3) l)
  = Some ([(19 # 2, 4%Z); (161 # 6, 6%Z); (40 # 1, 1%Z)], Some (5 # 1), Some (40 # 1)).
Proof.
  split; [|vm_compute; reflexivity].
  unfold pos_counts. rewrite Forall_forall. intros b Hb. apply in_map_iff in Hb as (z & <- & _). cbn. lia.
Qed.
