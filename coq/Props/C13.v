From Coq Require Import List ZArith Lia.
From Orso Require Import Gen.C13_Disto Model.C13 Model.C13_Q.
Theorem C13_placeholder : 1 <= BULK_FACTOR.
Proof. unfold BULK_FACTOR; lia. Qed.
Print Assumptions C13_placeholder.
