(* C17 - Schema union and lookup are identity-based, ordered and non-mutating.
   Property theorems only; each is closed by lemmas from Proofs/C17.v and followed by Print Assumptions.

   All statements are about the definitions of Model/C17.v that the correspondence evaluates, for
   arbitrary types I (identities), T (names / aliases / keys), P (which column object), an arbitrary
   case normalisation [lower], and comparisons [ieqb] / [teqb]; where a statement needs the comparison
   to coincide with equality (Python str ==) that is an explicit premise.

   Vocabulary (Proofs/C17.v):  [nub ieqb l] keeps the first occurrence of every identity of l, in order;
   [unseen ieqb old l] keeps the columns of l whose identity no column of [old] has;
   [subseq a b]: a is b with elements left out, order kept;  [pops k o]: o is pop_column on schema k. *)
From Coq Require Import List ZArith Bool.
From Orso Require Import Model.C17 Proofs.C17 Proofs.C17_Iter Proofs.C17_Session Proofs.C17_IAdd.
Import ListNotations.

(* ---------------- union ---------------- *)

(* The sum lists the left columns, then the first occurrences of those right-hand columns whose
   identity is not already present - as one list equation. *)
Theorem C17_union_columns :
  forall (I T P : Type) (ieqb : I -> I -> bool),
  (forall a b : I, ieqb a b = true <-> a = b) ->
  forall s1 s2 : schema I T P,
  scols (add ieqb s1 s2) = scols s1 ++ unseen ieqb (scols s1) (nub ieqb (scols s2)).
Proof. exact add_columns. Qed.
Print Assumptions C17_union_columns.

(* The same, read declaratively: the appended part is in the right operand's order, has every identity
   once, holds only right-hand columns with an identity the left lacks, and for every such right-hand
   column holds the FIRST right-hand column of that identity. *)
Theorem C17_union_characterised :
  forall (I T P : Type) (ieqb : I -> I -> bool),
  (forall a b : I, ieqb a b = true <-> a = b) ->
  forall s1 s2 : schema I T P,
  exists ext : list (col I T P),
    scols (add ieqb s1 s2) = scols s1 ++ ext /\
    subseq ext (scols s2) /\
    NoDup (map cid ext) /\
    (forall c, In c ext -> In c (scols s2) /\ ~ In (cid c) (map cid (scols s1))) /\
    (forall c, In c (scols s2) -> ~ In (cid c) (map cid (scols s1)) ->
       exists d, find (fun x => ieqb (cid x) (cid c)) (scols s2) = Some d /\ In d ext).
Proof. exact add_characterised. Qed.
Print Assumptions C17_union_characterised.

(* Right operand without repeated identities: the appended part is exactly its unseen columns. *)
Theorem C17_union_distinct_right :
  forall (I T P : Type) (ieqb : I -> I -> bool),
  (forall a b : I, ieqb a b = true <-> a = b) ->
  forall s1 s2 : schema I T P,
  NoDup (map cid (scols s2)) ->
  scols (add ieqb s1 s2) = scols s1 ++ unseen ieqb (scols s1) (scols s2).
Proof. exact add_columns_nodup. Qed.
Print Assumptions C17_union_distinct_right.

(* The sum keeps the left schema's name and aliases. *)
Theorem C17_union_name_aliases :
  forall (I T P : Type) (ieqb : I -> I -> bool) (s1 s2 : schema I T P),
  sname (add ieqb s1 s2) = sname s1 /\ saliases (add ieqb s1 s2) = saliases s1.
Proof. exact add_name. Qed.
Print Assumptions C17_union_name_aliases.

(* Chains: (a + b) + c and a + (b + c) are the same schema. *)
Theorem C17_union_assoc :
  forall (I T P : Type) (ieqb : I -> I -> bool),
  (forall a b : I, ieqb a b = true <-> a = b) ->
  forall a b c : schema I T P,
  add ieqb (add ieqb a b) c = add ieqb a (add ieqb b c).
Proof. exact add_assoc. Qed.
Print Assumptions C17_union_assoc.

(* Chains of any length: s + s_1 + ... + s_n lists s, then the first occurrences of the unseen
   identities of s_1 ++ ... ++ s_n, and has the name and aliases of s. *)
Theorem C17_union_chain :
  forall (I T P : Type) (ieqb : I -> I -> bool),
  (forall a b : I, ieqb a b = true <-> a = b) ->
  forall (ss : list (schema I T P)) (s : schema I T P),
  scols (fold_left (add ieqb) ss s) =
    scols s ++ unseen ieqb (scols s) (nub ieqb (concat (map scols ss))) /\
  sname (fold_left (add ieqb) ss s) = sname s /\
  saliases (fold_left (add ieqb) ss s) = saliases s.
Proof. exact chain_columns. Qed.
Print Assumptions C17_union_chain.

(* Neither operand is modified: in a store of schemas, s_i + s_j appends the model sum and, over EVERY
   later history (further sums, lookups, removals on other schemas - including removals on the sum),
   each operand keeps its value as long as pop_column is not called on that operand itself; likewise the
   sum is untouched by removals on its operands. *)
Theorem C17_operands_unchanged :
  forall (I T P : Type) (ieqb : I -> I -> bool) (teqb : T -> T -> bool) (lower : T -> T)
         (st : list (schema I T P)) (i j : nat) (a b : schema I T P) (ops : list (op T)),
  nth_error st i = Some a -> nth_error st j = Some b ->
  step ieqb teqb lower st (OAdd i j) = (st ++ [add ieqb a b], XNew (sname a) (saliases a)) /\
  (let st' := fst (run ieqb teqb lower (st ++ [add ieqb a b]) ops) in
   (forallb (fun o => negb (pops i o)) ops = true -> nth_error st' i = Some a) /\
   (forallb (fun o => negb (pops j o)) ops = true -> nth_error st' j = Some b) /\
   (forallb (fun o => negb (pops (length st) o)) ops = true ->
      nth_error st' (length st) = Some (add ieqb a b))).
Proof. exact add_in_history. Qed.
Print Assumptions C17_operands_unchanged.

(* Over any history, a schema on which pop_column is never called keeps its value; calls other than
   sums and removals leave the whole store as it was. *)
Theorem C17_history_frame :
  forall (I T P : Type) (ieqb : I -> I -> bool) (teqb : T -> T -> bool) (lower : T -> T),
  (forall (ops : list (op T)) (st : list (schema I T P)) (k : nat) (s : schema I T P),
     nth_error st k = Some s -> forallb (fun o => negb (pops k o)) ops = true ->
     nth_error (fst (run ieqb teqb lower st ops)) k = Some s) /\
  (forall (st : list (schema I T P)) (o : op T),
     read_only o = true -> fst (step ieqb teqb lower st o) = st).
Proof. intros I T P ieqb teqb lower. split; [apply run_frame | apply read_only_inert]. Qed.
Print Assumptions C17_history_frame.

(* ---------------- lookup ---------------- *)

(* What "bears the key" means: case-sensitively the key is the column's name or one of its aliases;
   ignoring case the same after [lower] on both sides. *)
Theorem C17_bears_meaning :
  forall (I T P : Type) (teqb : T -> T -> bool) (lower : T -> T),
  (forall a b : T, teqb a b = true <-> a = b) ->
  forall (key : T) (c : col I T P),
  (bears teqb lower false key c = true <-> In key (all_names c)) /\
  (bears teqb lower true key c = true <-> In (lower key) (map lower (all_names c))) /\
  (forall x, In x (all_names c) <-> x = cname c \/ exists a, caliases c = Some a /\ In x a).
Proof.
  intros I T P teqb lower H key c.
  split; [apply bears_cs_iff; exact H | split; [apply bears_ci_iff; exact H | intros x; apply all_names_spec]].
Qed.
Print Assumptions C17_bears_meaning.

(* find_column returns the FIRST column (in list order) that bears the key, and None exactly when no
   column does. *)
Theorem C17_find_first_bearer :
  forall (I T P : Type) (teqb : T -> T -> bool) (lower : T -> T) (ci : bool) (key : T) (s : schema I T P),
  (forall c, find_column teqb lower ci key s = Some c <->
     exists pre post, scols s = pre ++ c :: post /\ bears teqb lower ci key c = true /\
                      (forall d, In d pre -> bears teqb lower ci key d = false)) /\
  (find_column teqb lower ci key s = None <->
     forall d, In d (scols s) -> bears teqb lower ci key d = false).
Proof. intros. split; [intros c; apply find_column_first | apply find_column_none]. Qed.
Print Assumptions C17_find_first_bearer.

(* Agreement with positional access and iteration order: the column found is column(i) for some i (and
   column(i - n) counting from the end), iteration and column_names show its name at i, and no column(j),
   j < i, bears the key. *)
Theorem C17_find_positional :
  forall (I T P : Type) (teqb : T -> T -> bool) (lower : T -> T) (ci : bool) (key : T)
         (s : schema I T P) (c : col I T P),
  find_column teqb lower ci key s = Some c ->
  exists i : nat,
    i < length (scols s) /\
    column_at (Z.of_nat i) s = Ok c /\
    column_at (Z.of_nat i - Z.of_nat (length (scols s))) s = Ok c /\
    nth_error (iter_names s) i = Some (cname c) /\
    nth_error (column_names s) i = Some (cname c) /\
    bears teqb lower ci key c = true /\
    (forall (j : nat) (d : col I T P), j < i -> column_at (Z.of_nat j) s = Ok d ->
       bears teqb lower ci key d = false).
Proof. exact find_column_positional. Qed.
Print Assumptions C17_find_positional.

(* Agreement with the list of all names and aliases: a key is found exactly when all_column_names
   lists it (after [lower] on both sides when case is ignored). *)
Theorem C17_find_all_names :
  forall (I T P : Type) (teqb : T -> T -> bool) (lower : T -> T),
  (forall a b : T, teqb a b = true <-> a = b) ->
  forall (key : T) (s : schema I T P),
  ((exists c, find_column teqb lower false key s = Some c) <-> In key (all_column_names s)) /\
  ((exists c, find_column teqb lower true key s = Some c) <-> In (lower key) (map lower (all_column_names s))).
Proof. exact find_column_all_names. Qed.
Print Assumptions C17_find_all_names.

(* Iteration yields the column names in column order (as column_names does), and every name it yields
   at position i is found by lookup, at a position j <= i. *)
Theorem C17_iteration :
  forall (I T P : Type) (teqb : T -> T -> bool) (lower : T -> T),
  (forall a b : T, teqb a b = true <-> a = b) ->
  forall (s : schema I T P),
  iter_names s = column_names s /\ column_names s = map cname (scols s) /\
  (forall (i : nat) (n : T), nth_error (iter_names s) i = Some n ->
     exists (c d : col I T P) (j : nat),
       column_at (Z.of_nat i) s = Ok c /\ cname c = n /\
       find_column teqb lower false n s = Some d /\ j <= i /\ column_at (Z.of_nat j) s = Ok d).
Proof.
  intros I T P teqb lower H s.
  split; [exact (proj1 (iter_is_column_names I T P s))|].
  split; [exact (proj1 (proj2 (iter_is_column_names I T P s)))|].
  apply iter_names_found. exact H.
Qed.
Print Assumptions C17_iteration.

(* column(int) is Python indexing: inside [-n, n) it returns the column at that position (negative
   counts from the end) and never raises; outside it raises IndexError.  column(str) is find_column. *)
Theorem C17_column_access :
  forall (I T P : Type) (teqb : T -> T -> bool) (lower : T -> T) (s : schema I T P),
  let n := Z.of_nat (length (scols s)) in
  (forall z, (- n <= z < n)%Z ->
     exists c, column_at z s = Ok c /\
               nth_error (scols s) (Z.to_nat (if (z <? 0)%Z then z + n else z)%Z) = Some c) /\
  (forall z, (z < - n \/ n <= z)%Z -> column_at z s = Raise IndexError) /\
  (forall key, column_by_name teqb lower key s = find_column teqb lower false key s).
Proof.
  intros I T P teqb lower s n.
  split; [intros z; apply column_at_in_range|].
  split; [intros z; apply column_at_out_of_range | intros key; apply column_by_name_is_find].
Qed.
Print Assumptions C17_column_access.

(* ---------------- removal ---------------- *)

(* pop_column n removes exactly the first column NAMED n, returns it, keeps every other column in
   order and the schema's name and aliases; when no column is named n it returns None and changes
   nothing. *)
Theorem C17_pop_exact :
  forall (I T P : Type) (teqb : T -> T -> bool),
  (forall a b : T, teqb a b = true <-> a = b) ->
  forall (n : T) (s : schema I T P),
  match pop_column teqb n s with
  | (Some c, s') =>
      exists pre post, scols s = pre ++ c :: post /\ cname c = n /\
        (forall d, In d pre -> cname d <> n) /\
        s' = mksch (sname s) (saliases s) (pre ++ post)
  | (None, s') => (forall d, In d (scols s) -> cname d <> n) /\ s' = s
  end.
Proof. exact pop_exact. Qed.
Print Assumptions C17_pop_exact.

(* Agreement of removal with lookup: when lookup of n returns a column that is NAMED n, pop_column n
   deletes exactly that column (same position) and nothing else.
   Full-strength reading "pop_column n always deletes the column find_column n returns" is false, see
   C17_pop_vs_find_alias_refuted; the guard [cname c = n] is what is missing. *)
Theorem C17_pop_agrees_with_find_partial :
  forall (I T P : Type) (teqb : T -> T -> bool) (lower : T -> T),
  (forall a b : T, teqb a b = true <-> a = b) ->
  forall (n : T) (s : schema I T P) (c : col I T P),
  find_column teqb lower false n s = Some c -> cname c = n ->
  exists pre post, scols s = pre ++ c :: post /\
    (forall d, In d pre -> bears teqb lower false n d = false) /\
    pop_column teqb n s = (Some c, mksch (sname s) (saliases s) (pre ++ post)).
Proof. exact pop_agrees_with_find. Qed.
Print Assumptions C17_pop_agrees_with_find_partial.

(* find_column matches names AND aliases, pop_column names only: with columns [x (alias y); y] the
   lookup of "y" returns the first column, pop_column "y" deletes the second. *)
Theorem C17_pop_vs_find_alias_refuted :
  exists (s : cschema) (n : text) (c d : ccol),
    find_column text_eqb ascii_lower false n s = Some c /\
    fst (pop_column text_eqb n s) = Some d /\ ctag c <> ctag d.
Proof. exact pop_vs_find_alias_refuted. Qed.
Print Assumptions C17_pop_vs_find_alias_refuted.

(* "and nothing else", seen through the other observers: after removing the column at pre|c|post every
   lookup whose key c does not bear gives what it gave before, lookup in general is lookup over
   pre ++ post, column_names / all_column_names lose exactly c's entries, the length drops by one. *)
Theorem C17_pop_keeps_other_lookups :
  forall (I T P : Type) (teqb : T -> T -> bool) (lower : T -> T)
         (s : schema I T P) (pre : list (col I T P)) (c : col I T P) (post : list (col I T P)),
  scols s = pre ++ c :: post ->
  let s' := mksch (sname s) (saliases s) (pre ++ post) in
  (forall ci key, bears teqb lower ci key c = false ->
     find_column teqb lower ci key s' = find_column teqb lower ci key s) /\
  (forall ci key, find_column teqb lower ci key s' =
     match find (bears teqb lower ci key) pre with
     | Some d => Some d
     | None => find (bears teqb lower ci key) post
     end) /\
  column_names s = map cname pre ++ cname c :: map cname post /\
  column_names s' = map cname pre ++ map cname post /\
  all_column_names s = flat_map all_names pre ++ all_names c ++ flat_map all_names post /\
  all_column_names s' = flat_map all_names pre ++ flat_map all_names post /\
  length (scols s) = S (length (scols s')).
Proof. exact removal_keeps_other_lookups. Qed.
Print Assumptions C17_pop_keeps_other_lookups.

(* Interleavings: inside a history pop_column acts on the store exactly as the function above on its
   target schema (C17_history_frame covers all the other schemas). *)
Theorem C17_pop_in_history :
  forall (I T P : Type) (ieqb : I -> I -> bool) (teqb : T -> T -> bool) (lower : T -> T)
         (st : list (schema I T P)) (i : nat) (n : T) (s : schema I T P),
  nth_error st i = Some s ->
  step ieqb teqb lower st (OPop i n) =
    (set_nth st i (snd (pop_column teqb n s)), XCol (option_map ctag (fst (pop_column teqb n s)))) /\
  nth_error (fst (step ieqb teqb lower st (OPop i n))) i = Some (snd (pop_column teqb n s)) /\
  length (fst (step ieqb teqb lower st (OPop i n))) = length st.
Proof. exact pop_in_history. Qed.
Print Assumptions C17_pop_in_history.

(* ---------------- iteration interleaved with removals (round 2) ---------------- *)
(* Histories with open iterators: [hstep] / [hrun] of Model/C17.v - HOp o is a plain call, HOpen i is
   `it = iter(store[i])` (the iterator gets the next free number), HNext k is `next(it_k)`.
   Vocabulary (Proofs/C17_Iter.v): [plain hops] = the plain calls of hops; [select f hops xs] = the
   entries of the per-call list xs at the calls satisfying f; [is_next k] = "is next(it_k)";
   [expected_nexts l m] = what m successive next() calls return on an iterator that still has the
   names l to yield: the names of l in order, then StopIteration for ever;
   [loop_hops pred i k names] = for each n of names: next(it_k), then store[i].pop_column(n) if pred n. *)

(* Iteration lists the columns present when it was opened: iter(store[i]) consumes nothing and changes
   no schema, and over EVERY later history - removals on store[i] itself, sums, lookups, other iterators
   opened and advanced in between - the successive next() calls on it return the column names store[i]
   had at that moment, each once, in positional order, then StopIteration. *)
Theorem C17_iterator_snapshot :
  forall (I T P : Type) (ieqb : I -> I -> bool) (teqb : T -> T -> bool) (lower : T -> T) (peqb : P -> P -> bool)
         (st : list (schema I T P)) (its : iters T) (i : nat) (s : schema I T P) (hops : list (hop T)),
  nth_error st i = Some s ->
  hstep ieqb teqb lower peqb (st, its) (HOpen i) = ((st, its ++ [column_names s]), XOpened) /\
  map fst (select (is_next (length its)) hops (snd (hrun ieqb teqb lower peqb (st, its ++ [column_names s]) hops))) =
    expected_nexts (column_names s) (length (filter (is_next (length its)) hops)).
Proof. exact open_iterator_snapshot. Qed.
Print Assumptions C17_iterator_snapshot.

(* The same for an iterator at any point of its life (remaining names l), and one call at a time: next()
   on it yields the head of l and leaves the tail (StopIteration on the empty list, which stays empty);
   every other call leaves it exactly as it is. *)
Theorem C17_iterator_steps :
  forall (I T P : Type) (ieqb : I -> I -> bool) (teqb : T -> T -> bool) (lower : T -> T) (peqb : P -> P -> bool)
         (st : list (schema I T P)) (its : iters T) (k : nat) (l : list T),
  nth_error its k = Some l ->
  (forall h : hop T,
     if is_next k h
     then match l with
          | n :: r => snd (hstep ieqb teqb lower peqb (st, its) h) = XItem n /\
                      nth_error (snd (fst (hstep ieqb teqb lower peqb (st, its) h))) k = Some r
          | [] => snd (hstep ieqb teqb lower peqb (st, its) h) = XStop /\
                  nth_error (snd (fst (hstep ieqb teqb lower peqb (st, its) h))) k = Some []
          end
     else nth_error (snd (fst (hstep ieqb teqb lower peqb (st, its) h))) k = Some l) /\
  (forall hops : list (hop T),
     map fst (select (is_next k) hops (snd (hrun ieqb teqb lower peqb (st, its) hops))) =
       expected_nexts l (length (filter (is_next k) hops))).
Proof.
  intros I T P ieqb teqb lower peqb st its k l H. split.
  - intros h. apply hstep_iterator. exact H.
  - intros hops. apply iterator_yields. exact H.
Qed.
Print Assumptions C17_iterator_steps.

(* Opening and advancing iterators (and lookup tables) modifies no schema: in a history without the
   caller's in-place mutations ([mutates]: rename / set aliases / insert / del, round 3) the schemas are
   those after its plain calls alone, and the plain calls return (and leave in every schema) what they
   do without the iterators - so C17_operands_unchanged, C17_history_frame and C17_pop_in_history hold
   verbatim for histories with iterators. *)
Theorem C17_iterators_leave_schemas :
  forall (I T P : Type) (ieqb : I -> I -> bool) (teqb : T -> T -> bool) (lower : T -> T) (peqb : P -> P -> bool)
         (hops : list (hop T)) (st : list (schema I T P)) (its : iters T),
  forallb (fun h => negb (mutates h)) hops = true ->
  fst (fst (hrun ieqb teqb lower peqb (st, its) hops)) = fst (run ieqb teqb lower st (plain hops)) /\
  select is_plain hops (snd (hrun ieqb teqb lower peqb (st, its) hops)) = snd (run ieqb teqb lower st (plain hops)).
Proof. exact hrun_store. Qed.
Print Assumptions C17_iterators_leave_schemas.

(* Iteration agrees with removal by name: `for n in s: if pred(n): s.pop_column(n)` removes exactly the
   columns whose name pred selects - every one of them, also adjacent ones and repeated names - and
   keeps the others in order with the schema's name and aliases; with pred = always it empties s. *)
Theorem C17_remove_while_iterating_fn :
  forall (I T P : Type) (teqb : T -> T -> bool),
  (forall a b : T, teqb a b = true <-> a = b) ->
  forall (pred : T -> bool) (s : schema I T P),
  drop_loop teqb pred s = mksch (sname s) (saliases s) (filter (fun c => negb (pred (cname c))) (scols s)) /\
  scols (drop_loop teqb (fun _ => true) s) = [].
Proof.
  intros I T P teqb H pred s. split; [apply drop_loop_filter; exact H | apply drain_empties; exact H].
Qed.
Print Assumptions C17_remove_while_iterating_fn.

(* ... and as the history the correspondence runs: open an iterator on store[i], for each name it yields
   remove it when pred selects it, then call next() once more.  The iterator yields every column name
   store[i] had when the loop started, in positional order, then StopIteration - although columns were
   removed under it - and afterwards store[i] holds exactly the columns pred does not select; all other
   schemas are as before. *)
Theorem C17_remove_while_iterating :
  forall (I T P : Type) (ieqb : I -> I -> bool) (teqb : T -> T -> bool) (lower : T -> T) (peqb : P -> P -> bool),
  (forall a b : T, teqb a b = true <-> a = b) ->
  forall (pred : T -> bool) (st : list (schema I T P)) (its : iters T) (i : nat) (s : schema I T P),
  nth_error st i = Some s ->
  let k := length its in
  let hops := HOpen i :: loop_hops pred i k (column_names s) ++ [HNext k] in
  fst (fst (hrun ieqb teqb lower peqb (st, its) hops)) =
    set_nth st i (mksch (sname s) (saliases s) (filter (fun c => negb (pred (cname c))) (scols s))) /\
  map fst (select (is_next k) hops (snd (hrun ieqb teqb lower peqb (st, its) hops))) =
    map (fun n => XItem n) (column_names s) ++ [XStop].
Proof. exact remove_while_iterating. Qed.
Print Assumptions C17_remove_while_iterating.

(* ---------------- sessions on the same objects (round 3) ---------------- *)
(* Vocabulary (Proofs/C17_Session.v): [target h] = the schema a read-only call h asks (find_column,
   column(int), column(str), all_column_names, column_names, iteration, HTable = a whole lookup table);
   [answer h s] = its answer computed from the schema VALUE s alone (find_column etc. of Model/C17.v);
   HRename / HSetAliases = the caller assigns .name / .aliases of a column OBJECT (known by its tag: every
   occurrence in every schema changes); HInsertFrom / HDelAt = the caller edits a schema's column list. *)

(* Lookups have no memory: after ANY history - earlier lookups of any key in either mode, removals, sums,
   in-place mutations, iterators - a lookup on schema i returns [answer h s] for the value s schema i has
   at that moment (and whatever is called afterwards does not change what it returned); the lookup itself
   changes neither a schema nor an iterator; and two states reached by different histories in which
   schema i has the same value give the same answer. *)
Theorem C17_session_lookup :
  forall (I T P : Type) (ieqb : I -> I -> bool) (teqb : T -> T -> bool) (lower : T -> T) (peqb : P -> P -> bool)
         (h : hop T) (i : nat),
  target h = Some i ->
  (forall (before after : list (hop T)) (st : list (schema I T P)) (its : iters T) (s : schema I T P),
     nth_error (fst (fst (hrun ieqb teqb lower peqb (st, its) before))) i = Some s ->
     nth_error (map fst (snd (hrun ieqb teqb lower peqb (st, its) (before ++ h :: after)))) (length before)
       = Some (answer teqb lower h s)) /\
  (forall (st : list (schema I T P)) (its : iters T) (s : schema I T P),
     nth_error st i = Some s ->
     hstep ieqb teqb lower peqb (st, its) h = ((st, its), answer teqb lower h s)) /\
  (forall (st st' : list (schema I T P)) (its its' : iters T),
     nth_error st i = nth_error st' i ->
     snd (hstep ieqb teqb lower peqb (st, its) h) = snd (hstep ieqb teqb lower peqb (st', its') h)).
Proof.
  intros I T P ieqb teqb lower peqb h i Ht. split; [|split].
  - intros before after st its s Hs. apply session_lookup with (i := i); assumption.
  - intros st its s Hs. apply lookup_answer with (i := i); assumption.
  - intros st st' its its' E. apply lookup_depends_on_value with (i := i); assumption.
Qed.
Print Assumptions C17_session_lookup.

(* What the answers are: a lookup table is find_column key by key (so C17_find_first_bearer,
   C17_find_positional, C17_find_all_names and C17_pop_keeps_other_lookups describe every entry). *)
Theorem C17_lookup_table :
  forall (I T P : Type) (teqb : T -> T -> bool) (lower : T -> T) (i : nat) (ci : bool) (keys : list T)
         (s : schema I T P),
  target (HTable i ci keys) = Some i /\
  answer teqb lower (HTable i ci keys) s =
    XCols (map (fun k => option_map ctag (find_column teqb lower ci k s)) keys) /\
  (forall key, answer teqb lower (HOp (OFind i key ci)) s = XCol (option_map ctag (find_column teqb lower ci key s))).
Proof. intros. repeat split. Qed.
Print Assumptions C17_lookup_table.

(* A column object mutated in place (name or aliases assigned by the caller): EVERY schema of the store
   sees it - each occurrence of that object, recognised by its tag, carries the new value, every other
   column is as before - while which objects each schema lists, their identities and the schemas' names
   and aliases do not change; a schema that does not list the object is untouched; after a rename to n
   the column at that position is named n and a lookup of n on that schema finds a column. *)
Theorem C17_column_mutated_in_place :
  forall (I T P : Type) (ieqb : I -> I -> bool) (teqb : T -> T -> bool) (lower : T -> T) (peqb : P -> P -> bool),
  (forall a b : T, teqb a b = true <-> a = b) ->
  (forall a b : P, peqb a b = true <-> a = b) ->
  forall (st : list (schema I T P)) (its : iters T) (i q : nat) (s : schema I T P) (c : col I T P),
  nth_error st i = Some s -> nth_error (scols s) q = Some c ->
  forall (f : col I T P -> col I T P) (h : hop T),
  ((exists n, f = set_name n /\ h = HRename i q n) \/ (exists al, f = set_aliases al /\ h = HSetAliases i q al)) ->
  let st' := map (upd_col peqb (ctag c) f) st in
  hstep ieqb teqb lower peqb (st, its) h = ((st', its), XDone) /\
  tags_of st' = tags_of st /\
  (forall k, nth_error st' k = option_map (upd_col peqb (ctag c) f) (nth_error st k)) /\
  (forall (s2 : schema I T P) (p : nat) (d : col I T P), nth_error (scols s2) p = Some d ->
     (ctag d = ctag c -> nth_error (scols (upd_col peqb (ctag c) f s2)) p = Some (f d)) /\
     (ctag d <> ctag c -> nth_error (scols (upd_col peqb (ctag c) f s2)) p = Some d)) /\
  (forall s2 : schema I T P,
     sname (upd_col peqb (ctag c) f s2) = sname s2 /\ saliases (upd_col peqb (ctag c) f s2) = saliases s2 /\
     map cid (scols (upd_col peqb (ctag c) f s2)) = map cid (scols s2) /\
     ((forall d, In d (scols s2) -> ctag d <> ctag c) -> upd_col peqb (ctag c) f s2 = s2)) /\
  (forall n, f = set_name n ->
     nth_error (column_names (upd_col peqb (ctag c) f s)) q = Some n /\
     exists d, find_column teqb lower false n (upd_col peqb (ctag c) f s) = Some d).
Proof.
  intros I T P ieqb teqb lower peqb HT HP st its i q s c Hs Hc f h Hf st'.
  assert (Htag : forall d, ctag (f d) = ctag d) by (destruct Hf as [(n & -> & _)|(al & -> & _)]; reflexivity).
  assert (Hid : forall d, cid (f d) = cid d) by (destruct Hf as [(n & -> & _)|(al & -> & _)]; reflexivity).
  split; [|split; [|split; [|split; [|split]]]].
  - destruct Hf as [(n & -> & ->)|(al & -> & ->)];
      [apply rename_spec with (s := s) | apply set_aliases_spec with (s := s)]; assumption.
  - apply tags_of_upd. exact Htag.
  - intros k. apply upd_col_store.
  - intros s2 p d Hd. apply upd_col_cols; assumption.
  - intros s2. destruct (upd_col_keeps I T P peqb (ctag c) f s2 Htag Hid) as (A & B & _ & D).
    split; [exact A|]. split; [exact B|]. split; [exact D|]. apply upd_col_frame. exact HP.
  - intros n ->. apply (renamed_is_found I T P teqb lower peqb HT); [|exact Hc].
    intros a. apply HP. reflexivity.
Qed.
Print Assumptions C17_column_mutated_in_place.

(* A schema's column list edited by the caller: insert(p, column) / del [p] change that schema's list as
   the Python list operations do (insert beyond the end appends; del outside raises IndexError and
   changes nothing), keep its name and aliases, and leave every other schema as it was.  A deletion is a
   removal at pre|d|post, so C17_pop_keeps_other_lookups describes every lookup after it. *)
Theorem C17_column_list_mutated_in_place :
  forall (I T P : Type) (ieqb : I -> I -> bool) (teqb : T -> T -> bool) (lower : T -> T) (peqb : P -> P -> bool)
         (st : list (schema I T P)) (its : iters T) (i : nat) (s : schema I T P),
  nth_error st i = Some s ->
  (forall (p j q : nat) (s2 : schema I T P) (c : col I T P),
     nth_error st j = Some s2 -> nth_error (scols s2) q = Some c ->
     hstep ieqb teqb lower peqb (st, its) (HInsertFrom i p j q) = ((set_nth st i (insert_at p c s), its), XDone) /\
     (p <= length (scols s) ->
        exists pre post, scols s = pre ++ post /\ length pre = p /\ scols (insert_at p c s) = pre ++ c :: post /\
                         sname (insert_at p c s) = sname s /\ saliases (insert_at p c s) = saliases s) /\
     (length (scols s) <= p -> scols (insert_at p c s) = scols s ++ [c])) /\
  (forall p : nat,
     (p < length (scols s) ->
        hstep ieqb teqb lower peqb (st, its) (HDelAt i p) = ((set_nth st i (del_at p s), its), XDone) /\
        exists pre d post, scols s = pre ++ d :: post /\ length pre = p /\
                           del_at p s = mksch (sname s) (saliases s) (pre ++ post)) /\
     (length (scols s) <= p -> hstep ieqb teqb lower peqb (st, its) (HDelAt i p) = ((st, its), XRaise))) /\
  (forall (k : nat) (x : schema I T P), k <> i -> nth_error (set_nth st i x) k = nth_error st k) /\
  (forall x : schema I T P, nth_error (set_nth st i x) i = Some x).
Proof.
  intros I T P ieqb teqb lower peqb st its i s Hs. split; [|split; [|split]].
  - intros p j q s2 c H2 Hc. split; [apply insert_spec with (s2 := s2); assumption|].
    split; [apply insert_at_split | apply insert_at_end].
  - intros p. split.
    + intros Hp. rewrite (del_spec I T P ieqb teqb lower peqb st its i p s Hs).
      rewrite (proj2 (Nat.ltb_lt _ _) Hp). split; [reflexivity | apply del_at_split; exact Hp].
    + intros Hp. rewrite (del_spec I T P ieqb teqb lower peqb st its i p s Hs).
      rewrite (proj2 (Nat.ltb_ge _ _) Hp). reflexivity.
  - intros k x Hk. apply set_nth_other. exact Hk.
  - intros x. apply set_nth_same. apply nth_error_Some. rewrite Hs. discriminate.
Qed.
Print Assumptions C17_column_list_mutated_in_place.

(* ---------------- round 7: the union through the augmented-assignment operator ---------------- *)

(* `acc = store[i]; acc += store[j]; store.append(acc)` (HIAdd i j; also operator.iadd) IS the plain sum
   as a step of a history: it creates add a b as a new schema (name / aliases of the left) and every
   schema that existed before the call - the left operand, which the caller can still reach through the
   store, included - has the value it had; so C17_operands_unchanged / C17_history_frame /
   C17_iterators_leave_schemas (whose [plain] counts HIAdd i j as OAdd i j) cover it verbatim. *)
Theorem C17_augmented_union :
  forall (I T P : Type) (ieqb : I -> I -> bool) (teqb : T -> T -> bool) (lower : T -> T) (peqb : P -> P -> bool)
         (st : list (schema I T P)) (its : iters T) (i j : nat) (a b : schema I T P),
  nth_error st i = Some a -> nth_error st j = Some b ->
  hstep ieqb teqb lower peqb (st, its) (HIAdd i j) = ((st ++ [add ieqb a b], its), XNew (sname a) (saliases a)) /\
  hstep ieqb teqb lower peqb (st, its) (HIAdd i j) = hstep ieqb teqb lower peqb (st, its) (HOp (OAdd i j)) /\
  (forall k s, nth_error st k = Some s -> nth_error (st ++ [add ieqb a b]) k = Some s) /\
  nth_error (st ++ [add ieqb a b]) (length st) = Some (add ieqb a b).
Proof. intros I T P ieqb teqb lower peqb. exact (iadd_step I T P ieqb teqb lower peqb). Qed.
Print Assumptions C17_augmented_union.

(* A chain folded with += (`acc = store[i]; for j in js: acc += store[j]`, every intermediate value of
   acc kept): the store afterwards is the ORIGINAL store, unchanged, followed by the partial sums; the last
   of them is fold_left add (C17_union_chain describes its columns); no iterator is touched. *)
Theorem C17_augmented_chain :
  forall (I T P : Type) (ieqb : I -> I -> bool) (teqb : T -> T -> bool) (lower : T -> T) (peqb : P -> P -> bool)
         (js : list nat) (st : list (schema I T P)) (its : iters T) (i : nat) (a : schema I T P) (bs : list (schema I T P)),
  nth_error st i = Some a -> Forall2 (fun j b => nth_error st j = Some b) js bs ->
  fst (hrun ieqb teqb lower peqb (st, its) (iadd_chain T i (length st) js)) = (st ++ partials I T P ieqb a bs, its) /\
  last (partials I T P ieqb a bs) a = fold_left (add ieqb) bs a.
Proof.
  intros I T P ieqb teqb lower peqb js st its i a bs Ha F.
  split; [apply iadd_chain_run; assumption | apply partials_last].
Qed.
Print Assumptions C17_augmented_chain.

(* ---------------- non-vacuity ---------------- *)

(* The equality premises are satisfiable: the comparison used by the correspondence is one. *)
Example C17_text_eqb_is_equality : forall a b : text, text_eqb a b = true <-> a = b.
Proof. exact text_eqb_spec. Qed.

(* Overlapping, repeated and same-name-different-identity columns; tags 1..6, identities p q r,
   names a/b.  l = [1(p,a) 2(q,a)], r = [3(p,b) 4(r,b) 4 5(r,a) 6(q,b)]:  l + r = [1 2 4]. *)
Definition ex_p : text := [112%N]. Definition ex_q : text := [113%N]. Definition ex_r : text := [114%N].
Definition ex_a : text := [97%N].  Definition ex_b : text := [98%N].  Definition ex_A : text := [65%N].
Definition ex_l : cschema :=
  mksch [108%N] [[76%N]] [mkcol 1%N ex_p ex_a (Some [ex_b]); mkcol 2%N ex_q ex_a None].
Definition ex_rt : cschema :=
  mksch [114%N] [] [mkcol 3%N ex_p ex_b (Some []); mkcol 4%N ex_r ex_b (Some [ex_A]); mkcol 4%N ex_r ex_b (Some [ex_A]);
                    mkcol 5%N ex_r ex_a (Some []); mkcol 6%N ex_q ex_b (Some [])].

Example C17_nonvacuous_union :
  map ctag (scols (add text_eqb ex_l ex_rt)) = [1; 2; 4]%N /\
  map ctag (scols (add text_eqb ex_rt ex_l)) = [3; 4; 4; 5; 6]%N /\
  sname (add text_eqb ex_l ex_rt) = [108%N] /\
  map ctag (scols (fold_left (add text_eqb) [ex_l; ex_rt] (mksch [101%N] [] []))) = [1; 2; 4]%N.
Proof. repeat split; vm_compute; reflexivity. Qed.

(* Lookup hypotheses are satisfiable: "b" is found as an alias of column 1 although column 4 is named b;
   "A" ignoring case finds column 1 (named a); column(-1) is the last column; removal of "a" from
   l + r deletes column 1 only, and find_column "a" with [cname c = n] holds there. *)
Example C17_nonvacuous_lookup :
  let s := add text_eqb ex_l ex_rt in
  option_map ctag (find_column text_eqb ascii_lower false ex_b s) = Some 1%N /\
  option_map ctag (find_column text_eqb ascii_lower true ex_A s) = Some 1%N /\
  find_column text_eqb ascii_lower false ex_A ex_l = None /\
  (exists c, find_column text_eqb ascii_lower false ex_a s = Some c /\ cname c = ex_a) /\
  (exists c, column_at (-1) s = Ok c /\ ctag c = 4%N) /\
  column_at 3 s = Raise IndexError /\
  map ctag (scols (snd (pop_column text_eqb ex_a s))) = [2; 4]%N /\
  NoDup (map cid (scols ex_l)).
Proof.
  cbv zeta. repeat split; try (vm_compute; reflexivity).
  - eexists. split; vm_compute; reflexivity.
  - eexists. split; vm_compute; reflexivity.
  - repeat constructor; simpl; intuition discriminate.
Qed.

(* History hypotheses are satisfiable: sum, removal on the sum, removal on an operand, lookups. *)
Example C17_nonvacuous_history :
  let ops := [OPop 2 ex_a; OFind 0 ex_a false; OPop 1 ex_b; OAdd 2 0; ONames 3] in
  nth_error [ex_l; ex_rt] 0 = Some ex_l /\
  forallb (fun o => negb (pops 0 o)) ops = true /\
  tags_of (fst (run text_eqb text_eqb ascii_lower ([ex_l; ex_rt] ++ [add text_eqb ex_l ex_rt]) ops))
    = [[1; 2]; [4; 4; 5; 6]; [2; 4]; [2; 4; 1]]%N.
Proof. repeat split; vm_compute; reflexivity. Qed.

(* Iterator hypotheses are satisfiable: on l + r = [1(a) 2(a) 4(b)] open an iterator, take one name,
   remove "a" (the column just yielded) and then "b" (a column not yet reached): the iterator still
   yields a, a, b and then stops, while the schema is left with column 2 only; a second iterator opened
   after the removals sees just that column. *)
Example C17_nonvacuous_iterator :
  let hops := [HOpen 2; HNext 0; HOp (OPop 2 ex_a); HNext 0; HOp (OPop 2 ex_b); HOpen 2; HNext 0; HNext 1;
               HNext 0; HNext 1; HOp (ONames 2)] in
  let r := hrun text_eqb text_eqb ascii_lower N.eqb ([ex_l; ex_rt; add text_eqb ex_l ex_rt], []) hops in
  map fst (snd r) =
    [XOpened; XItem ex_a; XCol (Some 1%N); XItem ex_a; XCol (Some 4%N); XOpened; XItem ex_b; XItem ex_a;
     XStop; XStop; XNames [ex_a]] /\
  tags_of (fst (fst r)) = [[1; 2]; [3; 4; 4; 5; 6]; [2]]%N /\
  map ctag (scols (drop_loop text_eqb (fun n => text_eqb n ex_b) ex_rt)) = [5%N].
Proof. cbv zeta. split; [vm_compute; reflexivity|]. split; vm_compute; reflexivity. Qed.

(* Session hypotheses are satisfiable: on l + r = [1(a, alias b) 2(a) 4(b, alias A)] take the whole
   case-insensitive table for a b A zz, remove "a" (column 1, the bearer of alias b), take it again: b now
   resolves to column 4 and a to column 2; rename column object 4 (also listed twice by r) to zz and give
   column 2 the alias b: the table follows, r sees the new name at both positions, l is untouched by the
   rename of 4; then the caller inserts r's first column (3) in front and deletes position 1. *)
Example C17_nonvacuous_session :
  let keys := [ex_a; ex_b; ex_A; [122; 122]%N] in
  let hops := [HTable 2 true keys; HOp (OPop 2 ex_a); HTable 2 true keys; HRename 2 1 [122; 122]%N;
               HSetAliases 2 0 (Some [ex_b]); HTable 2 false keys; HOp (ONames 1); HInsertFrom 2 0 1 0; HDelAt 2 1;
               HTable 2 true keys; HDelAt 2 5] in
  let r := hrun text_eqb text_eqb ascii_lower N.eqb ([ex_l; ex_rt; add text_eqb ex_l ex_rt], []) hops in
  map fst (snd r) =
    [XCols [Some 1; Some 1; Some 1; None]%N; XCol (Some 1%N); XCols [Some 2; Some 4; Some 2; None]%N; XDone; XDone;
     XCols [Some 2; Some 2; Some 4; Some 4]%N; XNames [ex_b; [122; 122]%N; [122; 122]%N; ex_a; ex_b]; XDone; XDone;
     XCols [Some 4; Some 3; Some 4; Some 4]%N; XRaise] /\
  tags_of (fst (fst r)) = [[1; 2]; [3; 4; 4; 5; 6]; [3; 4]]%N /\
  target (HTable 2 true keys) = Some 2 /\ mutates (HRename 2 1 ex_a) = true.
Proof. cbv zeta. split; [vm_compute; reflexivity|]. repeat split; vm_compute; reflexivity. Qed.

(* round 7: `acc = l; acc += r; acc += l` on the store [l; r]: two new schemas [1 2 4], l and r as they were;
   a removal on the first result reaches neither l nor the second result. *)
Example C17_nonvacuous_augmented :
  let hops := iadd_chain text 0 2 [1; 0] ++ [HOp (OPop 2 ex_a); HOp (ONames 0)] in
  let r := hrun text_eqb text_eqb ascii_lower N.eqb ([ex_l; ex_rt], []) hops in
  hops = [HIAdd 0 1; HIAdd 2 0; HOp (OPop 2 ex_a); HOp (ONames 0)] /\
  map fst (snd r) = [XNew [108%N] [[76%N]]; XNew [108%N] [[76%N]]; XCol (Some 1%N); XNames [ex_a; ex_a]] /\
  tags_of (fst (fst r)) = [[1; 2]; [3; 4; 4; 5; 6]; [2; 4]; [1; 2; 4]]%N /\
  Forall2 (fun j b => nth_error [ex_l; ex_rt] j = Some b) [1; 0] [ex_rt; ex_l].
Proof. cbv zeta. repeat split; try (vm_compute; reflexivity). repeat constructor. Qed.
