(* C15 - Column profiles report exact counts, extremes and frequencies.
   Property theorems only; each is closed by [exact] of a lemma from Proofs/C15*.v and followed
   by Print Assumptions.

   Reading guide.  A column is a [list (option A)], [None] = null.  [profile_num scale ...] is
   NumericProfiler ([with_order = true]: INTEGER, DOUBLE, DECIMAL) and DateProfiler ([false]: DATE,
   TIMESTAMP as epoch seconds) over exact fixed-point numbers z / scale; [profile_text] is
   VarcharProfiler over code point lists; [profile_bool], [profile_plain] (ARRAY / STRUCT) and
   [profile_default] (untyped) are the profilers without extremes; [add] is ColumnProfile.__add__
   (which is all TableProfile.__add__ does per column); [profile_frame] is
   TableProfile.from_dataframe with its BATCH_SIZE batching.  [hash] (xxhash), [np_hist]
   (numpy.histogram) and [hist_merge] (distogram merge) are arbitrary functions: every theorem
   holds whatever they return, except C15_histogram_mass which names its hypothesis.
   [quad p] = (count, missing, minimum, maximum) of p. *)
From Coq Require Import List ZArith NArith Bool.
From Orso Require Import Gen.C15_Profiler Model.C15 Proofs.C15 Proofs.C15_Text Proofs.C15_Inst Proofs.C15_Session Proofs.C15_Cells Proofs.C15_Objects.
Import ListNotations.
Open Scope Z_scope.

(* count = number of rows, missing = number of nulls: every profiler, every column (all-null
   and no-null included).  Untyped columns count None and NaN. *)
Theorem C15_count_missing :
  (forall E scale hash (np_hist : list Z -> list (E * Z)) wo c,
      let p := profile_num scale hash np_hist wo c in
      p_count p = zlen c /\ p_missing p = zlen (filter is_none c)) /\
  (forall E hash c,
      let p := @profile_text E hash c in
      p_count p = zlen c /\ p_missing p = zlen (filter is_none c)) /\
  (forall E c,
      let p := @profile_bool E c in
      p_count p = zlen c /\ p_missing p = zlen (filter is_none c)) /\
  (forall V E B (c : list (option B)),
      let p := @profile_plain V E B c in
      p_count p = zlen c /\ p_missing p = zlen (filter is_none c)) /\
  (forall V E c,
      let p := @profile_default V E c in
      p_count p = zlen c /\ p_missing p = zlen (filter ucell_missing c)).
Proof. exact count_missing_all. Qed.
Print Assumptions C15_count_missing.

(* Numbers and instants: the minimum is the least non-null value, truncated toward zero
   (Z.quot); there is none exactly when every cell is null. *)
Theorem C15_minimum_is_true_extreme :
  forall E scale hash (np_hist : list Z -> list (E * Z)) wo c,
  match p_minimum (profile_num scale hash np_hist wo c) with
  | None => forall o, In o c -> o = None
  | Some z => exists m, In (Some m) c /\ (forall y, In (Some y) c -> m <= y) /\ z = Z.quot m scale
  end.
Proof. exact num_minimum. Qed.
Print Assumptions C15_minimum_is_true_extreme.

Theorem C15_maximum_is_true_extreme :
  forall E scale hash (np_hist : list Z -> list (E * Z)) wo c,
  match p_maximum (profile_num scale hash np_hist wo c) with
  | None => forall o, In o c -> o = None
  | Some z => exists m, In (Some m) c /\ (forall y, In (Some y) c -> y <= m) /\ z = Z.quot m scale
  end.
Proof. exact num_maximum. Qed.
Print Assumptions C15_maximum_is_true_extreme.

(* what "truncated toward zero" means for the fixed-point number z / scale *)
Theorem C15_truncation_toward_zero :
  forall scale z, 0 < scale ->
  Z.abs (trunc_z scale z) * scale <= Z.abs z < (Z.abs (trunc_z scale z) + 1) * scale /\
  (0 <= z -> 0 <= trunc_z scale z) /\ (z <= 0 -> trunc_z scale z <= 0).
Proof. exact trunc_toward_zero. Qed.
Print Assumptions C15_truncation_toward_zero.

(* Histogram counts sum to the number of non-null values - given that numpy.histogram returns
   non-negative counts that sum to the sample size (the oracle hypothesis). *)
Theorem C15_histogram_mass :
  forall E scale hash (np_hist : list Z -> list (E * Z)) wo c,
  (forall d, Forall (fun b => 0 <= snd b) (np_hist d)) ->
  (forall d, sumz (map snd (np_hist d)) = zlen d) ->
  sumz (map snd (p_histogram (profile_num scale hash np_hist wo c))) = zlen c - zlen (filter is_none c).
Proof. exact num_histogram_mass. Qed.
Print Assumptions C15_histogram_mass.

(* Most frequent values, numbers and instants: the listed values are distinct values of the
   column, each with its exact number of occurrences; no unlisted value of the column occurs
   more often than a listed one; min(MOST_FREQUENT_VALUE_SIZE, distinct values) are listed. *)
Theorem C15_frequent_values_numeric :
  forall E scale hash (np_hist : list Z -> list (E * Z)) wo c,
  let d := nonnull c in
  let m := p_mfv (profile_num scale hash np_hist wo c) in
  NoDup (map fst m) /\
  (forall v k, In (v, k) m -> k = occ Z.eqb v d /\ In (Some v) c) /\
  (forall v, In (Some v) c -> ~ In v (map fst m) -> forall w k, In (w, k) m -> occ Z.eqb v d <= k) /\
  length m = Nat.min MOST_FREQUENT_VALUE_SIZE (length (distinct Z.eqb d)).
Proof. exact num_mfv. Qed.
Print Assumptions C15_frequent_values_numeric.

(* Text: the same, for columns whose values have at most SIXTY_FOUR_BYTES (64) characters. *)
Theorem C15_frequent_values_text_partial :
  forall E hash c,
  Forall (fun s => (length s <= SIXTY_FOUR_BYTES)%nat) (nonnull c) ->
  let d := nonnull c in
  let m := p_mfv (@profile_text E hash c) in
  NoDup (map fst m) /\
  (forall v k, In (v, k) m -> k = occ text_eqb v d /\ In (Some v) c) /\
  (forall v, In (Some v) c -> ~ In v (map fst m) -> forall w k, In (w, k) m -> occ text_eqb v d <= k) /\
  length m = Nat.min MOST_FREQUENT_VALUE_SIZE (length (distinct text_eqb d)).
Proof. exact text_mfv_short. Qed.
Print Assumptions C15_frequent_values_text_partial.
(* Full statement (no length guard): refuted, finding F-C15-9.  What holds for every text column
   is the statement about the values cut to 64 characters: *)
Theorem C15_frequent_values_text_clipped :
  forall E hash c,
  let d := map clip (nonnull c) in
  let m := p_mfv (@profile_text E hash c) in
  NoDup (map fst m) /\
  (forall v k, In (v, k) m -> k = occ text_eqb v d /\ In v d) /\
  (forall v, In v d -> ~ In v (map fst m) -> forall w k, In (w, k) m -> occ text_eqb v d <= k) /\
  length m = Nat.min MOST_FREQUENT_VALUE_SIZE (length (distinct text_eqb d)).
Proof. exact text_mfv. Qed.
Print Assumptions C15_frequent_values_text_clipped.

(* F-C15-9: two different 65-character values are listed as one 64-character value that is not in
   the column, with a count that is not its number of occurrences, and the transition between
   them is not counted. *)
Theorem C15_frequent_values_text_refuted :
  exists c : list (option (list N)),
    let p := @profile_text N (fun _ => 0%N) c in
    (exists v k, In (v, k) (p_mfv p) /\ ~ In (Some v) c /\ k <> occ text_eqb v (nonnull c)) /\
    (match nonnull c with x :: xs => p_transitions p <> trans_count text_eqb x xs | [] => False end).
Proof. exact text_mfv_long_refuted. Qed.
Print Assumptions C15_frequent_values_text_refuted.

(* Distinct values: [distinct] lists every value of the column exactly once, and below the
   sketch size the estimate is their number - whatever the hash function is. *)
Theorem C15_distinct_exact_numeric :
  forall E scale hash (np_hist : list Z -> list (E * Z)) wo c,
  (NoDup (distinct Z.eqb (nonnull c)) /\ forall v, In v (distinct Z.eqb (nonnull c)) <-> In (Some v) c) /\
  ((length (distinct Z.eqb (nonnull c)) < KVM_SIZE)%nat ->
   estimate_cardinality (profile_num scale hash np_hist wo c) = Some (zlen (distinct Z.eqb (nonnull c)))).
Proof.
  intros E scale hash np_hist wo c. split.
  - exact (num_distinct_spec c).
  - exact (num_estimate E scale hash np_hist wo c).
Qed.
Print Assumptions C15_distinct_exact_numeric.

Theorem C15_distinct_exact_text :
  forall E hash c,
  (NoDup (distinct text_eqb (nonnull c)) /\ forall v, In v (distinct text_eqb (nonnull c)) <-> In (Some v) c) /\
  ((length (distinct text_eqb (nonnull c)) < KVM_SIZE)%nat ->
   estimate_cardinality (@profile_text E hash c) = Some (zlen (distinct text_eqb (nonnull c)))).
Proof.
  intros E hash c. split.
  - exact (text_distinct_spec c).
  - exact (text_estimate E hash c).
Qed.
Print Assumptions C15_distinct_exact_text.

(* Order and transitions, numeric columns: transitions = adjacent non-null pairs that differ;
   order = None when there is none, 1 when the data never falls, -1 when it never rises, else 0. *)
Theorem C15_order_transitions_numeric :
  forall E scale hash (np_hist : list Z -> list (E * Z)) c,
  let p := profile_num scale hash np_hist true c in
  match nonnull c with
  | [] => p_order p = None /\ p_transitions p = 0
  | x :: xs => p_order p = order_spec Z.leb x xs /\ p_transitions p = trans_count Z.eqb x xs
  end.
Proof. exact num_order_transitions. Qed.
Print Assumptions C15_order_transitions_numeric.

(* Text: the same on the values cut to 64 characters (the values themselves when none is longer). *)
Theorem C15_order_transitions_text :
  forall E hash c,
  let p := @profile_text E hash c in
  match map clip (nonnull c) with
  | [] => p_order p = None /\ p_transitions p = 0
  | x :: xs => p_order p = order_spec lex_leb x xs /\ p_transitions p = trans_count text_eqb x xs
  end.
Proof. exact text_order_transitions. Qed.
Print Assumptions C15_order_transitions_text.

(* The order / transition loop equals its specification over any totally ordered value type. *)
Theorem C15_order_loop_generic :
  forall (A : Type) (leb eqb : A -> A -> bool), total_order leb eqb ->
  forall x xs, order_transitions leb eqb x xs = (order_spec leb x xs, trans_count eqb x xs).
Proof. exact order_transitions_spec. Qed.
Print Assumptions C15_order_loop_generic.

(* The text encoding.  On byte strings the 8-byte big-endian prefix encoding is monotone for the
   byte order; UTF-8 carries the code point order (Python's str order) to the byte order; so
   string_to_int64 is monotone - the fact that makes text minimum / maximum additive. *)
Theorem C15_prefix_encoding_monotone :
  forall a b : list N, bytes a -> bytes b -> lex_leb a b = true -> bytes_to_int64 a <= bytes_to_int64 b.
Proof. exact bytes_to_int64_mono. Qed.
Print Assumptions C15_prefix_encoding_monotone.

Theorem C15_string_to_int64_monotone :
  forall s t : list N, valid_text s -> valid_text t -> lex_leb s t = true -> string_to_int64 s <= string_to_int64 t.
Proof. exact string_to_int64_mono. Qed.
Print Assumptions C15_string_to_int64_monotone.

(* Text minimum / maximum: the encoding of the least / greatest value (cut to 64 characters). *)
Theorem C15_text_extremes :
  forall E hash c,
  match p_minimum (@profile_text E hash c) with
  | None => forall o, In o c -> o = None
  | Some z => exists m, In m (map clip (nonnull c)) /\
                        (forall y, In y (map clip (nonnull c)) -> lex_leb m y = true) /\ z = string_to_int64 m
  end /\
  match p_maximum (@profile_text E hash c) with
  | None => forall o, In o c -> o = None
  | Some z => exists m, In m (map clip (nonnull c)) /\
                        (forall y, In y (map clip (nonnull c)) -> lex_leb y m = true) /\ z = string_to_int64 m
  end.
Proof. intros E hash c. split; [exact (text_minimum E hash c)|exact (text_maximum E hash c)]. Qed.
Print Assumptions C15_text_extremes.

(* Additivity: for every way of splitting a column in two batches (either may be all-null or
   empty), adding the batch profiles gives the count, missing, minimum and maximum of the profile
   of the whole column. *)
Theorem C15_additive_numeric :
  forall E scale hash (np_hist : list Z -> list (E * Z)), 0 < scale -> forall hist_merge wo c1 c2,
  quad (add Z.eqb E hist_merge (profile_num scale hash np_hist wo c1) (profile_num scale hash np_hist wo c2)) =
  quad (profile_num scale hash np_hist wo (c1 ++ c2)).
Proof. exact num_additive. Qed.
Print Assumptions C15_additive_numeric.

Theorem C15_additive_text :
  forall E hash hist_merge c1 c2, valid_column c1 -> valid_column c2 ->
  quad (add text_eqb E hist_merge (@profile_text E hash c1) (@profile_text E hash c2)) =
  quad (@profile_text E hash (c1 ++ c2)).
Proof. exact text_additive. Qed.
Print Assumptions C15_additive_text.

Theorem C15_additive_other :
  (forall E eqb hist_merge c1 c2,
     quad (add eqb E hist_merge (@profile_bool E c1) (@profile_bool E c2)) = quad (@profile_bool E (c1 ++ c2))) /\
  (forall V E B eqb hist_merge (c1 c2 : list (option B)),
     quad (add eqb E hist_merge (@profile_plain V E B c1) (@profile_plain V E B c2)) = quad (@profile_plain V E B (c1 ++ c2))) /\
  (forall V E eqb hist_merge c1 c2,
     quad (add eqb E hist_merge (@profile_default V E c1) (@profile_default V E c2)) = quad (@profile_default V E (c1 ++ c2))).
Proof.
  split; [|split]; intros.
  - rewrite quad_add_spec. symmetry. apply profile_bool_additive.
  - rewrite quad_add_spec. symmetry. apply profile_plain_additive.
  - rewrite quad_add_spec. symmetry. apply profile_default_additive.
Qed.
Print Assumptions C15_additive_other.

(* The generic form: any profiler built from profile_core over a totally ordered value type with
   an encoding that is monotone on the values in the column. *)
Theorem C15_additive_generic :
  forall (A : Type) (leb eqb : A -> A -> bool) (enc : A -> Z) (hash : A -> N) (E : Type)
         (np_hist : list A -> list (E * Z)) (good : A -> Prop),
  total_order leb eqb ->
  (forall a b, good a -> good b -> leb a b = true -> enc a <= enc b) ->
  forall wh wo c1 c2 dk1 dk2 d1 d2, Forall good d1 -> Forall good d2 ->
  quad (profile_core leb eqb enc hash E np_hist wh wo (c1 + c2) (dk1 ++ dk2) (d1 ++ d2)) =
  quad_add (quad (profile_core leb eqb enc hash E np_hist wh wo c1 dk1 d1))
           (quad (profile_core leb eqb enc hash E np_hist wh wo c2 dk2 d2)).
Proof. exact core_quad_app. Qed.
Print Assumptions C15_additive_generic.

(* Batching in from_dataframe: a frame profiled in batches of BATCH_SIZE rows has the count,
   missing, minimum and maximum of the column profiled at once (and a frame without rows has no
   column profile). *)
Theorem C15_batching_numeric :
  forall E scale hash (np_hist : list Z -> list (E * Z)), 0 < scale -> forall hist_merge wo c,
  0 < BATCH_SIZE ->
  match profile_frame Z.eqb E hist_merge (profile_num scale hash np_hist wo) c with
  | None => c = []
  | Some p => c <> [] /\ quad p = quad (profile_num scale hash np_hist wo c)
  end.
Proof. exact num_batching. Qed.
Print Assumptions C15_batching_numeric.

(* Booleans: the two listed counts are exact and sum to the non-null count. *)
Theorem C15_boolean_counts :
  forall E (c : list (option bool)), nonnull c <> [] ->
  p_mfv (@profile_bool E c) = [(true, occ Bool.eqb true (nonnull c)); (false, occ Bool.eqb false (nonnull c))] /\
  occ Bool.eqb true (nonnull c) + occ Bool.eqb false (nonnull c) = zlen (nonnull c).
Proof. intros E c H. split; [exact (profile_bool_mfv c H)|exact (occ_bool_total (nonnull c))]. Qed.
Print Assumptions C15_boolean_counts.

(* ---------- one frame object over time: DataFrame.append and DataFrame.profile ----------
   [frun profile_of rows ops] runs a program of appends and .profile reads on a frame that holds
   [rows] and returns what every read returned.  The profile is a function of the rows the frame
   holds when it is read: after ANY history (appends and earlier reads, [ops1]) the next read
   returns the profile of the initial rows followed by everything appended so far - never the
   profile of an earlier state. *)
Theorem C15_profile_reads_current_rows :
  forall (X P : Type) (profile_of : list X -> P) rows ops1 ops2,
  frun profile_of rows (ops1 ++ FProfile :: ops2) =
  frun profile_of rows ops1 ++
  profile_of (rows ++ appended ops1) :: frun profile_of (rows ++ appended ops1) ops2.
Proof. exact frun_read. Qed.
Print Assumptions C15_profile_reads_current_rows.

(* The session the correspondence replays (a frame holding the first [pos] rows of column [c];
   for each read position append up to it and read; append the rest and read): the reads are the
   profiles of the prefixes and, at the end, the profile of the whole column - the same value a
   frame built with all rows at once gives. *)
Theorem C15_session_reads :
  forall (X P : Type) (profile_of : list X -> P) c reads pos,
  reads_ok pos reads (length c) ->
  frun profile_of (firstn pos c) (session_ops pos reads (skipn pos c)) =
  map (fun k => profile_of (firstn k c)) reads ++ [profile_of c].
Proof. exact session_spec. Qed.
Print Assumptions C15_session_reads.

(* Numbers and instants, with from_dataframe's batching: a read after any history has count = rows
   now, missing = nulls now, and the minimum / maximum of the rows the frame holds now; it is the
   [reads_in ops1]-th value returned. *)
Theorem C15_profile_after_append_numeric :
  forall E scale hash (np_hist : list Z -> list (E * Z)),
  0 < scale -> forall hist_merge wo rows ops1 ops2, 0 < BATCH_SIZE ->
  let frame := profile_frame Z.eqb E hist_merge (profile_num scale hash np_hist wo) in
  let now := rows ++ appended ops1 in
  exists before r after,
    frun frame rows (ops1 ++ FProfile :: ops2) = before ++ r :: after /\
    length before = reads_in ops1 /\
    match r with
    | None => now = []
    | Some p => now <> [] /\ quad p = quad (profile_num scale hash np_hist wo now) /\
                p_count p = zlen now /\ p_missing p = zlen (filter is_none now)
    end.
Proof. exact num_session_read. Qed.
Print Assumptions C15_profile_after_append_numeric.

(* profile, append three rows (one null), profile again: the second read sees 7 rows, 2 nulls and
   the new extremes -7 / 11 (the first saw 4 rows, 1 null, 3 / 5) *)
Example C15_example_session :
  let frame := profile_frame Z.eqb N (fun a _ => a) (profile_num 1 Z.to_N (fun d => [(0%N, zlen d)]) true) in
  let c := [Some 3; None; Some 5; Some 4; Some (-7); None; Some 11] in
  reads_ok 4 [4%nat] (length c) /\
  map (option_map quad) (frun frame (firstn 4 c) (session_ops 4 [4%nat] (skipn 4 c))) =
  [Some (4, 1, Some 3, Some 5); Some (7, 2, Some (-7), Some 11)].
Proof. vm_compute. split; [split; repeat constructor|reflexivity]. Qed.

(* ---------- cells as Python holds them (round 4) ----------
   A cell is (raw, shift, form); its value is floor((raw - shift) / unit).  Instants: raw = the
   wall-clock reading in microseconds, shift = the UTC offset of the datetime in microseconds (0 when
   naive), unit = 10^6.  Numbers: shift = 0, unit = 1, form 1 = negative zero.  [profile_x] is
   NumericProfiler / DateProfiler on such cells, with a sketch that - like set(data) - keeps one
   element per value and hashes the text of that element ([hashF] sees value AND form). *)

(* the value of a cell: the UTC instant, floored to the unit; the offset is subtracted, not dropped *)
Theorem C15_cell_value :
  forall unit raw shift form, 0 < unit ->
  xvalue unit (raw, shift, form) * unit <= raw - shift < (xvalue unit (raw, shift, form) + 1) * unit /\
  xvalue unit (raw, shift, form) = xvalue unit (raw - shift, 0, 0%N).
Proof. intros unit raw shift form H. split; [now apply xvalue_floor|apply xvalue_offset]. Qed.
Print Assumptions C15_cell_value.

(* count, missing, extremes, frequent values, order, transitions and histogram of a column of cells
   are those of the column of their values, so every theorem above applies to them; a listed
   frequent value is (value, form of its first occurrence) *)
Theorem C15_cells_profile_of_values :
  forall E scale unit hashF (np_hist : list Z -> list (E * Z)) wo c,
  let px := profile_x scale unit hashF np_hist wo c in
  let pv := profile_num scale (fun _ => 0%N) np_hist wo (xvalues unit c) in
  p_count px = p_count pv /\ p_missing px = p_missing pv /\
  p_minimum px = p_minimum pv /\ p_maximum px = p_maximum pv /\
  p_order px = p_order pv /\ p_transitions px = p_transitions pv /\
  map (fun e => (fst (fst e), snd e)) (p_mfv px) = p_mfv pv /\ p_histogram px = p_histogram pv.
Proof. exact profile_x_fields. Qed.
Print Assumptions C15_cells_profile_of_values.

(* the extremes are the least / greatest VALUE: for instants the earliest / latest UTC instant,
   whatever offsets the datetimes carry *)
Theorem C15_cells_extremes :
  forall E scale unit hashF (np_hist : list Z -> list (E * Z)) wo c,
  match p_minimum (profile_x scale unit hashF np_hist wo c) with
  | None => forall o, In o c -> o = None
  | Some z => exists m, In (Some m) c /\ (forall y, In (Some y) c -> xvalue unit m <= xvalue unit y) /\
                        z = Z.quot (xvalue unit m) scale
  end /\
  match p_maximum (profile_x scale unit hashF np_hist wo c) with
  | None => forall o, In o c -> o = None
  | Some z => exists m, In (Some m) c /\ (forall y, In (Some y) c -> xvalue unit y <= xvalue unit m) /\
                        z = Z.quot (xvalue unit m) scale
  end.
Proof.
  intros E scale unit hashF np_hist wo c.
  split; [exact (profile_x_minimum E scale unit hashF np_hist wo c)|exact (profile_x_maximum E scale unit hashF np_hist wo c)].
Qed.
Print Assumptions C15_cells_extremes.

(* the distinct count is a count of VALUES: equal values that print differently (0.0 and -0.0, the
   same instant written with two offsets) are one, whatever the hash function does with the forms *)
Theorem C15_distinct_exact_cells :
  forall E scale unit hashF (np_hist : list Z -> list (E * Z)) wo c,
  let vals := nonnull (xvalues unit c) in
  (length (distinct Z.eqb vals) < KVM_SIZE)%nat ->
  estimate_cardinality (profile_x scale unit hashF np_hist wo c) = Some (zlen (distinct Z.eqb vals)).
Proof. exact profile_x_estimate. Qed.
Print Assumptions C15_distinct_exact_cells.

Theorem C15_additive_cells :
  forall E scale unit hashF (np_hist : list Z -> list (E * Z)), 0 < scale -> forall hist_merge wo c1 c2,
  quad (add zn_eqb E hist_merge (profile_x scale unit hashF np_hist wo c1) (profile_x scale unit hashF np_hist wo c2)) =
  quad (profile_x scale unit hashF np_hist wo (c1 ++ c2)).
Proof. exact profile_x_additive. Qed.
Print Assumptions C15_additive_cells.

(* 23:30 at -08:00, 12:00 UTC, 02:00:00.5 at +05:30 (seconds of 1970-01-02 for brevity): the instants
   are 113400, 43200, 70200; and [0.0; -0.0; 1.5] has two distinct values although the hash
   function tells the zeros apart *)
Example C15_example_cells :
  let us := 1000000 in
  let c := [Some (84600 * us, -28800 * us, 0%N); None; Some (43200 * us, 0, 0%N); Some (90000 * us + 500000, 19800 * us, 0%N)] in
  let p := profile_x 1 us (fun k => Z.to_N (fst k)) (fun d => [(0%N, zlen d)]) false c in
  quad p = (4, 1, Some 43200, Some 113400) /\ map fst (p_mfv p) = [(113400, 0%N); (43200, 0%N); (70200, 0%N)] /\
  let z := [Some (0, 0, 0%N); Some (0, 0, 1%N); Some (1500000, 0, 0%N)] in
  let q := profile_x 1000000 1 (fun k => (Z.to_N (fst k) + snd k)%N) (fun d => [(0%N, zlen d)]) true z in
  estimate_cardinality q = Some 2 /\ p_kmv q = [0%N; 1500000%N] /\ p_mfv q = [((0, 0%N), 2); ((1500000, 0%N), 1)].
Proof. vm_compute. repeat split. Qed.

(* ---------- profile objects in the caller's hands, frames with two columns (round 6) ----------
   [prun addf dflt store ops]: a store of profile objects; [PAdd i j] appends obj_i + obj_j, [PCopy i]
   appends a copy of obj_i, [PRead i] reads obj_i.  An addition (or a copy) creates a new object:
   whatever was added, copied and read before, reading one of the original objects returns it as it
   was - in particular the operands of profile(a) + profile(b) are still the profiles of a and b. *)
Theorem C15_add_leaves_operands :
  forall (P : Type) (addf : P -> P -> P) (dflt : P) store ops1 ops2 i, (i < length store)%nat ->
  prun addf dflt store (ops1 ++ PRead i :: ops2) =
  prun addf dflt store ops1 ++ nth i store dflt :: prun addf dflt (pfinal addf dflt store ops1) ops2.
Proof. exact prun_read_stable. Qed.
Print Assumptions C15_add_leaves_operands.

(* A frame whose rows are pairs and whose own schema names the two fields (n1, n2): the column
   profile under n1 is the profile of the first column, under n2 of the second, whatever other
   frame (the same records under the names (n2, n1), say) was profiled before - nothing but this
   frame's schema and rows enters. *)
Theorem C15_column_profile_by_own_schema :
  forall (X P : Type) (profile_of : list X -> P) (n1 n2 : N) (c d : list X),
  n1 <> n2 -> length c = length d ->
  tprofile2 profile_of (n1, n2) (combine c d) n1 = Some (profile_of c) /\
  tprofile2 profile_of (n1, n2) (combine c d) n2 = Some (profile_of d) /\
  (forall nm, nm <> n1 -> nm <> n2 -> tprofile2 profile_of (n1, n2) (combine c d) nm = None).
Proof. exact @tprofile2_spec. Qed.
Print Assumptions C15_column_profile_by_own_schema.

Example C15_example_objects :
  let prof := profile_num 1 Z.to_N (fun d => [(0%N, zlen d)]) true in
  let a := prof [Some 3; Some 1] in let b := prof [Some 2; None] in
  let addf := add Z.eqb N (fun x _ => x) in
  map (fun p => (quad p, p_kmv p))
      (prun addf (empty_profile 0 0) [a; b] [PAdd 0 1; PRead 0; PRead 1; PAdd 0 1; PRead 3]) =
  [((2, 0, Some 1, Some 3), [1%N; 3%N]); ((2, 1, Some 2, Some 2), [2%N]); ((4, 1, Some 1, Some 3), [1%N; 2%N; 3%N])] /\
  tprofile2 (@length Z) (1%N, 0%N) (combine [1; 2; 3] [7; 8]%Z) 0%N = Some 2%nat.
Proof. vm_compute. split; reflexivity. Qed.

(* ---------- non-vacuity ---------- *)
(* the premises are satisfiable: the regenerated constants are positive, Z and text are total
   orders, a histogram oracle with the assumed behaviour exists *)
Example C15_premises_satisfiable :
  0 < BATCH_SIZE /\ total_order Z.leb Z.eqb /\ total_order lex_leb text_eqb /\
  (let np_hist := fun d : list Z => match d with [] => [] | _ => [(0%N, zlen d)] end in
   (forall d, Forall (fun b => 0 <= snd b) (np_hist d)) /\ (forall d, sumz (map snd (np_hist d)) = zlen d)).
Proof.
  split; [reflexivity|]. split; [exact Z_total_order|]. split; [exact text_total_order|].
  cbn zeta. split; intros [|x d].
  - constructor.
  - constructor; [apply zlen_nonneg|constructor].
  - reflexivity.
  - cbn [map snd sumz fold_right]. apply Z.add_0_r.
Qed.

(* a concrete column: [1.5, null, -2.7, 1.5, 0] on the 10^-6 grid *)
Example C15_example_numeric :
  let p := profile_num 1000000 (fun z => Z.to_N (Z.abs z)) (fun d => [(0%N, zlen d)]) true
                       [Some 1500000; None; Some (-2700000); Some 1500000; Some 0] in
  quad p = (5, 1, Some (-2), Some 1) /\ p_mfv p = [(1500000, 2); (-2700000, 1); (0, 1)] /\
  p_order p = Some 0 /\ p_transitions p = 3 /\ estimate_cardinality p = Some 3.
Proof. vm_compute. repeat split. Qed.

(* text: 'abc' < 'é' as strings and as encoded integers (F-C15-5 had them the other way round);
   adding the profiles of ['é','zz','b'] and ['abc','a',''] gives the extremes of the whole *)
Example C15_example_text :
  let e := [233%N] in let abc := [97; 98; 99]%N in
  lex_leb abc e = true /\ string_to_int64 abc < string_to_int64 e /\
  let c1 := [Some e; Some [122; 122]%N; Some [98%N]] in
  let c2 := [Some abc; Some [97%N]; Some []] in
  let prof := @profile_text N (fun _ => 0%N) in
  quad (add text_eqb N (fun a _ => a) (prof c1) (prof c2)) = quad (prof (c1 ++ c2)) /\
  quad (prof (c1 ++ c2)) = (6, 0, Some 0, Some MAX_INT64).
Proof. vm_compute. repeat split; discriminate || reflexivity. Qed.

(* text longer than 64 characters: two 65-character values that share their first 64 characters are
   two distinct values for the sketch (estimate 2) although the frequent values list them as one
   64-character value with count 2 (F-C15-9) *)
Example C15_example_long_text :
  let x64 := repeat 120%N 64 in
  let c := [Some (x64 ++ [97%N]); None; Some (x64 ++ [98%N])] in
  let p := @profile_text N (fun s => last s 0%N) c in
  estimate_cardinality p = Some 2 /\ zlen (distinct text_eqb (nonnull c)) = 2 /\
  p_mfv p = [(x64, 2)] /\ p_count p = 3 /\ p_missing p = 1.
Proof. vm_compute. repeat split. Qed.

(* The sketch of a sum: when both batches have a non-null value and the hash function is
   injective on the values of the frame, the estimate of profile(a) + profile(b) is exact below the
   sketch size.  (Not part of the additivity the property states; the hypothesis on the batches
   is needed: see C15_sum_sketch_left_null_refuted.) *)
Theorem C15_distinct_exact_sum_numeric_partial :
  forall E scale hash (np_hist : list Z -> list (E * Z)) hist_merge wo c1 c2,
  nonnull c1 <> [] -> nonnull c2 <> [] ->
  (forall a b, In (Some a) (c1 ++ c2) -> In (Some b) (c1 ++ c2) -> hash a = hash b -> a = b) ->
  (length (distinct Z.eqb (nonnull (c1 ++ c2))) < KVM_SIZE)%nat ->
  estimate_cardinality (add Z.eqb E hist_merge (profile_num scale hash np_hist wo c1) (profile_num scale hash np_hist wo c2))
  = Some (zlen (distinct Z.eqb (nonnull (c1 ++ c2)))).
Proof. exact num_sum_estimate. Qed.
Print Assumptions C15_distinct_exact_sum_numeric_partial.

Theorem C15_distinct_exact_sum_text_partial :
  forall E hash hist_merge c1 c2,
  nonnull c1 <> [] -> nonnull c2 <> [] ->
  (forall a b, In (Some a) (c1 ++ c2) -> In (Some b) (c1 ++ c2) -> hash a = hash b -> a = b) ->
  (length (distinct text_eqb (nonnull (c1 ++ c2))) < KVM_SIZE)%nat ->
  estimate_cardinality (add text_eqb E hist_merge (@profile_text E hash c1) (@profile_text E hash c2))
  = Some (zlen (distinct text_eqb (nonnull (c1 ++ c2)))).
Proof. exact text_sum_estimate. Qed.
Print Assumptions C15_distinct_exact_sum_text_partial.

Theorem C15_sum_sketch_left_null_refuted :
  exists c1 c2 : list (option Z),
    estimate_cardinality (add Z.eqb N (fun a _ => a) (profile_num 1 Z.to_N (fun _ => []) true c1)
                                                    (profile_num 1 Z.to_N (fun _ => []) true c2)) = Some 0 /\
    zlen (distinct Z.eqb (nonnull (c1 ++ c2))) = 1.
Proof. exact sum_estimate_left_null_refuted. Qed.
Print Assumptions C15_sum_sketch_left_null_refuted.
