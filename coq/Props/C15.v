From Coq Require Import List ZArith NArith Bool.
From Orso Require Import Gen.C15_Profiler Model.C15 Proofs.C15.
Import ListNotations.
Open Scope Z_scope.

Theorem C15_placeholder : forall B (a b : list B), zlen (a ++ b) = zlen a + zlen b.
Proof. exact @zlen_app. Qed.
Print Assumptions C15_placeholder.
