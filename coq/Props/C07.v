(* C07 - Casting to a column type is exact on canonical renderings.
   Property theorems only, about the definitions of Model/C07.v that the correspondence
   evaluates ([parse], [column_default], [py_str]); each is closed by [exact] of a lemma from
   Proofs/C07*.v and followed by Print Assumptions.

   Every theorem is quantified over the six library oracles (ft = float(str), fb =
   float(bytes), rp = repr(float), jl = orjson.loads, jd = orjson.dumps, sc = str() of a
   container); what is assumed about them is an explicit premise of the theorem that needs it.
   [render_Z], [dec_str], [render_date], [render_datetime] are the specification-side
   renderers (str(int), str(Decimal), str(date), str(datetime)); the correspondence checks them
   against what CPython prints. *)
From Coq Require Import List ZArith NArith Bool.
From Orso Require Import Base.Civil Gen.C08_Tables Model.C08 Gen.C07_Tables Model.C07.
From Orso Require Import Proofs.C07_Int Proofs.C07_Dec Proofs.C07 Proofs.C07_Session.
Import ListNotations.
Open Scope Z_scope.

(* ---- null: for every type of the generated table (and the one without a parser), both
   entry points ---- *)
Theorem C07_null :
  forall ft fb rp jl jd sc (t : otype) (k : kwargs), parse ft fb rp jl jd sc t k PNone = ROk PNone.
Proof. exact parse_none. Qed.
Print Assumptions C07_null.

(* ---- a value that already has the type comes back equal (timestamps to whole seconds);
   DECIMAL is covered by C07_decimal_exact / C07_decimal_numeric ---- *)
Theorem C07_idempotent :
  forall ft fb rp jl jd sc (k : kwargs),
  let cast := parse ft fb rp jl jd sc in
  (forall b, cast T_BOOLEAN k (PBool b) = ROk (PBool b)) /\
  (forall z, cast T_INTEGER k (PInt z) = ROk (PInt z)) /\
  (forall f, cast T_DOUBLE k (PFloat f) = ROk (PFloat f)) /\
  (forall t, kw_length k = None \/ (exists n, kw_length k = Some n /\ zlen t <= n) -> cast T_VARCHAR k (PStr t) = ROk (PStr t)) /\
  (forall b, kw_length k = None \/ (exists n, kw_length k = Some n /\ zlen b <= n) -> cast T_BLOB k (PBytes b) = ROk (PBytes b)) /\
  (forall y m d, cast T_DATE k (PDate y m d) = ROk (PDate y m d)) /\
  (forall y m d h mi s us, cast T_TIMESTAMP k (PDatetime y m d h mi s us) = ROk (PDatetime y m d h mi s 0)) /\
  (forall l, kw_element k = None -> cast T_ARRAY k (PList l) = ROk (PList l)).
Proof. exact idempotent_scalars. Qed.
Print Assumptions C07_idempotent.

(* ---- round 7: a zone-aware date-time (tzinfo a fixed offset of [off] seconds) that is cast to
   TIMESTAMP comes back with its zone, to whole seconds - it is NOT the naive date-time of the same
   wall-clock reading; casting twice is casting once; its DATE is its calendar date.  And in general
   the result of a TIMESTAMP cast is zone-aware exactly when the input is a native zone-aware
   date-time, with the same offset (text, bytes, numbers, dates and naive values give naive ones). ---- *)
Theorem C07_timestamp_zone_aware :
  forall ft fb rp jl jd sc (k : kwargs) (y m d h mi s us off : Z),
  let cast := parse ft fb rp jl jd sc in
  cast T_TIMESTAMP k (PAware y m d h mi s us off) = ROk (PAware y m d h mi s 0 off) /\
  cast T_TIMESTAMP k (PAware y m d h mi s 0 off) = ROk (PAware y m d h mi s 0 off) /\
  cast T_DATE k (PAware y m d h mi s us off) = ROk (PDate y m d) /\
  PAware y m d h mi s 0 off <> PDatetime y m d h mi s 0.
Proof. exact timestamp_aware. Qed.
Print Assumptions C07_timestamp_zone_aware.

Theorem C07_timestamp_zone_kept :
  forall ft fb rp jl jd sc (k : kwargs) (x r : pyval),
  parse ft fb rp jl jd sc T_TIMESTAMP k x = ROk r ->
  match x, r with
  | PAware _ _ _ _ _ _ _ off, PAware _ _ _ _ _ _ _ off' => off' = off
  | PAware _ _ _ _ _ _ _ _, _ => False
  | _, PAware _ _ _ _ _ _ _ _ => False
  | _, _ => True
  end.
Proof. exact timestamp_zone_kept. Qed.
Print Assumptions C07_timestamp_zone_kept.

Theorem C07_array_idempotent :
  forall ft fb rp jl jd sc (et : otype) (l : list pyval) (k : kwargs),
  kw_element k = Some et ->
  Forall (fun v => parse ft fb rp jl jd sc et nokw v = ROk v) l ->
  parse ft fb rp jl jd sc T_ARRAY k (PList l) = ROk (PList l).
Proof. exact array_idempotent. Qed.
Print Assumptions C07_array_idempotent.

(* ---- INTEGER: whenever str(z) exists (z has at most int_max_str_digits digits - the
   interpreter's limit, regenerated), casting it, padded with blanks or not, as text or as
   UTF-8 bytes, gives z: integers of any size within that limit ---- *)
Theorem C07_integer_roundtrip :
  forall ft fb rp jl jd sc (k : kwargs) (z : Z) (s ws1 ws2 : list N),
  py_str rp sc (PInt z) = ROk s -> forallb blank ws1 = true -> forallb blank ws2 = true ->
  parse ft fb rp jl jd sc T_INTEGER k (PStr (ws1 ++ s ++ ws2)) = ROk (PInt z) /\
  parse ft fb rp jl jd sc T_INTEGER k (PBytes (utf8_encode (ws1 ++ s ++ ws2))) = ROk (PInt z).
Proof. exact integer_roundtrip. Qed.
Print Assumptions C07_integer_roundtrip.

Theorem C07_integer_str_defined :
  forall rp sc (z : Z), ndig (Z.abs z) <= int_max_str_digits -> py_str rp sc (PInt z) = ROk (render_Z z).
Proof. exact integer_str_defined. Qed.
Print Assumptions C07_integer_str_defined.

(* ---- BOOLEAN: decided by the generated BOOLEAN_STRINGS, tested on the upper-cased input
   as the code tests it (no stripping); str entries for text, bytes entries for bytes ---- *)
Theorem C07_boolean_table :
  forall ft fb rp jl jd sc (k : kwargs) (s : list N),
  (parse ft fb rp jl jd sc T_BOOLEAN k (PStr s) = ROk (PBool true) <-> In (false, py_upper s) boolean_strings) /\
  (parse ft fb rp jl jd sc T_BOOLEAN k (PBytes s) = ROk (PBool true) <-> In (true, bytes_upper s) boolean_strings).
Proof. exact boolean_true_iff. Qed.
Print Assumptions C07_boolean_table.

(* ... text and bytes never raise and always give a bool *)
Theorem C07_boolean_total :
  forall ft fb rp jl jd sc (k : kwargs) (s : list N),
  parse ft fb rp jl jd sc T_BOOLEAN k (PStr s) = ROk (PBool (in_boolean_strings false (py_upper s))) /\
  parse ft fb rp jl jd sc T_BOOLEAN k (PBytes s) = ROk (PBool (in_boolean_strings true (bytes_upper s))).
Proof. exact boolean_total. Qed.
Print Assumptions C07_boolean_total.

(* ... and str(b), as text or bytes, and b itself give b *)
Theorem C07_boolean_render :
  forall ft fb rp jl jd sc (k : kwargs) (b : bool),
  parse ft fb rp jl jd sc T_BOOLEAN k (PBool b) = ROk (PBool b) /\
  (exists s, py_str rp sc (PBool b) = ROk s /\
             parse ft fb rp jl jd sc T_BOOLEAN k (PStr s) = ROk (PBool b) /\
             parse ft fb rp jl jd sc T_BOOLEAN k (PBytes (utf8_encode s)) = ROk (PBool b)).
Proof. exact boolean_render. Qed.
Print Assumptions C07_boolean_render.

(* ---- VARCHAR[n] / BLOB[n], n >= 1: the longest prefix of length <= n, from text and
   from its UTF-8 bytes (VARCHAR), from bytes and from text (BLOB) ---- *)
Theorem C07_varchar_prefix :
  forall ft fb rp jl jd sc (n : Z) (t : list N), 1 <= n ->
  let r := firstn (Z.to_nat n) t in
  parse ft fb rp jl jd sc T_VARCHAR (mkkw (Some n) None None None) (PStr t) = ROk (PStr r) /\
  (forallb scalar t = true ->
   parse ft fb rp jl jd sc T_VARCHAR (mkkw (Some n) None None None) (PBytes (utf8_encode t)) = ROk (PStr r)) /\
  prefix r t /\ zlen r <= n /\ zlen r = Z.min n (zlen t) /\
  (forall r', prefix r' t -> zlen r' <= n -> prefix r' r).
Proof. exact varchar_longest. Qed.
Print Assumptions C07_varchar_prefix.

Theorem C07_blob_prefix :
  forall ft fb rp jl jd sc (n : Z) (b : list N), 1 <= n ->
  let r := firstn (Z.to_nat n) b in
  parse ft fb rp jl jd sc T_BLOB (mkkw (Some n) None None None) (PBytes b) = ROk (PBytes r) /\
  (forall t, forallb scalar t = true -> utf8_encode t = b ->
   parse ft fb rp jl jd sc T_BLOB (mkkw (Some n) None None None) (PStr t) = ROk (PBytes r)) /\
  prefix r b /\ zlen r <= n /\ zlen r = Z.min n (zlen b) /\
  (forall r', prefix r' b -> zlen r' <= n -> prefix r' r).
Proof. exact blob_longest. Qed.
Print Assumptions C07_blob_prefix.

Theorem C07_text_unbounded :
  forall ft fb rp jl jd sc (t b : list N),
  parse ft fb rp jl jd sc T_VARCHAR nokw (PStr t) = ROk (PStr t) /\
  (forallb scalar t = true -> parse ft fb rp jl jd sc T_VARCHAR nokw (PBytes (utf8_encode t)) = ROk (PStr t)) /\
  parse ft fb rp jl jd sc T_BLOB nokw (PBytes b) = ROk (PBytes b) /\
  (forallb scalar t = true -> parse ft fb rp jl jd sc T_BLOB nokw (PStr t) = ROk (PBytes (utf8_encode t))).
Proof. exact text_unbounded. Qed.
Print Assumptions C07_text_unbounded.

(* ---- ARRAY: lists, tuples and sets are cast element-wise with the element type's own cast
   (no keyword arguments), nulls kept, for all lists; JSON text is whatever orjson.loads
   returns, cast the same way; without an element type the elements are returned as a list ---- *)
Theorem C07_array_elementwise :
  forall ft fb rp jl jd sc (et : otype) (x : pyval) (l : list pyval) (l' : pyval) (k : kwargs),
  kw_element k = Some et -> (x = PList l \/ x = PTuple l \/ x = PSet l) ->
  parse ft fb rp jl jd sc T_ARRAY k x = ROk l' ->
  exists r, l' = PList r /\
            Forall2 (fun v y => parse ft fb rp jl jd sc et nokw v = ROk y /\ (v = PNone -> y = PNone)) l r.
Proof. exact array_elements_spec. Qed.
Print Assumptions C07_array_elementwise.

Theorem C07_array_all_elements_cast :
  forall ft fb rp jl jd sc (et : otype) (x : pyval) (l r : list pyval) (k : kwargs),
  kw_element k = Some et -> (x = PList l \/ x = PTuple l \/ x = PSet l) ->
  Forall2 (fun v y => parse ft fb rp jl jd sc et nokw v = ROk y) l r ->
  parse ft fb rp jl jd sc T_ARRAY k x = ROk (PList r).
Proof. exact array_all_ok. Qed.
Print Assumptions C07_array_all_elements_cast.

Theorem C07_array_json :
  forall ft fb rp jl jd sc (k : kwargs) (yb : bool) (s : list N) (l : list pyval),
  jl yb s = ROk (PList l) ->
  parse ft fb rp jl jd sc T_ARRAY k (if yb then PBytes s else PStr s) = parse ft fb rp jl jd sc T_ARRAY k (PList l).
Proof. exact array_json. Qed.
Print Assumptions C07_array_json.

(* F-C07-2 (fixed): a tuple or set without an element type comes back as a list *)
Theorem C07_array_no_element_type :
  forall ft fb rp jl jd sc (x : pyval) (l : list pyval),
  (x = PList l \/ x = PTuple l \/ x = PSet l) -> parse ft fb rp jl jd sc T_ARRAY nokw x = ROk (PList l).
Proof. exact array_no_element. Qed.
Print Assumptions C07_array_no_element_type.

(* ---- DOUBLE: given that float() inverts repr() (on every float repr can denote), skips
   blanks and reads ASCII bytes like text, the cast of repr(f) - padded or not, text or
   bytes - is f, bit for bit ---- *)
Theorem C07_double_roundtrip :
  forall (ft fb : list N -> res N) (rp : N -> list N) jl jd sc,
  (forall f, float_canonical f = true -> ft (rp f) = ROk f) ->
  (forall ws1 s ws2, forallb blank ws1 = true -> forallb blank ws2 = true -> ft (ws1 ++ s ++ ws2) = ft s) ->
  (forall b, forallb (fun c => c <? 128)%N b = true -> fb b = ft b) ->
  (forall f, forallb (fun c => c <? 128)%N (rp f) = true) ->
  forall (k : kwargs) (f : N) (ws1 ws2 : list N),
  float_canonical f = true -> forallb blank ws1 = true -> forallb blank ws2 = true ->
  parse ft fb rp jl jd sc T_DOUBLE k (PStr (ws1 ++ rp f ++ ws2)) = ROk (PFloat f) /\
  parse ft fb rp jl jd sc T_DOUBLE k (PBytes (utf8_encode (ws1 ++ rp f ++ ws2))) = ROk (PFloat f).
Proof. exact double_roundtrip. Qed.
Print Assumptions C07_double_roundtrip.

(* ---- DATE / TIMESTAMP: str(v), as text and as UTF-8 bytes (and isoformat() for
   timestamps), for every valid date of years 1..9999; timestamps to whole seconds.
   Rests on the parse_iso round trip proved for C08. ---- *)
Theorem C07_date_roundtrip :
  forall ft fb rp jl jd sc (k : kwargs) (y m d : Z), valid_date y m d = true ->
  py_str rp sc (PDate y m d) = ROk (render_date y m d) /\
  parse ft fb rp jl jd sc T_DATE k (PStr (render_date y m d)) = ROk (PDate y m d) /\
  parse ft fb rp jl jd sc T_DATE k (PBytes (utf8_encode (render_date y m d))) = ROk (PDate y m d).
Proof. exact date_roundtrip. Qed.
Print Assumptions C07_date_roundtrip.

Theorem C07_timestamp_roundtrip :
  forall ft fb rp jl jd sc (k : kwargs) (y m d h mi s us : Z),
  valid_date y m d = true -> valid_time h mi s = true -> 0 <= us < 1000000 ->
  py_str rp sc (PDatetime y m d h mi s us) = ROk (render_datetime y m d h mi s us) /\
  parse ft fb rp jl jd sc T_TIMESTAMP k (PStr (render_datetime y m d h mi s us)) = ROk (PDatetime y m d h mi s 0) /\
  parse ft fb rp jl jd sc T_TIMESTAMP k (PBytes (utf8_encode (render_datetime y m d h mi s us))) = ROk (PDatetime y m d h mi s 0) /\
  parse ft fb rp jl jd sc T_TIMESTAMP k (PStr (render_seconds y m d h mi s cT (frac_of us) SNone)) = ROk (PDatetime y m d h mi s 0).
Proof. exact timestamp_roundtrip. Qed.
Print Assumptions C07_timestamp_roundtrip.

(* ---- DECIMAL(p, s), 1 <= p <= 38, s <= 28 (the regenerated cap).
   Every decimal d = (-1)^neg * c * 10^e with at most p significant digits and at most s
   fractional digits (e >= -s), given as a Decimal, as str(d), padded, or as UTF-8 bytes,
   comes back with the same numerical value: c2 * 10^e2 = c * 10^e (stated scaled by 10^s). *)
Theorem C07_decimal_numeric :
  forall ft fb rp jl jd sc (p s : Z) (neg : bool) (c e : Z) (ws1 ws2 : list N),
  1 <= p <= 38 -> 0 <= s <= safe_scale_cap -> - s <= e <= 1000 -> 0 <= c -> (c = 0 \/ ndig c <= p) ->
  forallb blank ws1 = true -> forallb blank ws2 = true ->
  let d := DFin neg c e in
  exists c2 e2, let r := ROk (PDecimal (DFin neg c2 e2)) in
    - s <= e2 /\ c2 * 10 ^ (e2 + s) = c * 10 ^ (e + s) /\
    parse ft fb rp jl jd sc T_DECIMAL (dec_kw p s) (PDecimal d) = r /\
    parse ft fb rp jl jd sc T_DECIMAL (dec_kw p s) (PStr (ws1 ++ dec_str d ++ ws2)) = r /\
    parse ft fb rp jl jd sc T_DECIMAL (dec_kw p s) (PBytes (utf8_encode (ws1 ++ dec_str d ++ ws2))) = r.
Proof. exact decimal_numeric. Qed.
Print Assumptions C07_decimal_numeric.

(* ... and UNDER THE PREMISE THAT d FITS DECIMAL(p, s) in the SQL sense (its integer part has
   at most p - s digits: c = 0 \/ ndig c + (e + s) <= p) the result is exactly c * 10^(e+s) at
   exponent -s.  Without that premise the exponent claim is false (C07_decimal_exponent_refuted). *)
Theorem C07_decimal_exact :
  forall ft fb rp jl jd sc (p s : Z) (neg : bool) (c e : Z) (ws1 ws2 : list N),
  1 <= p <= 38 -> 0 <= s <= safe_scale_cap -> - s <= e <= 1000 -> 0 <= c ->
  (c = 0 \/ ndig c + (e + s) <= p) ->
  forallb blank ws1 = true -> forallb blank ws2 = true ->
  let d := DFin neg c e in
  let r := ROk (PDecimal (DFin neg (c * 10 ^ (e + s)) (- s))) in
  py_str rp sc (PDecimal d) = ROk (dec_str d) /\
  parse ft fb rp jl jd sc T_DECIMAL (dec_kw p s) (PDecimal d) = r /\
  parse ft fb rp jl jd sc T_DECIMAL (dec_kw p s) (PStr (ws1 ++ dec_str d ++ ws2)) = r /\
  parse ft fb rp jl jd sc T_DECIMAL (dec_kw p s) (PBytes (utf8_encode (ws1 ++ dec_str d ++ ws2))) = r.
Proof. exact decimal_exact. Qed.
Print Assumptions C07_decimal_exact.

(* Full statement of DESIGN.md ("for all d with at most precision significant digits and at
   most scale <= 28 fractional digits the result is numerically d WITH EXPONENT -scale"):
   the numerical half is C07_decimal_numeric; the exponent half holds only under the extra
   premise of C07_decimal_exact and is refuted without it - DECIMAL(5,3) of 12345 comes
   back as 12345 at exponent 0 (quantize to 0.001 would need eight digits; the code's
   InvalidOperation fallback returns the unquantized value). *)
Theorem C07_decimal_exponent_refuted :
  forall ft fb rp jl jd sc,
  exists p s c e, 1 <= p <= 38 /\ 0 <= s <= safe_scale_cap /\ - s <= e <= 0 /\ ndig c <= p /\
    exists c2 e2, parse ft fb rp jl jd sc T_DECIMAL (dec_kw p s) (PStr (dec_str (DFin false c e))) = ROk (PDecimal (DFin false c2 e2))
                  /\ e2 <> - s.
Proof. exact decimal_exponent_refuted. Qed.
Print Assumptions C07_decimal_exponent_refuted.

(* without keyword arguments the cast is DECIMAL(default_precision, default_scale), both regenerated *)
Theorem C07_decimal_defaults :
  forall ft fb rp jl jd sc (x : pyval),
  parse ft fb rp jl jd sc T_DECIMAL nokw x = parse ft fb rp jl jd sc T_DECIMAL (dec_kw default_precision default_scale) x.
Proof. exact decimal_defaults. Qed.
Print Assumptions C07_decimal_defaults.

(* ---- class preservation: for every value type, every keyword arguments and every modelled
   input other than None, a cast that returns returns a value of the class the generated
   ORSO_TO_PYTHON_MAP gives for the type - otherwise it raised; the elements of a typed
   array are null or of the element type's class ---- *)
Theorem C07_class_preserved :
  forall ft fb rp jl jd sc (t : otype) (k : kwargs) (x r : pyval),
  In t value_types -> x <> PNone -> parse ft fb rp jl jd sc t k x = ROk r -> Some (class_of r) = python_class t.
Proof. exact class_preserved. Qed.
Print Assumptions C07_class_preserved.

Theorem C07_class_elements :
  forall ft fb rp jl jd sc (et : otype) (k : kwargs) (x r : pyval),
  In et value_types -> kw_element k = Some et -> parse ft fb rp jl jd sc T_ARRAY k x = ROk r ->
  r = PNone \/ exists l, r = PList l /\ Forall (fun y => y = PNone \/ Some (class_of y) = python_class et) l.
Proof. exact class_elements. Qed.
Print Assumptions C07_class_elements.

(* ---- FlatColumn(type=t, length=, precision=, scale=, element_type=, default=x).default
   (F-C07-3 / F-C07-4 fixed): for a typed column it is the cast of x with the column's own
   keyword arguments, for EVERY x - None and falsy defaults included - any exception becoming
   ValueError; an untyped column keeps x.  The column's keyword arguments are the declared
   ones, except that a DECIMAL column without precision takes decimal.getcontext().prec and
   without scale int(0.75 * precision) (both regenerated).  Hence every theorem above about
   [parse t k] holds for column defaults with k the column's attributes. ---- *)
Theorem C07_column_default :
  forall ft fb rp jl jd sc (t : otype) (k : kwargs) (x : pyval),
  (untyped t = false ->
   column_default ft fb rp jl jd sc t k x = wrap_value_error (parse ft fb rp jl jd sc t (column_kwargs t k) x)) /\
  (untyped t = true -> column_default ft fb rp jl jd sc t k x = ROk x) /\
  (t <> T_DECIMAL -> column_kwargs t k = k) /\
  column_kwargs T_DECIMAL k =
    (let p := match kw_precision k with Some p => p | None => context_prec end in
     let s := match kw_scale k with Some s => s | None => Z.quot (column_scale_num * p) column_scale_den end in
     mkkw (kw_length k) (Some p) (Some s) (kw_element k)).
Proof. exact column_default_spec. Qed.
Print Assumptions C07_column_default.

(* a default that is not None comes out with the column type's class, or the constructor raised *)
Theorem C07_column_class :
  forall ft fb rp jl jd sc (t : otype) (k : kwargs) (x r : pyval),
  In t value_types -> x <> PNone -> column_default ft fb rp jl jd sc t k x = ROk r -> Some (class_of r) = python_class t.
Proof. exact column_class. Qed.
Print Assumptions C07_column_class.

(* ---- type names: what OrsoTypes.from_name makes of a member name, VARCHAR[n], BLOB[n],
   DECIMAL(p,s) and ARRAY<member> (limits and the forbidden element types regenerated) ---- *)
Theorem C07_from_name_table :
  (forall t, t <> T_ARRAY -> from_name (TNPlain t) = ROk (t, nokw)) /\
  from_name (TNPlain T_ARRAY) = ROk (T_ARRAY, mkkw None None None (Some T_VARCHAR)) /\
  (forall n, from_name (TNVarchar n) = ROk (T_VARCHAR, mkkw (Some n) None None None)) /\
  (forall n, from_name (TNBlob n) = ROk (T_BLOB, mkkw (Some n) None None None)) /\
  (forall p s, 0 <= s <= p -> p <= name_max_precision -> s <= name_max_scale ->
               from_name (TNDecimal p s) = ROk (T_DECIMAL, mkkw None (Some p) (Some s) None)) /\
  (forall p s, ~ (0 <= s <= p /\ p <= name_max_precision /\ s <= name_max_scale) -> from_name (TNDecimal p s) = RErr XValue) /\
  (forall et, array_element_forbidden et = false -> from_name (TNArray et) = ROk (T_ARRAY, mkkw None None None (Some et))) /\
  (forall et, array_element_forbidden et = true -> from_name (TNArray et) = RErr XValue).
Proof. exact from_name_table. Qed.
Print Assumptions C07_from_name_table.

(* ---- FlatColumn(type=<name>, length=, precision=, scale=, element_type=, default=x).default:
   the column default of the type the name denotes, with the parameters written in the name
   wherever the constructor was not given one; a name from_name rejects raises ValueError.
   Hence every theorem about [column_default] / [parse] holds for columns declared by name. ---- *)
Theorem C07_named_column :
  forall ft fb rp jl jd sc (n : tname) (k : kwargs) (x : pyval),
  (forall t kn, from_name n = ROk (t, kn) ->
     column_named ft fb rp jl jd sc n k x = column_default ft fb rp jl jd sc t (merge_kw k kn) x) /\
  (forall e, from_name n = RErr e -> column_named ft fb rp jl jd sc n k x = RErr XValue).
Proof. exact column_named_spec. Qed.
Print Assumptions C07_named_column.

Theorem C07_named_prefix :
  forall ft fb rp jl jd sc (n : Z) (t b : list N), 1 <= n ->
  column_named ft fb rp jl jd sc (TNVarchar n) nokw (PStr t) = ROk (PStr (firstn (Z.to_nat n) t)) /\
  column_named ft fb rp jl jd sc (TNBlob n) nokw (PBytes b) = ROk (PBytes (firstn (Z.to_nat n) b)).
Proof. exact named_prefix. Qed.
Print Assumptions C07_named_prefix.

(* ---- sessions: in ANY sequence of operations of one process (type names resolved, columns
   declared with parameterised types, casts with or without parameters) the outcome of each
   operation is the outcome of that operation alone: a cast depends on its type, its value and
   the parameters given to THAT cast only - never on a length / precision / scale / element type
   that an earlier operation mentioned.  [run_session] is what the correspondence evaluates on
   the sessions the implementation ran. ---- *)
Theorem C07_session_pure :
  forall ft fb rp jl jd sc (pre post : list op) (o : op),
  length (run_session ft fb rp jl jd sc (pre ++ o :: post)) = length (pre ++ o :: post) /\
  nth_error (run_session ft fb rp jl jd sc (pre ++ o :: post)) (length pre) = Some (run_op ft fb rp jl jd sc o).
Proof. exact session_pure_len. Qed.
Print Assumptions C07_session_pure.

Theorem C07_session_cast_independent :
  forall ft fb rp jl jd sc (pre post : list op) (col : bool) (t : otype) (k : kwargs) (x : pyval),
  nth_error (run_session ft fb rp jl jd sc (pre ++ OCast col t k x :: post)) (length pre)
  = Some (OutVal (if col then column_default ft fb rp jl jd sc t k x else parse ft fb rp jl jd sc t k x)).
Proof. exact session_cast. Qed.
Print Assumptions C07_session_cast_independent.

Theorem C07_session_prefix_irrelevant :
  forall ft fb rp jl jd sc (pre1 pre2 post1 post2 : list op) (o : op),
  nth_error (run_session ft fb rp jl jd sc (pre1 ++ o :: post1)) (length pre1)
  = nth_error (run_session ft fb rp jl jd sc (pre2 ++ o :: post2)) (length pre2).
Proof. exact session_two_prefixes. Qed.
Print Assumptions C07_session_prefix_irrelevant.

(* ---- the caller's decimal context: for ALL decimal contexts e1 e2 of the calling thread a cast
   gives the same result, except that a DECIMAL column declared without precision takes the
   caller's precision (by design: FlatColumn.__init__ reads decimal.getcontext().prec) - so
   there the two contexts must agree on the precision, and nothing else of them matters.  Under
   the default context [c07_run_env] is [c07_run].  (F-C07-6, the quantum computed in the caller's
   context, was fixed by 056ea2a: the premise env_ok of round 5 is gone.)  The correspondence
   evaluates [c07_run_env] on casts the implementation made under non-default contexts. ---- *)
Theorem C07_env_independent :
  forall (e1 e2 : denv) (c : cast_case),
  ((reads_env_prec c = false \/ env_prec e1 = env_prec e2) -> c07_run_env e1 c = c07_run_env e2 c) /\
  (reads_env_prec c = false -> c07_run_env e1 c = c07_run c) /\
  c07_run_env default_env c = c07_run c.
Proof. exact env_spec. Qed.
Print Assumptions C07_env_independent.

Example C07_env_nonvacuous :
  let w := [48; 46; 49; 50; 51; 52; 53; 54; 55; 56; 57; 48; 49; 50; 51; 52; 53]%N in
  c07_run_env (mkenv 9 999999 (-5) 0 1 false) (false, T_DECIMAL, nokw, PStr w, notab, RErr XOther)
    = ROk (PDecimal (DFin false 123456789012345000000 (-21))) /\
  reads_env_prec (true, T_DECIMAL, nokw, PStr [49; 46; 53]%N, notab, RErr XOther) = true /\
  c07_run_env (mkenv 9 999999 (-999999) 0 0 false) (true, T_DECIMAL, nokw, PStr [49; 46; 53]%N, notab, RErr XOther)
    = ROk (PDecimal (DFin false 1500000 (-6))) /\
  c07_run_env default_env (true, T_DECIMAL, nokw, PStr [49; 46; 53]%N, notab, RErr XOther)
    = ROk (PDecimal (DFin false 1500000000000000000000 (-21))).
Proof. exact env_witness. Qed.

(* ---- non-vacuity ---- *)
(* sessions: VARCHAR[3] resolved and declared, then the bare VARCHAR cast keeps the whole text;
   names from_name rejects; the bare name ARRAY has VARCHAR elements *)
Example C07_session_nonvacuous :
  forall ft fb rp jl jd sc,
  run_session ft fb rp jl jd sc
    [OResolve (TNVarchar 3); ODeclare (TNVarchar 3) nokw (PStr [97; 98; 99; 100]%N); OCast false T_VARCHAR nokw (PStr [97; 98; 99; 100]%N);
     OResolve (TNDecimal 39 2); OResolve (TNArray T_DECIMAL); OResolve (TNPlain T_ARRAY)]
  = [OutName (ROk (T_VARCHAR, mkkw (Some 3) None None None)); OutVal (ROk (PStr [97; 98; 99]%N)); OutVal (ROk (PStr [97; 98; 99; 100]%N));
     OutName (RErr XValue); OutName (RErr XValue); OutName (ROk (T_ARRAY, mkkw None None None (Some T_VARCHAR)))].
Proof. exact session_witness. Qed.

(* INTEGER: a negative number, padded *)
Example C07_integer_nonvacuous :
  forall ft fb rp jl jd sc,
  py_str rp sc (PInt (-1203)) = ROk [45; 49; 50; 48; 51]%N /\ forallb blank [32; 9]%N = true /\
  parse ft fb rp jl jd sc T_INTEGER nokw (PStr ([32; 9] ++ [45; 49; 50; 48; 51] ++ [10])%N) = ROk (PInt (-1203)).
Proof. intros. vm_compute. repeat split; reflexivity. Qed.

(* DECIMAL(5,2) of -12.3: fits; exponent -2 *)
Example C07_decimal_nonvacuous :
  forall ft fb rp jl jd sc,
  1 <= 5 <= 38 /\ 0 <= 2 <= safe_scale_cap /\ ndig 123 + (-1 + 2) <= 5 /\
  dec_str (DFin true 123 (-1)) = [45; 49; 50; 46; 51]%N /\
  parse ft fb rp jl jd sc T_DECIMAL (dec_kw 5 2) (PStr (dec_str (DFin true 123 (-1)))) = ROk (PDecimal (DFin true 1230 (-2))) /\
  (* scientific rendering, rounding (not covered by the theorems, evaluated by the model) *)
  dec_str (DFin false 1 (-7)) = [49; 69; 45; 55]%N /\
  parse ft fb rp jl jd sc T_DECIMAL (dec_kw 10 8) (PStr (dec_str (DFin false 1 (-7)))) = ROk (PDecimal (DFin false 10 (-8))) /\
  parse ft fb rp jl jd sc T_DECIMAL (dec_kw 1 0) (PStr [50; 46; 53]%N) = ROk (PDecimal (DFin false 2 0)).
Proof. intros. vm_compute. repeat split; try reflexivity; discriminate. Qed.

(* DOUBLE: the hypotheses of C07_double_roundtrip are satisfiable (a toy float/repr pair) *)
Example C07_double_hypotheses_satisfiable :
  (forall f, float_canonical f = true -> toy_float (toy_repr f) = ROk f) /\
  (forall ws1 s ws2, forallb blank ws1 = true -> forallb blank ws2 = true -> toy_float (ws1 ++ s ++ ws2) = toy_float s) /\
  (forall b, forallb (fun c => c <? 128)%N b = true -> toy_float b = toy_float b) /\
  (forall f, forallb (fun c => c <? 128)%N (toy_repr f) = true).
Proof. exact double_hypotheses_satisfiable. Qed.

Example C07_float_canonical_examples :
  float_canonical 4609434218613702656 = true /\ float_canonical 9218868437227405312 = true /\
  float_canonical 9221120237041090560 = true /\ float_canonical 9221120237041090561 = false.
Proof. vm_compute. repeat split; reflexivity. Qed.

(* BOOLEAN: the table is not empty and decides both ways; no stripping *)
Example C07_boolean_nonvacuous :
  forall ft fb rp jl jd sc,
  In (false, py_upper [121; 101; 383]%N) boolean_strings /\                     (* "yeſ".upper() = "YES" *)
  parse ft fb rp jl jd sc T_BOOLEAN nokw (PStr [116; 114; 117; 101]%N) = ROk (PBool true) /\
  parse ft fb rp jl jd sc T_BOOLEAN nokw (PStr [32; 116; 114; 117; 101]%N) = ROk (PBool false) /\
  parse ft fb rp jl jd sc T_BOOLEAN nokw (PBytes [111; 110]%N) = ROk (PBool true) /\
  parse ft fb rp jl jd sc T_BOOLEAN nokw (PInt 2) = ROk (PBool false).
Proof. intros. vm_compute. repeat split; try reflexivity. tauto. Qed.

(* VARCHAR[2] over multi-byte text: characters, not bytes, are counted *)
Example C07_varchar_nonvacuous :
  forall ft fb rp jl jd sc,
  forallb scalar [233; 8364; 128512]%N = true /\
  parse ft fb rp jl jd sc T_VARCHAR (mkkw (Some 2) None None None) (PBytes (utf8_encode [233; 8364; 128512]%N)) = ROk (PStr [233; 8364]%N) /\
  parse ft fb rp jl jd sc T_BLOB (mkkw (Some 2) None None None) (PStr [233; 8364; 128512]%N) = ROk (PBytes [195; 169]%N).
Proof. intros. vm_compute. repeat split; reflexivity. Qed.

(* ARRAY<INTEGER> of a tuple with a null; DATE / TIMESTAMP renderings *)
Example C07_array_date_nonvacuous :
  forall ft fb rp jl jd sc,
  parse ft fb rp jl jd sc T_ARRAY (mkkw None None None (Some T_INTEGER)) (PTuple [PStr [55]%N; PNone; PBool true])
    = ROk (PList [PInt 7; PNone; PInt 1]) /\
  valid_date 2024 2 29 = true /\ valid_time 23 59 58 = true /\
  parse ft fb rp jl jd sc T_TIMESTAMP nokw (PStr (render_datetime 2024 2 29 23 59 58 250000)) = ROk (PDatetime 2024 2 29 23 59 58 0) /\
  parse ft fb rp jl jd sc T_DATE nokw (PDatetime 2024 2 29 23 59 58 250000) = ROk (PDate 2024 2 29).
Proof. intros. vm_compute. repeat split; reflexivity. Qed.

(* round 7: zone-aware date-times - an ARRAY<TIMESTAMP> column of a tuple (aware, null, naive); a column declared by the
   name TIMESTAMP; VARCHAR of an aware value at offset -07:59:30; INTEGER of one raises TypeError *)
Example C07_zone_aware_nonvacuous :
  forall ft fb rp jl jd sc,
  column_default ft fb rp jl jd sc T_ARRAY (mkkw None None None (Some T_TIMESTAMP))
      (PTuple [PAware 2023 4 18 12 34 56 789012 19800; PNone; PDatetime 2023 4 18 12 34 56 789012])
    = ROk (PList [PAware 2023 4 18 12 34 56 0 19800; PNone; PDatetime 2023 4 18 12 34 56 0]) /\
  column_named ft fb rp jl jd sc (TNPlain T_TIMESTAMP) nokw (PAware 1969 12 31 23 59 59 999999 (-28800)) = ROk (PAware 1969 12 31 23 59 59 0 (-28800)) /\
  parse ft fb rp jl jd sc T_VARCHAR nokw (PAware 2023 4 18 12 34 56 789012 (-28770))
    = ROk (PStr [50;48;50;51;45;48;52;45;49;56;32;49;50;58;51;52;58;53;54;46;55;56;57;48;49;50;45;48;55;58;53;57;58;51;48]%N) /\
  parse ft fb rp jl jd sc T_INTEGER nokw (PAware 2023 4 18 12 34 56 0 0) = RErr XType.
Proof. intros. vm_compute. repeat split; reflexivity. Qed.

(* FlatColumn: the witnesses of F-C07-3 / F-C07-4, an untyped column, a default that cannot be cast *)
Example C07_column_nonvacuous :
  forall ft fb rp jl jd sc,
  column_default ft fb rp jl jd sc T_VARCHAR (mkkw (Some 3) None None None) (PStr [97; 98; 99; 100; 101; 102]%N) = ROk (PStr [97; 98; 99]%N) /\
  column_default ft fb rp jl jd sc T_VARCHAR nokw (PBytes []) = ROk (PStr []) /\
  column_default ft fb rp jl jd sc T_DOUBLE nokw (PInt 0) = ROk (PFloat 0) /\
  column_kwargs T_DECIMAL nokw = mkkw None (Some context_prec) (Some 21) None /\
  column_default ft fb rp jl jd sc T__MISSING_TYPE (mkkw (Some 3) None None None) (PStr [97; 98; 99; 100]%N) = ROk (PStr [97; 98; 99; 100]%N) /\
  column_default ft fb rp jl jd sc T_INTEGER nokw (PStr [120]%N) = RErr XValue.
Proof. exact column_witnesses. Qed.
