(* C07 - Casting to a column type is exact on canonical renderings.  Property theorems only. *)
From Coq Require Import List ZArith NArith Bool.
From Orso Require Import Base.Civil Gen.C08_Tables Model.C08 Gen.C07_Tables Model.C07 Proofs.C07.
Import ListNotations.
Open Scope Z_scope.

Theorem C07_null :
  forall ft fb rp jl jd sc (t : otype) (k : kwargs), parse ft fb rp jl jd sc t k PNone = ROk PNone.
Proof. exact parse_none. Qed.
Print Assumptions C07_null.
