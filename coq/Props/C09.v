(* C09 - Compressed column encodings are lossless.
   Property theorems only; each is closed by [exact] of a lemma from Proofs/C09.v and followed by
   Print Assumptions.  Part A: the codecs, for every sequence over an abstract value type [A]
   (the comparison functions stand for Python's == / NumPy's != / NumPy's sort order).
   Part B: the dtype layer - "values neither truncated nor narrowed to another type". *)
From Coq Require Import List ZArith NArith Bool Arith Sorted.
From Orso Require Import Model.C09 Proofs.C09.
Import ListNotations.

(* ====================== A. run-length encoding ====================== *)

(* Expanding an RLE column reproduces the sequence whenever [value == prev_value] only
   answers true for identical values. *)
Theorem C09_rle_roundtrip :
  forall (A : Type) (eqb : A -> A -> bool) (l : list A),
  (forall x y, eqb x y = true -> x = y) ->
  rle_decode (fst (rle_encode eqb l)) (snd (rle_encode eqb l)) = l.
Proof. exact rle_roundtrip. Qed.
Print Assumptions C09_rle_roundtrip.

(* No hypothesis on == at all (NaN, 0.0 == -0.0, 1 == 1.0 == True included): every element
   comes back as itself or as the head of its run, to which it compared equal. *)
Theorem C09_rle_roundtrip_up_to_eq :
  forall (A : Type) (eqb : A -> A -> bool) (l : list A),
  Forall2 (fun x y => x = y \/ eqb x y = true) l
          (rle_decode (fst (rle_encode eqb l)) (snd (rle_encode eqb l))).
Proof. exact rle_roundtrip_upto. Qed.
Print Assumptions C09_rle_roundtrip_up_to_eq.

(* The stored form: as many values as lengths, every run length >= 1, lengths sum to the
   input length, adjacent run values differ. *)
Theorem C09_rle_compressed :
  forall (A : Type) (eqb : A -> A -> bool) (l : list A),
  length (fst (rle_encode eqb l)) = length (snd (rle_encode eqb l)) /\
  Forall (fun n => 1 <= n) (snd (rle_encode eqb l)) /\
  list_sum (snd (rle_encode eqb l)) = length l /\
  adjacent_differ eqb (fst (rle_encode eqb l)).
Proof. exact rle_compressed. Qed.
Print Assumptions C09_rle_compressed.

(* A function applied to the stored run values, then expansion = the function applied to
   every element of the expansion; for every stored form, every f. *)
Theorem C09_rle_map_commutes :
  forall (A B : Type) (f : A -> B) (vs : list A) (ls : list nat),
  rle_decode (map f vs) ls = map f (rle_decode vs ls).
Proof. exact rle_decode_map. Qed.
Print Assumptions C09_rle_map_commutes.

(* ====================== A. sparse ====================== *)

(* Expansion reproduces the sequence when [x != default] is false only for the default itself. *)
Theorem C09_sparse_roundtrip :
  forall (A : Type) (neqb : A -> A -> bool) (l : list A) (d : A),
  (forall x, neqb x d = false -> x = d) ->
  sparse_materialize (sparse_encode neqb l d) d = l.
Proof. exact sparse_roundtrip. Qed.
Print Assumptions C09_sparse_roundtrip.

(* Without any hypothesis on !=: every element comes back as itself, or - where [x != default]
   answered false - as the default. *)
Theorem C09_sparse_roundtrip_up_to_eq :
  forall (A : Type) (neqb : A -> A -> bool) (l : list A) (d : A),
  Forall2 (fun x y => x = y \/ (neqb x d = false /\ y = d)) l
          (sparse_materialize (sparse_encode neqb l d) d).
Proof. exact sparse_roundtrip_upto. Qed.
Print Assumptions C09_sparse_roundtrip_up_to_eq.

(* The stored form: total length kept, one index per value, no stored value is the default
   ([v != default] holds for each), indices strictly increasing and in range. *)
Theorem C09_sparse_compressed :
  forall (A : Type) (neqb : A -> A -> bool) (l : list A) (d : A),
  let '(idx, vals, n) := sparse_encode neqb l d in
  n = length l /\ length idx = length vals /\
  Forall (fun v => neqb v d = true) vals /\
  StronglySorted lt idx /\ Forall (fun i => i < length l) idx.
Proof. exact sparse_compressed. Qed.
Print Assumptions C09_sparse_compressed.

Theorem C09_sparse_storage_excludes_default :
  forall (A : Type) (neqb : A -> A -> bool) (l : list A) (d : A),
  (forall x, x = d -> neqb x d = false) ->
  ~ In d (snd (fst (sparse_encode neqb l d))).
Proof. exact sparse_no_default. Qed.
Print Assumptions C09_sparse_storage_excludes_default.

(* Function on the stored values, then expansion = function on every element, for every
   stored form and every f that fixes the default (a sparse encoding cannot know f default). *)
Theorem C09_sparse_map_commutes :
  forall (A : Type) (f : A -> A) (idx : list nat) (vals : list A) (n : nat) (d : A),
  f d = d ->
  sparse_materialize (idx, map f vals, n) d = map f (sparse_materialize (idx, vals, n) d).
Proof. exact sparse_materialize_map. Qed.
Print Assumptions C09_sparse_map_commutes.

(* ====================== A. dictionary ====================== *)

Theorem C09_dict_roundtrip :
  forall (A : Type) (deqb leb : A -> A -> bool),
  (forall x y, deqb x y = true <-> x = y) ->
  forall l : list A, dict_decode (dict_encode deqb leb l) = Some l.
Proof. exact dict_roundtrip. Qed.
Print Assumptions C09_dict_roundtrip.

(* one code per element, every code indexes the dictionary, the dictionary holds exactly
   the elements of the sequence *)
Theorem C09_dict_codes_index_entries :
  forall (A : Type) (deqb leb : A -> A -> bool),
  (forall x y, deqb x y = true <-> x = y) ->
  forall l : list A,
  (length (snd (dict_encode deqb leb l)) = length l /\
   Forall (fun c => c < length (fst (dict_encode deqb leb l))) (snd (dict_encode deqb leb l))) /\
  (forall x, In x (fst (dict_encode deqb leb l)) <-> In x l).
Proof.
  intros A deqb leb Hs l. split.
  - exact (dict_codes_in_range A deqb leb Hs l).
  - exact (dict_entries_are_elements A deqb leb Hs l).
Qed.
Print Assumptions C09_dict_codes_index_entries.

(* entries strictly ascending in the order (what numpy.unique returns), hence without duplicates *)
Theorem C09_dict_entries_unique :
  forall (A : Type) (deqb leb : A -> A -> bool),
  (forall x y, deqb x y = true <-> x = y) ->
  (forall x y, leb x y = true \/ leb y x = true) ->
  (forall x y z, leb x y = true -> leb y z = true -> leb x z = true) ->
  (forall x y, leb x y = true -> leb y x = true -> x = y) ->
  forall l : list A,
  StronglySorted (lt_of leb) (fst (dict_encode deqb leb l)) /\ NoDup (fst (dict_encode deqb leb l)).
Proof. exact dict_entries_unique. Qed.
Print Assumptions C09_dict_entries_unique.

Theorem C09_dict_map_commutes :
  forall (A B : Type) (f : A -> B) (d : list A) (codes : list nat),
  dict_decode (map f d, codes) = option_map (map f) (dict_decode (d, codes)).
Proof. exact gather_map. Qed.
Print Assumptions C09_dict_map_commutes.

(* ====================== A. constant and function columns ====================== *)

Theorem C09_const_roundtrip :
  forall (A : Type) (v : A) (n : nat), const_materialize (const_encode v) n = Some (repeat v n).
Proof. exact const_roundtrip. Qed.
Print Assumptions C09_const_roundtrip.

Theorem C09_const_map_commutes :
  forall (A B : Type) (f : A -> B) (vals : list A) (n : nat),
  const_materialize (map f vals) n = option_map (map f) (const_materialize vals n).
Proof. exact const_map. Qed.
Print Assumptions C09_const_map_commutes.

Theorem C09_function_column_is_repeat :
  forall (A Cfg : Type) (b : Cfg -> A) (c : Cfg) (n : Z),
  func_materialize b c n = repeat (b c) (Z.to_nat n) /\
  length (func_materialize b c n) = Z.to_nat n /\
  Forall (fun x => x = b c) (func_materialize b c n).
Proof. exact func_is_repeat. Qed.
Print Assumptions C09_function_column_is_repeat.

(* ====================== B. the dtype layer ====================== *)

(* numpy.array on a list of one kind (all bool, all int64, all float, all text) keeps every
   element as it is: the input coercion is the identity there. *)
Theorem C09_np_array_identity_on_one_kind :
  forall l : list val, one_kind l -> exists dv, np_array l = Ok (dv, l).
Proof. exact np_array_one_kind. Qed.
Print Assumptions C09_np_array_identity_on_one_kind.

(* The dtype SparseColumn.materialize chooses (mat_dtype, lines 428-441) holds every possible
   stored value of the values array unchanged, and the default converts to it into a value
   that is the default itself or compares equal to it under NumPy's ==. *)
Theorem C09_sparse_dtype_holds_values_and_default :
  forall (dv : dtype) (d : val) (dt : dtype),
  dv <> DUInt -> mat_dtype dv d = Ok dt ->
  (forall v, has_dtype dv v -> np_cast dt v = Ok v) /\
  (exists c, np_cast dt d = Ok c /\ (c = d \/ np_eqb dt c d = true)).
Proof. exact sparse_dtype_holds. Qed.
Print Assumptions C09_sparse_dtype_holds_values_and_default.

(* ... whereas the model's conversions are lossy where NumPy's are (what F-C09-1 was):
   'abc' to <U1 is 'a', 1.5 to int64 is 1, 2^53+1 to float64 is 2^53. *)
Theorem C09_casts_are_lossy_elsewhere :
  np_cast (DStr 1) (VStr [97; 98; 99]%N) = Ok (VStr [97]%N) /\
  np_cast DInt (VFloat (FFin 3 (-1))) = Ok (VInt 1) /\
  np_cast DFloat (VInt (2 ^ 53 + 1)) = Ok (VFloat (FFin 1 53)).
Proof. exact cast_is_lossy. Qed.
Print Assumptions C09_casts_are_lossy_elsewhere.

(* FULL STATEMENT WANTED: for every Python list l and default d,
     sparse_np l d None = Ok o  and the expanded list equals numpy.array(l) element for element.
   PROVED (partial): whenever the column builds and expands, every position of the result holds
   the array element itself, unchanged in value and type, or - where NumPy's [x != default]
   answered false - the default converted to the result dtype, which is the default itself or
   NumPy-== to it.  MISSING: (1) totality of the constructor (F-C09-3, below), (2) NumPy's == is
   not identity: it compares int64 with float in binary64 (F-C09-4) and equates values of
   different kinds inside object arrays (F-C09-5); see the two _refuted theorems. *)
Theorem C09_sparse_numpy_lossless_partial :
  forall (l : list val) (d : val) (dv : dtype) (arr : list val) (o : obs),
  np_array l = Ok (dv, arr) -> sparse_np l d None = Ok o ->
  exists idx vals dt fill out,
    o = mkobs [vals; out] [idx] [dv; dt] /\
    (idx, vals, length arr) = sparse_encode (np_neqb dv) arr d /\
    mat_dtype dv d = Ok dt /\ np_cast dt d = Ok fill /\ (fill = d \/ np_eqb dt fill d = true) /\
    Forall (has_dtype dv) arr /\
    Forall2 (fun x y => y = x \/ (np_eqb dv x d = true /\ y = fill)) arr out.
Proof. exact sparse_np_lossless. Qed.
Print Assumptions C09_sparse_numpy_lossless_partial.

(* The dtype choice of materialize never raises (F-C09-2, fixed by cf4ef68): a default without
   a counterpart in the values' type (NaN, infinities, huge integers) leads to the object dtype. *)
Theorem C09_sparse_dtype_choice_total :
  forall (dv : dtype) (d : val), dv <> DUInt -> exists dt, mat_dtype dv d = Ok dt.
Proof. exact mat_dtype_total. Qed.
Print Assumptions C09_sparse_dtype_choice_total.

(* FULL STATEMENT WANTED: forall l d, np_array l = Ok _ -> exists o, sparse_np l d None = Ok o.
   PROVED (partial): the column builds and expands whenever the constructor's comparison
   [numpy.array(values) != default] does not raise; nothing else in it can.  MISSING: that
   comparison does raise for some defaults (F-C09-3, next theorem). *)
Theorem C09_sparse_numpy_total_partial :
  forall (l : list val) (d : val) (dv : dtype) (arr : list val),
  np_array l = Ok (dv, arr) -> np_cmp_guard dv d = Ok tt ->
  exists o, sparse_np l d None = Ok o.
Proof. exact sparse_np_total_partial. Qed.
Print Assumptions C09_sparse_numpy_total_partial.

(* the F-C09-2 witnesses now expand, unchanged, into object arrays *)
Theorem C09_sparse_unconvertible_default_expands :
  sparse_np [VInt 1; VInt 2; VInt 3] (VFloat FNaN) None
  = Ok (mkobs [[VInt 1; VInt 2; VInt 3]; [VInt 1; VInt 2; VInt 3]] [[0; 1; 2]] [DInt; DObj]) /\
  sparse_np [VInt 1; VInt 2] (VInt (2 ^ 63)) None = Ok (mkobs [[VInt 1; VInt 2]; [VInt 1; VInt 2]] [[0; 1]] [DInt; DObj]) /\
  sparse_np [VInt 1; VInt 2] (VFloat (FFin 1 100)) None = Ok (mkobs [[VInt 1; VInt 2]; [VInt 1; VInt 2]] [[0; 1]] [DInt; DObj]) /\
  sparse_np [VInt 1; VInt 2] (VFloat (FInf false)) None = Ok (mkobs [[VInt 1; VInt 2]; [VInt 1; VInt 2]] [[0; 1]] [DInt; DObj]).
Proof. exact sparse_np_unconvertible_default. Qed.
Print Assumptions C09_sparse_unconvertible_default_expands.

(* F-C09-3: the constructor's comparison raises (2^70 against a bool array, 2^1024 against floats). *)
Theorem C09_sparse_construct_total_refuted :
  sparse_np [VBool true; VBool false] (VInt (2 ^ 70)) None = Raise OverflowError /\
  sparse_np [VFloat (FFin 3 (-1))] (VInt (2 ^ 1024)) None = Raise OverflowError.
Proof. exact sparse_np_raises_init. Qed.
Print Assumptions C09_sparse_construct_total_refuted.

(* F-C09-4: [2^53+1, 7] with default 2.0^53 expands to [2^53, 7]. *)
Theorem C09_sparse_exact_compare_refuted :
  sparse_np [VInt (2 ^ 53 + 1); VInt 7] (VFloat (FFin 1 53)) None
  = Ok (mkobs [[VInt 7]; [VInt (2 ^ 53); VInt 7]] [[1]] [DInt; DInt]).
Proof. exact sparse_np_inexact_compare. Qed.
Print Assumptions C09_sparse_exact_compare_refuted.

(* F-C09-5: [None, 0, None] with default False expands to [None, False, None]. *)
Theorem C09_sparse_same_type_refuted :
  sparse_np [VNull; VInt 0; VNull] (VBool false) None
  = Ok (mkobs [[VNull; VNull]; [VNull; VBool false; VNull]] [[0; 2]] [DObj; DObj]).
Proof. exact sparse_np_object_default_kind. Qed.
Print Assumptions C09_sparse_same_type_refuted.

(* ====================== non-vacuity ====================== *)

(* the hypotheses of the exact round trips are satisfiable: integers with Z.eqb *)
Example C09_nonvacuous_eqb :
  (forall x y, Z.eqb x y = true -> x = y) /\
  (forall x y, Z.eqb x y = true <-> x = y) /\
  (forall x, negb (Z.eqb x 0) = false -> x = 0%Z) /\
  (forall x y, Z.leb x y = true \/ Z.leb y x = true).
Proof.
  split; [intros x y H; apply Z.eqb_eq; exact H|].
  split; [intros x y; apply Z.eqb_eq|].
  split; [intros x H; apply Z.eqb_eq; destruct (Z.eqb x 0); [reflexivity | discriminate]|].
  intros x y. destruct (Z.leb_spec x y) as [H|H]; [left; reflexivity | right; apply Z.leb_le; apply Z.lt_le_incl; exact H].
Qed.

(* the codecs do compress and expand a concrete sequence *)
Example C09_nonvacuous_codecs :
  rle_encode Z.eqb [5; 5; 7; 5; 5; 5]%Z = ([5; 7; 5]%Z, [2; 1; 3]) /\
  dict_encode Z.eqb Z.leb [31; 28; 31; 30]%Z = ([28; 30; 31]%Z, [2; 0; 2; 1]) /\
  sparse_encode (fun x y => negb (Z.eqb x y)) [0; 4; 0; 9]%Z 0%Z = ([1; 3], [4; 9]%Z, 4) /\
  sparse_materialize ([1; 3], map (Z.mul 2) [4; 9]%Z, 4) 0%Z = [0; 8; 0; 18]%Z.
Proof.
  split; [vm_compute; reflexivity|]. split; [vm_compute; reflexivity|].
  split; vm_compute; reflexivity.
Qed.

(* the hypotheses of the dtype theorems are satisfiable: the F-C09-1 witnesses *)
Example C09_nonvacuous_dtype :
  mat_dtype DFloat (VInt 0) = Ok DFloat /\
  mat_dtype (DStr 3) (VStr []) = Ok (DStr 3) /\
  mat_dtype DInt (VFloat (FFin 1 (-1))) = Ok DObj /\
  sparse_np [VInt 0; VFloat (FFin 3 (-1)); VInt 0; VFloat (FFin 5 (-1))] (VInt 0) None
  = Ok (mkobs [[VFloat (FFin 3 (-1)); VFloat (FFin 5 (-1))];
               [VFloat (FZero false); VFloat (FFin 3 (-1)); VFloat (FZero false); VFloat (FFin 5 (-1))]]
              [[1; 3]] [DFloat; DFloat]) /\
  one_kind [VStr [97]%N; VStr [97; 98; 99]%N].
Proof.
  split; [vm_compute; reflexivity|]. split; [vm_compute; reflexivity|].
  split; [vm_compute; reflexivity|]. split; [vm_compute; reflexivity|].
  right. right. right. repeat constructor; eexists; reflexivity.
Qed.

(* ====================== C. sessions over several column objects ====================== *)
(* Constant / function column OBJECTS with explicit state (current binding, configuration, value, length, the size
   written into the declared type name; one counter shared by the stateful binding).  The correspondence runs such
   sessions on real objects that share their binding FUNCTION objects. *)

(* The size written into a column's type name (VARCHAR[20], BLOB[4]) never matters: every expansion of every session
   is what it is with the declared sizes forgotten. *)
Theorem C09_session_declared_size_irrelevant :
  forall (steps : list sstep) (cols : list scol) (ticks : Z),
  sess_run (map erase_col cols) ticks (map erase_step steps) = sess_run cols ticks steps.
Proof. exact sess_run_erase. Qed.
Print Assumptions C09_session_declared_size_irrelevant.

(* Expanding a column (constant, or function column over a pure binding) answers from that column's CURRENT fields and
   leaves everything that follows unchanged: later expansions - of it or of any other column - are what they would
   have been without it, so expanding twice gives the same answer and nothing is remembered. *)
Theorem C09_session_expansion_has_no_effect :
  forall (cols : list scol) (ticks : Z) (i : nat) (c : scol) (rest : list sstep),
  nth_error cols i = Some c -> pure_col c ->
  sess_run cols ticks (SMat i :: rest) = fst (scol_mat c ticks) :: sess_run cols ticks rest.
Proof. exact sess_mat_no_effect. Qed.
Print Assumptions C09_session_expansion_has_no_effect.

(* A pure column's answer does not depend on how often the stateful binding was called. *)
Theorem C09_session_pure_answer_ignores_counter :
  forall (c : scol) (t u : Z), pure_col c -> fst (scol_mat c t) = fst (scol_mat c u).
Proof. exact scol_mat_pure_indep. Qed.
Print Assumptions C09_session_pure_answer_ignores_counter.

(* Rebinding one column's configuration or length changes that column only. *)
Theorem C09_session_update_is_local :
  forall (i j : nat) (f : scol -> scol) (cols : list scol) (c : scol),
  (i <> j -> nth_error (set_col i f cols) j = nth_error cols j) /\
  (nth_error cols i = Some c -> nth_error (set_col i f cols) i = Some (f c)).
Proof. intros i j f cols c. split; [apply set_col_other | apply set_col_same]. Qed.
Print Assumptions C09_session_update_is_local.

(* non-vacuity: identity over 1, 1.0, True through ONE binding gives an int, a float and a bool array; the counter counts;
   a declared size 20 next to length 3 expands to 3 elements *)
Example C09_nonvacuous_session :
  sess_run [] 0%Z
    [SNew (mkscol (KFunc (SPure BFirst) [VInt 1]) 2 None); SNew (mkscol (KFunc (SPure BFirst) [VFloat (FFin 1 0)]) 2 (Some 20%N));
     SMat 0; SMat 1; SSetCfg 0 [VBool true]; SMat 0; SNew (mkscol (KFunc SCounter []) 1 None); SMat 2; SMat 2;
     SNew (mkscol (KConst (VInt 7)) 3 (Some 20%N)); SMat 3]
  = [Ok ([VInt 1; VInt 1], DInt); Ok ([VFloat (FFin 1 0); VFloat (FFin 1 0)], DFloat); Ok ([VBool true; VBool true], DBool);
     Ok ([VInt 0], DInt); Ok ([VInt 1], DInt); Ok ([VInt 7; VInt 7; VInt 7], DInt)].
Proof. vm_compute. reflexivity. Qed.

(* ====================== D. what the column declares ====================== *)
(* A sparse column is sparse around its [default_value] argument only: the declared schema default and the size in
   the type name are never consulted, and leaving [default_value] out is passing None. *)
Theorem C09_sparse_declaration_irrelevant :
  forall (dc dc' : decl) (a : option val) (l : list val) (f : option fn),
  sparse_col_np dc a l f = sparse_col_np dc' a l f.
Proof. reflexivity. Qed.
Print Assumptions C09_sparse_declaration_irrelevant.

Theorem C09_sparse_default_omitted_is_none :
  forall (dc : decl) (l : list val) (f : option fn),
  sparse_col_np dc None l f = sparse_col_np dc (Some VNull) l f /\ sparse_col_np dc None l f = sparse_np l VNull f.
Proof. intros dc l f. split; reflexivity. Qed.
Print Assumptions C09_sparse_default_omitted_is_none.

(* non-vacuity: data holding the declared default 0, sparse default left out: 0 is stored and comes back, nulls are the gaps *)
Example C09_nonvacuous_declared_default :
  sparse_col_np (mkdecl None (Some (VInt 0))) None [VInt 1; VInt 0; VNull; VInt 2; VInt 0] None
  = Ok (mkobs [[VInt 1; VInt 0; VInt 2; VInt 0]; [VInt 1; VInt 0; VNull; VInt 2; VInt 0]] [[0; 1; 3; 4]] [DObj; DObj]).
Proof. vm_compute. reflexivity. Qed.

(* ====================== E. scripts on one column object ====================== *)
(* State = the stored form; steps: expand / element-wise function on the stored values / copy the object (copy.copy,
   copy.deepcopy, pickle round trip) and go on with the copy or the original / change length / read an earlier
   expansion again.  The correspondence runs these scripts on real objects (stream script). *)

(* A copy is an equal, independent object: removing every copy step from a script changes no answer. *)
Theorem C09_script_copy_erasable :
  forall (steps : list kstep) (s : stored) (h : list (result (list val * dtype))),
  script_run s h (filter not_copy steps) = script_run s h steps.
Proof. exact script_copy_erasable. Qed.
Print Assumptions C09_script_copy_erasable.

(* Earlier expansions are values: the history only grows, so what was returned as the k-th expansion is read back
   unchanged whatever was expanded afterwards. *)
Theorem C09_script_earlier_expansions_stable :
  forall (k : nat) (h x : list (result (list val * dtype))) (d : result (list val * dtype)),
  k < length h -> nth k (h ++ x) d = nth k h d.
Proof. intros k h x d. apply script_reread_stable. Qed.
Print Assumptions C09_script_earlier_expansions_stable.

(* The scripts generalise the single-step models of Part 3 (the ones every other theorem and stream is about):
   "build, apply f to the stored values, expand" as a script is the single-step model, including what it raises. *)
Theorem C09_script_generalises_single_step :
  (forall l f, script_np (CRle l) (one_fn f) = [mat_only (rle_np l f)]) /\
  (forall l f, script_np (CDict l) (one_fn f) = [mat_only (dict_np l f)]) /\
  (forall l d f, script_np (CSparse l d) (one_fn f) = [mat_only (sparse_np l d f)]) /\
  (forall v n f, script_np (CConst v n) (one_fn f) = [mat_only (const_np v n f)]) /\
  (forall b cfg n, script_np (CFunc b cfg n) [KMat] = [mat_only (func_np b cfg n)]).
Proof.
  split; [exact script_rle_single|]. split; [exact script_dict_single|]. split; [exact script_sparse_single|].
  split; [exact script_const_single | exact script_func_single].
Qed.
Print Assumptions C09_script_generalises_single_step.

(* non-vacuity: expand, double in place, copy, expand the copy, read the first expansion again *)
Example C09_nonvacuous_script :
  script_np (CRle [VInt 1; VInt 1; VInt 2]) [KMat; KFn Mul2; KCopy; KMat; KReread 0]
  = [Ok ([VInt 1; VInt 1; VInt 2], DInt); Ok ([VInt 2; VInt 2; VInt 4], DInt); Ok ([VInt 1; VInt 1; VInt 2], DInt)] /\
  script_np (CConst (VInt 3) 2) [KMat; KFn Mul2; KMat; KReread 0; KLen 3; KCopy; KMat]
  = [Ok ([VInt 3; VInt 3], DInt); Ok ([VInt 6; VInt 6], DInt); Ok ([VInt 3; VInt 3], DInt); Ok ([VInt 6; VInt 6; VInt 6], DInt)].
Proof. split; vm_compute; reflexivity. Qed.

(* ---- F. Round 7: object arrays (a null anywhere in the list) keep every element as the Python object it is ---- *)

(* numpy.array of a list holding a null is an object array of exactly the same elements: nothing is unified - an int next
   to a float stays an int (2^53+1 exactly), a bool next to an int stays a bool, a number next to text stays a number.
   (Integers outside int64 are outside the model, as everywhere.) *)
Theorem C09_np_array_keeps_objects :
  forall (l : list val),
  In VNull l -> (forall z, In (VInt z) l -> in_int64 z = true) -> np_array l = Ok (DObj, l).
Proof. exact np_array_keeps_objects. Qed.
Print Assumptions C09_np_array_keeps_objects.

(* End to end for the usual sparse column (null default) over such a list, whatever kinds it mixes: if it answers at all,
   the expansion is the input list itself - same length, same order, every element the same value of the same kind - and
   the stored form is the Part-1 sparse encoding of the list. *)
Theorem C09_sparse_object_null_exact :
  forall (l : list val) (o : obs),
  In VNull l -> (forall z, In (VInt z) l -> in_int64 z = true) ->
  sparse_np l VNull None = Ok o ->
  exists idx vals dt, o = mkobs [vals; l] [idx] [DObj; dt] /\
                      (idx, vals, length l) = sparse_encode (np_neqb DObj) l VNull.
Proof. exact sparse_object_null_exact. Qed.
Print Assumptions C09_sparse_object_null_exact.

(* non-vacuity: the seeded change's inputs expand exactly in the model (and the column does answer) *)
Example C09_nonvacuous_object_arrays :
  sparse_np [VInt 1; VNull; VFloat (FFin 5 (-1)); VNull; VInt 3] VNull None
  = Ok (mkobs [[VInt 1; VFloat (FFin 5 (-1)); VInt 3]; [VInt 1; VNull; VFloat (FFin 5 (-1)); VNull; VInt 3]] [[0; 2; 4]] [DObj; DObj]) /\
  (exists o, sparse_np [VBool true; VNull; VInt 2; VStr [97%N]; VInt (2 ^ 53 + 1)] VNull None = Ok o /\
             nth 1 (o_vals o) [] = [VBool true; VNull; VInt 2; VStr [97%N]; VInt (2 ^ 53 + 1)]) /\
  np_array [VInt 1; VStr [97%N]; VNull] = Ok (DObj, [VInt 1; VStr [97%N]; VNull]).
Proof. split; [vm_compute; reflexivity|]. split; [eexists; split; vm_compute; reflexivity | vm_compute; reflexivity]. Qed.
