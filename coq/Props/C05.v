(* C05 - Validation accepts exactly conforming records; append is atomic.
   Property theorems only; each is closed by [exact] of a lemma from Proofs/C05.v and followed by
   Print Assumptions.  The definitions the statements use: Model/C05.v (validate, append, run,
   init_frame, extract - the functions the correspondence evaluates) and the specification
   vocabulary at the top of Proofs/C05.v (conforms, value_fits, row_conforms, is_missing,
   null_violation, wrong_type, accepted, sizable, ...). *)
From Coq Require Import String.
From Coq Require Import List NArith ZArith Bool.
From Orso Require Import Gen.C05_Types Model.C05 Proofs.C05.
Import ListNotations.

(* ---------------------------------------------------------------------------------------------- *)
(* validate                                                                                       *)

(* Validation succeeds exactly when the record's keys all name schema columns, every schema column is
   present, nulls occur only in nullable columns and every non-null value is an instance of its column
   type's Python class (untyped columns accept anything). *)
Theorem C05_validate_ok_iff_conforms :
  forall (s : schema) (r : record), validate s r = VOk <-> conforms s r.
Proof. exact validate_ok_iff_conforms. Qed.
Print Assumptions C05_validate_ok_iff_conforms.

(* Excess keys are checked first and named exactly: they are the record's keys that name no column. *)
Theorem C05_excess_checked_first :
  forall (s : schema) (r : record),
  (forall k, In k (extra_keys s r) <-> In k (keys r) /\ ~ In k (names s)) /\
  (extra_keys s r <> [] -> validate s r = VExcess (extra_keys s r)) /\
  (forall x, validate s r = VExcess x -> x = extra_keys s r /\ x <> []).
Proof.
  intros s r. split; [intros k; apply extra_keys_In|]. split; [apply excess_first | apply excess_exact].
Qed.
Print Assumptions C05_excess_checked_first.

(* A validation error carries exactly the three filters of the schema, in schema order: the missing
   columns, the non-nullable columns holding a null, the columns holding a value of the wrong class
   (with that value and the column type); at least one of them is non-empty and there was no excess key. *)
Theorem C05_errors_exact :
  forall (s : schema) (r : record) m n w,
  validate s r = VErrors m n w ->
  extra_keys s r = [] /\ first_raise r s = None /\
  m = map cname (filter (is_missing r) s) /\
  n = map cname (filter (null_violation r) s) /\
  w = map (wrong_entry r) (filter (wrong_type r) s) /\
  ~ (m = [] /\ n = [] /\ w = []).
Proof. exact errors_exact. Qed.
Print Assumptions C05_errors_exact.

(* What the three filters mean, column by column. *)
Theorem C05_offending_columns_meaning :
  forall (r : record) (c : column),
  (is_missing r c = true <-> ~ In (cname c) (keys r)) /\
  (null_violation r c = true <-> lookup (cname c) r = Some VNone /\ cnullable c = false) /\
  (wrong_type r c = true <->
     exists cls i p t k, lookup (cname c) r = Some (VObj cls i p) /\ ctype c = Some t /\
                         type_class t = HasClass k /\ isinst cls k = false).
Proof.
  intros r c. split; [apply is_missing_iff|]. split; [apply null_violation_iff | apply wrong_type_iff].
Qed.
Print Assumptions C05_offending_columns_meaning.

(* The complete behaviour of validate: the single pass that grows three lists equals the three filters,
   unless a non-null value meets a column whose type has no Python class (then isinstance itself raises,
   at the first such column). *)
Theorem C05_validate_is_three_filters :
  forall (s : schema) (r : record),
  validate s r =
  match extra_keys s r with
  | [] => match first_raise r s with
          | Some e => VRaise e
          | None => finish (missing_cols s r) (notnull_cols s r) (wrong_cols s r)
          end
  | x => VExcess x
  end.
Proof. exact validate_spec. Qed.
Print Assumptions C05_validate_is_three_filters.

(* For every schema of the property's quantifier (every typed column's type has a Python class) a
   non-conforming record is rejected with one of the two validation errors - never another exception -
   and that error names precisely the offending columns. *)
Theorem C05_nonconforming_rejected :
  forall (s : schema) (r : record),
  schema_classed s -> ~ conforms s r ->
  (extra_keys s r <> [] /\ validate s r = VExcess (extra_keys s r)) \/
  (extra_keys s r = [] /\
   validate s r = VErrors (missing_cols s r) (notnull_cols s r) (wrong_cols s r) /\
   ~ (missing_cols s r = [] /\ notnull_cols s r = [] /\ wrong_cols s r = [])).
Proof. exact nonconforming_rejected. Qed.
Print Assumptions C05_nonconforming_rejected.

(* ---------------------------------------------------------------------------------------------- *)
(* the regenerated tables                                                                         *)

(* ORSO_TO_PYTHON_MAP, as regenerated from orso.types on this run, is the table the property means by
   "its column type's Python class". *)
Theorem C05_type_class_table :
  named_type_class_table =
  [("ARRAY", Some "builtins.list"); ("BLOB", Some "builtins.bytes"); ("BOOLEAN", Some "builtins.bool");
   ("DATE", Some "datetime.date"); ("DECIMAL", Some "decimal.Decimal"); ("DOUBLE", Some "builtins.float");
   ("INTEGER", Some "builtins.int"); ("INTERVAL", Some "datetime.timedelta"); ("STRUCT", Some "builtins.dict");
   ("TIMESTAMP", Some "datetime.datetime"); ("TIME", Some "datetime.time"); ("VARCHAR", Some "builtins.str");
   ("NULL", None); ("JSONB", Some "builtins.bytes")]%string.
Proof. exact type_class_table_pinned. Qed.
Print Assumptions C05_type_class_table.

(* The type x value-class decision table over all regenerated types and classes (subclass pairs included:
   bool for INTEGER, datetime for DATE, OrderedDict for STRUCT, numpy scalars deriving from float/str/bytes),
   and its link to validate on a one-column schema. *)
Theorem C05_decision_table :
  accepted_pairs =
  [("ARRAY", "builtins.list"); ("ARRAY", "props.C05._MyList");
   ("BLOB", "builtins.bytes"); ("BLOB", "numpy.bytes_"); ("BLOB", "props.C05._MyBytes");
   ("BOOLEAN", "builtins.bool");
   ("DATE", "datetime.date"); ("DATE", "datetime.datetime"); ("DATE", "props.C05._MyDate");
   ("DECIMAL", "decimal.Decimal");
   ("DOUBLE", "builtins.float"); ("DOUBLE", "numpy.float64"); ("DOUBLE", "props.C05._MyFloat");
   ("INTEGER", "builtins.bool"); ("INTEGER", "builtins.int"); ("INTEGER", "props.C05._MyInt"); ("INTEGER", "props.C05._Colour");
   ("INTERVAL", "datetime.timedelta");
   ("STRUCT", "builtins.dict"); ("STRUCT", "collections.OrderedDict");
   ("TIMESTAMP", "datetime.datetime");
   ("TIME", "datetime.time");
   ("VARCHAR", "builtins.str"); ("VARCHAR", "numpy.str_"); ("VARCHAR", "props.C05._MyStr");
   ("JSONB", "builtins.bytes"); ("JSONB", "numpy.bytes_"); ("JSONB", "props.C05._MyBytes")]%string
  /\
  (forall n t nl cls i p,
     validate [mkcol n (Some t) nl] [(n, VObj cls i p)] = VOk <-> accepts t cls = true).
Proof. split; [exact decision_table_pinned | exact decision_table_is_validate]. Qed.
Print Assumptions C05_decision_table.

(* The regenerated issubclass matrix is reflexive and transitive on the regenerated classes. *)
Theorem C05_subclass_matrix_preorder :
  (forall c, In c class_ids -> isinst c c = true) /\
  (forall a b c, In a class_ids -> In b class_ids -> In c class_ids ->
     isinst a b = true -> isinst b c = true -> isinst a c = true).
Proof. exact subclass_matrix_preorder. Qed.
Print Assumptions C05_subclass_matrix_preorder.

(* ---------------------------------------------------------------------------------------------- *)
(* append                                                                                         *)

(* A raising append - whichever step raised, whatever the entry - leaves the frame exactly as it was:
   rows, size and cursor. *)
Theorem C05_append_atomic :
  forall (f : frame) (e : entry) (x : aexn),
  snd (append f e) = ARaise x -> fst (append f e) = f.
Proof. exact append_atomic. Qed.
Print Assumptions C05_append_atomic.

(* A successful append adds exactly one row, at the end; it went through validation and sizing. *)
Theorem C05_append_adds_one_row :
  forall (f : frame) (e : entry),
  snd (append f e) = AOk ->
  fst (append f e) = mkfr (fk f) (frows f ++ [built (fk f) e]) true false /\
  step_validate f e = Ok tt /\ step_size (built (fk f) e) = Ok tt.
Proof. exact append_ok. Qed.
Print Assumptions C05_append_adds_one_row.

(* Every entry appended to a schema-bound frame: the append succeeds exactly when the entry is a record (a dict
   or any other mapping) that conforms to the schema and whose row can be sized; a non-mapping raises TypeError. *)
Theorem C05_append_accepts_iff :
  forall (f : frame) (s : schema) (e : entry),
  fk f = FSchema s ->
  (snd (append f e) = AOk <-> is_mapping e = true /\ conforms s (eitems e) /\ sizable (names s) (eitems e)) /\
  (is_mapping e = false -> snd (append f e) = ARaise (AExn TypeError)).
Proof. exact append_accepts_iff_all. Qed.
Print Assumptions C05_append_accepts_iff.

(* The row stored for an accepted record (dict or other mapping, F-C05-2 fixed by 4269430) is the record's values
   in column order; it conforms to the frame's schema, and on a schema-bound frame the record conforms. *)
Theorem C05_append_stores_values_in_column_order :
  forall (f : frame) (e : entry),
  is_mapping e = true -> snd (append f e) = AOk ->
  built (fk f) e = extract (fields (fk f)) (eitems e) /\
  row_conforms (frame_schema (fk f)) (built (fk f) e) /\
  (forall s, fk f = FSchema s -> conforms s (eitems e)).
Proof. exact append_mapping_row. Qed.
Print Assumptions C05_append_stores_values_in_column_order.

(* ---------------------------------------------------------------------------------------------- *)
(* histories                                                                                      *)

(* Any history of appends of any entries to any frame: the schema is unchanged, there is one outcome per
   append, and the rows are the initial rows followed by one row per accepted entry, in order - raising
   appends contribute nothing. *)
Theorem C05_history_rows :
  forall (es : list entry) (f : frame),
  fk (fst (run f es)) = fk f /\
  length (snd (run f es)) = length es /\
  frows (fst (run f es)) = frows f ++ map (built (fk f)) (accepted es (snd (run f es))).
Proof. exact history_rows. Qed.
Print Assumptions C05_history_rows.

(* Frames created empty / from rows (IRows s rows, INames ns rows) or from dictionaries (IDicts ds), any
   history of records (dicts or other mappings - the property's quantifier; entries that are not mappings are
   covered by C05_history_rows, C05_append_atomic and C05_append_accepts_iff): the accepted records are the
   records whose own append succeeds, in their original order; the frame holds the initial rows followed by
   exactly their values in column order; on a schema-bound frame a record is accepted exactly when it conforms
   (and can be sized), on a name-list frame exactly when it can be sized; and every stored row conforms provided
   the rows supplied at creation did (nothing to provide for a frame built from dictionaries or created empty). *)
Theorem C05_history :
  forall (i : init) (es : list entry),
  forallb is_mapping es = true ->
  let f0 := init_frame i in
  let f' := fst (run f0 es) in
  let acc := accepted es (snd (run f0 es)) in
  fk f' = fk f0 /\
  length (snd (run f0 es)) = length es /\
  acc = filter (fun e => aok (snd (append f0 e))) es /\
  frows f' = frows f0 ++ map (fun e => extract (fields (fk f0)) (eitems e)) acc /\
  (forall s, fk f0 = FSchema s -> forall e, In e es ->
     (In e acc <-> conforms s (eitems e) /\ sizable (names s) (eitems e))) /\
  (forall ns, fk f0 = FNames ns -> forall e, In e es -> (In e acc <-> sizable ns (eitems e))) /\
  (match i with
   | IRows _ rows | INames _ rows => Forall (row_conforms (frame_schema (fk f0))) rows
   | IDicts _ => True
   end -> Forall (row_conforms (frame_schema (fk f0))) (frows f')).
Proof. exact history_init. Qed.
Print Assumptions C05_history.

(* Why the size step must precede the store step (F-C05-1, fixed by 421aa6e): in the old order a raising
   append leaves the row behind, in the current order it does not. *)
Theorem C05_store_before_size_not_atomic :
  exists f e x,
    snd (append_store_first f e) = ARaise x /\ frows (fst (append_store_first f e)) <> frows f /\
    snd (append f e) = ARaise x /\ fst (append f e) = f.
Proof. exact store_before_size_not_atomic. Qed.
Print Assumptions C05_store_before_size_not_atomic.

(* ---------------------------------------------------------------------------------------------- *)
(* sessions: schema objects used, changed in place, used again (round 3)                          *)

(* At any point of any session - whatever was validated or appended before, through this or any other
   schema object - a validation is decided by the object's columns AS THEY ARE THEN (the in-place changes
   so far applied to its original columns): C05_validate_ok_iff_conforms, C05_excess_checked_first,
   C05_errors_exact ... therefore speak about the current columns.  Second part: the earlier uses can be
   erased without changing the outcome - only the changes matter. *)
Theorem C05_session_validate_uses_current_columns :
  forall (st : sstate) (pre : list sop) (o : nat) (e : entry),
  snd (sstep (fst (srun st pre)) (SValidate o e)) =
    SOVerdict (validate_entry (nth o (objs_after (sobjs st) pre) []) e) /\
  snd (sstep (fst (srun st pre)) (SValidate o e)) =
    snd (sstep (fst (srun (mkss (sobjs st) None) (filter is_mutation pre))) (SValidate o e)).
Proof. intros st pre o e. split; [apply session_validate_current | apply session_uses_do_not_matter]. Qed.
Print Assumptions C05_session_validate_uses_current_columns.

(* An append at any point of any session validates against its schema object's columns as they are then
   (the row is built from the field list the frame took when it was made), and a raising append leaves the
   frame and the whole session state as they were. *)
Theorem C05_session_append_uses_current_columns :
  forall (st : sstate) (pre : list sop) (o : nat) (f : frame) (e : entry),
  sframe (fst (srun st pre)) = Some (o, f) ->
  snd (sstep (fst (srun st pre)) (SAppend e)) =
    SOAppend (snd (append_with (nth o (objs_after (sobjs st) pre) []) f e))
             (fst (append_with (nth o (objs_after (sobjs st) pre) []) f e)) /\
  (forall x, snd (append_with (nth o (objs_after (sobjs st) pre) []) f e) = ARaise x ->
             fst (append_with (nth o (objs_after (sobjs st) pre) []) f e) = f /\
             fst (sstep (fst (srun st pre)) (SAppend e)) = fst (srun st pre)).
Proof.
  intros st pre o f e H. split; [apply session_append_current; exact H|].
  intros x Hx.
  apply (session_append_atomic (fst (srun st pre)) o f e _ _ H (session_append_current st pre o f e H)).
  exists x. exact Hx.
Qed.
Print Assumptions C05_session_append_uses_current_columns.

(* A frame made from its schema object's present columns ("fresh": no in-place change of that object since)
   appends exactly like the frames of C05_append_accepts_iff / C05_history; making a frame establishes
   freshness and every use keeps it - only an in-place change of the schema can end it. *)
Theorem C05_session_fresh_frame :
  (forall st o f e, fresh st -> sframe st = Some (o, f) ->
     sstep st (SAppend e) =
     (mkss (sobjs st) (Some (o, fst (append f e))), SOAppend (snd (append f e)) (fst (append f e)))) /\
  (forall st op,
     match op with
     | SMutate _ _ => True
     | SNewFrame _ => fresh (fst (sstep st op))
     | _ => fresh st -> fresh (fst (sstep st op))
     end).
Proof. split; [exact session_fresh_append | exact fresh_step]. Qed.
Print Assumptions C05_session_fresh_frame.

(* non-vacuity: validate, add a non-nullable VARCHAR column in place, validate the same record again (now the
   new column is missing), make a frame, append a wrongly typed and a conforming record *)
Example C05_nonvacuous_session :
  let a := mkcol 0%N (Some 6%N) false in
  let b := mkcol 1%N (Some 11%N) false in
  let r := mkent KDict [(0%N, pv 2%N)] in
  snd (srun (mkss [[a]] None)
        [SValidate 0 r; SMutate 0 (MAdd b); SValidate 0 r; SNewFrame 0;
         SAppend (mkent KDict [(0%N, pv 2%N); (1%N, pv 2%N)]);
         SAppend (mkent KDict [(1%N, pv 5%N); (0%N, pv 2%N)])]) =
  [SOVerdict VOk; SOUnit; SOVerdict (VErrors [1%N] [] []); SOUnit;
   SOAppend (ARaise (AErrors [] [] [(1%N, pv 2%N, 11%N)])) (mkfr (FSchema [a; b]) [] true true);
   SOAppend AOk (mkfr (FSchema [a; b]) [[pv 2%N; pv 5%N]] true false)].
Proof. vm_compute. reflexivity. Qed.

(* ---------------------------------------------------------------------------------------------- *)
(* round 4: columns carrying a default, aliases and descriptive attributes                        *)

(* Whatever else the columns carry, validation is a function of their cores (name, type, nullable): two
   schemas with the same cores decide every record alike, and an in-place change of those other attributes
   changes nothing.  (By construction of the model - the correspondence is what checks the code against it.) *)
Theorem C05_only_name_type_nullable_matter :
  (forall (fs fs' : list fcolumn) (e : entry),
     map fcore fs = map fcore fs' -> validate_entry (map fcore fs) e = validate_entry (map fcore fs') e) /\
  (forall (s : schema) i d al ot, apply_mut (MSetAttrs i d al ot) s = s).
Proof. split; [intros fs fs' e H; rewrite H; reflexivity | reflexivity]. Qed.
Print Assumptions C05_only_name_type_nullable_matter.

(* A null in a non-nullable column never validates and (when no other exception pre-empts the error) is named
   under "not nullable" - for every column carrying any default, aliases or descriptive attributes. *)
Theorem C05_null_in_non_nullable_always_named :
  forall (fs : list fcolumn) (r : record) (fc : fcolumn),
  In fc fs -> lookup (cname (fcore fc)) r = Some VNone -> cnullable (fcore fc) = false ->
  validate (map fcore fs) r <> VOk /\
  (extra_keys (map fcore fs) r = [] -> first_raise r (map fcore fs) = None ->
   validate (map fcore fs) r =
     VErrors (missing_cols (map fcore fs) r) (notnull_cols (map fcore fs) r) (wrong_cols (map fcore fs) r) /\
   In (cname (fcore fc)) (notnull_cols (map fcore fs) r)).
Proof.
  intros fs r fc Hin Hl Hn. split.
  - apply (null_in_non_nullable_never_ok _ r (fcore fc)); [apply in_map; exact Hin | exact Hl | exact Hn].
  - intros He Hf. apply null_in_non_nullable_named; try assumption. apply in_map. exact Hin.
Qed.
Print Assumptions C05_null_in_non_nullable_always_named.

(* non-vacuity: a non-nullable VARCHAR column declaring the default pv 5 and an alias; a null is rejected and named *)
Example C05_nonvacuous_default :
  let fc := mkfcol (mkcol 1%N (Some 11%N) false) (Some (pv 5%N)) [8%N] [0%N; 4%N] in
  validate (map fcore [fc]) [(1%N, VNone)] = VErrors [] [1%N] [] /\
  validate (map fcore [fc]) [(1%N, pv 5%N)] = VOk /\
  validate (map fcore [fc]) [(8%N, pv 5%N)] = VExcess [8%N].
Proof. cbv zeta. repeat split; vm_compute; reflexivity. Qed.

(* ---------------------------------------------------------------------------------------------- *)
(* round 6: outcomes are values                                                                   *)

(* What an append / a validation reported (accepted, or the error with the columns it names) is part of the
   history's output once and for all: running further operations afterwards - further appends, validations
   through this or any other schema object, in-place changes - leaves every earlier outcome as it was.  The
   correspondence reads every caught exception a second time after all later operations and compares both
   readings with the same model output. *)
Theorem C05_outcomes_are_final :
  (forall (f : frame) (es more : list entry),
     firstn (length es) (snd (run f (es ++ more))) = snd (run f es)) /\
  (forall (st : sstate) (ops more : list sop),
     firstn (length ops) (snd (srun st (ops ++ more))) = snd (srun st ops)).
Proof. exact outcomes_are_final. Qed.
Print Assumptions C05_outcomes_are_final.

(* ---------------------------------------------------------------------------------------------- *)
(* non-vacuity                                                                                    *)

(* a classed three-column schema (INTEGER not null, VARCHAR, untyped), a conforming record given in another
   key order with a bool for the INTEGER column, and a record on which all three error classes fire *)
Example C05_nonvacuous_validate :
  let s := [mkcol 0%N (Some 6%N) false; mkcol 1%N (Some 11%N) true; mkcol 2%N None false] in
  schema_classed s /\
  conforms s [(2%N, pv 9%N); (1%N, VNone); (0%N, pv 1%N)] /\
  validate s [(1%N, pv 2%N); (0%N, VNone)] = VErrors [2%N] [0%N] [(1%N, pv 2%N, 11%N)] /\
  validate s [(0%N, pv 2%N); (7%N, pv 2%N); (9%N, VNone)] = VExcess [7%N; 9%N].
Proof.
  cbv zeta. split.
  - intros c t [H|[H|[H|[]]]] Ht; subst c; cbn [ctype] in Ht; inversion Ht; subst t;
      eexists; vm_compute; reflexivity.
  - split; [apply validate_ok_iff_conforms; vm_compute; reflexivity|].
    split; vm_compute; reflexivity.
Qed.

(* a history on a row-built frame: accepted, rejected (wrong type), raising in the size step, accepted
   (the last one a mapping that is not a dict) *)
Example C05_nonvacuous_history :
  let s := [mkcol 0%N (Some 6%N) true; mkcol 1%N None true] in
  let es := [mkent KDict [(1%N, pv 5%N); (0%N, pv 2%N)];
             mkent KDict [(0%N, pv 5%N); (1%N, pv 5%N)];
             mkent KDict [(0%N, pv 28%N); (1%N, VNone)];
             mkent KMapping [(0%N, VNone); (1%N, pv 14%N)]] in
  forallb is_mapping es = true /\
  Forall (row_conforms s) [[pv 3%N; pv 4%N]] /\
  snd (run (init_frame (IRows s [[pv 3%N; pv 4%N]])) es) =
    [AOk; ARaise (AErrors [] [] [(0%N, pv 5%N, 6%N)]); ARaise (AExn TypeError); AOk] /\
  frows (fst (run (init_frame (IRows s [[pv 3%N; pv 4%N]])) es)) =
    [[pv 3%N; pv 4%N]; [pv 2%N; pv 5%N]; [VNone; pv 14%N]].
Proof.
  cbv zeta. split; [reflexivity|]. split.
  - constructor; [|constructor]. constructor.
    + cbn. eexists. vm_compute. split; reflexivity.
    + constructor; [exact I | constructor].
  - split; vm_compute; reflexivity.
Qed.

(* ---------------------------------------------------------------------------------------------- *)
(* Round 7: frames made from one (empty) rows argument hold exactly the records THEY accepted      *)

(* Two frames (created from the same still-empty rows collection, or from the same dictionaries) appended
   to in any interleaving: each ends exactly as if its own entries had been appended to it alone, every
   outcome is the outcome of the addressed frame's own history, one step never touches the frame that is
   not addressed, and a raising append leaves both frames as they were.  The correspondence (stream `twin`)
   runs the real DataFrames created from ONE collection object and compares both frames' rows / flags and
   the caller's collection after every append with twin_step. *)
Theorem C05_twin_frames_independent :
  (forall (xs : list (bool * entry)) (f0 f1 : frame),
     fst (twin_run (f0, f1) xs) = (fst (run f0 (twin_sel false xs)), fst (run f1 (twin_sel true xs)))) /\
  (forall (xs : list (bool * entry)) (f0 f1 : frame),
     twin_outs false xs (snd (twin_run (f0, f1) xs)) = snd (run f0 (twin_sel false xs)) /\
     twin_outs true xs (snd (twin_run (f0, f1) xs)) = snd (run f1 (twin_sel true xs))) /\
  (forall (f0 f1 : frame) (b : bool) (e : entry),
     (if b then fst (fst (twin_step (f0, f1) (b, e))) = f0 else snd (fst (twin_step (f0, f1) (b, e))) = f1) /\
     (forall x, snd (twin_step (f0, f1) (b, e)) = ARaise x -> fst (twin_step (f0, f1) (b, e)) = (f0, f1))).
Proof.
  split; [exact twin_frames_independent|]. split; [exact twin_outcomes_own|exact twin_step_local].
Qed.
Print Assumptions C05_twin_frames_independent.

(* the reviewer's scenario: schema [c0 INTEGER not null; c1 VARCHAR], both frames from one empty list;
   frame 0 accepts (7, "text"), frame 1 rejects a str for c0 and then accepts (0, None) *)
Example C05_nonvacuous_twin :
  let s := [mkcol 0%N (Some 6%N) false; mkcol 1%N (Some 11%N) true] in
  let f := init_frame (IRows s []) in
  let xs := [(false, mkent KDict [(0%N, pv 2%N); (1%N, pv 5%N)]);
             (true, mkent KDict [(0%N, pv 5%N); (1%N, pv 5%N)]);
             (true, mkent KDict [(1%N, VNone); (0%N, pv 3%N)])] in
  init_fresh (IRows s []) = true /\
  frows (fst (fst (twin_run (f, f) xs))) = [[pv 2%N; pv 5%N]] /\
  frows (snd (fst (twin_run (f, f) xs))) = [[pv 3%N; VNone]] /\
  snd (twin_run (f, f) xs) = [AOk; ARaise (AErrors [] [] [(0%N, pv 5%N, 6%N)]); AOk].
Proof. cbv zeta. repeat split; vm_compute; reflexivity. Qed.
