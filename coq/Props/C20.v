(* C20 - Log sanitiser never emits values of sensitive keys.
   Property theorems only; each is closed by [exact] of a lemma from Proofs/C20.v and
   followed by Print Assumptions.  [sensitive_code] runs the regex-subset matcher on the
   pattern table, flags and re method REGENERATED from /repo (Gen/C20_LogKeys.v), so every
   theorem that mentions it is re-checked against what log_formatter.py says now. *)
From Coq Require Import List NArith Bool String.
From Orso Require Import Gen.C20_LogKeys Model.C20 Proofs.C20.
Import ListNotations.
Local Open Scope N_scope.

(* Every key the property calls sensitive (lower-cased it ends in password / pwd / _secret /
   _key / _token or contains credentials) is matched by the live pattern table. *)
Theorem C20_sensitive_keys_are_matched :
  forall k : text, sensitive_spec k = true -> sensitive_code k = true.
Proof. exact spec_implies_code. Qed.
Print Assumptions C20_sensitive_keys_are_matched.

(* Exact characterisation of what the live table matches: the property's keys, plus those
   same suffixes followed by one final newline ('$' matches before a trailing newline). *)
Theorem C20_key_classifier_exact :
  forall k : text,
  sensitive_code k =
  sensitive_spec k || existsb (fun s => ends_with (s ++ [10]) (lower k)) spec_suffixes.
Proof. exact key_characterised. Qed.
Print Assumptions C20_key_classifier_exact.

(* Look-alike direction: a key that does not end in a newline is matched only if the
   property calls it sensitive - values under other keys are not redacted. *)
Theorem C20_only_sensitive_keys_are_matched :
  forall k : text, ends_with [10] k = false -> sensitive_code k = sensitive_spec k.
Proof. exact code_iff_spec. Qed.
Print Assumptions C20_only_sensitive_keys_are_matched.

Theorem C20_lookalikes_not_matched :
  forallb (fun k => negb (sensitive_code k))
    (map T ["passwor"; "passwords"; "password_hint"; "pass_word"; "pwd1"; "pwds"; "p_wd"; "secret"; "secrets";
            "_secrets"; "topsecret"; "key"; "keys"; "monkey"; "keyboard"; "_keys"; "_key_id"; "token"; "tokens";
            "_tokens"; "_tokenized"; "credential"; "credentialz"; "cred"; "user"; "name"; "message"; ""]%string) = true.
Proof. exact lookalikes_clear. Qed.
Print Assumptions C20_lookalikes_not_matched.

(* Paths step through object members AND array items ([jget]); [jkeys] lists the keys met.
   For every JSON tree and every path p ++ [i] whose last step is the first sensitive key on
   it - wherever it lies, inside arrays too: the cleaned tree holds, at that position, a
   placeholder made from the digest of str(subtree) alone, and nothing exists below it.
   str(), repr(), the digest and the quote colouring are arbitrary functions. *)
Theorem C20_clean_redacts :
  forall (str_of repr_of : json -> text) (digest colq : text -> text)
         (j : json) (p : list nat) (i : nat) (kvs : list (text * json)) (k : text) (v : json),
  forallb (fun k => negb (sensitive_spec k) && negb (ends_with [10] k)) (jkeys p j) = true ->
  jget p j = Some (JObj kvs) -> nth_error kvs i = Some (k, v) -> sensitive_spec k = true ->
  cget (p ++ [i]) (clean_val sensitive_code str_of repr_of digest colq j) = Some (CRedacted (digest (str_of v))) /\
  forall q, q <> [] -> cget ((p ++ [i]) ++ q) (clean_val sensitive_code str_of repr_of digest colq j) = None.
Proof. exact clean_redacts_spec. Qed.
Print Assumptions C20_clean_redacts.

(* Non-interference, on the dict of strings clean_record returns (hence on everything
   rendered from it): replacing the value under a sensitive key - at any depth of objects and
   arrays - by any other value with the same digest does not change the output at all. *)
Theorem C20_output_depends_on_secret_only_through_digest :
  forall (digest : text -> text) (colorize : bool) (o : obj) (p : list nat) (i : nat)
         (kvs : list (text * json)) (k : text) (v0 v1 v2 : json),
  forallb (fun k => negb (sensitive_spec k) && negb (ends_with [10] k)) (jkeys p (JObj o)) = true ->
  jget p (JObj o) = Some (JObj kvs) -> nth_error kvs i = Some (k, v0) -> sensitive_spec k = true ->
  digest (py_str v1) = digest (py_str v2) ->
  clean_record_model digest colorize (record_of (jset (p ++ [i]) v1 (JObj o))) =
  clean_record_model digest colorize (record_of (jset (p ++ [i]) v2 (JObj o))).
Proof. exact output_depends_on_digest_only. Qed.
Print Assumptions C20_output_depends_on_secret_only_through_digest.

(* Everything reached through non-sensitive keys is kept.  [walk false p j = Some m] says the
   path exists in the cleaned tree (it does not step inside an array of scalars, which is one
   leaf) and whether it ends on an array item (m).  There the cleaned tree holds clean(v) ... *)
Theorem C20_other_values_kept :
  forall (str_of repr_of : json -> text) (digest colq : text -> text) (j : json) (p : list nat) (m : bool) (v : json),
  forallb (fun k => negb (sensitive_spec k) && negb (ends_with [10] k)) (jkeys p j) = true ->
  walk false p j = Some m -> jget p j = Some v ->
  cget p (clean_val sensitive_code str_of repr_of digest colq j) =
    Some (clean_at sensitive_code str_of repr_of digest colq m v).
Proof. exact clean_keeps_spec. Qed.
Print Assumptions C20_other_values_kept.

(* ... and clean(v) is: an object with the same keys in the same order; an array cleaned item
   by item when it is an item itself or holds an object/array, otherwise one leaf showing the
   coloured str() of the whole array; a scalar as the coloured str() of itself (member value)
   or its unchanged repr() (array item). *)
Theorem C20_clean_shape :
  forall (sens : text -> bool) (str_of repr_of : json -> text) (digest colq : text -> text),
  (forall m kvs, clean_at sens str_of repr_of digest colq m (JObj kvs) =
                 CObj (clean_obj sens str_of repr_of digest colq kvs) /\
                 map fst (clean_obj sens str_of repr_of digest colq kvs) = map fst kvs) /\
  (forall m l, m || existsb is_container l = true ->
               clean_at sens str_of repr_of digest colq m (JArr l) =
               CArr (map (clean_at sens str_of repr_of digest colq true) l)) /\
  (forall l, existsb is_container l = false ->
             clean_at sens str_of repr_of digest colq false (JArr l) = CLeaf (colq (str_of (JArr l)))) /\
  (forall v, is_container v = false ->
             clean_at sens str_of repr_of digest colq false v = CLeaf (colq (str_of v)) /\
             clean_at sens str_of repr_of digest colq true v = CItem (repr_of v)).
Proof. exact clean_shape. Qed.
Print Assumptions C20_clean_shape.

(* The former witness of finding F-C20-4 (fixed by 7f3dee2), now positive and for every secret:
   objects inside arrays, at two levels, are cleaned; the scalar item between them is kept. *)
Theorem C20_objects_inside_arrays_cleaned :
  forall (str_of repr_of : json -> text) (digest colq : text -> text) (secret : json),
  clean_val sensitive_code str_of repr_of digest colq
    (JObj [(T "items", JArr [JObj [(T "password", secret)]; JStr (T "x"); JArr [JObj [(T "api_key", secret)]]])]) =
  CObj [(T "items", CArr [CObj [(T "password", CRedacted (digest (str_of secret)))];
                          CItem (repr_of (JStr (T "x")));
                          CArr [CObj [(T "api_key", CRedacted (digest (str_of secret)))]]])].
Proof. exact array_members_cleaned. Qed.
Print Assumptions C20_objects_inside_arrays_cleaned.

(* sanitize_record: whenever the record AS GIVEN is pre ++ m with pre empty or ending in '|' and m
   parses as a JSON object, the raw fall-back branch is not taken - with colour on or off, whatever
   the message contains (level texts such as " ERROR    ", colour tokens): the output is the leading
   fields (colour-coded field by field) followed by the dump of the CLEANED object parsed from a
   tail of the record ('|' inside the message does not defeat it).  json.loads is the parameter
   [parse].  (Until F-C20-7 the hypothesis read "color_code can record = pre ++ m": the theorem was
   true and the defect sat in the hypothesis, which colouring falsifies for a message that holds the
   level text.) *)
Theorem C20_json_tail_is_cleaned :
  forall (parse : text -> option obj) (digest : text -> text) (can : bool) (record pre m : text) (o : obj),
  record = pre ++ m ->
  (pre = [] \/ exists pre', pre = pre' ++ [bar]) -> parse m = Some o ->
  exists (i : nat) (o' : obj),
    parse (join [bar] (skipn i (split bar record))) = Some o' /\
    sanitize_core sensitive_code parse digest can record =
      join [bar] (map (color_code can) (firstn i (split bar record)) ++
                  [T " " ++ json_dumps_flat (render_obj colours_on
                     (clean_obj sensitive_code py_str py_repr digest (colour_quotes colours_on) o'))]).
Proof. exact (sanitize_clean_branch sensitive_code). Qed.
Print Assumptions C20_json_tail_is_cleaned.

(* URL step of format(): user-info (anything without '@' and newline, so user ++ ":" ++ password)
   after the first "://" is replaced by the fixed mark; the rest is processed the same way. *)
Theorem C20_url_userinfo_removed :
  forall pre userinfo post : text,
  contains [58; 47; 47] pre = false ->
  existsb (fun c => (c =? 64) || ui_stop c) userinfo = false ->
  url_step (pre ++ [58; 47; 47] ++ userinfo ++ [64] ++ post) = pre ++ C20_url_replacement ++ url_step post.
Proof. exact url_hides. Qed.
Print Assumptions C20_url_userinfo_removed.

(* ---- payloads handed over as Python objects (clean_record / write_event called with a dict) ----
   The model's heap makes object identity explicit: a value is an owned tree or a reference to
   a container ([HRef]), so one dict/list can be reachable from several places and can be
   mutated in place between two calls.  [unfold] is the object's current VALUE (the tree got
   by following the references); [clean_href] is the walk clean_record/_clean_items make over
   the objects.  The walk gives exactly the tree clean of the value - whether and where
   containers are shared is invisible in the result. *)
Theorem C20_object_walk_is_clean_of_value :
  forall (sens : text -> bool) (str_of repr_of : json -> text) (digest colq : text -> text)
         (f : nat) (h : heap) (m : bool) (v : hval),
  clean_href sens str_of repr_of digest colq f h m v =
  clean_at sens str_of repr_of digest colq m (unfold f h v).
Proof. exact clean_href_unfold. Qed.
Print Assumptions C20_object_walk_is_clean_of_value.

(* Hence C20_clean_redacts holds at EVERY occurrence of a shared object: for every heap, every
   root and every path of the root's value whose first sensitive key is its last step, the walk
   over the objects leaves a digest placeholder there and nothing below it. *)
Theorem C20_every_occurrence_of_a_shared_object_is_redacted :
  forall (str_of repr_of : json -> text) (digest colq : text -> text) (f : nat) (h : heap) (root : hval)
         (p : list nat) (i : nat) (kvs : list (text * json)) (k : text) (v : json),
  forallb (fun k => negb (sensitive_spec k) && negb (ends_with [10] k)) (jkeys p (unfold f h root)) = true ->
  jget p (unfold f h root) = Some (JObj kvs) -> nth_error kvs i = Some (k, v) -> sensitive_spec k = true ->
  cget (p ++ [i]) (clean_href sensitive_code str_of repr_of digest colq f h false root) = Some (CRedacted (digest (str_of v))) /\
  forall q, q <> [] -> cget ((p ++ [i]) ++ q) (clean_href sensitive_code str_of repr_of digest colq f h false root) = None.
Proof. exact heap_redacts_spec. Qed.
Print Assumptions C20_every_occurrence_of_a_shared_object_is_redacted.

(* One step of a session (the function the "sess" correspondence stream evaluates): a call on a
   dict object leaves every object as it is and returns clean_record_model of the object's
   CURRENT value - the tree-level function all theorems above speak about; write_event cleans
   with colorize = False. *)
Theorem C20_object_call_shows_current_value_only :
  forall (digest : text -> text) (h : heap) (r : nat) (c : bool) (kvs : list (text * hval)),
  nth_error h r = Some (HDict kvs) ->
  exists o, unfold (S (List.length h)) h (HRef r) = JObj o /\
    sess_step digest h (OClean r c) = (h, SItems (clean_record_model digest c o)) /\
    sess_step digest h (OGcl r) = (h, SItems (clean_record_model digest false o)).
Proof. exact sess_call_value. Qed.
Print Assumptions C20_object_call_shows_current_value_only.

(* Two payloads with the same value - one with shared containers, one without, in different
   heaps, after different histories - give the same output. *)
Theorem C20_equal_values_give_equal_output :
  forall (digest : text -> text) (h1 h2 : heap) (r1 r2 : nat) (c : bool) (kvs1 kvs2 : list (text * hval)),
  nth_error h1 r1 = Some (HDict kvs1) -> nth_error h2 r2 = Some (HDict kvs2) ->
  unfold (S (List.length h1)) h1 (HRef r1) = unfold (S (List.length h2)) h2 (HRef r2) ->
  call_items digest h1 r1 c = call_items digest h2 r2 c.
Proof. exact call_items_same_value. Qed.
Print Assumptions C20_equal_values_give_equal_output.

(* Whole sessions (calls, in-place mutations by the caller, new objects, edits of returned
   dicts): the n-th output is the call evaluated on the heap that the first n operations
   leave; nothing else of the history enters (heap_step ignores calls and edits of results). *)
Theorem C20_session_output_depends_on_current_objects_only :
  forall (digest : text -> text) (ops : list sop) (h : heap) (n : nat),
  nth_error (sess_run digest h ops) n =
  option_map (call_out digest (fold_left heap_step (firstn n ops) h)) (nth_error ops n).
Proof. exact sess_run_nth. Qed.
Print Assumptions C20_session_output_depends_on_current_objects_only.

(* ---- duplicate warnings and the report logged at interpreter exit (F-C20-8) ----
   [warn_session gcl same msgs] is everything a process emits for the warnings [msgs] (in
   order) followed by interpreter exit, for the stream logger (gcl = false) and for
   GoogleLogger (gcl = true; same = do the reports go to the logger that counted).  Every
   emitted message is one of the caller's own warnings, or the report DICT
   {"message": ..., "suppressed": <value of a warning>} - never a line of text built from one. *)
Theorem C20_warning_session_emits_messages_or_report_objects :
  forall (gcl same : bool) (msgs : list wmsg) (e : wmsg),
  In e (warn_session gcl same msgs) ->
  In e msgs \/ exists (m : wmsg) (n : nat), In m msgs /\ e = WObj (report_obj gcl m (S n)).
Proof. exact warn_session_emits. Qed.
Print Assumptions C20_warning_session_emits_messages_or_report_objects.

(* ... and cleaning the report dict (what the formatter / write_event do with every dict
   message, theorems above) redacts every sensitive member of the suppressed message, at any
   depth: C20_clean_redacts one level down, under the non-sensitive key "suppressed". *)
Theorem C20_suppressed_warning_is_redacted_in_the_report :
  forall (str_of repr_of : json -> text) (digest colq : text -> text) (gcl : bool) (m : wmsg) (n : nat)
         (p : list nat) (i : nat) (kvs : list (text * json)) (k : text) (v : json),
  forallb (fun k => negb (sensitive_spec k) && negb (ends_with [10] k)) (jkeys p (wvalue gcl m)) = true ->
  jget p (wvalue gcl m) = Some (JObj kvs) -> nth_error kvs i = Some (k, v) -> sensitive_spec k = true ->
  cget ((1%nat :: p) ++ [i]) (clean_val sensitive_code str_of repr_of digest colq (JObj (report_obj gcl m n))) =
    Some (CRedacted (digest (str_of v))) /\
  forall q, q <> [] ->
    cget (((1%nat :: p) ++ [i]) ++ q) (clean_val sensitive_code str_of repr_of digest colq (JObj (report_obj gcl m n))) = None.
Proof. exact report_redacts. Qed.
Print Assumptions C20_suppressed_warning_is_redacted_in_the_report.

(* ---- round 4 ----
   Case-insensitive means: per character, folded onto the ASCII lower-case letter it is a case
   variant of ([lower_c]: A-Z and the regenerated table C20_casefold_extra = the non-ASCII code
   points that match an ASCII letter under re.IGNORECASE, cross-checked against the str case
   mappings).  [sensitive_spec] and [sensitive_code] both use it, so the three key theorems at the
   top quantify over keys spelled with U+017F (long s), U+212A (Kelvin sign), U+0130, U+0131 too.
   Here: the table is what the theorems were checked against, and the reviewer's keys. *)
Theorem C20_non_ascii_case_variants_are_matched :
  C20_casefold_extra = [(304, 105); (305, 105); (383, 115); (8490, 107)] /\
  forallb (fun k => sensitive_spec k && sensitive_code k)
    [T "pa" ++ [383; 383] ++ T "word"; T "DB_PA" ++ [383; 383] ++ T "WORD"; T "client_" ++ [383] ++ T "ecret";
     T "credential" ++ [383] ++ T "_file"; T "api_" ++ [8490] ++ T "ey"; T "CREDENT" ++ [304] ++ T "ALS";
     T "credent" ++ [305] ++ T "als"; T "X_TO" ++ [8490] ++ T "EN"; T "my" ++ [383] ++ T "ecret_" ++ [8490] ++ T "EY"] = true /\
  forallb (fun k => negb (sensitive_spec k) && negb (sensitive_code k))
    [T "pa" ++ [223] ++ T "word"; T "pa" ++ [383; 383] ++ T "words"; [8490] ++ T "ey"; T "to" ++ [8490] ++ T "en";
     T "credent" ++ [237] ++ T "als"; T "pa" ++ [353; 353] ++ T "word"] = true.
Proof. exact nonascii_keys. Qed.
Print Assumptions C20_non_ascii_case_variants_are_matched.

(* GoogleLogger.write_event with a TEXT message (F-C20-9, e6db699): a text that is a JSON object
   gives exactly what the dict gives (clean_record_model, all theorems above); from any other
   text the user-info after the first "://" is replaced by the fixed mark, and so on. *)
Theorem C20_gcl_text_message_is_sanitized :
  (forall (digest : text -> text) (o : obj) (t : text),
     gcl_text_event digest (Some o) t = GDict (clean_record_model digest false o)) /\
  (forall (digest : text -> text) (pre userinfo post : text),
     contains [58; 47; 47] pre = false ->
     existsb (fun c => (c =? 64) || ui_stop c) userinfo = false ->
     gcl_text_event digest None (pre ++ [58; 47; 47] ++ userinfo ++ [64] ++ post) =
     GText (pre ++ C20_gcl_url_replacement ++ gcl_url_step post)).
Proof. exact gcl_text_sanitized. Qed.
Print Assumptions C20_gcl_text_message_is_sanitized.

(* F-C20-10 (a375704): the report GoogleLogger builds for a dropped TEXT warning that holds a URL
   carries the text with its user-info replaced by the fixed mark (the report is a dict, and
   clean_record works by key only). *)
Theorem C20_gcl_report_of_url_text_has_no_userinfo :
  forall (n : nat) (pre userinfo post : text),
  contains [58; 47; 47] pre = false ->
  existsb (fun c => (c =? 64) || ui_stop c) userinfo = false ->
  report_obj true (WText (pre ++ [58; 47; 47] ++ userinfo ++ [64] ++ post) None) n =
  [(T "message", JStr (T "The following message was suppressed " ++ dec_of_nat n ++ T " time(s)"));
   (T "suppressed", JStr (pre ++ C20_gcl_url_replacement ++ gcl_url_step post))].
Proof. exact gcl_report_url_text. Qed.
Print Assumptions C20_gcl_report_of_url_text_has_no_userinfo.

(* round 6: copy.deepcopy (or a pickle round trip) of an object is a new object with the value the
   original has at that moment (whatever fuel it is read with), so every theorem about calls
   applies to the copy with the original's value. *)
Theorem C20_deep_copy_has_the_value_of_the_original :
  forall (h : heap) (a : nat) (c : hcell) (g : nat),
  nth_error h a = Some c ->
  heap_step h (OCopy a true) = h ++ [own_cell (S (List.length h)) h c] /\
  unfold (S g) (heap_step h (OCopy a true)) (HRef (List.length h)) = unfold (S (S (List.length h))) h (HRef a).
Proof. exact deep_copy_value. Qed.
Print Assumptions C20_deep_copy_has_the_value_of_the_original.

(* Non-vacuity. *)
Definition ex_record : obj :=
  [(T "user", JStr (T "bob"));
   (T "cfg", JObj [(T "DB_Password", JObj [(T "inner", JStr (T "s3cret"))]); (T "port", JNum (T "5432"))])].

Example C20_nonvacuous_clean :
  forallb (fun k => negb (sensitive_spec k) && negb (ends_with [10] k)) (jkeys [1%nat] (JObj ex_record)) = true /\
  (exists kvs v, jget [1%nat] (JObj ex_record) = Some (JObj kvs) /\ nth_error kvs 0 = Some (T "DB_Password", v)) /\
  sensitive_spec (T "DB_Password") = true /\
  clean_record_model (fun _ => T "0a1b2c3d") false ex_record =
    [(T "user", T "bob"); (T "cfg", T "{'DB_Password': '<redacted:0a1b2c3d>', 'port': '5432'}")].
Proof. repeat split; try reflexivity. eexists _, _. split; reflexivity. Qed.

(* a path through an array: rows[1].api_key, with a scalar item before it *)
Definition ex_rows : obj :=
  [(T "rows", JArr [JStr (T "it's"); JObj [(T "id", JNum (T "7")); (T "api_key", JStr (T "s3cret"))]]);
   (T "tags", JArr [JStr (T "a"); JStr (T "b")])].

Example C20_nonvacuous_array_path :
  forallb (fun k => negb (sensitive_spec k) && negb (ends_with [10] k)) (jkeys [0%nat; 1%nat] (JObj ex_rows)) = true /\
  (exists kvs, jget [0%nat; 1%nat] (JObj ex_rows) = Some (JObj kvs) /\ nth_error kvs 1 = Some (T "api_key", JStr (T "s3cret"))) /\
  walk false [0%nat; 0%nat] (JObj ex_rows) = Some true /\ walk false [1%nat; 0%nat] (JObj ex_rows) = None /\
  clean_record_model (fun _ => T "0a1b2c3d") false ex_rows =
    [(T "rows", T "[""it's"", {'id': '7', 'api_key': '<redacted:0a1b2c3d>'}]"); (T "tags", T "['a', 'b']")].
Proof. repeat split; try reflexivity. eexists. split; reflexivity. Qed.

Example C20_nonvacuous_keys :
  map sensitive_code (map T ["db_password"; "my_PWD"; "client_secret"; "API_KEY"; "x_token"; "aws_credentials_file";
                             "password_hint"; "monkey"; "token"]%string) =
  [true; true; true; true; true; true; false; false; false].
Proof. vm_compute. reflexivity. Qed.

Example C20_nonvacuous_url :
  contains [58; 47; 47] (T "connect postgres") = false /\
  existsb (fun c => (c =? 64) || ui_stop c) (T "alice:s3cret") = false /\
  url_step (T "connect postgres://alice:s3cret@db/x") = T "connect postgres" ++ C20_url_replacement ++ T "db/x".
Proof. repeat split; vm_compute; reflexivity. Qed.

Example C20_nonvacuous_tail :
  let parse := fun s => if teqb s (T " {""password"": ""a|b""}") then Some [(T "password", JStr (T "a|b"))] else None in
  sanitize_core sensitive_code parse (fun _ => T "0a1b2c3d") false (T "app | ERROR | {""password"": ""a|b""}") =
  T "app | ERROR | {""\u0001KEYmpassword\u0001OFFm"": ""\u0001VALUEm\u0001PURPLEm<redacted:0a1b2c3d>\u0001OFFm\u0001OFFm""}".
Proof. vm_compute. reflexivity. Qed.

(* one connection object referenced from two sibling keys, from an array (twice) and from deeper
   down; mutated in place between two calls; the first returned dict emptied by the caller *)
Definition ex_heap : heap :=
  [HDict [(T "host", HLeaf (JStr (T "db"))); (T "password", HLeaf (JStr (T "s3cret")))];
   HList [HRef 0%nat; HRef 0%nat];
   HDict [(T "primary", HRef 0%nat); (T "replica", HRef 0%nat); (T "targets", HRef 1%nat);
          (T "history", HLeaf (JObj [(T "n", JNum (T "1"))]))]].

Example C20_nonvacuous_shared_object :
  nth_error ex_heap 2 = Some (HDict [(T "primary", HRef 0%nat); (T "replica", HRef 0%nat); (T "targets", HRef 1%nat);
                                     (T "history", HLeaf (JObj [(T "n", JNum (T "1"))]))]) /\
  jget [1%nat] (unfold 4 ex_heap (HRef 2%nat)) = Some (JObj [(T "host", JStr (T "db")); (T "password", JStr (T "s3cret"))]) /\
  jget [2%nat; 1%nat] (unfold 4 ex_heap (HRef 2%nat)) = Some (JObj [(T "host", JStr (T "db")); (T "password", JStr (T "s3cret"))]) /\
  sess_run (fun _ => T "0a1b2c3d") ex_heap
    [OClean 2 false; OSet 0 (T "api_token") (HLeaf (JStr (T "t0k"))); OTouch 0; OClean 2 false] =
  [SItems [(T "primary", T "{'host': 'db', 'password': '<redacted:0a1b2c3d>'}");
           (T "replica", T "{'host': 'db', 'password': '<redacted:0a1b2c3d>'}");
           (T "targets", T "[{'host': 'db', 'password': '<redacted:0a1b2c3d>'}, {'host': 'db', 'password': '<redacted:0a1b2c3d>'}]");
           (T "history", T "{'n': '1'}")];
   SNone; SNone;
   SItems [(T "primary", T "{'host': 'db', 'password': '<redacted:0a1b2c3d>', 'api_token': '<redacted:0a1b2c3d>'}");
           (T "replica", T "{'host': 'db', 'password': '<redacted:0a1b2c3d>', 'api_token': '<redacted:0a1b2c3d>'}");
           (T "targets", T "[{'host': 'db', 'password': '<redacted:0a1b2c3d>', 'api_token': '<redacted:0a1b2c3d>'}, {'host': 'db', 'password': '<redacted:0a1b2c3d>', 'api_token': '<redacted:0a1b2c3d>'}]");
           (T "history", T "{'n': '1'}")]].
Proof. repeat split; vm_compute; reflexivity. Qed.

(* F-C20-7 witness: colour ON, the message holds the record's own level text.  The JSON tail is
   found and cleaned, the level is coloured in the header field only, the value is untouched. *)
Example C20_level_text_inside_the_message :
  let m := T " {""note"": "" ERROR    "", ""password"": ""hunter2""}" in
  let parse := fun s => if teqb s m then Some [(T "note", JStr (T " ERROR    ")); (T "password", JStr (T "hunter2"))] else None in
  sanitize_core sensitive_code parse (fun _ => T "0a1b2c3d") true (T "app | ERROR    |" ++ m) =
    T "app |" ++ color_code true (T " ERROR    ") ++
    T "| {""\u0001KEYmnote\u0001OFFm"": ""\u0001VALUEm ERROR    \u0001OFFm"", ""\u0001KEYmpassword\u0001OFFm"": ""\u0001VALUEm\u0001PURPLEm<redacted:0a1b2c3d>\u0001OFFm\u0001OFFm""}" /\
  teqb (color_code true (T " ERROR    ")) (T " ERROR    ") = false.
Proof. split; vm_compute; reflexivity. Qed.

(* F-C20-8 witness: a dict warning logged three times, then exit: the warning once, then the
   report dict; cleaning the report redacts the password inside "suppressed". *)
Example C20_nonvacuous_warning_session :
  let m := WObj [(T "password", JStr (T "hunter2")); (T "note", JStr (T "n"))] in
  warn_session false true [m; m; m] =
    [m; WObj [(T "message", JStr (T "The following message was suppressed 2 time(s)"));
              (T "suppressed", JObj [(T "password", JStr (T "hunter2")); (T "note", JStr (T "n"))])]] /\
  warn_session true false [m; m] = [m; WObj (report_obj true m 1)] /\
  warn_session true true [m] = [m] /\
  clean_record_model (fun _ => T "0a1b2c3d") false (report_obj false m 2) =
    [(T "message", T "The following message was suppressed 2 time(s)");
     (T "suppressed", T "{'password': '<redacted:0a1b2c3d>', 'note': 'n'}")].
Proof. repeat split; vm_compute; reflexivity. Qed.

Example C20_nonvacuous_gcl_url :
  gcl_text_event (fun _ => []) None (T "connect postgres://alice:s3cret@db/x") = GText (T "connect postgres://<redacted>db/x").
Proof. vm_compute. reflexivity. Qed.

(* round 6: copies.  A shallow and a deep copy of the connection object give the output of the
   original; after the original is mutated in place the deep copy (object 4) still shows the old
   value, the payload that refers to the original shows the new one. *)
Example C20_nonvacuous_copies :
  sess_run (fun _ => T "0a1b2c3d") ex_heap
    [OCopy 2 false; OCopy 2 true; OClean 3 false; OClean 4 false;
     OSet 0 (T "api_token") (HLeaf (JStr (T "t0k"))); OClean 4 false; OClean 3 false] =
  let old := SItems [(T "primary", T "{'host': 'db', 'password': '<redacted:0a1b2c3d>'}");
                     (T "replica", T "{'host': 'db', 'password': '<redacted:0a1b2c3d>'}");
                     (T "targets", T "[{'host': 'db', 'password': '<redacted:0a1b2c3d>'}, {'host': 'db', 'password': '<redacted:0a1b2c3d>'}]");
                     (T "history", T "{'n': '1'}")] in
  [SNone; SNone; old; old; SNone; old;
   SItems [(T "primary", T "{'host': 'db', 'password': '<redacted:0a1b2c3d>', 'api_token': '<redacted:0a1b2c3d>'}");
           (T "replica", T "{'host': 'db', 'password': '<redacted:0a1b2c3d>', 'api_token': '<redacted:0a1b2c3d>'}");
           (T "targets", T "[{'host': 'db', 'password': '<redacted:0a1b2c3d>', 'api_token': '<redacted:0a1b2c3d>'}, {'host': 'db', 'password': '<redacted:0a1b2c3d>', 'api_token': '<redacted:0a1b2c3d>'}]");
           (T "history", T "{'n': '1'}")]].
Proof. vm_compute. reflexivity. Qed.

(* F-C20-12 (fixed by 7fc0b03; formerly C20_url_step_overreach_refuted): a URL without user-info is
   left alone and the members between it and a later URL with user-info survive. *)
Example C20_url_without_userinfo_is_left_alone :
  url_step (T "{""docs"": ""http://example.com/"", ""n"": ""visible"", ""dsn"": ""postgres://alice:s3cret@db/x""}") =
  T "{""docs"": ""http://example.com/"", ""n"": ""visible"", ""dsn"": ""postgres" ++ C20_url_replacement ++ T "db/x""}" /\
  url_step (T "see http://example.com/a?b=1 and 'x@y'") = T "see http://example.com/a?b=1 and 'x@y'".
Proof. split; vm_compute; reflexivity. Qed.
