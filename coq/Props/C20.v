From Coq Require Import List NArith Bool.
From Orso Require Import Gen.C20_LogKeys Model.C20 Proofs.C20.
Import ListNotations.

Theorem C20_stub : True. Proof. exact placeholder_true. Qed.
Print Assumptions C20_stub.
