(* C20 - Log sanitiser never emits values of sensitive keys.
   Property theorems only; each is closed by [exact] of a lemma from Proofs/C20.v and
   followed by Print Assumptions.  [sensitive_code] runs the regex-subset matcher on the
   pattern table, flags and re method REGENERATED from /repo (Gen/C20_LogKeys.v), so every
   theorem that mentions it is re-checked against what log_formatter.py says now. *)
From Coq Require Import List NArith Bool String.
From Orso Require Import Gen.C20_LogKeys Model.C20 Proofs.C20.
Import ListNotations.
Local Open Scope N_scope.

(* Every key the property calls sensitive (lower-cased it ends in password / pwd / _secret /
   _key / _token or contains credentials) is matched by the live pattern table. *)
Theorem C20_sensitive_keys_are_matched :
  forall k : text, sensitive_spec k = true -> sensitive_code k = true.
Proof. exact spec_implies_code. Qed.
Print Assumptions C20_sensitive_keys_are_matched.

(* Exact characterisation of what the live table matches: the property's keys, plus those
   same suffixes followed by one final newline ('$' matches before a trailing newline). *)
Theorem C20_key_classifier_exact :
  forall k : text,
  sensitive_code k =
  sensitive_spec k || existsb (fun s => ends_with (s ++ [10]) (lower k)) spec_suffixes.
Proof. exact key_characterised. Qed.
Print Assumptions C20_key_classifier_exact.

(* Look-alike direction: a key that does not end in a newline is matched only if the
   property calls it sensitive - values under other keys are not redacted. *)
Theorem C20_only_sensitive_keys_are_matched :
  forall k : text, ends_with [10] k = false -> sensitive_code k = sensitive_spec k.
Proof. exact code_iff_spec. Qed.
Print Assumptions C20_only_sensitive_keys_are_matched.

Theorem C20_lookalikes_not_matched :
  forallb (fun k => negb (sensitive_code k))
    (map T ["passwor"; "passwords"; "password_hint"; "pass_word"; "pwd1"; "pwds"; "p_wd"; "secret"; "secrets";
            "_secrets"; "topsecret"; "key"; "keys"; "monkey"; "keyboard"; "_keys"; "_key_id"; "token"; "tokens";
            "_tokens"; "_tokenized"; "credential"; "credentialz"; "cred"; "user"; "name"; "message"; ""]%string) = true.
Proof. exact lookalikes_clear. Qed.
Print Assumptions C20_lookalikes_not_matched.

(* For every JSON tree and every object path p ++ [i] whose last step is the first sensitive
   key on it: the cleaned tree holds, at that position, a placeholder made from the digest of
   str(subtree) alone, and nothing exists below it.  str(), the digest and the quote colouring
   are arbitrary functions. *)
Theorem C20_clean_redacts :
  forall (str_of : json -> text) (digest colq : text -> text)
         (j : json) (p : list nat) (i : nat) (kvs : list (text * json)) (k : text) (v : json),
  forallb (fun k => negb (sensitive_spec k) && negb (ends_with [10] k)) (jkeys p j) = true ->
  jget p j = Some (JObj kvs) -> nth_error kvs i = Some (k, v) -> sensitive_spec k = true ->
  cget (p ++ [i]) (clean_val sensitive_code str_of digest colq j) = Some (CRedacted (digest (str_of v))) /\
  forall q, q <> [] -> cget ((p ++ [i]) ++ q) (clean_val sensitive_code str_of digest colq j) = None.
Proof. exact clean_redacts_spec. Qed.
Print Assumptions C20_clean_redacts.

(* Non-interference, on the dict of strings clean_record returns (hence on everything
   rendered from it): replacing the value under a sensitive key by any other value with the
   same digest does not change the output at all. *)
Theorem C20_output_depends_on_secret_only_through_digest :
  forall (digest : text -> text) (colorize : bool) (o : obj) (p : list nat) (i : nat)
         (kvs : list (text * json)) (k : text) (v0 v1 v2 : json),
  forallb (fun k => negb (sensitive_spec k) && negb (ends_with [10] k)) (jkeys p (JObj o)) = true ->
  jget p (JObj o) = Some (JObj kvs) -> nth_error kvs i = Some (k, v0) -> sensitive_spec k = true ->
  digest (py_str v1) = digest (py_str v2) ->
  clean_record_model digest colorize (record_of (jset (p ++ [i]) v1 (JObj o))) =
  clean_record_model digest colorize (record_of (jset (p ++ [i]) v2 (JObj o))).
Proof. exact output_depends_on_digest_only. Qed.
Print Assumptions C20_output_depends_on_secret_only_through_digest.

(* Everything reached through non-sensitive keys is kept: a leaf as the coloured str() of
   itself, an object as an object with the same keys in the same order. *)
Theorem C20_other_values_kept :
  forall (str_of : json -> text) (digest colq : text -> text) (j : json) (p : list nat) (v : json),
  forallb (fun k => negb (sensitive_spec k) && negb (ends_with [10] k)) (jkeys p j) = true ->
  jget p j = Some v ->
  cget p (clean_val sensitive_code str_of digest colq j) =
    Some (match v with
          | JObj kvs => CObj (clean_obj sensitive_code str_of digest colq kvs)
          | _ => CLeaf (colq (str_of v))
          end) /\
  forall kvs, map fst (clean_obj sensitive_code str_of digest colq kvs) = map fst kvs.
Proof. exact clean_keeps_spec. Qed.
Print Assumptions C20_other_values_kept.

(* sanitize_record: whenever the colour-coded record is pre ++ m with pre empty or ending in
   '|' and m parses as a JSON object, the raw fall-back branch is not taken: the output is the
   untouched leading fields followed by the dump of the CLEANED object parsed from a tail of
   the record ('|' inside the message does not defeat it).  json.loads is the parameter [parse]. *)
Theorem C20_json_tail_is_cleaned :
  forall (parse : text -> option obj) (digest : text -> text) (can : bool) (record pre m : text) (o : obj),
  color_code can record = pre ++ m ->
  (pre = [] \/ exists pre', pre = pre' ++ [bar]) -> parse m = Some o ->
  exists (i : nat) (o' : obj),
    parse (join [bar] (skipn i (split bar (color_code can record)))) = Some o' /\
    sanitize_core sensitive_code parse digest can record =
      join [bar] (firstn i (split bar (color_code can record)) ++
                  [T " " ++ json_dumps_flat (render_obj colours_on
                     (clean_obj sensitive_code py_str digest (colour_quotes colours_on) o'))]).
Proof. exact (sanitize_clean_branch sensitive_code). Qed.
Print Assumptions C20_json_tail_is_cleaned.

(* URL step of format(): user-info (anything without '@' and newline, so user ++ ":" ++ password)
   after the first "://" is replaced by the fixed mark; the rest is processed the same way. *)
Theorem C20_url_userinfo_removed :
  forall pre userinfo post : text,
  contains [58; 47; 47] pre = false ->
  existsb (fun c => (c =? 64) || (c =? 10)) userinfo = false ->
  url_step (pre ++ [58; 47; 47] ++ userinfo ++ [64] ++ post) = pre ++ C20_url_replacement ++ url_step post.
Proof. exact url_hides. Qed.
Print Assumptions C20_url_userinfo_removed.

(* Finding F-C20-4: the full statement "for all paths through a sensitive key" fails for paths
   that pass through an array: clean_record str()-s arrays, objects inside them are not cleaned. *)
Theorem C20_objects_inside_arrays_refuted :
  exists (secret : text) (o : obj),
    o = [(T "items", JArr [JObj [(T "password", JStr secret)]])] /\
    sensitive_spec (T "password") = true /\
    contains secret (json_dumps_flat (clean_record_model (fun _ => T "00000000") false o)) = true.
Proof. exact array_members_not_cleaned. Qed.
Print Assumptions C20_objects_inside_arrays_refuted.

(* Non-vacuity. *)
Definition ex_record : obj :=
  [(T "user", JStr (T "bob"));
   (T "cfg", JObj [(T "DB_Password", JObj [(T "inner", JStr (T "s3cret"))]); (T "port", JNum (T "5432"))])].

Example C20_nonvacuous_clean :
  forallb (fun k => negb (sensitive_spec k) && negb (ends_with [10] k)) (jkeys [1%nat] (JObj ex_record)) = true /\
  (exists kvs v, jget [1%nat] (JObj ex_record) = Some (JObj kvs) /\ nth_error kvs 0 = Some (T "DB_Password", v)) /\
  sensitive_spec (T "DB_Password") = true /\
  clean_record_model (fun _ => T "0a1b2c3d") false ex_record =
    [(T "user", T "bob"); (T "cfg", T "{'DB_Password': '<redacted:0a1b2c3d>', 'port': '5432'}")].
Proof. repeat split; try reflexivity. eexists _, _. split; reflexivity. Qed.

Example C20_nonvacuous_keys :
  map sensitive_code (map T ["db_password"; "my_PWD"; "client_secret"; "API_KEY"; "x_token"; "aws_credentials_file";
                             "password_hint"; "monkey"; "token"]%string) =
  [true; true; true; true; true; true; false; false; false].
Proof. vm_compute. reflexivity. Qed.

Example C20_nonvacuous_url :
  contains [58; 47; 47] (T "connect postgres") = false /\
  existsb (fun c => (c =? 64) || (c =? 10)) (T "alice:s3cret") = false /\
  url_step (T "connect postgres://alice:s3cret@db/x") = T "connect postgres" ++ C20_url_replacement ++ T "db/x".
Proof. repeat split; vm_compute; reflexivity. Qed.

Example C20_nonvacuous_tail :
  let parse := fun s => if teqb s (T " {""password"": ""a|b""}") then Some [(T "password", JStr (T "a|b"))] else None in
  sanitize_core sensitive_code parse (fun _ => T "0a1b2c3d") false (T "app | ERROR | {""password"": ""a|b""}") =
  T "app | ERROR | {""\u0001KEYmpassword\u0001OFFm"": ""\u0001VALUEm\u0001PURPLEm<redacted:0a1b2c3d>\u0001OFFm\u0001OFFm""}".
Proof. vm_compute. reflexivity. Qed.
