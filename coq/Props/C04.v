(* C04 - Cursor fetches deliver every row exactly once, in order.
   Property theorems only; each is closed by [exact] of a lemma from Proofs/C04.v and
   followed by Print Assumptions. *)
From Coq Require Import List ZArith Bool.
From Orso Require Import Model.C04 Proofs.C04.
Import ListNotations.

(* Materialised frame, any history of fetches / arraysize changes / observers / append calls
   that FAIL (AppendBad: is_append is true only of an append that stored its row): the row
   store is unchanged, and what was fetched, concatenated, is the prefix of the frame of
   exactly that length - nothing skipped, nothing repeated, order kept. *)
Theorem C04_eager_prefix :
  forall (A : Type) (l : list A) (ops : list (op A)),
  forallb (fun o => negb (is_append o)) ops = true ->
  let '(s', xs) := run (init_eager l) ops in
  rows s' = l /\ lazy s' = false /\
  cur s' = Some (length (fetched xs)) /\ length (fetched xs) <= length l /\
  fetched xs = firstn (length (fetched xs)) l.
Proof. exact eager_prefix. Qed.
Print Assumptions C04_eager_prefix.

(* In every state reachable that way, fetchmany(k) returns min(k, remaining) rows - the
   next ones - with arraysize standing in for an omitted k. *)
Theorem C04_fetchmany_size :
  forall (A : Type) (l : list A) (ops : list (op A)) (k : option Z),
  forallb (fun o => negb (is_append o)) ops = true ->
  let '(s', xs) := run (init_eager l) ops in
  exists g, snd (step s' (FetchMany k)) = ORows g /\
            length g = Nat.min (fetch_size s' k) (length l - length (fetched xs)) /\
            g = firstn (fetch_size s' k) (skipn (length (fetched xs)) l).
Proof. exact eager_fetchmany_size. Qed.
Print Assumptions C04_fetchmany_size.

(* After exhaustion fetchone gives None and the others the empty list. *)
Theorem C04_exhausted :
  forall (A : Type) (l : list A) (ops : list (op A)),
  forallb (fun o => negb (is_append o)) ops = true ->
  let '(s', xs) := run (init_eager l) ops in
  length (fetched xs) = length l ->
  snd (step s' FetchOne) = ORow None /\
  (forall k, snd (step s' (FetchMany k)) = ORows []) /\
  snd (step s' FetchAll) = ORows [].
Proof. exact eager_exhausted. Qed.
Print Assumptions C04_exhausted.

(* Read-only observers leave a materialised frame's state (rows and cursor) untouched. *)
Theorem C04_observers_inert :
  forall (A : Type) (s : st A),
  lazy s = false -> step s ObservePure = (s, OUnit) /\ step s ObserveMat = (s, OUnit).
Proof. exact eager_observers_inert. Qed.
Print Assumptions C04_observers_inert.

(* Once a row has been appended, every later fetch call refuses to run - whatever
   else happens in between (further appends, observers, arraysize changes). *)
Theorem C04_append_then_refuse :
  forall (A : Type) (s : st A) (r : A) (ops : list (op A)),
  lazy s = false ->
  rows (fst (step s (Append r))) = rows s ++ [r] /\
  Forall (fun x => x = ORaise)
         (fetch_outs ops (snd (run (fst (step s (Append r))) ops))).
Proof.
  intros A s r ops H. split.
  - exact (proj2 (append_kills_cursor A s r H)).
  - exact (run_dead A ops _ (proj1 (append_kills_cursor A s r H))).
Qed.
Print Assumptions C04_append_then_refuse.

(* One append call on a materialised frame is all or nothing.  An accepted entry is stored
   at the end, the cursor is dropped, and the store length reported is the new one; a call
   that raises (entry rejected by validation, by the row factory or by the size computation)
   leaves the whole state - rows, cursor, arraysize - exactly as it was. *)
Theorem C04_append_atomic :
  forall (A : Type) (s : st A) (r : A),
  lazy s = false ->
  (let '(s1, x1) := step s (Append r) in
     rows s1 = rows s ++ [r] /\ cur s1 = None /\ x1 = OAppend true (Some (length (rows s1)))) /\
  (let '(s2, x2) := step s (AppendBad r) in
     s2 = s /\ x2 = OAppend false (Some (length (rows s)))).
Proof. exact append_atomic. Qed.
Print Assumptions C04_append_atomic.

(* EVERY history on an eagerly created frame, with stored appends and failed appends anywhere:
   the row store is the original rows followed by exactly the rows the successful appends
   stored; the fetched rows, concatenated, are a prefix of the original rows (nothing stale,
   nothing appended is ever handed out); the cursor is gone iff some append stored a row. *)
Theorem C04_any_history :
  forall (A : Type) (l : list A) (ops : list (op A)),
  let '(s', xs) := run (init_eager l) ops in
  rows s' = l ++ appended ops /\ lazy s' = false /\
  fetched xs = firstn (length (fetched xs)) l /\ length (fetched xs) <= length l /\
  cur s' = (if existsb is_append ops then None else Some (length (fetched xs))).
Proof. exact any_history. Qed.
Print Assumptions C04_any_history.

(* At every point of every such history: the frame has grown <-> the cursor is gone (and then
   C04_append_then_refuse applies: every fetch refuses); the frame still has its original
   length <-> the cursor is live and stands right after the rows delivered so far (and then
   the next fetch continues from there).  There is no state in which the frame has grown and
   a fetch still runs - whichever way the append calls ended. *)
Theorem C04_grown_iff_cursor_gone :
  forall (A : Type) (l : list A) (ops : list (op A)),
  let '(s', xs) := run (init_eager l) ops in
  (length l < length (rows s') <-> cur s' = None) /\
  (length (rows s') = length l <-> cur s' = Some (length (fetched xs))).
Proof. exact grown_iff_dead. Qed.
Print Assumptions C04_grown_iff_cursor_gone.

(* What a read-only observer REPORTS (a count, or the rows of a slice of the frame) after any history
   on an eagerly created frame is a function of the frame's current rows only - original rows plus
   stored appends - never of the cursor position, and making the report moves nothing. *)
Theorem C04_observer_reports_rows_only :
  forall (A : Type) (l : list A) (ops : list (op A)) (v : view),
  let '(s', xs) := run (init_eager l) ops in
  step s' (ObserveView v) = (s', view_out v (l ++ appended ops)).
Proof. exact view_after_any_history. Qed.
Print Assumptions C04_observer_reports_rows_only.

(* Object identity.  A frame-returning observer (slice / head / tail / query / distinct) called on a
   materialised frame leaves every frame of the heap exactly as it was and hands back a NEW frame:
   its own row list, its own cursor standing before its own first row - whatever the bounds are. *)
Theorem C04_derived_frame_is_fresh :
  forall (A : Type) (h : list (st A)) (i : nat) (d : dop A) (s : st A),
  nth_error h i = Some s -> lazy s = false ->
  sstep h (Derive i d) =
    (h ++ [init_eager (derive_rows d (rows s))], SDerived (derive_rows d (rows s))).
Proof. exact derive_fresh. Qed.
Print Assumptions C04_derived_frame_is_fresh.

(* Frames are independent: in ANY session over materialised frames - calls on any frame, frames derived
   from any frame at any time - the final state of frame j and everything the calls on frame j returned
   are exactly those of frame j run on its own over the calls addressed to it (sel j).  Hence every
   single-frame theorem above holds for every frame of a session: fetching from, or appending to, a
   slice can neither move nor kill the cursor of the frame it was taken from, and vice versa. *)
Theorem C04_frames_independent :
  forall (A : Type) (ops : list (sop A)) (h : list (st A)),
  all_eager h ->
  let '(h', xs) := srun h ops in
  all_eager h' /\ length h <= length h' /\
  forall j s, nth_error h j = Some s ->
    nth_error h' j = Some (fst (run s (sel j ops))) /\
    outs_for j ops xs = snd (run s (sel j ops)).
Proof. exact srun_frames. Qed.
Print Assumptions C04_frames_independent.

(* The cursor never inspects a row.  Run the same history on a frame whose rows are the images of l
   under ANY function f (not injective: rows may become equal; constant: all rows are the one empty
   tuple; rows may be falsy, None, of no columns): every call returns exactly the image of what it
   returned on l - the same number of rows at every fetch, the same end-of-data answers, the same
   refusals.  So truthiness, equality, hashing or column count of a row cannot enter the contract,
   and every theorem above transfers from a frame with pairwise distinct rows to any frame. *)
Theorem C04_rows_never_inspected :
  forall (A B : Type) (f : A -> B) (l : list A) (ops : list (op A)),
  snd (run (init_eager (map f l)) (map (map_op f) ops)) = map (map_out f) (snd (run (init_eager l) ops)) /\
  snd (run (init_lazy (map f l)) (map (map_op f) ops)) = map (map_out f) (snd (run (init_lazy l) ops)).
Proof.
  intros A B f l ops. split.
  - change (init_eager (map f l)) with (map_st f (init_eager l)). now rewrite run_map.
  - change (init_lazy (map f l)) with (map_st f (init_lazy l)). now rewrite run_map.
Qed.
Print Assumptions C04_rows_never_inspected.

(* Second entry point: a lazily backed frame fed by SEVERAL TABLES (DataFrame.from_arrow).  The row source
   (cnext: next row of the current table, else on to the next table that has a row - empty tables are
   skipped; None only when no table has a row left) yields exactly the concatenation of the tables, so the
   frame answers every history as the generator-backed frame over that concatenation does - wherever the
   table boundaries fall and however many empty tables lie between them: once a fetch has reported the end,
   it is the end. *)
Theorem C04_chunked_source_agrees :
  forall (A : Type) (cs : list (list A)),
  (cnext cs = None <-> concat cs = []) /\
  (forall r cs', cnext cs = Some (r, cs') -> concat cs = r :: concat cs') /\
  chunk_rows cs = concat cs /\
  (forall ops, run (init_chunked cs) ops = run (init_lazy (concat cs)) ops) /\
  (forall cs2 ops, concat cs2 = concat cs -> run (init_chunked cs2) ops = run (init_chunked cs) ops).
Proof.
  intros A cs. split; [apply cnext_none|]. split; [apply cnext_some|]. split; [apply chunk_rows_concat|].
  split.
  - intros ops. unfold init_chunked. now rewrite chunk_rows_concat.
  - intros cs2 ops H. unfold init_chunked. now rewrite !chunk_rows_concat, H.
Qed.
Print Assumptions C04_chunked_source_agrees.

(* Lazily backed frame read only through the cursor (failed append calls allowed: they leave
   the generator alone): fetched ++ not-yet-yielded is the
   original row sequence (so the fetched rows are a prefix, in order, none skipped or
   repeated); fetchmany returns min(k, remaining); after exhaustion None / []. *)
Theorem C04_lazy_cursor_only :
  forall (A : Type) (l : list A) (ops : list (op A)),
  forallb cursor_only ops = true ->
  let '(s', xs) := run (init_lazy l) ops in
  fetched xs ++ rows s' = l /\
  (forall k, snd (step s' (FetchMany k)) = ORows (firstn (fetch_size s' k) (rows s'))) /\
  (rows s' = [] -> snd (step s' FetchOne) = ORow None /\ snd (step s' FetchAll) = ORows []).
Proof. exact lazy_prefix. Qed.
Print Assumptions C04_lazy_cursor_only.

(* Non-vacuity: a concrete history on a 4-row frame, with an observer and an arraysize
   change interleaved, satisfies the hypotheses and fetches 1, 2 and then the last row. *)
Example C04_nonvacuous :
  let ops := [FetchOne; ObserveMat; SetArraysize 2; FetchMany None; FetchMany (Some 5%Z); FetchOne] in
  forallb (fun o => negb (is_append o)) ops = true /\
  snd (run (init_eager [10; 11; 12; 13]%Z) ops) =
    [ORow (Some 10%Z); OUnit; OUnit; ORows [11; 12]%Z; ORows [13]%Z; ORow None].
Proof. split; reflexivity. Qed.

(* Non-vacuity for the append theorems: a failed append in mid-history changes nothing (the
   cursor carries on with row 11), a stored one ends the cursor; the outputs report the store
   length after each call. *)
Example C04_nonvacuous_append :
  let ops := [FetchOne; AppendBad 99; FetchOne; Append 1000; FetchOne; AppendBad 98; FetchAll]%Z in
  forallb (fun o => negb (is_append o)) (firstn 3 ops) = true /\
  existsb is_append ops = true /\ appended ops = [1000%Z] /\
  snd (run (init_eager [10; 11; 12]%Z) ops) =
    [ORow (Some 10%Z); OAppend false (Some 3); ORow (Some 11%Z); OAppend true (Some 4);
     ORaise; OAppend false (Some 4); ORaise].
Proof. repeat split; reflexivity. Qed.

(* Non-vacuity for the session theorems: one row fetched from the source, a slice covering the whole
   frame taken, read to its end and appended to; the source carries on with rows 11, 12, 13, and a
   full-frame report (markdown(limit=0)-like) in between shows all four rows and moves nothing. *)
Example C04_nonvacuous_session :
  let ops := [On 0 FetchOne; Derive 0 (DSlice 0 (Some 4)); On 1 FetchAll; On 1 (Append 1000);
              On 0 (ObserveView (VRows 0 None)); On 0 (FetchMany (Some 2)); On 1 FetchOne; On 0 FetchAll]%Z in
  all_eager [init_eager [10; 11; 12; 13]%Z] /\
  snd (srun [init_eager [10; 11; 12; 13]%Z] ops) =
    [SOut (ORow (Some 10%Z)); SDerived [10; 11; 12; 13]%Z; SOut (ORows [10; 11; 12; 13]%Z);
     SOut (OAppend true (Some 5)); SOut (OSeen [10; 11; 12; 13]%Z); SOut (ORows [11; 12]%Z);
     SOut ORaise; SOut (ORows [13]%Z)] /\
  sel 0 ops = [FetchOne; ObserveView (VRows 0 None); FetchMany (Some 2%Z); FetchAll].
Proof. split; [repeat constructor|split; reflexivity]. Qed.

(* Non-vacuity for C04_rows_never_inspected: with f constant (every row the same empty tuple, here tt)
   fetchmany still returns min(k, remaining) rows and the history ends with None / []. *)
Example C04_nonvacuous_equal_rows :
  snd (run (init_eager [tt; tt; tt]) [FetchMany (Some 2%Z); FetchOne; FetchMany (Some 2%Z); FetchOne; FetchAll]) =
    [ORows [tt; tt]; ORow (Some tt); ORows []; ORow None; ORows []].
Proof. reflexivity. Qed.

(* Non-vacuity for C04_chunked_source_agrees: three rows, an empty table, two rows - fetchall delivers all
   five, and the end is final. *)
Example C04_nonvacuous_chunked :
  snd (run (init_chunked [[1; 2; 3]; []; [4; 5]]%Z) [FetchMany (Some 4%Z); FetchAll; FetchOne; FetchMany (Some 3%Z)]) =
    [ORows [1; 2; 3; 4]%Z; ORows [5]%Z; ORow None; ORows []].
Proof. reflexivity. Qed.
