(* C04 - Cursor fetches deliver every row exactly once, in order.
   Property theorems only; each is closed by [exact] of a lemma from Proofs/C04.v and
   followed by Print Assumptions. *)
From Coq Require Import List ZArith Bool.
From Orso Require Import Model.C04 Proofs.C04.
Import ListNotations.

(* Materialised frame, any history of fetches / arraysize changes / observers: the row
   store is unchanged, and what was fetched, concatenated, is the prefix of the frame of
   exactly that length - nothing skipped, nothing repeated, order kept. *)
Theorem C04_eager_prefix :
  forall (A : Type) (l : list A) (ops : list (op A)),
  forallb (fun o => negb (is_append o)) ops = true ->
  let '(s', xs) := run (init_eager l) ops in
  rows s' = l /\ lazy s' = false /\
  cur s' = Some (length (fetched xs)) /\ length (fetched xs) <= length l /\
  fetched xs = firstn (length (fetched xs)) l.
Proof. exact eager_prefix. Qed.
Print Assumptions C04_eager_prefix.

(* In every state reachable that way, fetchmany(k) returns min(k, remaining) rows - the
   next ones - with arraysize standing in for an omitted k. *)
Theorem C04_fetchmany_size :
  forall (A : Type) (l : list A) (ops : list (op A)) (k : option Z),
  forallb (fun o => negb (is_append o)) ops = true ->
  let '(s', xs) := run (init_eager l) ops in
  exists g, snd (step s' (FetchMany k)) = ORows g /\
            length g = Nat.min (fetch_size s' k) (length l - length (fetched xs)) /\
            g = firstn (fetch_size s' k) (skipn (length (fetched xs)) l).
Proof. exact eager_fetchmany_size. Qed.
Print Assumptions C04_fetchmany_size.

(* After exhaustion fetchone gives None and the others the empty list. *)
Theorem C04_exhausted :
  forall (A : Type) (l : list A) (ops : list (op A)),
  forallb (fun o => negb (is_append o)) ops = true ->
  let '(s', xs) := run (init_eager l) ops in
  length (fetched xs) = length l ->
  snd (step s' FetchOne) = ORow None /\
  (forall k, snd (step s' (FetchMany k)) = ORows []) /\
  snd (step s' FetchAll) = ORows [].
Proof. exact eager_exhausted. Qed.
Print Assumptions C04_exhausted.

(* Read-only observers leave a materialised frame's state (rows and cursor) untouched. *)
Theorem C04_observers_inert :
  forall (A : Type) (s : st A),
  lazy s = false -> step s ObservePure = (s, OUnit) /\ step s ObserveMat = (s, OUnit).
Proof. exact eager_observers_inert. Qed.
Print Assumptions C04_observers_inert.

(* Once a row has been appended, every later fetch call refuses to run - whatever
   else happens in between (further appends, observers, arraysize changes). *)
Theorem C04_append_then_refuse :
  forall (A : Type) (s : st A) (r : A) (ops : list (op A)),
  lazy s = false ->
  rows (fst (step s (Append r))) = rows s ++ [r] /\
  Forall (fun x => x = ORaise)
         (fetch_outs ops (snd (run (fst (step s (Append r))) ops))).
Proof.
  intros A s r ops H. split.
  - exact (proj2 (append_kills_cursor A s r H)).
  - exact (run_dead A ops _ (proj1 (append_kills_cursor A s r H))).
Qed.
Print Assumptions C04_append_then_refuse.

(* Lazily backed frame read only through the cursor: fetched ++ not-yet-yielded is the
   original row sequence (so the fetched rows are a prefix, in order, none skipped or
   repeated); fetchmany returns min(k, remaining); after exhaustion None / []. *)
Theorem C04_lazy_cursor_only :
  forall (A : Type) (l : list A) (ops : list (op A)),
  forallb cursor_only ops = true ->
  let '(s', xs) := run (init_lazy l) ops in
  fetched xs ++ rows s' = l /\
  (forall k, snd (step s' (FetchMany k)) = ORows (firstn (fetch_size s' k) (rows s'))) /\
  (rows s' = [] -> snd (step s' FetchOne) = ORow None /\ snd (step s' FetchAll) = ORows []).
Proof. exact lazy_prefix. Qed.
Print Assumptions C04_lazy_cursor_only.

(* Non-vacuity: a concrete history on a 4-row frame, with an observer and an arraysize
   change interleaved, satisfies the hypotheses and fetches 1, 2 and then the last row. *)
Example C04_nonvacuous :
  let ops := [FetchOne; ObserveMat; SetArraysize 2; FetchMany None; FetchMany (Some 5%Z); FetchOne] in
  forallb (fun o => negb (is_append o)) ops = true /\
  snd (run (init_eager [10; 11; 12; 13]%Z) ops) =
    [ORow (Some 10%Z); OUnit; OUnit; ORows [11; 12]%Z; ORows [13]%Z; ORow None].
Proof. split; reflexivity. Qed.
