(* C04 - Cursor fetches deliver every row exactly once, in order.
   Property theorems only; each is closed by [exact] of a lemma from Proofs/C04.v and
   followed by Print Assumptions. *)
From Coq Require Import List ZArith Bool.
From Orso Require Import Model.C04 Proofs.C04.
Import ListNotations.

(* Materialised frame, any history of fetches / arraysize changes / observers / append calls
   that FAIL (AppendBad: is_append is true only of an append that stored its row): the row
   store is unchanged, and what was fetched, concatenated, is the prefix of the frame of
   exactly that length - nothing skipped, nothing repeated, order kept. *)
Theorem C04_eager_prefix :
  forall (A : Type) (l : list A) (ops : list (op A)),
  forallb (fun o => negb (is_append o)) ops = true ->
  let '(s', xs) := run (init_eager l) ops in
  rows s' = l /\ lazy s' = false /\
  cur s' = Some (length (fetched xs)) /\ length (fetched xs) <= length l /\
  fetched xs = firstn (length (fetched xs)) l.
Proof. exact eager_prefix. Qed.
Print Assumptions C04_eager_prefix.

(* In every state reachable that way, fetchmany(k) returns min(k, remaining) rows - the
   next ones - with arraysize standing in for an omitted k. *)
Theorem C04_fetchmany_size :
  forall (A : Type) (l : list A) (ops : list (op A)) (k : option Z),
  forallb (fun o => negb (is_append o)) ops = true ->
  let '(s', xs) := run (init_eager l) ops in
  exists g, snd (step s' (FetchMany k)) = ORows g /\
            length g = Nat.min (fetch_size s' k) (length l - length (fetched xs)) /\
            g = firstn (fetch_size s' k) (skipn (length (fetched xs)) l).
Proof. exact eager_fetchmany_size. Qed.
Print Assumptions C04_fetchmany_size.

(* After exhaustion fetchone gives None and the others the empty list. *)
Theorem C04_exhausted :
  forall (A : Type) (l : list A) (ops : list (op A)),
  forallb (fun o => negb (is_append o)) ops = true ->
  let '(s', xs) := run (init_eager l) ops in
  length (fetched xs) = length l ->
  snd (step s' FetchOne) = ORow None /\
  (forall k, snd (step s' (FetchMany k)) = ORows []) /\
  snd (step s' FetchAll) = ORows [].
Proof. exact eager_exhausted. Qed.
Print Assumptions C04_exhausted.

(* Read-only observers leave a materialised frame's state (rows and cursor) untouched. *)
Theorem C04_observers_inert :
  forall (A : Type) (s : st A),
  lazy s = false -> step s ObservePure = (s, OUnit) /\ step s ObserveMat = (s, OUnit).
Proof. exact eager_observers_inert. Qed.
Print Assumptions C04_observers_inert.

(* Once a row has been appended, every later fetch call refuses to run - whatever
   else happens in between (further appends, observers, arraysize changes). *)
Theorem C04_append_then_refuse :
  forall (A : Type) (s : st A) (r : A) (ops : list (op A)),
  lazy s = false ->
  rows (fst (step s (Append r))) = rows s ++ [r] /\
  Forall (fun x => x = ORaise)
         (fetch_outs ops (snd (run (fst (step s (Append r))) ops))).
Proof.
  intros A s r ops H. split.
  - exact (proj2 (append_kills_cursor A s r H)).
  - exact (run_dead A ops _ (proj1 (append_kills_cursor A s r H))).
Qed.
Print Assumptions C04_append_then_refuse.

(* One append call on a materialised frame is all or nothing.  An accepted entry is stored
   at the end, the cursor is dropped, and the store length reported is the new one; a call
   that raises (entry rejected by validation, by the row factory or by the size computation)
   leaves the whole state - rows, cursor, arraysize - exactly as it was. *)
Theorem C04_append_atomic :
  forall (A : Type) (s : st A) (r : A),
  lazy s = false ->
  (let '(s1, x1) := step s (Append r) in
     rows s1 = rows s ++ [r] /\ cur s1 = None /\ x1 = OAppend true (Some (length (rows s1)))) /\
  (let '(s2, x2) := step s (AppendBad r) in
     s2 = s /\ x2 = OAppend false (Some (length (rows s)))).
Proof. exact append_atomic. Qed.
Print Assumptions C04_append_atomic.

(* EVERY history on an eagerly created frame, with stored appends and failed appends anywhere:
   the row store is the original rows followed by exactly the rows the successful appends
   stored; the fetched rows, concatenated, are a prefix of the original rows (nothing stale,
   nothing appended is ever handed out); the cursor is gone iff some append stored a row. *)
Theorem C04_any_history :
  forall (A : Type) (l : list A) (ops : list (op A)),
  let '(s', xs) := run (init_eager l) ops in
  rows s' = l ++ appended ops /\ lazy s' = false /\
  fetched xs = firstn (length (fetched xs)) l /\ length (fetched xs) <= length l /\
  cur s' = (if existsb is_append ops then None else Some (length (fetched xs))).
Proof. exact any_history. Qed.
Print Assumptions C04_any_history.

(* At every point of every such history: the frame has grown <-> the cursor is gone (and then
   C04_append_then_refuse applies: every fetch refuses); the frame still has its original
   length <-> the cursor is live and stands right after the rows delivered so far (and then
   the next fetch continues from there).  There is no state in which the frame has grown and
   a fetch still runs - whichever way the append calls ended. *)
Theorem C04_grown_iff_cursor_gone :
  forall (A : Type) (l : list A) (ops : list (op A)),
  let '(s', xs) := run (init_eager l) ops in
  (length l < length (rows s') <-> cur s' = None) /\
  (length (rows s') = length l <-> cur s' = Some (length (fetched xs))).
Proof. exact grown_iff_dead. Qed.
Print Assumptions C04_grown_iff_cursor_gone.

(* Lazily backed frame read only through the cursor (failed append calls allowed: they leave
   the generator alone): fetched ++ not-yet-yielded is the
   original row sequence (so the fetched rows are a prefix, in order, none skipped or
   repeated); fetchmany returns min(k, remaining); after exhaustion None / []. *)
Theorem C04_lazy_cursor_only :
  forall (A : Type) (l : list A) (ops : list (op A)),
  forallb cursor_only ops = true ->
  let '(s', xs) := run (init_lazy l) ops in
  fetched xs ++ rows s' = l /\
  (forall k, snd (step s' (FetchMany k)) = ORows (firstn (fetch_size s' k) (rows s'))) /\
  (rows s' = [] -> snd (step s' FetchOne) = ORow None /\ snd (step s' FetchAll) = ORows []).
Proof. exact lazy_prefix. Qed.
Print Assumptions C04_lazy_cursor_only.

(* Non-vacuity: a concrete history on a 4-row frame, with an observer and an arraysize
   change interleaved, satisfies the hypotheses and fetches 1, 2 and then the last row. *)
Example C04_nonvacuous :
  let ops := [FetchOne; ObserveMat; SetArraysize 2; FetchMany None; FetchMany (Some 5%Z); FetchOne] in
  forallb (fun o => negb (is_append o)) ops = true /\
  snd (run (init_eager [10; 11; 12; 13]%Z) ops) =
    [ORow (Some 10%Z); OUnit; OUnit; ORows [11; 12]%Z; ORows [13]%Z; ORow None].
Proof. split; reflexivity. Qed.

(* Non-vacuity for the append theorems: a failed append in mid-history changes nothing (the
   cursor carries on with row 11), a stored one ends the cursor; the outputs report the store
   length after each call. *)
Example C04_nonvacuous_append :
  let ops := [FetchOne; AppendBad 99; FetchOne; Append 1000; FetchOne; AppendBad 98; FetchAll]%Z in
  forallb (fun o => negb (is_append o)) (firstn 3 ops) = true /\
  existsb is_append ops = true /\ appended ops = [1000%Z] /\
  snd (run (init_eager [10; 11; 12]%Z) ops) =
    [ORow (Some 10%Z); OAppend false (Some 3); ORow (Some 11%Z); OAppend true (Some 4);
     ORaise; OAppend false (Some 4); ORaise].
Proof. repeat split; reflexivity. Qed.
