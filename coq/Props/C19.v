(* C19 - Memoised functions return only results computed for the same arguments.
   Property theorems only; each is closed by [exact] of a lemma from Proofs/C19*.v and
   followed by Print Assumptions.

   Conventions (Model/C19.v): arguments are equal when their keys are ([key : A -> K],
   decided by [keqb]); [f a n] is the value of the n-th invocation of the wrapped function
   when made for [a]; a trace is the list of outcomes (arguments, clock read, served from
   the cache?, value returned) of the calls of a history; [fresh valid now ts] is
   now - ts <= validity period. *)
From Coq Require Import List ZArith NArith Bool Sorted.
From Orso Require Import Model.C19 Proofs.C19 Gen.C19_Shape.
Import ListNotations.

(* The source lines of the live wrappers that touch shared state (clock, cache object, wrapped
   function), classified from the AST on every run, are the steps the models have. *)
Theorem C19_shape_is_modelled : sic_shape = sic_model_shape /\ lru_shape = lru_model_shape.
Proof. split; reflexivity. Qed.
Print Assumptions C19_shape_is_modelled.

(* The hypothesis "key comparison decides key equality" carried by the theorems below holds for the
   concrete instance the correspondence evaluates (positional values + keyword pairs sorted by name). *)
Theorem C19_instance_keys_decide_equality : forall x y : ckey, ckeqb x y = true <-> x = y.
Proof. exact ckeqb_spec. Qed.
Print Assumptions C19_instance_keys_decide_equality.

(* ------------------------- single_item_cache, sequential ------------------------- *)

(* Refinement, every history of calls and clock advances: the trace of the wrapper equals the
   specification computed from the history alone - a call is served from the cache iff the most
   recent invocation of f was for equal arguments and is unexpired ("the last call only"). *)
Theorem C19_sic_refines_last_call :
  forall (A K R : Type) (key : A -> K) (keqb : K -> K -> bool) (f : A -> N -> R)
         (valid : option Z) (t0 : Z) (h : list (@event A)),
  snd (sic_run key keqb f valid (sic_init t0) h) = sic_spec key keqb f valid t0 [] h.
Proof. exact sic_refines. Qed.
Print Assumptions C19_sic_refines_last_call.

(* The same, spelled out for every call of every history: hit <-> the last invocation was for
   equal arguments and is within the validity period; a hit returns that invocation's value; a
   miss returns f of the caller's arguments (next invocation number). *)
Theorem C19_sic_call_contract :
  forall (A K R : Type) (key : A -> K) (keqb : K -> K -> bool) (f : A -> N -> R) (valid : option Z),
  (forall x y, keqb x y = true <-> x = y) ->
  forall (t0 : Z) (h : list (@event A)) (past : list (@outcome A R)) (o : @outcome A R) (rest : list (@outcome A R)),
  snd (sic_run key keqb f valid (sic_init t0) h) = past ++ o :: rest ->
  (o_hit o = true <->
     exists p, last_miss (rev past) = Some p /\ key (o_arg p) = key (o_arg o) /\
               fresh valid (o_now o) (o_now p) = true) /\
  (forall p, o_hit o = true -> last_miss (rev past) = Some p -> o_res o = o_res p) /\
  (o_hit o = false -> o_res o = f (o_arg o) (count_miss past)).
Proof. exact sic_contract. Qed.
Print Assumptions C19_sic_call_contract.

(* f is invoked exactly on misses: the invocation counter equals the number of misses. *)
Theorem C19_sic_invoked_exactly_on_misses :
  forall (A K R : Type) (key : A -> K) (keqb : K -> K -> bool) (f : A -> N -> R)
         (valid : option Z) (t0 : Z) (h : list (@event A)),
  s_calls (fst (sic_run key keqb f valid (sic_init t0) h)) =
  count_miss (snd (sic_run key keqb f valid (sic_init t0) h)).
Proof. exact sic_invocations. Qed.
Print Assumptions C19_sic_invoked_exactly_on_misses.

(* Every value returned is the value of an invocation of f made for equal arguments, and when
   served from the cache that invocation is no older than the validity period. *)
Theorem C19_sic_returns_computed_for_equal_args :
  forall (A K R : Type) (key : A -> K) (keqb : K -> K -> bool) (f : A -> N -> R) (valid : option Z),
  (forall x y, keqb x y = true <-> x = y) ->
  forall (t0 : Z) (h : list (@event A)) (past : list (@outcome A R)) (o : @outcome A R) (rest : list (@outcome A R)),
  snd (sic_run key keqb f valid (sic_init t0) h) = past ++ o :: rest ->
  exists past' p rest', past ++ [o] = past' ++ p :: rest' /\ o_hit p = false /\
     key (o_arg p) = key (o_arg o) /\ o_res o = f (o_arg p) (count_miss past') /\
     (o_hit o = true -> fresh valid (o_now o) (o_now p) = true).
Proof. exact sic_sound. Qed.
Print Assumptions C19_sic_returns_computed_for_equal_args.

(* ------------------------- lru_cache_with_expiry, sequential ------------------------- *)

(* In every reachable state the cache holds at most max_size entries, with distinct keys. *)
Theorem C19_lru_size_never_exceeds_max :
  forall (A K R : Type) (key : A -> K) (keqb : K -> K -> bool) (f : A -> N -> R) (valid : option Z) (mx : nat),
  (forall x y, keqb x y = true <-> x = y) ->
  forall (t0 : Z) (h : list (@event A)),
  let s := fst (lru_run key keqb f mx valid (lru_init t0) h) in
  length (l_items s) <= mx /\ NoDup (map fst (l_items s)).
Proof. exact lru_size_bound. Qed.
Print Assumptions C19_lru_size_never_exceeds_max.

(* A call in any reachable state: served from the cache iff an unexpired entry for an equal key is
   held, returning that entry's value without invoking f; otherwise it returns f of its own
   arguments and f is invoked exactly once. *)
Theorem C19_lru_call_contract :
  forall (A K R : Type) (key : A -> K) (keqb : K -> K -> bool) (f : A -> N -> R) (valid : option Z) (mx : nat),
  (forall x y, keqb x y = true <-> x = y) ->
  forall (t0 : Z) (h : list (@event A)),
  let s := fst (lru_run key keqb f mx valid (lru_init t0) h) in
  forall a : A,
  let s' := fst (lru_call key keqb f mx valid s a) in
  let o := snd (lru_call key keqb f mx valid s a) in
  (o_hit o = true <-> exists ts r, In (key a, (ts, r)) (l_items s) /\ fresh valid (l_now s) ts = true) /\
  (o_hit o = true -> forall ts r, In (key a, (ts, r)) (l_items s) -> o_res o = r) /\
  (o_hit o = true -> l_calls s' = l_calls s) /\
  (o_hit o = false -> o_res o = f a (l_calls s) /\ l_calls s' = N.succ (l_calls s)) /\
  o_arg o = a /\ o_now o = l_now s.
Proof. exact lru_contract. Qed.
Print Assumptions C19_lru_call_contract.

(* f is invoked exactly on misses. *)
Theorem C19_lru_invoked_exactly_on_misses :
  forall (A K R : Type) (key : A -> K) (keqb : K -> K -> bool) (f : A -> N -> R) (valid : option Z) (mx : nat),
  (forall x y, keqb x y = true <-> x = y) ->
  forall (t0 : Z) (h : list (@event A)),
  l_calls (fst (lru_run key keqb f mx valid (lru_init t0) h)) =
  count_miss (map fst (snd (lru_run key keqb f mx valid (lru_init t0) h))).
Proof. exact lru_invocations. Qed.
Print Assumptions C19_lru_invoked_exactly_on_misses.

(* Every value returned is the value of an invocation of f made for an equal key, and when served
   from the cache that invocation is no older than the validity period. *)
Theorem C19_lru_returns_computed_for_equal_args :
  forall (A K R : Type) (key : A -> K) (keqb : K -> K -> bool) (f : A -> N -> R) (valid : option Z) (mx : nat),
  (forall x y, keqb x y = true <-> x = y) ->
  forall (t0 : Z) (h : list (@event A)) (past : list (@outcome A R)) (o : @outcome A R) (rest : list (@outcome A R)),
  map fst (snd (lru_run key keqb f mx valid (lru_init t0) h)) = past ++ o :: rest ->
  exists past' p rest', past ++ [o] = past' ++ p :: rest' /\ o_hit p = false /\
     key (o_arg p) = key (o_arg o) /\ o_res o = f (o_arg p) (count_miss past') /\
     (o_hit o = true -> fresh valid (o_now o) (o_now p) = true).
Proof. exact lru_sound. Qed.
Print Assumptions C19_lru_returns_computed_for_equal_args.

(* LRU order: in every reachable state the entries are ordered by the position in the history of
   the last call that used their key (oldest first) ... *)
Theorem C19_lru_ordered_by_last_use :
  forall (A K R : Type) (key : A -> K) (keqb : K -> K -> bool) (f : A -> N -> R) (valid : option Z) (mx : nat),
  (forall x y, keqb x y = true <-> x = y) ->
  forall (t0 : Z) (h : list (@event A)),
  let s := fst (lru_run key keqb f mx valid (lru_init t0) h) in
  let tr := map fst (snd (lru_run key keqb f mx valid (lru_init t0) h)) in
  StronglySorted (fun e1 e2 => last_use key keqb (fst e1) tr < last_use key keqb (fst e2) tr) (l_items s).
Proof. exact lru_sorted_by_last_use. Qed.
Print Assumptions C19_lru_ordered_by_last_use.

(* ... so a miss on a full cache evicts exactly the least recently used of the unexpired keys and
   keeps all the others, appending the new entry. *)
Theorem C19_lru_evicts_least_recently_used :
  forall (A K R : Type) (key : A -> K) (keqb : K -> K -> bool) (f : A -> N -> R) (valid : option Z) (mx : nat),
  (forall x y, keqb x y = true <-> x = y) ->
  forall (t0 : Z) (h : list (@event A)),
  let s := fst (lru_run key keqb f mx valid (lru_init t0) h) in
  let tr := map fst (snd (lru_run key keqb f mx valid (lru_init t0) h)) in
  forall a : A,
  let live := lru_live valid (l_now s) (l_items s) in
  o_hit (snd (lru_call key keqb f mx valid s a)) = false ->
  length live = mx -> 0 < mx ->
  exists victim rest,
    live = victim :: rest /\
    l_items (fst (lru_call key keqb f mx valid s a)) = rest ++ [(key a, (l_now s, f a (l_calls s)))] /\
    Forall (fun e => last_use key keqb (fst victim) tr < last_use key keqb (fst e) tr) rest.
Proof. exact lru_evicts_lru. Qed.
Print Assumptions C19_lru_evicts_least_recently_used.

(* "The max_size most recently used unexpired keys are held", in history-only terms: if the most
   recent invocation of f for the caller's key is unexpired, and fewer than max_size distinct keys
   have been used since the last call with that key, the call is served from the cache and returns
   that invocation's value.  (With C19_lru_call_contract and the eviction theorem this pins the set
   of held keys; the converse direction is false by design: after other entries expire a key may
   survive more than max_size later keys.)  The clock does not go backwards (ticks are naturals). *)
Theorem C19_lru_recently_used_unexpired_key_hits :
  forall (A K R : Type) (key : A -> K) (keqb : K -> K -> bool) (f : A -> N -> R) (valid : option Z) (mx : nat),
  (forall x y, keqb x y = true <-> x = y) ->
  forall (t0 : Z) (h : list (@event A)),
  let s := fst (lru_run key keqb f mx valid (lru_init t0) h) in
  let tr := map fst (snd (lru_run key keqb f mx valid (lru_init t0) h)) in
  forall (a : A) (p : @outcome A R),
  last_miss_for key keqb (key a) (rev tr) = Some p -> fresh valid (l_now s) (o_now p) = true ->
  (forall ks, NoDup ks -> (forall k', In k' ks -> last_use key keqb (key a) tr < last_use key keqb k' tr) -> length ks < mx) ->
  o_hit (snd (lru_call key keqb f mx valid s a)) = true /\
  o_res (snd (lru_call key keqb f mx valid s a)) = o_res p.
Proof. exact lru_recently_used_hits. Qed.
Print Assumptions C19_lru_recently_used_unexpired_key_hits.

(* ------------------------- single_item_cache, concurrent ------------------------- *)

(* The wrapper as it is now (one immutable entry, read once).  Any number of threads, any schedule
   at source-line granularity, any clock advances in between: a call that has returned holds a
   value that an invocation of f (number n, made when the clock showed tc) produced for arguments
   equal to the caller's own; if it was served from the cache, that invocation is within the
   validity period of the clock value the caller read; otherwise it is the caller's own invocation. *)
Theorem C19_sic_interleaving_returns_own :
  forall (A K R : Type) (key : A -> K) (keqb : K -> K -> bool) (f : A -> N -> R) (valid : option Z),
  (forall x y, keqb x y = true <-> x = y) ->
  forall (t0 : Z) (args : list A) (sch : list sched),
  let st := crun key keqb f valid sch (mkC (sic_init t0) (map (fun a => mkT a PTime) args) []) in
  forall (t : @thread A R) (now : Z) (hit : option Z) (r : R),
    In t (c_thr st) -> t_pc t = PDone now hit r ->
    exists a' n tc, nth_error (c_log st) n = Some (a', tc) /\ r = f a' (N.of_nat n) /\
      key a' = key (t_arg t) /\
      match hit with Some _ => fresh valid now tc = true | None => a' = t_arg t end.
Proof. exact returns_own. Qed.
Print Assumptions C19_sic_interleaving_returns_own.

(* The sequential model is the interleaving model with one caller at a time: a thread run alone
   for its seven lines changes the shared state and returns exactly as sic_call does (so warm-up
   calls in a history are schedules too). *)
Theorem C19_sic_alone_is_sequential :
  forall (A K R : Type) (key : A -> K) (keqb : K -> K -> bool) (f : A -> N -> R) (valid : option Z)
         (sh : @sic_st A R) (log : list (A * Z)) (a : A),
  let st := crun key keqb f valid (repeat (SStep 0) 7) (mkC sh [mkT a PTime] log) in
  c_sh st = fst (sic_call key keqb f valid sh a) /\
  map returned (c_thr st) = [Some (o_res (snd (sic_call key keqb f valid sh a)))].
Proof. exact alone_is_sequential. Qed.
Print Assumptions C19_sic_alone_is_sequential.

(* The wrapper before commit 78920c2 (four slots written one by one, each read on its own line)
   violates the statement: finding F-C19-1, kept as a regression document.  Three callers from an
   empty cache: (7) runs alone; the first (3) is paused after publishing last_args; the second (3)
   then returns the value computed for (7).
   Full statement that fails for it:  forall schedules, every returned value is f of the caller's
   own arguments. *)
Theorem C19_old_four_slot_wrapper_refuted :
  exists (valid : option Z) (t0 : Z) (calls : list (N * N)) (sch : list sched),
    exists t r, In t (snd (ocrun N.eqb N.eqb old_f valid sch (old_init t0 calls))) /\
                oreturned t = Some (Some r) /\
                forall n, r <> old_f (ot_p t) (ot_w t) n.
Proof. exact old_wrapper_refuted. Qed.
Print Assumptions C19_old_four_slot_wrapper_refuted.

(* ------------------------- lru_cache_with_expiry, concurrent ------------------------- *)

(* The wrapper as it is now (entry read once with cache.get, its age checked on the hit path).  Any
   number of threads, any schedule (steps at least as fine as source lines), any clock advances:
   every value a call RETURNS is the value of a logged invocation of f (number n, run when the clock
   showed tc) for arguments with the caller's own key; if it was served from the cache, that
   invocation is within the validity period of the clock value the caller read; otherwise it is the
   caller's own invocation.  A call may instead raise (dict mutated during the expiry sweep, key
   removed by another caller between get and move_to_end).
   The interleaving model of the OrderedDict (iteration invalidated by any mutation, KeyError on
   missing keys) is exercised on the implementation by the property oracle on scheduled runs, not
   replayed inside Coq (see LEVEL_NOTE).  Not claimed under interleaving: the size bound and "f
   invoked exactly on misses" (two concurrent misses both invoke f). *)
Theorem C19_lru_interleaving_returns_own_fresh :
  forall (A K R : Type) (key : A -> K) (keqb : K -> K -> bool) (f : A -> N -> R) (valid : option Z) (mx : nat),
  (forall x y, keqb x y = true <-> x = y) ->
  forall (t0 : Z) (args : list A) (sch : list sched),
  let st := lcrun key keqb f mx valid sch (mkLS [] 0 t0 0 [], map (fun a => mkLT a LTime) args) in
  forall (t : @lthread A K R) (now : Z) (hit : bool) (r : R),
    In t (snd st) -> lt_pc t = LDone now hit (Some r) ->
    exists a' n tc, nth_error (ls_log (fst st)) n = Some (a', tc) /\ r = f a' (N.of_nat n) /\
      key a' = key (lt_arg t) /\
      if hit then fresh valid now tc = true else a' = lt_arg t.
Proof. exact lru_returns_own_fresh. Qed.
Print Assumptions C19_lru_interleaving_returns_own_fresh.

(* Finding F-C19-2 (fixed by 76447ff), kept as a regression document for the OLD step list
   (Model/C19.v, module LruOld: "if key in cache: move_to_end; return cache[key][1]").  Validity 5,
   two callers with equal arguments on an empty cache.  Caller 0 reads the clock (1000), sweeps,
   misses, invokes f and is paused before storing; the clock advances by 6; caller 1 reads the clock
   (1006) and sweeps (nothing to expire); caller 0 stores its entry with timestamp 1000; caller 1
   finds the key and returns the value computed at 1000 although 1006 - 1000 > 5.
   Full statement that fails for it: C19_lru_interleaving_returns_own_fresh. *)
Theorem C19_old_lru_wrapper_freshness_refuted :
  let st := LruOld.lcrun ckey_of ckeqb cf 2 (Some 5%Z) lru2_sched lru2_init in
  let st' := LruOld.lcstep ckey_of ckeqb cf 2 (Some 5%Z) st (SStep 1) in
  exists t now t' r a' tc,
    nth_error (snd st) 1 = Some t /\ LruOld.lt_pc t = LruOld.LGet now /\
    nth_error (snd st') 1 = Some t' /\ LruOld.lreturned t' = Some r /\
    nth_error (LruOld.ls_log (fst st')) 0 = Some (a', tc) /\ r = cf a' 0 /\
    fresh (Some 5%Z) now tc = false.
Proof. exact lru_old_interleaving_stale. Qed.
Print Assumptions C19_old_lru_wrapper_freshness_refuted.


(* ------------------------- round 3: the wrapped function acts while the wrapper is inside it ------------------------- *)
(* Histories are forests (Model/C19.v, section Reentrant): [XCall a body raises] is a call with arguments a; if it
   invokes the wrapped function, the invocation performs [body] (clock advances, further calls of the same wrapper)
   and then raises or returns f a n, n = number of invocations begun before.  The state carries the log of the
   invocations begun: (arguments, clock value). *)

(* The histories of the theorems above are the forests without bodies and failures: both wrappers' flat models are
   the forest models restricted to them (so the correspondence streams sic/lru and sicx/lrx exercise one model). *)
Theorem C19_forests_extend_flat_histories :
  forall (A K R : Type) (key : A -> K) (keqb : K -> K -> bool) (f : A -> N -> R) (valid : option Z) (t0 : Z)
         (h : list (@event A)),
  map (fun o => mkXO (o_arg o) (o_now o) (o_hit o) (Some (o_res o))) (snd (sic_run key keqb f valid (sic_init t0) h))
    = snd (sicx_run key keqb f valid (embed h) (sx_init t0)) /\
  forall mx : nat,
  map (fun oi => (mkXO (o_arg (fst oi)) (o_now (fst oi)) (o_hit (fst oi)) (Some (o_res (fst oi))), snd oi))
      (snd (lru_run key keqb f mx valid (lru_init t0) h))
    = snd (lrx_run key keqb f mx valid (embed h) (lx_init t0)).
Proof.
  intros A K R key keqb f valid t0 h. split; [exact (sicx_flat_init A K R key keqb f valid t0 h)|].
  intros mx. exact (lrx_flat_init A K R key keqb f valid mx t0 h).
Qed.
Print Assumptions C19_forests_extend_flat_histories.

(* single_item_cache, every forest: every value a call (at any depth) returned is the value of a logged invocation
   for the caller's own key - unexpired at the clock value the caller read when served from the cache, the caller's
   own invocation otherwise; the wrapped function is invoked exactly by the calls not served from the cache. *)
Theorem C19_sicx_returns_computed_for_equal_args :
  forall (A K R : Type) (key : A -> K) (keqb : K -> K -> bool) (f : A -> N -> R) (valid : option Z),
  (forall x y, keqb x y = true <-> x = y) ->
  forall (t0 : Z) (h : @xevs A),
  let res := sicx_run key keqb f valid h (sx_init t0) in
  Forall (fun o => forall r, xo_res o = Some r ->
            exists n a' tc, nth_error (sx_log (fst res)) n = Some (a', tc) /\ r = f a' (N.of_nat n) /\
              key a' = key (xo_arg o) /\
              if xo_hit o then fresh valid (xo_now o) tc = true else a' = xo_arg o /\ tc = xo_now o) (snd res) /\
  length (sx_log (fst res)) = length (filter (fun o => negb (xo_hit o)) (snd res)).
Proof. exact sicx_sound. Qed.
Print Assumptions C19_sicx_returns_computed_for_equal_args.

(* single_item_cache, any state: served from the cache iff the entry is for an equal key and unexpired; a call whose
   wrapped function fails leaves the entry exactly as it was. *)
Theorem C19_sicx_hit_iff_entry_of_last_call :
  forall (A K R : Type) (key : A -> K) (keqb : K -> K -> bool) (valid : option Z),
  (forall x y, keqb x y = true <-> x = y) ->
  forall (s : @sx_st A R) (a : A),
  (exists r, sx_lookup key keqb valid s a = Some r) <->
  (exists la lr lt, sx_entry s = Some (la, lr, lt) /\ key la = key a /\ fresh valid (sx_now s) lt = true).
Proof. intros A K R key keqb valid H. exact (sicx_hit_iff A K R key keqb valid H). Qed.
Print Assumptions C19_sicx_hit_iff_entry_of_last_call.

Theorem C19_sicx_failed_call_forgets_nothing :
  forall (A K R : Type) (key : A -> K) (keqb : K -> K -> bool) (f : A -> N -> R) (valid : option Z)
         (s : @sx_st A R) (a : A),
  sx_lookup key keqb valid s a = None ->
  sicx_ev key keqb f valid (XCall a XNil true) s =
  (mkSX (sx_entry s) (sx_now s) (sx_log s ++ [(a, sx_now s)]), [mkXO a (sx_now s) false None]).
Proof. exact sicx_failed_call_forgets_nothing. Qed.
Print Assumptions C19_sicx_failed_call_forgets_nothing.

(* lru_cache_with_expiry, every forest from an empty cache: at the end AND whenever a call at any depth completes
   (in particular while an outer call is still inside the wrapped function) the cache holds at most max_size
   entries, one per key; every value returned was produced by a logged invocation for the caller's own key,
   unexpired when served from the cache; the wrapped function is invoked exactly by the calls not served from the
   cache (failing ones included). *)
Theorem C19_lrx_size_and_returns :
  forall (A K R : Type) (key : A -> K) (keqb : K -> K -> bool) (f : A -> N -> R) (valid : option Z),
  (forall x y, keqb x y = true <-> x = y) ->
  forall (mx : nat) (t0 : Z) (h : @xevs A),
  let res := lrx_run key keqb f mx valid h (lx_init t0) in
  (length (lx_items (fst res)) <= mx /\ NoDup (map fst (lx_items (fst res)))) /\
  Forall (fun oi =>
            (forall r, xo_res (fst oi) = Some r ->
               exists n a' tc, nth_error (lx_log (fst res)) n = Some (a', tc) /\ r = f a' (N.of_nat n) /\
                 key a' = key (xo_arg (fst oi)) /\
                 if xo_hit (fst oi) then fresh valid (xo_now (fst oi)) tc = true
                 else a' = xo_arg (fst oi) /\ tc = xo_now (fst oi)) /\
            length (snd oi) <= mx /\ NoDup (map fst (snd oi))) (snd res) /\
  length (lx_log (fst res)) = length (filter (fun o => negb (xo_hit o)) (map fst (snd res))).
Proof. exact lrx_sound. Qed.
Print Assumptions C19_lrx_size_and_returns.

(* History-only order theorem for forests (holds since 962d1ca, F-C19-3: pop, then assign).  A call USES its key when it
   returns a value (served from the cache, or it stored what it computed; nested calls complete before the call whose
   invocation made them; a call that raised used nothing).  From an empty cache, every forest: the entries are strictly
   ordered by the position - in order of completion - of the last call that used their key, at the end and in the content
   recorded when any call at any depth completed; the trim drops the head, i.e. the least recently used key. *)
Theorem C19_lrx_ordered_by_last_use :
  forall (A K R : Type) (key : A -> K) (keqb : K -> K -> bool) (f : A -> N -> R) (valid : option Z),
  (forall x y, keqb x y = true <-> x = y) ->
  forall (mx : nat) (t0 : Z) (h : @xevs A),
  let res := lrx_run key keqb f mx valid h (lx_init t0) in
  StronglySorted (fun e1 e2 => xlast_use key keqb (fst e1) (map fst (snd res)) < xlast_use key keqb (fst e2) (map fst (snd res)))
                 (lx_items (fst res)) /\
  forall past o it rest, snd res = past ++ (o, it) :: rest ->
    StronglySorted (fun e1 e2 => xlast_use key keqb (fst e1) (map fst past ++ [o]) < xlast_use key keqb (fst e2) (map fst past ++ [o])) it.
Proof. exact lrx_sorted_by_last_use. Qed.
Print Assumptions C19_lrx_ordered_by_last_use.

(* any state: a call is served from the cache iff an unexpired entry for its key is held; then the wrapped function
   is not invoked (whatever it would do), the log does not grow and the entry moves to the most-recent end. *)
Theorem C19_lrx_hit_iff_unexpired_entry_held :
  forall (A K R : Type) (key : A -> K) (keqb : K -> K -> bool) (f : A -> N -> R) (valid : option Z),
  (forall x y, keqb x y = true <-> x = y) ->
  forall (mx : nat) (s : @lx_st A K R) (a : A),
  ((exists e, lx_lookup key keqb valid s a = Some e) <->
   (exists ts r, In (key a, (ts, r)) (lx_items s) /\ fresh valid (lx_now s) ts = true)) /\
  forall body raises e, lx_lookup key keqb valid s a = Some e ->
    lrx_ev key keqb f mx valid (XCall a body raises) s =
    (mkLX (lru_remove keqb (key a) (lru_live valid (lx_now s) (lx_items s)) ++ [e]) (lx_now s) (lx_log s),
     [(mkXO a (lx_now s) true (Some (snd (snd e))),
       lru_remove keqb (key a) (lru_live valid (lx_now s) (lx_items s)) ++ [e])]).
Proof.
  intros A K R key keqb f valid H mx s a. split; [exact (lrx_hit_iff A K R key keqb valid H s a)|].
  intros body raises e. exact (lrx_hit_step A K R key keqb f valid mx s a body raises e).
Qed.
Print Assumptions C19_lrx_hit_iff_unexpired_entry_held.

(* a call whose wrapped function fails: only the expiry sweep has happened - nothing added, nothing evicted. *)
Theorem C19_lrx_failed_call_forgets_nothing :
  forall (A K R : Type) (key : A -> K) (keqb : K -> K -> bool) (f : A -> N -> R) (valid : option Z) (mx : nat)
         (s : @lx_st A K R) (a : A),
  lx_lookup key keqb valid s a = None ->
  lrx_ev key keqb f mx valid (XCall a XNil true) s =
  (mkLX (lru_live valid (lx_now s) (lx_items s)) (lx_now s) (lx_log s ++ [(a, lx_now s)]),
   [(mkXO a (lx_now s) false None, lru_live valid (lx_now s) (lx_items s))]).
Proof. exact lrx_failed_call_forgets_nothing. Qed.
Print Assumptions C19_lrx_failed_call_forgets_nothing.

(* lru_cache_with_expiry under interleaving (the step model of C19_lru_interleaving_returns_own_fresh): any number
   of callers, any schedule, any clock advances - once every caller has returned or raised, the cache holds at most
   max_size entries.  (In between it may exceed max_size by one entry per caller that has stored and not yet
   trimmed: Proofs/C19_Reent.v, lru_interleaving_size.) *)
Theorem C19_lru_interleaving_size_within_max_at_rest :
  forall (A K R : Type) (key : A -> K) (keqb : K -> K -> bool) (f : A -> N -> R) (valid : option Z) (mx : nat)
         (t0 : Z) (args : list A) (sch : list sched),
  let st := lcrun key keqb f mx valid sch (mkLS [] 0 t0 0 [], map (fun a => mkLT a LTime) args) in
  (forall t, In t (snd st) -> exists now hit r, lt_pc t = LDone now hit r) ->
  length (ls_items (fst st)) <= mx.
Proof.
  intros A K R key keqb f valid mx t0 args sch. exact (proj2 (lru_interleaving_size A K R key keqb f valid mx t0 args sch)).
Qed.
Print Assumptions C19_lru_interleaving_size_within_max_at_rest.

(* ------------------------- round 5: several decorated functions ------------------------- *)
(* However the wrappers were made (bare decorator, decorator with options, one configured decorator object applied to
   several functions), each decorated function has its own cache: in a program with n decorated functions (state = the
   list of their caches, common clock, [MCall j a] = a call of function j) the cache of function j and everything function
   j returns are exactly what function j alone does on its own calls and the clock advances ([mproj j h]).  With the
   theorems above (which speak about one function) this gives: no call ever receives a value another decorated
   function produced, and function j is invoked exactly when ITS cache holds no unexpired entry. *)
Theorem C19_sic_decorated_functions_are_independent :
  forall (A K R : Type) (key : A -> K) (keqb : K -> K -> bool) (f : nat -> A -> N -> R) (valid : option Z)
         (t0 : Z) (n : nat) (h : list (@mev A)) (j : nat), j < n ->
  let res := multi_run (msic_call key keqb f valid) sic_tick (repeat (sic_init t0) n) h in
  nth_error (fst res) j = Some (fst (sic_run key keqb (f j) valid (sic_init t0) (mproj j h))) /\
  outs_of j (snd res) = snd (sic_run key keqb (f j) valid (sic_init t0) (mproj j h)).
Proof. exact sic_functions_independent. Qed.
Print Assumptions C19_sic_decorated_functions_are_independent.

Theorem C19_lru_decorated_functions_are_independent :
  forall (A K R : Type) (key : A -> K) (keqb : K -> K -> bool) (f : nat -> A -> N -> R) (valid : option Z) (mx : nat)
         (t0 : Z) (n : nat) (h : list (@mev A)) (j : nat), j < n ->
  let res := multi_run (mlru_call key keqb f mx valid) lru_tick (repeat (lru_init t0) n) h in
  nth_error (fst res) j = Some (fst (lru_run key keqb (f j) mx valid (lru_init t0) (mproj j h))) /\
  outs_of j (snd res) = snd (lru_run key keqb (f j) mx valid (lru_init t0) (mproj j h)).
Proof. intros A K R key keqb f valid mx. exact (lru_functions_independent A K R key keqb f valid mx). Qed.
Print Assumptions C19_lru_decorated_functions_are_independent.

(* ------------------------- round 6: DataFrame.column_names / columncount as a session over objects ------------------------- *)
(* Model/C19.v, df_run: schema objects are created, frames are built ON a schema object, both properties are looked up on
   frames in any order; each property is one single-item cache shared by all frames and keyed by the frame.  As long as no
   schema object is changed in place the caches are unobservable: every lookup answers what the frame's own schema object
   spells (df_spec has no cache) - whichever frame was asked before, also for frames sharing a schema object and for frames
   whose schemas compare equal.  (With in-place changes the model serves the value held for the SAME frame, like any
   memoised function that reads mutable state; the correspondence compares those sessions too.) *)
Theorem C19_df_lookups_answer_the_frames_own_schema :
  forall ops : list dfop,
  existsb df_inplace ops = false -> snd (df_run df_init ops) = snd (df_spec df_init ops).
Proof. exact df_cache_unobservable. Qed.
Print Assumptions C19_df_lookups_answer_the_frames_own_schema.

(* ------------------------- non-vacuity ------------------------- *)
Definition ex_a : carg := ([1%Z], []).
Definition ex_b : carg := ([0%Z], []).
Definition ex_c : carg := ([], [(0%N, 1%Z)]).
Definition ex_k2 : carg := ([], [(1%N, 0%Z); (0%N, 1%Z)]).
Definition ex_k2' : carg := ([], [(0%N, 1%Z); (1%N, 0%Z)]).

(* key equality decides Leibniz equality of keys in the concrete instance on these values, and
   keyword order does not matter *)
Example ex_key_order : ckeqb (ckey_of ex_k2) (ckey_of ex_k2') = true /\ ckeqb (ckey_of ex_a) (ckey_of ex_c) = false.
Proof. split; reflexivity. Qed.

(* a history with hits, an expiry and a miss on other arguments *)
Example ex_sic_history :
  map (fun o => (o_hit o, snd (o_res o)))
      (snd (sic_run ckey_of ckeqb cf (Some 2%Z) (sic_init 1000)
              [Call ex_a; Call ex_a; Tick 2; Call ex_a; Tick 1; Call ex_a; Call ex_b; Call ex_a]))
  = [(false, 0); (true, 0); (true, 0); (false, 1); (false, 2); (false, 3)]%N.
Proof. reflexivity. Qed.

(* an LRU history in which the least recently used key is evicted, a key is moved to the end by a
   hit, and an entry expires *)
Example ex_lru_history :
  map (fun x => (o_hit (fst x), map (fun e => fst (fst e)) (snd x)))
      (snd (lru_run ckey_of ckeqb cf 2 (Some 10%Z) (lru_init 1000)
              [Call ex_b; Tick 1; Call ex_a; Call ex_b; Call ex_c; Tick 11; Call ex_a]))
  = [(false, [[0%Z]]); (false, [[0%Z]; [1%Z]]); (true, [[1%Z]; [0%Z]]); (false, [[0%Z]; []]); (false, [[1%Z]])].
Proof. reflexivity. Qed.

(* the premises of the eviction theorem are satisfiable: full cache, miss *)
Example ex_lru_eviction_premises :
  let s := fst (lru_run ckey_of ckeqb cf 2 (Some 10%Z) (lru_init 1000) [Call ex_b; Tick 1; Call ex_a; Call ex_b]) in
  o_hit (snd (lru_call ckey_of ckeqb cf 2 (Some 10%Z) s ex_c)) = false /\
  length (lru_live (Some 10%Z) (l_now s) (l_items s)) = 2.
Proof. split; reflexivity. Qed.

(* the premises of the recently-used theorem are satisfiable with max_size 2: key b was used, then
   one other key; b's invocation is unexpired and only one distinct key was used since *)
Example ex_lru_recent_premises :
  let r := lru_run ckey_of ckeqb cf 2 (Some 10%Z) (lru_init 1000) [Call ex_b; Tick 1; Call ex_a; Tick 9] in
  exists p, last_miss_for ckey_of ckeqb (ckey_of ex_b) (rev (map fst (snd r))) = Some p /\
            fresh (Some 10%Z) (l_now (fst r)) (o_now p) = true /\
            last_use ckey_of ckeqb (ckey_of ex_b) (map fst (snd r)) = 1 /\
            last_use ckey_of ckeqb (ckey_of ex_a) (map fst (snd r)) = 2 /\
            o_hit (snd (lru_call ckey_of ckeqb cf 2 (Some 10%Z) (fst r) ex_b)) = true.
Proof. eexists. repeat split; reflexivity. Qed.

(* an interleaving in which one caller is served from the cache entry the other has just written,
   and one in which both compute *)
Example ex_interleaving :
  map returned (c_thr (crun ckey_of ckeqb cf None
        [SStep 0; SStep 0; SStep 0; SStep 0; SStep 0; SStep 1; SStep 1; SStep 1; SStep 1; SStep 1; SStep 0; SStep 0]
        (mkC (sic_init 1000) [mkT ex_a PTime; mkT ex_a PTime] [])))
  = [Some (ex_a, 0%N); Some (ex_a, 0%N)] /\
  map returned (c_thr (crun ckey_of ckeqb cf None
        [SStep 0; SStep 0; SStep 1; SStep 1; SStep 0; SStep 1; SStep 0; SStep 1; SStep 0; SStep 1; SStep 0; SStep 1; SStep 0; SStep 1]
        (mkC (sic_init 1000) [mkT ex_a PTime; mkT ex_a PTime] [])))
  = [Some (ex_a, 0%N); Some (ex_a, 1%N)].
Proof. split; reflexivity. Qed.

(* LRU interleaving: a schedule in which a call raises (the sweep's iterator is invalidated by the
   other caller's insertion) and the other returns its own value *)
Example ex_lru_interleaving_raise :
  map (fun t => lt_pc t) (snd (lcrun ckey_of ckeqb cf 2 None
        (repeat (SStep 0) 3 ++ repeat (SStep 1) 12 ++ repeat (SStep 0) 3)
        (mkLS [] 0 1000 0 [], [mkLT ex_a LTime; mkLT ex_b LTime])))
  = [LDone 1000 false None; LDone 1000 false (Some (ex_b, 0%N))].
Proof. reflexivity. Qed.

(* the schedule of F-C19-2 on the current step list: caller 1 reads the stale entry caller 0 has just
   stored, sees its age and recomputes; and a schedule where caller 1 is served from the cache *)
Example ex_lru_interleaving_stale_entry_recomputed :
  map (fun t => lt_pc t) (snd (lcrun ckey_of ckeqb cf 2 (Some 5%Z)
        (repeat (SStep 0) 8 ++ [STick 6] ++ repeat (SStep 1) 5 ++ [SStep 0; SStep 0] ++ repeat (SStep 1) 7 ++ repeat (SStep 0) 3)
        lru3_init))
  = [LDone 1000 false (Some (([1%Z], []), 0%N)); LDone 1006 false (Some (([1%Z], []), 1%N))] /\
  map (fun t => lt_pc t) (snd (lcrun ckey_of ckeqb cf 2 (Some 5%Z)
        (repeat (SStep 0) 8 ++ [STick 5] ++ repeat (SStep 1) 5 ++ [SStep 0; SStep 0] ++ repeat (SStep 1) 7 ++ repeat (SStep 0) 3)
        lru3_init))
  = [LDone 1000 false (Some (([1%Z], []), 0%N)); LDone 1005 true (Some (([1%Z], []), 0%N))].
Proof. split; reflexivity. Qed.

(* round 3.  max_size 2: calls b, a; then c, whose wrapped function fails - b and a are still held and served;
   and c whose wrapped function asks for k2 through the wrapper - afterwards k2 and c are held (in that order) *)
Example ex_forest_failed_call_forgets_nothing :
  map (fun x => (xo_hit (fst x), map (fun e => fst e) (snd x)))
      (snd (lrx_run ckey_of ckeqb cf 2 None
              (xl [XCall ex_b XNil false; XCall ex_a XNil false; XCall ex_c XNil true; XCall ex_b XNil false; XCall ex_a XNil false])
              (lx_init 1000)))
  = [(false, [ckey_of ex_b]); (false, [ckey_of ex_b; ckey_of ex_a]); (false, [ckey_of ex_b; ckey_of ex_a]);
     (true, [ckey_of ex_a; ckey_of ex_b]); (true, [ckey_of ex_b; ckey_of ex_a])].
Proof. reflexivity. Qed.

Example ex_forest_recursive_memoisation :
  map (fun x => (xo_arg (fst x), xo_hit (fst x), map (fun e => fst e) (snd x)))
      (snd (lrx_run ckey_of ckeqb cf 2 None
              (xl [XCall ex_b XNil false; XCall ex_a XNil false; XCall ex_c (xl [XCall ex_k2 XNil false]) false; XCall ex_a XNil false])
              (lx_init 1000)))
  = [(ex_b, false, [ckey_of ex_b]); (ex_a, false, [ckey_of ex_b; ckey_of ex_a]);
     (ex_k2, false, [ckey_of ex_a; ckey_of ex_k2]); (ex_c, false, [ckey_of ex_k2; ckey_of ex_c]);
     (ex_a, false, [ckey_of ex_c; ckey_of ex_a])].
Proof. reflexivity. Qed.

(* the premise of the at-rest theorem is satisfiable: two callers missing on a full cache (max_size 1), interleaved so that both have stored before either trims - two entries in between, one at rest *)
Example ex_lru_interleaving_over_capacity_in_between :
  let run n := lcrun ckey_of ckeqb cf 1 None (repeat (SStep 0) 10 ++ repeat (SStep 1) 11 ++ repeat (SStep 0) n ++ repeat (SStep 1) n)
                 (mkLS [] 0 1000 0 [], [mkLT ex_a LTime; mkLT ex_b LTime]) in
  length (ls_items (fst (run 0))) = 2 /\ length (ls_items (fst (run 3))) = 1 /\
  forallb (fun t => match lt_pc t with LDone _ _ _ => true | _ => false end) (snd (run 3)) = true.
Proof. vm_compute. repeat split. Qed.

(* F-C19-3 (fixed by 962d1ca): the wrapped function of c re-enters for c and then uses b; the outer c then stores - it is
   the most recently used key (last), where the assignment without the pop left it first *)
Example ex_forest_same_key_reentry_is_most_recent :
  map (fun e => fst e)
      (lx_items (fst (lrx_run ckey_of ckeqb cf 2 (Some 2%Z)
              (xl [XCall ex_c (xl [XCall ex_c XNil false; XCall ex_b XNil false]) false]) (lx_init 1000))))
  = [ckey_of ex_b; ckey_of ex_c].
Proof. reflexivity. Qed.

(* round 5: two decorated functions called with equal arguments: each computes its own value and is then served from
   its own cache *)
Example ex_two_decorated_functions :
  map (fun x => (fst x, o_hit (snd x), snd (o_res (snd x))))
      (snd (multi_run (msic_call ckey_of ckeqb mcf None) sic_tick (repeat (sic_init 1000) 2)
              [MCall 0 ex_a; MCall 1 ex_a; MCall 0 ex_a; MCall 1 ex_a; MCall 1 ex_b; MCall 0 ex_a]))
  = [(0, false, 0%N); (1, false, 0%N); (0, true, 0%N); (1, true, 0%N); (1, false, 1%N); (0, true, 0%N)].
Proof. reflexivity. Qed.

(* round 6: two frames on one header list that is extended in between; and ==-equal schemas spelling different names *)
Example ex_df_session :
  snd (df_run df_init [DSchema [0; 1]%Z; DFrame 0; DNames 0; DApp 0 10%Z; DFrame 0; DNames 1; DCount 1; DNames 0; DNames 0;
                       DSchema [3; 8]%Z; DFrame 1; DSchema [4; 9]%Z; DFrame 2; DNames 2; DNames 3])
  = [ONames [0; 1]%Z; ONames [0; 1; 10]%Z; OCount 3; ONames [0; 1; 10]%Z; ONames [0; 1; 10]%Z; ONames [3; 8]%Z; ONames [4; 9]%Z].
Proof. reflexivity. Qed.
