(* C03 - DataFrame operators agree with a list-of-tuples model.
   Property theorems only; each is closed by [exact] of a lemma from Proofs/C03.v and followed
   by Print Assumptions.  V is the value type of cells (veqb its ==), Nm the type of column
   names, a frame is a schema plus a backing (Eager = list, Lazy = generator).  [rows_of b] is
   the ordered list of rows a backing holds / has yet to yield. *)
From Coq Require Import List ZArith Bool.
From Orso Require Import Base.PySlice Model.C03 Proofs.C03 Model.C03_Heap Proofs.C03_Heap.
Import ListNotations.

(* ---------------- windows ---------------- *)
(* slice(offset, length): for every frame (eager or generator-backed), every offset (negative
   ones count from the end and stop at the first row) and every length >= 0 or omitted, the
   result is that contiguous window; the source is materialised with its rows intact. *)
Theorem C03_slice :
  forall (V Nm : Type) (sc : schema Nm) (b : backing V) (off : Z) (len : option Z),
  match len with Some k => (0 <= k)%Z | None => True end ->
  code_slice V Nm off len (mkF sc b) =
  (mkF sc (Eager (rows_of V b)), mkR sc (RList (spec_slice V off len (rows_of V b)))).
Proof. exact code_slice_spec. Qed.
Print Assumptions C03_slice.

Theorem C03_head :
  forall (V Nm : Type) (sc : schema Nm) (b : backing V) (k : Z), (0 <= k)%Z ->
  code_head V Nm k (mkF sc b) =
  (mkF sc (Eager (rows_of V b)), mkR sc (RList (firstn (Z.to_nat k) (rows_of V b)))).
Proof. exact code_head_spec. Qed.
Print Assumptions C03_head.

(* tail(k) = the rows after the first n - min(k, n) ... *)
Theorem C03_tail :
  forall (V Nm : Type) (sc : schema Nm) (b : backing V) (k : Z), (0 <= k)%Z ->
  code_tail V Nm k (mkF sc b) =
  (mkF sc (Eager (rows_of V b)),
   mkR sc (RList (skipn (length (rows_of V b) - Nat.min (Z.to_nat k) (length (rows_of V b))) (rows_of V b)))).
Proof. exact code_tail_spec. Qed.
Print Assumptions C03_tail.

(* ... i.e. the last min(k, n) rows, also when k exceeds the row count (F-C03-1) *)
Theorem C03_tail_is_last_min :
  forall (V : Type) (k : Z) (l : list (list V)), (0 <= k)%Z ->
  length (spec_tail V k l) = Nat.min (Z.to_nat k) (length l) /\
  exists pre, l = pre ++ spec_tail V k l.
Proof. exact spec_tail_last. Qed.
Print Assumptions C03_tail_is_last_min.

(* ---------------- row selections ---------------- *)
(* query keeps exactly the rows satisfying the predicate, in order (any predicate) *)
Theorem C03_query :
  forall (V Nm : Type) (sc : schema Nm) (b : backing V) (p : list V -> bool),
  code_query V Nm p (mkF sc b) =
  (mkF sc (fst (drain V b)), mkR sc (RList (filter p (rows_of V b)))).
Proof. exact code_query_spec. Qed.
Print Assumptions C03_query.

(* filter(mask), result listed: the rows paired with a true mask entry, in order - mask
   shorter or longer than the frame included.  A materialised source is untouched; a
   generator-backed one keeps what zip() had not yet taken. *)
Theorem C03_filter :
  forall (V : Type) (dflt : V) (Nm : Type) (sc rs : schema Nm) (b : backing V) (mask : list bool),
  finish V dflt Nm (mkF sc b) (RFrame (mkR rs (RFilter mask))) =
  (mkF sc (Eager (if is_lazy V b then skipn (S (length mask)) (rows_of V b) else rows_of V b)),
   [mkF rs (Eager (map fst (filter snd (combine (rows_of V b) mask))))],
   mkObs (OFrame (names rs, map fst (filter snd (combine (rows_of V b) mask))))
         [(names sc, if is_lazy V b then skipn (S (length mask)) (rows_of V b) else rows_of V b)]).
Proof. exact finish_rfilter. Qed.
Print Assumptions C03_filter.

(* take(indexes), result listed: the rows whose position is one of the indexes, in original
   order - duplicate, negative and out-of-range indexes included *)
Theorem C03_take :
  forall (V : Type) (dflt : V) (Nm : Type) (sc rs : schema Nm) (b : backing V) (idx : list Z),
  finish V dflt Nm (mkF sc b) (RFrame (mkR rs (RTake idx))) =
  (mkF sc (Eager (left_rows V b)),
   [mkF rs (Eager (map snd (filter (fun ir => zmem (fst ir) idx) (positions V 0%Z (rows_of V b)))))],
   mkObs (OFrame (names rs, map snd (filter (fun ir => zmem (fst ir) idx) (positions V 0%Z (rows_of V b)))))
         [(names sc, left_rows V b)]).
Proof. exact finish_rtake. Qed.
Print Assumptions C03_take.

(* ---------------- select ---------------- *)
(* select(attrs): the source is not touched; ValueError iff some requested name is not a
   column; otherwise a names-only schema with exactly the requested names, whose generator
   gathers, for each requested name in the requested order, that column's position (F-C03-2) *)
Theorem C03_select :
  forall (V Nm : Type) (nmeqb : Nm -> Nm -> bool) (sc : schema Nm) (b : backing V) (attrs : list Nm),
  code_select V Nm nmeqb attrs (mkF sc b) =
  (mkF sc b,
   match all_some (map (fun a => index_of Nm nmeqb a (names sc)) attrs) with
   | Some ps => Ok (mkR (mkS Untyped attrs) (RSelect ps))
   | None => Raise ValueError
   end).
Proof. exact code_select_spec. Qed.
Print Assumptions C03_select.

Theorem C03_select_listed :
  forall (V : Type) (dflt : V) (Nm : Type) (sc rs : schema Nm) (b : backing V) (ps : list nat),
  finish V dflt Nm (mkF sc b) (RFrame (mkR rs (RSelect ps))) =
  (mkF sc (Eager (left_rows V b)),
   [mkF rs (Eager (map (fun t => map (pick V dflt t) ps) (rows_of V b)))],
   mkObs (OFrame (names rs, map (fun t => map (pick V dflt t) ps) (rows_of V b)))
         [(names sc, left_rows V b)]).
Proof. exact finish_rselect. Qed.
Print Assumptions C03_select_listed.

(* ---------------- distinct ---------------- *)
(* Since round 5 the hypothesis on == (veqb) is only that it is an equivalence ([veq_equiv]: reflexive,
   symmetric, transitive) - NOT that equal values are identical: 1 == 1.0 == True in Python.  All
   equations below are equalities of the rows THEMSELVES, so "keeps the first of each set of equal
   rows" means the first member itself survives, not merely a row equal to it. *)
Theorem C03_distinct :
  forall (V : Type) (veqb : V -> V -> bool) (Nm : Type),
  veq_equiv V veqb ->
  forall (sc : schema Nm) (b : backing V),
  code_distinct V veqb Nm (mkF sc b) =
  (mkF sc (fst (drain V b)), mkR sc (RList (spec_distinct V veqb (rows_of V b)))).
Proof. exact code_distinct_spec. Qed.
Print Assumptions C03_distinct.

(* the seen-set loop is right for every set key that identifies rows faithfully (the rows
   themselves do; their hashes do not - F-C03-3, see the example at the end) *)
Theorem C03_distinct_faithful_key :
  forall (V : Type) (veqb : V -> V -> bool),
  veq_equiv V veqb ->
  forall (K : Type) (key : list V -> K) (keqb : K -> K -> bool),
  (forall a b : list V, keqb (key a) (key b) = row_eqb V veqb a b) ->
  forall l : list (list V), distinct_loop V K key keqb [] l = spec_distinct V veqb l.
Proof. exact distinct_by_spec. Qed.
Print Assumptions C03_distinct_faithful_key.

(* the specification itself: same rows as the input, none twice (and by its definition the
   survivor of each class is the first one, the order is the input's) *)
Theorem C03_distinct_same_rows :
  forall (V : Type) (veqb : V -> V -> bool),
  veq_equiv V veqb -> (forall a b : V, veqb a b = true -> a = b) ->
  forall (l : list (list V)) (x : list V), In x (spec_distinct V veqb l) <-> In x l.
Proof. exact spec_distinct_In. Qed.
Print Assumptions C03_distinct_same_rows.

(* the general reading (== any equivalence): every survivor is a row of the input; every row of the
   input is equal to a survivor; no two survivors are equal; and a row survives iff no EARLIER row
   of the input is equal to it (spec_firsts) - the survivor is the first member of its class itself *)
Theorem C03_distinct_survivors_are_rows :
  forall (V : Type) (veqb : V -> V -> bool) (l : list (list V)) (x : list V),
  In x (spec_distinct V veqb l) -> In x l.
Proof. exact spec_distinct_sub. Qed.
Print Assumptions C03_distinct_survivors_are_rows.

Theorem C03_distinct_represents_every_row :
  forall (V : Type) (veqb : V -> V -> bool), veq_equiv V veqb ->
  forall (l : list (list V)) (x : list V),
  In x l -> exists y, In y (spec_distinct V veqb l) /\ row_eqb V veqb y x = true.
Proof. exact spec_distinct_represents. Qed.
Print Assumptions C03_distinct_represents_every_row.

Theorem C03_distinct_no_two_equal :
  forall (V : Type) (veqb : V -> V -> bool) (l : list (list V)),
  ForallOrdPairs (fun a b => row_eqb V veqb a b = false) (spec_distinct V veqb l).
Proof. exact spec_distinct_pairwise. Qed.
Print Assumptions C03_distinct_no_two_equal.

Theorem C03_distinct_keeps_the_first_of_each_class :
  forall (V : Type) (veqb : V -> V -> bool), veq_equiv V veqb ->
  forall l : list (list V), spec_distinct V veqb l = spec_firsts V veqb [] l.
Proof. exact spec_distinct_firsts. Qed.
Print Assumptions C03_distinct_keeps_the_first_of_each_class.

Theorem C03_distinct_no_duplicates :
  forall (V : Type) (veqb : V -> V -> bool),
  veq_equiv V veqb ->
  forall l : list (list V), NoDup (spec_distinct V veqb l).
Proof. exact spec_distinct_NoDup. Qed.
Print Assumptions C03_distinct_no_duplicates.

(* ---------------- + ---------------- *)
(* both operands materialised (F-C03-5), rows concatenated, left schema kept; ValueError (and
   nothing touched) when the schemas differ *)
Theorem C03_add :
  forall (V Nm : Type) (nmeqb : Nm -> Nm -> bool) (sa sb : schema Nm) (ba bb : backing V),
  code_add V Nm nmeqb (mkF sa ba) (mkF sb bb) =
  if schema_eqb Nm nmeqb sa sb
  then (mkF sa (Eager (rows_of V ba)), mkF sb (Eager (rows_of V bb)),
        Ok (mkR sa (RList (rows_of V ba ++ rows_of V bb))))
  else (mkF sa ba, mkF sb bb, Raise ValueError).
Proof. exact code_add_spec. Qed.
Print Assumptions C03_add.

(* ---------------- to_batches ---------------- *)
Theorem C03_batches :
  forall (V Nm : Type) (sc : schema Nm) (b : backing V) (k : Z), (1 <= k)%Z ->
  code_batches V Nm k (mkF sc b) =
  (mkF sc (Eager (rows_of V b)),
   Ok (map (fun c => mkF sc (Eager c)) (spec_batches V k (rows_of V b)))).
Proof. exact code_batches_spec. Qed.
Print Assumptions C03_batches.

(* the batches, concatenated, are the rows; all but the last have k rows, the last 1..k *)
Theorem C03_batches_partition :
  forall (V : Type) (k : Z) (l : list (list V)), (1 <= k)%Z ->
  concat (spec_batches V k l) = l /\ full_then_rest V (Z.to_nat k) (spec_batches V k l).
Proof. exact spec_batches_partition. Qed.
Print Assumptions C03_batches_partition.

(* ---------------- collect / indexing ---------------- *)
(* for existing columns (names, or indexes below the row width) and any limit (omitted or
   negative = all rows): the column-major transpose of the first [limit] rows *)
Theorem C03_collect :
  forall (V : Type) (dflt : V) (Nm : Type) (nmeqb : Nm -> Nm -> bool)
         (sc : schema Nm) (b : backing V) (cols : list (colref Nm)) (limit : option Z) (ps : list nat),
  cols_pos Nm nmeqb (names sc) cols = Some ps ->
  cols_in_row V ps (rows_of V b) ->
  code_collect V dflt Nm nmeqb cols limit (mkF sc b) =
  (mkF sc (Eager (rows_of V b)),
   Ok (map (fun p => map (fun r => pick V dflt r p) (limit_rows V limit (rows_of V b))) ps)).
Proof. exact code_collect_spec. Qed.
Print Assumptions C03_collect.

Theorem C03_row :
  forall (V Nm : Type) (sc : schema Nm) (b : backing V) (i : Z),
  code_row V Nm i (mkF sc b) =
  (mkF sc (Eager (rows_of V b)),
   match py_index i (rows_of V b) with Some r => Ok r | None => Raise IndexError end).
Proof. exact code_row_spec. Qed.
Print Assumptions C03_row.

(* ---------------- listing and iterating ---------------- *)
(* list(df) - iter, length hint (materialises), drain - yields every row once, in order, for a
   list-backed frame and for the first listing of a generator-backed one (F-C03-4) ... *)
Theorem C03_list_yields_rows :
  forall (V Nm : Type) (sc : schema Nm) (b : backing V),
  py_list V Nm (mkF sc b) = (mkF sc (Eager (rows_of V b)), rows_of V b).
Proof. exact py_list_spec. Qed.
Print Assumptions C03_list_yields_rows.

(* ... after which the frame is eager and every further listing yields the same rows *)
Theorem C03_list_again :
  forall (V Nm : Type) (sc : schema Nm) (b : backing V),
  let '(f1, rows1) := py_list V Nm (mkF sc b) in
  let '(f2, rows2) := py_list V Nm f1 in
  rows1 = rows_of V b /\ rows2 = rows_of V b /\ f2 = f1 /\ f1 = mkF sc (Eager (rows_of V b)).
Proof. exact py_list_twice. Qed.
Print Assumptions C03_list_again.

(* plain iteration: every row once, in order; an eager frame is unchanged, a generator is spent *)
Theorem C03_iterate :
  forall (V Nm : Type) (sc : schema Nm) (b : backing V),
  py_iterate V Nm (mkF sc b) = (mkF sc (if is_lazy V b then Lazy [] else b), rows_of V b).
Proof. exact py_iterate_spec. Qed.
Print Assumptions C03_iterate.

(* ---------------- every operator, applied, listed, source listed ---------------- *)
(* For every single-source operator with arguments in the property's range (op_ok: sizes
   >= 0, batch size >= 1, collected columns exist) and a source in either backing: the listed
   result(s) are the plain-list specification's, and the source lists as its own rows when it
   was materialised (as spec_left says when it was a generator). *)
Theorem C03_operator_step :
  forall (V : Type) (veqb : V -> V -> bool) (dflt : V) (Nm : Type) (nmeqb : Nm -> Nm -> bool),
  veq_equiv V veqb ->
  forall (sc : schema Nm) (b : backing V) (o : op V Nm),
  not_add V Nm o ->
  op_ok V Nm nmeqb o (mkSF sc (rows_of V b)) = true ->
  let f := mkSF sc (rows_of V b) in
  let left := if is_lazy V b then spec_left V dflt Nm nmeqb o f else rows_of V b in
  finish V dflt Nm (fst (apply_op V veqb dflt Nm nmeqb o (mkF sc b)))
                   (snd (apply_op V veqb dflt Nm nmeqb o (mkF sc b))) =
  (mkF sc (Eager left),
   map (eager_of V Nm) (snd (sout_obs V Nm (spec_apply V veqb dflt Nm nmeqb o f))),
   mkObs (fst (sout_obs V Nm (spec_apply V veqb dflt Nm nmeqb o f))) [(names sc, left)]).
Proof. exact apply_finish_spec. Qed.
Print Assumptions C03_operator_step.

(* ---------------- compositions ---------------- *)
(* Any program - each step one operator (including +) applied to an earlier frame, used as
   it is or re-wrapped as a generator-backed frame - run on the code model yields, step by
   step, the observations (result listing and source listing) and the environment of the
   plain-list run. *)
Theorem C03_programs :
  forall (V : Type) (veqb : V -> V -> bool) (dflt : V) (Nm : Type) (nmeqb : Nm -> Nm -> bool),
  veq_equiv V veqb ->
  forall (prog : list (stepd V Nm)) (env : list (sframe V Nm)),
  prog_ok V veqb dflt Nm nmeqb env prog = true ->
  run_code V veqb dflt Nm nmeqb (map (eager_of V Nm) env) prog =
  (map (eager_of V Nm) (fst (run_spec V veqb dflt Nm nmeqb env prog)),
   snd (run_spec V veqb dflt Nm nmeqb env prog)).
Proof. exact run_code_spec. Qed.
Print Assumptions C03_programs.

(* ---------------- a materialised source is never altered ---------------- *)
(* for EVERY operator and EVERY argument (in range or not, raising or not): after the call,
   and after its result has been listed, an eager source is the same frame and lists the same *)
Theorem C03_eager_source_unchanged :
  forall (V : Type) (veqb : V -> V -> bool) (dflt : V) (Nm : Type) (nmeqb : Nm -> Nm -> bool)
         (sc : schema Nm) (l : list (list V)) (o : op V Nm),
  let '(a1, r) := apply_op V veqb dflt Nm nmeqb o (mkF sc (Eager l)) in
  a1 = mkF sc (Eager l) /\
  fst (fst (finish V dflt Nm a1 r)) = mkF sc (Eager l) /\
  o_srcs (snd (finish V dflt Nm a1 r)) = [(names sc, l)].
Proof. exact eager_source_unchanged. Qed.
Print Assumptions C03_eager_source_unchanged.

Theorem C03_add_eager_sources_unchanged :
  forall (V Nm : Type) (nmeqb : Nm -> Nm -> bool) (sa sb : schema Nm) (la lb : list (list V)),
  fst (code_add V Nm nmeqb (mkF sa (Eager la)) (mkF sb (Eager lb))) =
  (mkF sa (Eager la), mkF sb (Eager lb)).
Proof. exact code_add_eager_src. Qed.
Print Assumptions C03_add_eager_sources_unchanged.

(* whatever a program does, the frames it started from (and every frame it produced) are
   still there unchanged at the end *)
Theorem C03_programs_keep_frames :
  forall (V : Type) (veqb : V -> V -> bool) (dflt : V) (Nm : Type) (nmeqb : Nm -> Nm -> bool),
  veq_equiv V veqb ->
  forall (prog : list (stepd V Nm)) (env : list (sframe V Nm)),
  prog_ok V veqb dflt Nm nmeqb env prog = true ->
  exists news, fst (run_code V veqb dflt Nm nmeqb (map (eager_of V Nm) env) prog) =
               map (eager_of V Nm) env ++ news.
Proof. exact run_code_sources_kept. Qed.
Print Assumptions C03_programs_keep_frames.

(* ---------------- non-vacuity ---------------- *)
(* a 6-step program (select reordered on a generator-backed copy, distinct, tail beyond the
   row count, batches, +, collect) satisfies prog_ok and produces non-empty results *)
Example C03_nonvacuous :
  let env := [mkSF (mkS (Typed 0) [0%N; 1%N; 2%N])
                [[1; 2; 3]; [1; 2; 3]; [-1; 0; 2]; [-2; 0; 2]; [3; 3; 3]]%Z] in
  let prog : list zstep :=
    [mkStep 0 true (Select [2%N; 0%N]); mkStep 1 false Distinct; mkStep 2 true (Tail 9%Z);
     mkStep 3 false (Batches 2%Z); mkStep 5 false (AddF 4 true);
     mkStep 6 true (Collect [CName 0%N; CIdx 0%Z] (Some 2%Z))] in
  prog_ok Z Z.eqb 0%Z N N.eqb env prog = true /\
  map (o_out (V:=Z) (Nm:=N)) (snd (run_spec Z Z.eqb 0%Z N N.eqb env prog)) =
  [OFrame ([2%N; 0%N], [[3; 1]; [3; 1]; [2; -1]; [2; -2]; [3; 3]]%Z);
   OFrame ([2%N; 0%N], [[3; 1]; [2; -1]; [2; -2]; [3; 3]]%Z);
   OFrame ([2%N; 0%N], [[3; 1]; [2; -1]; [2; -2]; [3; 3]]%Z);
   OFrames [([2%N; 0%N], [[3; 1]; [2; -1]]%Z); ([2%N; 0%N], [[2; -2]; [3; 3]]%Z)];
   OFrame ([2%N; 0%N], [[2; -2]; [3; 3]; [3; 1]; [2; -1]]%Z);
   OCols [[-2; 3]; [2; 3]]%Z].
Proof. split; vm_compute; reflexivity. Qed.

(* the hypothesis on == is satisfiable: by identity on Z (rounds 1-4) and by Python's == on the
   coded values of the correspondence (4n + t: n as int / float / bool), which is NOT identity *)
Example C03_veqb_Z : veq_equiv Z Z.eqb.
Proof.
  repeat split; intros.
  - apply Z.eqb_refl.
  - apply Z.eqb_sym.
  - apply Z.eqb_eq in H, H0. subst. apply Z.eqb_refl.
Qed.

Example C03_veqb_python : veq_equiv Z zveq /\ zveq 4 5 = true /\ zveq 5 6 = true /\ Z.eqb 4 5 = false.
Proof.
  repeat split; try reflexivity; unfold zveq; intros.
  - apply Z.eqb_refl.
  - apply Z.eqb_sym.
  - apply Z.eqb_eq in H, H0. rewrite H, H0. apply Z.eqb_refl.
Qed.

(* (1,) (2.0,) (1.0,) (True,) (2,) : distinct keeps (1,) and (2.0,) - the first of each class
   itself (codes: 1 -> 4, 1.0 -> 5, True -> 6, 2 -> 8, 2.0 -> 9) *)
Example C03_distinct_equal_but_distinguishable :
  snd (code_distinct Z zveq N (mkF (mkS Untyped [0%N]) (Eager [[4]; [9]; [5]; [6]; [8]]%Z)))
  = mkR (mkS Untyped [0%N]) (RList [[4]; [9]]%Z).
Proof. vm_compute. reflexivity. Qed.

(* the rows themselves are a faithful set key *)
Example C03_identity_key_faithful :
  forall a b : list Z, row_eqb Z Z.eqb ((fun r => r) a) ((fun r => r) b) = row_eqb Z Z.eqb a b.
Proof. reflexivity. Qed.

(* ---------------- the code as it was before the repairs is refuted ---------------- *)
(* F-C03-1: without the clamp, tail(5) of 3 rows is the last row only *)
Example C03_pinned_tail_refuted :
  exists (k : Z) (l : list (list Z)), (0 <= k)%Z /\ pinned_tail Z k l <> spec_tail Z k l.
Proof. exists 5%Z, [[0]; [1]; [2]]%Z. split; [discriminate|]. vm_compute. discriminate. Qed.

(* F-C03-3: a set keyed by a hash with hash(-1) = hash(-2) drops (-2,) after (-1,) *)
Example C03_hash_keyed_distinct_refuted :
  let pyhash (r : list Z) := map (fun v => if Z.eqb v (-1) then (-2)%Z else v) r in
  distinct_loop Z (list Z) pyhash (row_eqb Z Z.eqb) [] [[-1]; [-2]]%Z
  <> spec_distinct Z Z.eqb [[-1]; [-2]]%Z.
Proof. vm_compute. discriminate. Qed.

(* round-5 seeded change: a dict comprehension {row: row ...}.values() keeps the first key's POSITION
   but the last equal row's VALUE: (True,) and (2,) survive instead of (1,) and (2.0,) *)
Example C03_dict_distinct_refuted :
  dict_distinct Z zveq [[4]; [9]; [5]; [6]; [8]]%Z = [[6]; [8]]%Z /\
  dict_distinct Z zveq [[4]; [9]; [5]; [6]; [8]]%Z <> spec_distinct Z zveq [[4]; [9]; [5]; [6]; [8]]%Z.
Proof. split; [vm_compute; reflexivity|vm_compute; discriminate]. Qed.

(* F-C03-4: with __iter__ = iter(self._rows) the first listing of a generator-backed frame is empty *)
Example C03_pinned_list_refuted :
  exists (f : frame Z N), snd (pinned_py_list Z N f) <> rows_of Z (back f).
Proof. exists (mkF (mkS Untyped [0%N]) (Lazy [[1]]%Z)). vm_compute. discriminate. Qed.

(* ====================================================================== *)
(* Round 2: frames as objects - lazily backed results that stay UNFORCED    *)
(* while their source is observed (Model/C03_Heap.v)                        *)
(* ====================================================================== *)
(* [hrun early st prog]: the object-level run (every step one call on one frame object of the
   environment; frames a call returns join the environment unlisted; HList = list(df)).
   [early] says when the generators of select() / filter() / take() bind their source's rows: the
   code as it stands (filter and take since the repair of F-C03-6, 75a1e72) is [false] - inner
   generator FUNCTIONS: self._rows is read when the generator is first advanced.
   [lazy_result sc c R = Some (sc', rows)]: c is select / filter / take (any arguments; select of
   existing columns), sc' the result's schema and rows the plain-list result spec_select /
   spec_filter / spec_take on R. *)

(* A generator-backed frame; select / filter / take of it is made and left alone; the source is
   then observed by ANY operator that materialises it (len, head/tail/slice, to_batches, collect,
   indexing, row - any arguments); then the derived frame is listed: it is the plain-list result on
   EVERY row of the source, and the source afterwards lists all its rows. *)
Theorem C03_unforced_lazy_result_of_generator_backed_source :
  forall (V : Type) (veqb : V -> V -> bool) (dflt : V) (Nm : Type) (nmeqb : Nm -> Nm -> bool)
         (sc sc' : schema Nm) (R rows : list (list V)) (c o : op V Nm),
  lazy_result V dflt Nm nmeqb sc c R = Some (sc', rows) ->
  materialises V Nm o = true ->
  exists st x,
    hrun V veqb dflt Nm nmeqb false (hstart V Nm [mkHI sc R KGen] (mkHS [] []))
         [mkHStep 0 (HOp c); mkHStep 0 (HOp o); mkHStep 1 HList; mkHStep 0 HList]
    = (st, [HNew [names sc']; x; HVal (ORows rows); HVal (ORows R)]).
Proof. exact unforced_lazy_generator_source. Qed.
Print Assumptions C03_unforced_lazy_result_of_generator_backed_source.

(* The same with a lazily backed INTERMEDIATE as the source: mid = c0(base) (lazy), two lazily
   backed frames c1(mid), c2(mid) are made and left alone (c0, c1, c2 each select / filter / take),
   mid is observed by any materialising operator, then both derived frames, mid and base are
   listed: every one of them yields the plain-list result in full. *)
Theorem C03_unforced_lazy_results_of_lazy_intermediate :
  forall (V : Type) (veqb : V -> V -> bool) (dflt : V) (Nm : Type) (nmeqb : Nm -> Nm -> bool)
         (sc sc0 sc1 sc2 : schema Nm) (R M L1 L2 : list (list V)) (c0 c1 c2 o : op V Nm),
  lazy_result V dflt Nm nmeqb sc c0 R = Some (sc0, M) ->
  lazy_result V dflt Nm nmeqb sc0 c1 M = Some (sc1, L1) ->
  lazy_result V dflt Nm nmeqb sc0 c2 M = Some (sc2, L2) ->
  materialises V Nm o = true ->
  exists st x,
    hrun V veqb dflt Nm nmeqb false (hstart V Nm [mkHI sc R KList] (mkHS [] []))
      [mkHStep 0 (HOp c0); mkHStep 1 (HOp c1); mkHStep 1 (HOp c2);
       mkHStep 1 (HOp o); mkHStep 2 HList; mkHStep 3 HList; mkHStep 1 HList; mkHStep 0 HList]
    = (st, [HNew [names sc0]; HNew [names sc1]; HNew [names sc2]; x;
            HVal (ORows L1); HVal (ORows L2); HVal (ORows M); HVal (ORows R)]).
Proof. exact unforced_lazy_of_lazy_intermediate. Qed.
Print Assumptions C03_unforced_lazy_results_of_lazy_intermediate.

(* A list-backed frame; select / filter / take of it (any arguments) is made and left alone; the
   source is observed by ANY operator (materialising or iterating); then the derived frame is
   listed: it is the plain-list operation on the source's rows, and the source still lists its rows. *)
Theorem C03_unforced_child_of_list_backed_source :
  forall (V : Type) (veqb : V -> V -> bool) (dflt : V) (Nm : Type) (nmeqb : Nm -> Nm -> bool)
         (sc sc' : schema Nm) (R rows : list (list V)) (c o : op V Nm),
  lazy_result V dflt Nm nmeqb sc c R = Some (sc', rows) ->
  observes V Nm o = true ->
  exists st x,
    hrun V veqb dflt Nm nmeqb false (hstart V Nm [mkHI sc R KList] (mkHS [] []))
         [mkHStep 0 (HOp c); mkHStep 0 (HOp o); mkHStep 1 HList; mkHStep 0 HList]
    = (st, [HNew [names sc']; x; HVal (ORows rows); HVal (ORows R)]).
Proof. exact unforced_child_of_list. Qed.
Print Assumptions C03_unforced_child_of_list_backed_source.

(* In ANY state, whatever happened before: calling select / filter / take on frame i adds a frame
   whose generator G has not started, and in ANY later state in which frame i is list-backed (it
   need not have been when the call was made) and G is still unstarted, materialising the new frame
   gives the plain-list result on that list; only that frame and its generator change. *)
Theorem C03_lazy_results_read_their_source_when_first_advanced :
  forall (V : Type) (veqb : V -> V -> bool) (dflt : V) (Nm : Type) (nmeqb : Nm -> Nm -> bool)
         (st : hstate V Nm) (s i : nat) (sc sc' : schema Nm) (r : rowsref V) (c : op V Nm) (R0 rows0 : list (list V)),
  lazy_result V dflt Nm nmeqb sc c R0 = Some (sc', rows0) ->
  Nat.modulo s (length (henv st)) = i -> nth_error (henv st) i = Some (mkH sc r) ->
  exists G,
    hstep V veqb dflt Nm nmeqb false st (mkHStep s (HOp c)) =
    (mkHS (henv st ++ [mkH sc' (RG (length (hheap st)))]) (hheap st ++ [G]), HNew [names sc']) /\
    forall (st2 : hstate V Nm) (j g : nat) (R rows : list (list V)),
      nth_error (henv st2) j = Some (mkH sc' (RG g)) -> nth_error (hheap st2) g = Some G ->
      nth_error (henv st2) i = Some (mkH sc (RL R)) ->
      lazy_result V dflt Nm nmeqb sc c R = Some (sc', rows) ->
      hmat V dflt Nm st2 j = (mkHS (upd j (mkH sc' (RL rows)) (henv st2)) (upd g GDone (hheap st2)), rows).
Proof. exact hstep_lazy. Qed.
Print Assumptions C03_lazy_results_read_their_source_when_first_advanced.

(* No step of ANY object-level program (any operators, any arguments, raising or not, any order
   of forcing, either binding) alters a list-backed frame, and listing it at any later point
   yields its rows. *)
Theorem C03_objects_list_backed_never_altered :
  forall (V : Type) (veqb : V -> V -> bool) (dflt : V) (Nm : Type) (nmeqb : Nm -> Nm -> bool)
         (early : bool) (prog : list (hstepd V Nm)) (st : hstate V Nm) (i : nat) (sc : schema Nm) (l : list (list V)),
  nth_error (henv st) i = Some (mkH sc (RL l)) ->
  nth_error (henv (fst (hrun V veqb dflt Nm nmeqb early st prog))) i = Some (mkH sc (RL l)).
Proof. exact hrun_keeps. Qed.
Print Assumptions C03_objects_list_backed_never_altered.

Theorem C03_objects_list_backed_lists_its_rows :
  forall (V : Type) (veqb : V -> V -> bool) (dflt : V) (Nm : Type) (nmeqb : Nm -> Nm -> bool)
         (early : bool) (prog : list (hstepd V Nm)) (st : hstate V Nm) (i : nat) (sc : schema Nm) (l : list (list V)),
  nth_error (henv st) i = Some (mkH sc (RL l)) ->
  hmat V dflt Nm (fst (hrun V veqb dflt Nm nmeqb early st prog)) i =
  (fst (hrun V veqb dflt Nm nmeqb early st prog), l).
Proof. exact hrun_then_list. Qed.
Print Assumptions C03_objects_list_backed_lists_its_rows.

(* non-vacuity: the hypotheses of the scenario theorems are satisfiable, for each of the three
   calls, and the runs produce non-empty listings *)
Example C03_unforced_nonvacuous :
  let sc := mkS Untyped [0%N; 1%N; 2%N] in
  let R := [[1; 2; 3]; [4; 5; 6]; [7; 8; 9]]%Z in
  lazy_result Z 0%Z N N.eqb sc (Select [2%N; 0%N]) R = Some (mkS Untyped [2%N; 0%N], [[3; 1]; [6; 4]; [9; 7]]%Z) /\
  lazy_result Z 0%Z N N.eqb sc (Filter [true; false; true]) R = Some (sc, [[1; 2; 3]; [7; 8; 9]]%Z) /\
  lazy_result Z 0%Z N N.eqb sc (Take [2; 0]%Z) R = Some (sc, [[1; 2; 3]; [7; 8; 9]]%Z) /\
  materialises Z N Len = true /\ materialises Z N (Head 1%Z) = true /\
  materialises Z N (Collect [CIdx 0%Z] None) = true /\ observes Z N Iterate = true /\
  c03h_run false ([mkHI sc R KGen],
                  [mkHStep 0 (HOp (Filter [true; false; true])); mkHStep 0 (HOp Len); mkHStep 1 HList; mkHStep 0 HList], [])
    = [HNew [[0%N; 1%N; 2%N]]; HVal (ONat 3); HVal (ORows [[1; 2; 3]; [7; 8; 9]]%Z); HVal (ORows R)] /\
  c03h_run false ([mkHI sc R KGen],
                  [mkHStep 0 (HOp (Take [2; 0]%Z)); mkHStep 0 (HOp (Head 1%Z)); mkHStep 1 HList; mkHStep 0 HList], [])
    = [HNew [[0%N; 1%N; 2%N]]; HNew [[0%N; 1%N; 2%N]]; HVal (ORows [[1; 2; 3]; [7; 8; 9]]%Z); HVal (ORows R)].
Proof. repeat split; vm_compute; reflexivity. Qed.

(* ---------------- binding when the method is called is refuted ---------------- *)
(* the round-2 seeded change (select as a generator expression over self._rows): the projection
   of a generator-backed frame that is observed before the projection is listed yields nothing *)
Example C03_select_bound_at_creation_refuted :
  exists (sc : schema N) (R : list (list Z)) (attrs : list N) (rows : list (list Z)),
    spec_select Z 0%Z N N.eqb attrs (names sc) R = Ok rows /\
    c03h_run true ([mkHI sc R KGen],
                   [mkHStep 0 (HOp (Select attrs)); mkHStep 0 (HOp Len); mkHStep 1 HList; mkHStep 0 HList], [])
    <> [HNew [attrs]; HVal (ONat (length R)); HVal (ORows rows); HVal (ORows R)].
Proof.
  exists (mkS Untyped [0%N; 1%N]), [[1; 2]; [3; 4]]%Z, [1%N; 0%N], [[2; 1]; [4; 3]]%Z.
  split; [reflexivity|]. vm_compute. discriminate.
Qed.

(* F-C03-6, the code before 75a1e72 (filter and take as generator expressions over self._rows) *)
Example C03_filter_bound_at_creation_refuted :
  exists (sc : schema N) (R : list (list Z)) (mask : list bool),
    c03h_run true ([mkHI sc R KGen],
                   [mkHStep 0 (HOp (Filter mask)); mkHStep 0 (HOp Len); mkHStep 1 HList; mkHStep 0 HList], [])
    <> [HNew [names sc]; HVal (ONat (length R)); HVal (ORows (spec_filter Z mask R)); HVal (ORows R)].
Proof.
  exists (mkS Untyped [0%N; 1%N]), [[1; 2]; [3; 4]]%Z, [true; true].
  vm_compute. discriminate.
Qed.

Example C03_take_bound_at_creation_refuted :
  exists (sc : schema N) (R : list (list Z)) (idx : list Z),
    c03h_run true ([mkHI sc R KGen],
                   [mkHStep 0 (HOp (Take idx)); mkHStep 0 (HOp Len); mkHStep 1 HList; mkHStep 0 HList], [])
    <> [HNew [names sc]; HVal (ONat (length R)); HVal (ORows (spec_take Z idx R)); HVal (ORows R)].
Proof.
  exists (mkS Untyped [0%N; 1%N]), [[1; 2]; [3; 4]]%Z, [0; 1]%Z.
  vm_compute. discriminate.
Qed.

(* what is still NOT the plain-list result (the property is silent: a generator is one-shot): two
   unforced frames derived from one generator-backed frame that is never materialised - the first
   one listed takes every row, the second lists nothing *)
Example C03_siblings_of_unmaterialised_generator_refuted :
  exists (sc : schema N) (R : list (list Z)) (mask : list bool),
    c03h_run false ([mkHI sc R KGen],
                    [mkHStep 0 (HOp (Filter mask)); mkHStep 0 (HOp (Filter mask)); mkHStep 1 HList; mkHStep 2 HList], [])
    <> [HNew [names sc]; HNew [names sc]; HVal (ORows (spec_filter Z mask R)); HVal (ORows (spec_filter Z mask R))].
Proof.
  exists (mkS Untyped [0%N; 1%N]), [[1; 2]; [3; 4]]%Z, [true; true].
  vm_compute. discriminate.
Qed.

(* ====================================================================== *)
(* Round 3: the caller's own objects (Model/C03_Heap.v, section Args)      *)
(* ====================================================================== *)
(* [arun early copy st prog]: a session whose state also holds a pool of the CALLER's list objects
   (column names / positions, masks, index lists).  A call is handed pool object a ITSELF
   (ACollect / AGetItem / ASelect / AFilter / ATake), the same object any number of times, on any
   frames; APeek looks at it; AAppend r is DataFrame.append (in place).  [copy] says whether
   collect() copies a list it is handed before its in-place name -> position rewrite: the code as
   it stands is [true]. *)

(* No session - any calls, any frames, any order, raising or not - alters any of the caller's lists. *)
Theorem C03_session_never_alters_the_callers_lists :
  forall (V : Type) (veqb : V -> V -> bool) (dflt : V) (Nm : Type) (nmeqb : Nm -> Nm -> bool)
         (early : bool) (prog : list (astepd V Nm)) (st : astate V Nm),
  a_pool (fst (arun V veqb dflt Nm nmeqb early true st prog)) = a_pool st.
Proof. exact arun_pool_kept. Qed.
Print Assumptions C03_session_never_alters_the_callers_lists.

(* What collect()'s in-place rewrite loop leaves in the list it runs on (the copy): the positions,
   in the frame it was called on, that the functional resolution used by code_collect computes - a
   ValueError from a missing name leaves the flag false.  (So run on the caller's list it would
   replace the names by positions of that one frame.) *)
Theorem C03_collect_rewrite_is_the_resolution :
  forall (Nm : Type) (nmeqb : Nm -> Nm -> bool) (src : list Nm) (v : argobj Nm),
  match resolve_cols Nm nmeqb src (map (as_colref Nm) v) with
  | Ok zs => exists v', rewrite_cols Nm nmeqb src v = (v', true) /\ map (as_colref Nm) v' = map CIdx zs
  | Raise _ => snd (rewrite_cols Nm nmeqb src v) = false
  end.
Proof. exact rewrite_cols_resolve. Qed.
Print Assumptions C03_collect_rewrite_is_the_resolution.

(* A list-backed frame is altered by no call of a session, whatever objects the calls are handed
   (either binding, copied or not), except an append() to that very frame ... *)
Theorem C03_session_step_keeps_list_backed_frames :
  forall (V : Type) (veqb : V -> V -> bool) (dflt : V) (Nm : Type) (nmeqb : Nm -> Nm -> bool)
         (early copy : bool) (st : astate V Nm) (s : astepd V Nm) (j : nat) (sc : schema Nm) (l : list (list V)),
  nth_error (henv (a_h st)) j = Some (mkH sc (RL l)) ->
  (forall r, a_op s = AAppend r -> Nat.modulo (a_src s) (length (henv (a_h st))) <> j) ->
  nth_error (henv (a_h (fst (astep V veqb dflt Nm nmeqb early copy st s)))) j = Some (mkH sc (RL l)).
Proof. exact astep_keeps_lists. Qed.
Print Assumptions C03_session_step_keeps_list_backed_frames.

Theorem C03_session_without_append_keeps_list_backed_frames :
  forall (V : Type) (veqb : V -> V -> bool) (dflt : V) (Nm : Type) (nmeqb : Nm -> Nm -> bool)
         (early copy : bool) (prog : list (astepd V Nm)) (st : astate V Nm) (j : nat) (sc : schema Nm) (l : list (list V)),
  nth_error (henv (a_h st)) j = Some (mkH sc (RL l)) ->
  (forall s r, In s prog -> a_op s <> AAppend r) ->
  nth_error (henv (a_h (fst (arun V veqb dflt Nm nmeqb early copy st prog)))) j = Some (mkH sc (RL l)).
Proof. exact arun_keeps_lists. Qed.
Print Assumptions C03_session_without_append_keeps_list_backed_frames.

(* ... which adds the row at the end of that frame and touches nothing else (no other frame - so
   no frame an operator returned shares its row container with its source -, no generator, no list
   of the caller). *)
Theorem C03_append_adds_the_row_to_its_frame_only :
  forall (V : Type) (veqb : V -> V -> bool) (dflt : V) (Nm : Type) (nmeqb : Nm -> Nm -> bool)
         (early copy : bool) (st : astate V Nm) (src i : nat) (sc : schema Nm) (l : list (list V)) (r : list V),
  Nat.modulo src (length (henv (a_h st))) = i ->
  nth_error (henv (a_h st)) i = Some (mkH sc (RL l)) -> kind sc = Untyped ->
  astep V veqb dflt Nm nmeqb early copy st (mkAStep src (AAppend r)) =
  (mkAS (mkHS (upd i (mkH sc (RL (l ++ [r]))) (henv (a_h st))) (hheap (a_h st))) (a_pool st), AOut (HNew [])).
Proof. exact astep_append. Qed.
Print Assumptions C03_append_adds_the_row_to_its_frame_only.

(* non-vacuity: the session of the round-3 demonstration - one list ['c','a'] handed to collect,
   to select, to collect on the projection, and to indexing of a frame with the columns reversed -
   gives the named columns every time and leaves the list alone; append reaches one frame only *)
Example C03_session_nonvacuous :
  c03a_run true
    ([mkHI (mkS Untyped [0%N; 1%N; 2%N]) [[1; 2; 3]; [4; 5; 6]]%Z KList;
      mkHI (mkS Untyped [2%N; 1%N; 0%N]) [[30; 20; 10]]%Z KGen],
     [[AName 2%N; AName 0%N]],
     [mkAStep 0 (ACollect 0 None); mkAStep 0 (APeek 0); mkAStep 0 (ASelect 0); mkAStep 2 (ACollect 0 None);
      mkAStep 1 (AGetItem 0); mkAStep 0 (APeek 0);
      mkAStep 0 (APlain (HOp (Head 1%Z))); mkAStep 0 (AAppend [7; 8; 9]%Z); mkAStep 3 (APlain HList); mkAStep 0 (APlain HList)], [])
  = [AOut (HVal (OCols [[3; 6]; [1; 4]]%Z)); AArg [AName 2%N; AName 0%N]; AOut (HNew [[2%N; 0%N]]);
     AOut (HVal (OCols [[3; 6]; [1; 4]]%Z)); AOut (HVal (OCols [[30]; [10]]%Z)); AArg [AName 2%N; AName 0%N];
     AOut (HNew [[0%N; 1%N; 2%N]]); AOut (HNew []); AOut (HVal (ORows [[1; 2; 3]]%Z));
     AOut (HVal (ORows [[1; 2; 3]; [4; 5; 6]; [7; 8; 9]]%Z))].
Proof. vm_compute. reflexivity. Qed.

(* the round-3 seeded change (collect() no longer copies a list it is handed) is refuted: the
   caller's names are replaced by positions of the first frame, and handing the list on fails *)
Example C03_collect_rewrites_callers_list_refuted :
  exists (c : zacase),
    c03a_run true c = [AOut (HVal (OCols [[3; 6]; [1; 4]]%Z)); AArg [AName 2%N; AName 0%N]; AOut (HNew [[2%N; 0%N]])] /\
    c03a_run false c = [AOut (HVal (OCols [[3; 6]; [1; 4]]%Z)); AArg [AInt 2%Z; AInt 0%Z]; AOut (HVal (ORaise ValueError))].
Proof.
  exists ([mkHI (mkS Untyped [0%N; 1%N; 2%N]) [[1; 2; 3]; [4; 5; 6]]%Z KList], [[AName 2%N; AName 0%N]],
          [mkAStep 0 (ACollect 0 None); mkAStep 0 (APeek 0); mkAStep 0 (ASelect 0)], []).
  split; vm_compute; reflexivity.
Qed.

(* ====================================================================== *)
(* Round 7: a frame whose row container is a TUPLE of rows (an eager       *)
(* sequence that is not a list: DataFrame(rows=tuple(...))).  It is its    *)
(* list of rows under every operator, and materialize() makes it a list.   *)
(* ====================================================================== *)

(* materialize() on a tuple-backed frame: the rows come back and the frame is list-backed from then on *)
Theorem C03_tuple_backed_materialize :
  forall (V : Type) (dflt : V) (Nm : Type) (st : hstate V Nm) (i : nat) (sc : schema Nm) (l : list (list V)),
  nth_error (henv st) i = Some (mkH sc (RT l)) ->
  hmat V dflt Nm st i = (now_list V Nm st i sc l, l).
Proof. exact hmat_tuple. Qed.
Print Assumptions C03_tuple_backed_materialize.

(* Every operator that looks at the rows (len, head/tail/slice, query, distinct, to_batches, collect /
   indexing, row, iteration; any arguments, raising or not), in any state of any session, called on a
   tuple-backed frame: the outcome is the operator of Model/C03.v on the plain LIST of its rows (the
   functions the round-1 theorems C03_slice ... C03_collect, C03_operator_step are about); afterwards
   the frame is list-backed with the same rows, unless the operator only iterates. *)
Theorem C03_tuple_backed_frame_is_its_list_of_rows :
  forall (V : Type) (veqb : V -> V -> bool) (dflt : V) (Nm : Type) (nmeqb : Nm -> Nm -> bool)
         (early : bool) (st : hstate V Nm) (s i : nat) (o : op V Nm) (sc : schema Nm) (l : list (list V)),
  observes V Nm o = true -> Nat.modulo s (length (henv st)) = i ->
  nth_error (henv st) i = Some (mkH sc (RT l)) ->
  hstep V veqb dflt Nm nmeqb early st (mkHStep s (HOp o)) =
  interpret V Nm (if consumes V Nm o then st else now_list V Nm st i sc l)
            (snd (apply_op V veqb dflt Nm nmeqb o (mkF sc (Eager l)))).
Proof. exact hstep_tuple_op. Qed.
Print Assumptions C03_tuple_backed_frame_is_its_list_of_rows.

(* ... exactly what the same call yields on the list-backed frame of the same rows *)
Theorem C03_list_backed_frame_is_its_list_of_rows :
  forall (V : Type) (veqb : V -> V -> bool) (dflt : V) (Nm : Type) (nmeqb : Nm -> Nm -> bool)
         (early : bool) (st : hstate V Nm) (s i : nat) (o : op V Nm) (sc : schema Nm) (l : list (list V)),
  observes V Nm o = true -> Nat.modulo s (length (henv st)) = i ->
  nth_error (henv st) i = Some (mkH sc (RL l)) ->
  hstep V veqb dflt Nm nmeqb early st (mkHStep s (HOp o)) =
  interpret V Nm st (snd (apply_op V veqb dflt Nm nmeqb o (mkF sc (Eager l)))).
Proof. exact hstep_list_op. Qed.
Print Assumptions C03_list_backed_frame_is_its_list_of_rows.

(* list(df) of a tuple-backed frame yields each row once, in order *)
Theorem C03_tuple_backed_lists_its_rows :
  forall (V : Type) (veqb : V -> V -> bool) (dflt : V) (Nm : Type) (nmeqb : Nm -> Nm -> bool)
         (early : bool) (st : hstate V Nm) (s i : nat) (sc : schema Nm) (l : list (list V)),
  Nat.modulo s (length (henv st)) = i -> nth_error (henv st) i = Some (mkH sc (RT l)) ->
  hstep V veqb dflt Nm nmeqb early st (mkHStep s HList) = (now_list V Nm st i sc l, HVal (ORows l)).
Proof. exact hstep_tuple_list. Qed.
Print Assumptions C03_tuple_backed_lists_its_rows.

(* ANY object-level program (any operators - + , select / filter / take and their unforced results
   included -, any arguments, any order of forcing, either binding) on ANY initial frames: replacing every
   tuple-backed initial frame by the list-backed frame of the same rows changes no output of the run.
   (hrun has no append(): that probe tells a tuple from a list, see C03_tuple_backed_append.) *)
Theorem C03_tuple_backed_programs :
  forall (V : Type) (veqb : V -> V -> bool) (dflt : V) (Nm : Type) (nmeqb : Nm -> Nm -> bool)
         (early : bool) (fs : list (hinit V Nm)) (prog : list (hstepd V Nm)),
  snd (hrun V veqb dflt Nm nmeqb early (hstart V Nm fs (mkHS [] [])) prog) =
  snd (hrun V veqb dflt Nm nmeqb early (hstart V Nm (map as_list_init fs) (mkHS [] [])) prog).
Proof. exact tuple_programs. Qed.
Print Assumptions C03_tuple_backed_programs.

(* ... and in any state, step by step: the states stay related by "every tuple replaced by its list" *)
Theorem C03_tuple_backed_step_simulation :
  forall (V : Type) (veqb : V -> V -> bool) (dflt : V) (Nm : Type) (nmeqb : Nm -> Nm -> bool)
         (early : bool) (st : hstate V Nm) (s : hstepd V Nm),
  hstep V veqb dflt Nm nmeqb early (listed_st st) s =
  (listed_st (fst (hstep V veqb dflt Nm nmeqb early st s)), snd (hstep V veqb dflt Nm nmeqb early st s)).
Proof. exact hstep_listed. Qed.
Print Assumptions C03_tuple_backed_step_simulation.

(* non-vacuity, and + (not covered by the step theorems above: evaluated): the round-7 demonstration -
   collect, + with a list-backed frame in either order, a window then collect, the listings *)
Example C03_tuple_backed_nonvacuous :
  let sc := mkS Untyped [0%N; 1%N] in
  observes Z N (Collect1 (CName 0%N) None) = true /\ consumes Z N (Collect1 (CName 0%N) None) = false /\
  c03h_run false ([mkHI sc [[1; 2]; [3; 4]; [5; 6]]%Z KTuple; mkHI sc [[9; 0]]%Z KList],
     [mkHStep 0 (HOp (Collect1 (CName 0%N) None)); mkHStep 0 (HOp (AddF 1 false)); mkHStep 1 (HOp (AddF 0 false));
      mkHStep 0 (HOp (Slice 1%Z (Some 2%Z))); mkHStep 4 (HOp (Collect1 (CIdx 0%Z) None));
      mkHStep 2 HList; mkHStep 3 HList; mkHStep 0 HList], [])
  = [HVal (OCol [1; 3; 5]%Z); HNew [[0%N; 1%N]]; HNew [[0%N; 1%N]]; HNew [[0%N; 1%N]]; HVal (OCol [3; 5]%Z);
     HVal (ORows [[1; 2]; [3; 4]; [5; 6]; [9; 0]]%Z); HVal (ORows [[9; 0]; [1; 2]; [3; 4]; [5; 6]]%Z);
     HVal (ORows [[1; 2]; [3; 4]; [5; 6]]%Z)].
Proof. repeat split; vm_compute; reflexivity. Qed.

(* the container matters only for append(): refused while it is a tuple (iterating does not change it),
   accepted once len() has materialised it; an EMPTY tuple is replaced by a list in the constructor *)
Example C03_tuple_backed_append :
  let sc := mkS Untyped [0%N; 1%N] in
  c03a_run true ([mkHI sc [[1; 2]; [3; 4]]%Z KTuple; mkHI sc [] KTuple], [],
     [mkAStep 0 (AAppend [7; 8]%Z); mkAStep 0 (APlain (HOp Iterate)); mkAStep 0 (AAppend [7; 8]%Z); mkAStep 0 (APlain (HOp Len));
      mkAStep 0 (AAppend [7; 8]%Z); mkAStep 0 (APlain HList); mkAStep 1 (AAppend [7; 8]%Z); mkAStep 1 (APlain HList)], [])
  = [AOut (HVal (ORaise TypeError)); AOut (HVal (ORows [[1; 2]; [3; 4]]%Z)); AOut (HVal (ORaise TypeError)); AOut (HVal (ONat 2));
     AOut (HNew []); AOut (HVal (ORows [[1; 2]; [3; 4]; [7; 8]]%Z)); AOut (HNew []); AOut (HVal (ORows [[7; 8]]%Z))].
Proof. vm_compute. reflexivity. Qed.
