(* C16 - Schemas and columns survive persistence round-trips unchanged.
   Property theorems only; each is closed by [exact] of a lemma from Proofs/C16.v and followed by
   Print Assumptions.

   Reading guide (definitions in Model/C16.v and Proofs/C16.v, tables in Gen/C16_Fields.v):
     column                 the value of each of the 17 declared FlatColumn attributes ([get f c], f : field);
     init parse cls fresh kw    cls(double-star kw): FlatColumn.__init__ on keyword arguments kw
     to_dict_col / to_dict / from_dict, to_json / from_json, to_flatcolumn    the operations of the property
     parse                  OrsoTypes.<m>.parse (C07), a parameter; ser_ext: orjson's output for non-native leaves, a parameter
     persistable parse c    what the dictionary form can carry (see Proofs/C16.v): member type / element type /
                            disposition, DECIMAL with its parameters, the free attributes hold no enum member or
                            Expectation object, the default of a typed column is None or a fixed point of its type's
                            parse under the column's own length / precision / scale / element type (an untyped column
                            keeps any default untouched)
     json_persistable       the same for the JSON form: every free attribute is written and read back as itself,
                            the default's JSON form parses back to the default
     untyped c              the type is the placeholder OrsoTypes._MISSING_TYPE
     same_but_untyped_type c' c    c' = c in every attribute, the type attribute being required only when c is typed. *)
From Coq Require Import List NArith ZArith Bool.
From Coq Require Import String.
From Orso Require Import Base.C16_Defs Gen.C16_Fields Model.C16 Proofs.C16 Proofs.C16_Lookup.
From Orso Require Gen.C06_Types Model.C05.
Import ListNotations.

(* The field lists regenerated from dataclasses.fields(FlatColumn) / dataclasses.fields(RelationSchema) are exactly
   the attributes the model's records have: a field added to or dropped from either class breaks this obligation. *)
Theorem C16_declared_fields_are_the_modelled_ones :
  map fst column_field_table = map field_name all_fields /\
  map fst schema_field_table = schema_field_names.
Proof. exact field_tables_modelled. Qed.
Print Assumptions C16_declared_fields_are_the_modelled_ones.

(* The enum table the re-parse of type names (Model/C06.v from_name) works on is the one regenerated for this check. *)
Theorem C16_type_table_is_the_one_from_name_uses : type_members = Gen.C06_Types.members.
Proof. exact type_table_shared. Qed.
Print Assumptions C16_type_table_is_the_one_from_name_uses.

(* FULL STATEMENT (not provable, see C16_untyped_type_refuted):
     forall persistable c, init parse cls fresh (to_dict_col c) = Ok c.
   PROVED: rebuilding a column from its dictionary yields a column equal to the original in every declared
   attribute; only the type attribute of an UNTYPED column is excluded (known finding F-C16-4b). *)
Theorem C16_column_dict_round_trip_partial :
  forall (parse : str -> params -> pv -> result pv) (cls fresh : str) (c : column),
  persistable parse c ->
  exists c', init parse cls fresh (to_dict_col c) = Ok c' /\
             (forall f, f <> FType -> get f c' = get f c) /\ (untyped c = false -> c' = c).
Proof. exact column_dict_round_trip. Qed.
Print Assumptions C16_column_dict_round_trip_partial.

(* from_dict (to_dict s): the schema's name, aliases, primary key and four statistics come back, and the columns one
   by one as above.  [plain_top s]: the schema's own attributes hold no enum member. *)
Theorem C16_schema_dict_round_trip_partial :
  forall (parse : str -> params -> pv -> result pv) (fresh : nat -> str) (s : schema),
  Forall (persistable parse) (s_columns s) ->
  plain_top s ->
  exists s', from_dict parse fresh (to_dict s) = Ok s' /\
             s_name s' = s_name s /\ s_aliases s' = s_aliases s /\ s_pk s' = s_pk s /\
             s_rcm s' = s_rcm s /\ s_rce s' = s_rce s /\ s_dsm s' = s_dsm s /\ s_dse s' = s_dse s /\
             Forall2 same_but_untyped_type (s_columns s') (s_columns s) /\
             s_columns s' = map restored (s_columns s).
Proof. exact schema_dict_round_trip. Qed.
Print Assumptions C16_schema_dict_round_trip_partial.

(* ... hence a schema of typed columns comes back as the very same object, field by field, statistics included. *)
Theorem C16_schema_round_trip_exact_partial :
  forall (parse : str -> params -> pv -> result pv) (fresh : nat -> str) (s : schema),
  Forall (persistable parse) (s_columns s) -> Forall (fun c => untyped c = false) (s_columns s) ->
  plain_top s ->
  from_dict parse fresh (to_dict s) = Ok s.
Proof. exact schema_round_trip_exact. Qed.
Print Assumptions C16_schema_round_trip_exact_partial.

(* FULL STATEMENT (not provable for untyped columns): from_json (to_json c) = c.
   PROVED: to_json succeeds and from_json rebuilds a column equal to the original in every declared attribute,
   the type attribute of untyped columns excluded (F-C16-4b). *)
Theorem C16_column_json_round_trip_partial :
  forall (parse : str -> params -> pv -> result pv) (ser_ext : atom -> result jval) (fresh : str) (c : column),
  json_persistable parse ser_ext c ->
  exists j c', to_json ser_ext c = Ok j /\ from_json parse fresh j = Ok c' /\
               (forall f, f <> FType -> get f c' = get f c) /\ (untyped c = false -> c' = c).
Proof. exact column_json_round_trip. Qed.
Print Assumptions C16_column_json_round_trip_partial.

(* The JSON hypothesis on free attributes holds for every value with a native JSON form: None, booleans, 64-bit
   integers, finite floats, text, expectation dictionaries, and lists of those. *)
Theorem C16_native_values_survive_json :
  forall (ser_ext : atom -> result jval),
  (forall a, native_atom a -> json_stable ser_ext (PA a)) /\
  (forall l, Forall native_atom l -> json_stable ser_ext (PL l)).
Proof. intros ser_ext. split; [exact (native_stable ser_ext) | exact (native_list_stable ser_ext)]. Qed.
Print Assumptions C16_native_values_survive_json.

(* Flattening any column object (the attributes of whatever column class) keeps identity, name, type, precision,
   scale, element type, nullability, default, aliases, description and the three statistics.  [normalised]: member
   type or 0, member / no element type, DECIMAL with its parameters, and the default of a typed column is a fixed
   point of its type's parse with length None (to_flatcolumn does not pass the length on). *)
Theorem C16_to_flatcolumn_keeps :
  forall (parse : str -> params -> pv -> result pv) (fresh : str) (c : column) (s : str),
  c_name c = PA (AText s) -> normalised parse c ->
  exists c', to_flatcolumn parse fresh c = Ok c' /\ forall f, In f flat_kept -> get f c' = get f c.
Proof. exact flatten_keeps. Qed.
Print Assumptions C16_to_flatcolumn_keeps.

Theorem C16_flat_kept_are_the_listed_attributes :
  flat_kept = [FName; FDefault; FDescription; FAliases; FIdentity; FType; FElementType; FNullable; FScale;
               FPrecision; FLowest; FHighest; FNullCount].
Proof. reflexivity. Qed.
Print Assumptions C16_flat_kept_are_the_listed_attributes.

(* Behaviour: the restored schema accepts and rejects exactly the same records (validate as modelled and proved
   in C05, on the view validate has of a column: name, type or 'untyped', nullability) - untyped columns included. *)
Theorem C16_restored_schema_validates_alike :
  forall (parse : str -> params -> pv -> result pv) (fresh : nat -> str) (s s' : schema) (key : pv -> N) (r : Model.C05.record),
  Forall (persistable parse) (s_columns s) ->
  from_dict parse fresh (to_dict s) = Ok s' ->
  Model.C05.validate (proj_schema key s') r = Model.C05.validate (proj_schema key s) r.
Proof. exact restored_validates_alike. Qed.
Print Assumptions C16_restored_schema_validates_alike.

(* ... and reports the same description for every column - untyped columns included. *)
Theorem C16_restored_schema_describes_alike :
  forall (parse : str -> params -> pv -> result pv) (fresh : nat -> str) (s s' : schema),
  Forall (persistable parse) (s_columns s) ->
  from_dict parse fresh (to_dict s) = Ok s' ->
  map describe (s_columns s') = map describe (s_columns s).
Proof. exact restored_describes_alike. Qed.
Print Assumptions C16_restored_schema_describes_alike.

(* ---------------- round 2: the length cut of BLOB / VARCHAR defaults; repeated column names ---------------- *)
(* [text_cast] (Model/C16.v) is parse_bytes / parse_varchar on text, bytes, int and bool values with the column's
   length (None or an int): BLOB cuts BYTES after encoding, VARCHAR cuts CHARACTERS after decoding.  The correspondence
   compares every observed BLOB / VARCHAR parse result with it ([parse_conforms]).  Whatever it returns is left alone
   by a second cast with the same length (None or n >= 0, which is all a type name can say) ... *)
Theorem C16_length_cut_is_idempotent :
  forall (m : str) (len p s e v r : pv),
  len_ok len = true ->
  text_cast m (len, p, s, e) v = Some (Ok r) -> text_cast m (len, p, s, e) r = Some (Ok r).
Proof. exact text_cast_idempotent. Qed.
Print Assumptions C16_length_cut_is_idempotent.

(* ... so for a BLOB[n] / VARCHAR[n] column whose default was produced by that cast (from any covered value D: text in
   any script, bytes, ...) the default premise of the round-trip theorems ([default_ok], part of [persistable]) holds
   for every parse that agrees with the sub-model: re-parsing the stored default on load gives it back. *)
Theorem C16_cut_default_survives_reparse :
  forall (parse : str -> params -> pv -> result pv) (c : column) (m : str) (D : pv),
  agrees_with_text_cast parse ->
  c_type c = PA (ATy m) -> len_ok (c_length c) = true ->
  text_cast m (col_params c) D = Some (Ok (c_default c)) ->
  default_ok parse c (c_default c).
Proof. exact cast_default_ok. Qed.
Print Assumptions C16_cut_default_survives_reparse.

(* A NEGATIVE length (only reachable through the length keyword, never through a type name) is not covered:
   value[:-1] shortens the value again on every load (BLOB, length -1: b'abc' -> b'ab' -> b'a').  Outside the property's
   quantifier (lengths come from the type-name forms, n >= 0): an observation, see notes/C16.md. *)
Theorem C16_negative_length_refuted :
  exists q v r r', text_cast m_blob q v = Some (Ok r) /\ text_cast m_blob q r = Some (Ok r') /\ r <> r'.
Proof. exact negative_length_not_fixed. Qed.
Print Assumptions C16_negative_length_refuted.

(* The restored schema has as many columns as the original, in the same positions: every attribute other than the
   type of untyped columns (names, identities, defaults, ...) agrees position by position.  NO hypothesis says that
   the columns' names are distinct: a schema may hold several columns of one name (a self-join, a column selected
   twice); they are told apart by their identities and every one of them comes back. *)
Theorem C16_restored_schema_keeps_every_column :
  forall (parse : str -> params -> pv -> result pv) (fresh : nat -> str) (s s' : schema),
  Forall (persistable parse) (s_columns s) ->
  from_dict parse fresh (to_dict s) = Ok s' ->
  List.length (s_columns s') = List.length (s_columns s) /\
  forall f, f <> FType -> map (get f) (s_columns s') = map (get f) (s_columns s).
Proof. exact schema_round_trip_keeps_columns. Qed.
Print Assumptions C16_restored_schema_keeps_every_column.

(* ---------------- round 3: the same objects used again after being changed ---------------- *)
(* Sessions (Model/C16.v, "sessions"): a heap of column objects, the schema's columns list as references into it, the
   schema's own attributes; operations: assign an attribute, append to a list attribute in place, append / pop the
   columns list, scribble on a returned dictionary, and the observing operations to_dict + from_dict, to_json +
   from_json, to_flatcolumn.  Observing changes nothing ... *)
Theorem C16_observing_does_not_change_the_objects :
  forall st : sstate,
  (forall od orest, step st (SRound od orest) = Some st) /\
  (forall o oj back, step st (SJson o oj back) = Some st) /\
  step st SScribble = Some st.
Proof. exact observing_keeps_state. Qed.
Print Assumptions C16_observing_does_not_change_the_objects.

(* Round 6: a dictionary the caller keeps ([SSave]), restoring it later ([SRestoreSaved]) and editing the objects the
   caller owns - the returned dictionary, a restored schema ([SScribble]) - leave the live objects as they are: the
   saved dictionary is a value (the correspondence compares its later restoration with the schema AS SAVED). *)
Theorem C16_saved_and_restored_objects_are_independent :
  forall st : sstate,
  step st SSave = Some st /\ (forall orest, step st (SRestoreSaved orest) = Some st) /\ step st SScribble = Some st.
Proof. intros st. destruct (saving_keeps_state st) as [H1 H2]. destruct (observing_keeps_state st) as [_ [_ H3]]. repeat split; assumption. Qed.
Print Assumptions C16_saved_and_restored_objects_are_independent.

(* ... assigning an attribute of one object shows at every position of the columns list that refers to that object
   (a column listed twice), and at no other ... *)
Theorem C16_assignment_shows_wherever_the_object_is_listed :
  forall (h : list column) (refs : list nat) (top : schema) (o : nat) (f : field) (v : pv),
  (o < List.length h)%nat ->
  s_columns (view (upd o (set f v) h, refs, top)) =
  map (fun i => if Nat.eqb i o then set f v (nth i h dummy_column) else nth i h dummy_column) refs.
Proof. exact col_set_view. Qed.
Print Assumptions C16_assignment_shows_wherever_the_object_is_listed.

(* ... and WHATEVER the operations performed before (earlier to_dict calls, in-place appends, assignments, a grown or
   shrunk columns list), the dictionary round trip taken now restores the schema AS IT IS NOW: the result is a function
   of the current values [view st'] only.  (Same conclusion as C16_schema_dict_round_trip_partial, at the state reached.) *)
Theorem C16_session_round_trip_restores_the_current_schema_partial :
  forall (parse : str -> params -> pv -> result pv) (fresh : nat -> str) (st : sstate) (ops : list sop) (st' : sstate),
  exec st ops = Some st' ->
  Forall (persistable parse) (s_columns (view st')) -> plain_top (view st') ->
  exists s', from_dict parse fresh (to_dict (view st')) = Ok s' /\
             s_name s' = s_name (view st') /\ s_aliases s' = s_aliases (view st') /\ s_pk s' = s_pk (view st') /\
             s_rcm s' = s_rcm (view st') /\ s_rce s' = s_rce (view st') /\ s_dsm s' = s_dsm (view st') /\ s_dse s' = s_dse (view st') /\
             Forall2 same_but_untyped_type (s_columns s') (s_columns (view st')) /\
             s_columns s' = map restored (s_columns (view st')).
Proof. exact session_round_trip. Qed.
Print Assumptions C16_session_round_trip_restores_the_current_schema_partial.

(* to_flatcolumn reads the thirteen listed attributes and nothing else: an attribute outside the list (length - which
   ConstantColumn / FunctionColumn use for their row count -, disposition, origin, expectations) may hold anything, be
   assigned at any time, and the flattened column is the same. *)
Theorem C16_flatten_ignores_unlisted_attributes :
  forall (parse : str -> params -> pv -> result pv) (fresh : str) (c : column) (f : field) (v : pv),
  ~ In f flat_kept -> to_flatcolumn parse fresh (set f v c) = to_flatcolumn parse fresh c.
Proof. exact flatten_ignores_unlisted. Qed.
Print Assumptions C16_flatten_ignores_unlisted_attributes.

(* Flattening a column object after any sequence of assignments / in-place appends keeps the listed attributes of the
   object as it is now. *)
Theorem C16_session_flatten_keeps :
  forall (parse : str -> params -> pv -> result pv) (fresh : str) (c : column) (ops : list fop) (c' : column) (s : str),
  fexec c ops = Some c' ->
  c_name c' = PA (AText s) -> normalised parse c' ->
  exists r, to_flatcolumn parse fresh c' = Ok r /\ forall f, In f flat_kept -> get f r = get f c'.
Proof. exact session_flatten_keeps. Qed.
Print Assumptions C16_session_flatten_keeps.

(* ---------------- round 5: the default is cast with the column's FINAL parameters ---------------- *)
(* Whatever was declared - everything by a type name (DECIMAL(p,s), VARCHAR[n]), part of it by keywords (precision
   only, scale only, length, element type), nothing at all - the constructor first settles length, precision, scale
   and element type (from the name, from the decimal context, scale = 3/4 of the precision) and only THEN casts the
   default: the stored default of a typed column is the result of its type's parse under the parameters the built
   column ends up with, which are exactly the ones every reload (from_dict, from_json) passes again. *)
Theorem C16_default_is_cast_with_the_final_parameters :
  forall (parse : str -> params -> pv -> result pv) (cls fresh : str) (kw : kwargs) (c : column),
  init parse cls fresh kw = Ok c ->
  is_none (c_default c) = false ->
  forall m, c_type c = PA (ATy m) -> m <> missing_member ->
  exists D, parse m (col_params c) D = Ok (c_default c).
Proof. exact init_default_final. Qed.
Print Assumptions C16_default_is_cast_with_the_final_parameters.

(* Hence, for a parse that leaves its own results alone (idempotence of the casts: C07; proved here for the BLOB /
   VARCHAR length cut, C16_length_cut_is_idempotent), EVERY column the constructor builds - from any keywords, any
   class - satisfies the default premise [default_ok] of the round-trip theorems. *)
Theorem C16_constructed_default_survives_reparse :
  forall (parse : str -> params -> pv -> result pv) (cls fresh : str) (kw : kwargs) (c : column),
  parse_idempotent parse ->
  init parse cls fresh kw = Ok c ->
  default_ok parse c (c_default c).
Proof. exact init_default_ok. Qed.
Print Assumptions C16_constructed_default_survives_reparse.

(* ---------------- witnesses ---------------- *)
Definition P0 : str -> params -> pv -> result pv := fun _ _ v => Ok v.
Definition T (s : string) : pv := PA (AText (txt s)).
Definition plain_column (name : string) (ty elt : pv) : column :=
  mkcolumn (T name) PNone ty elt PNone PNone (PL []) (PA (ABool true)) (PL []) (T "0123456789abcdef") PNone PNone PNone
           (PL []) PNone PNone PNone.

(* F-C16-4b (known): an untyped column comes back with type 0, not OrsoTypes._MISSING_TYPE. *)
Theorem C16_untyped_type_refuted :
  exists c c', persistable P0 c /\ init P0 class_flat [] (to_dict_col c) = Ok c' /\ get FType c' <> get FType c.
Proof.
  exists (plain_column "u" (PA (ATy missing_member)) PNone). eexists. split; [|split].
  - split; [|split; [|split]].
    + constructor; cbn.
      * exists missing_member. split; reflexivity.
      * left. reflexivity.
      * intros H. vm_compute in H. discriminate.
      * left. reflexivity.
      * intros H. vm_compute in H. discriminate.
    + intros f Hf. destruct f; try discriminate Hf; reflexivity.
    + vm_compute. reflexivity.
    + reflexivity.
  - vm_compute. reflexivity.
  - vm_compute. discriminate.
Qed.
Print Assumptions C16_untyped_type_refuted.

(* OBSERVATION, outside the property (expectations is not among the attributes it enumerates): an Expectation object
   comes back as its dictionary. *)
Example C16_observation_expectation_objects :
  exists c c', wf_col c /\ init P0 class_flat [] (to_dict_col c) = Ok c' /\ c_expectations c' <> c_expectations c.
Proof.
  exists (mkcolumn (T "e") PNone (PA (ATy (txt "INTEGER"))) PNone PNone PNone (PL []) (PA (ABool true))
                   (PL [AExp true true 1]) (T "id") PNone PNone PNone (PL []) PNone PNone PNone).
  eexists. split; [|split].
  - constructor; cbn.
    + eexists. split; reflexivity.
    + left. reflexivity.
    + intros H. vm_compute in H. discriminate.
    + left. reflexivity.
    + intros H. vm_compute in H. discriminate.
  - vm_compute. reflexivity.
  - vm_compute. discriminate.
Qed.

(* F-C16-8 (known): an ARRAY column without element type comes back with element type VARCHAR. *)
Theorem C16_array_without_element_refuted :
  exists c c', init P0 class_flat [] (to_dict_col c) = Ok c' /\ c_elt c = PNone /\ c_elt c' <> c_elt c.
Proof.
  exists (plain_column "l" (PA (ATy ty_array)) PNone). eexists.
  split; [vm_compute; reflexivity | split; [reflexivity | vm_compute; discriminate]].
Qed.
Print Assumptions C16_array_without_element_refuted.

(* ---------------- non-vacuity ---------------- *)
(* A DECIMAL(10,2) column with a Decimal default, aliases, description, disposition, non-nullable flag, statistics
   and a dictionary-form expectation satisfies [persistable] (for a parse that leaves Decimal('1.5') alone) and
   [json_persistable] (for a serialiser writing it as "1.5" and a parse reading that text back). *)
Definition price : column :=
  mkcolumn (T "price") (PA (ADec 15 (-1))) (PA (ATy (txt "DECIMAL"))) PNone (T "unit price") (PA (ADisp (txt "AGE")))
           (PL [AText (txt "cost")]) (PA (ABool false)) (PL [AExp false true 7]) (T "0123456789abcdef") PNone
           (PA (AInt 10)) (PA (AInt 2)) (PL [AText (txt "t1")]) (PA (AInt 99)) (PA (AFloat 4609434218613702656)) (PA (AInt 0)).
Definition P1 : str -> params -> pv -> result pv :=
  fun _ _ v => if pv_eqb v (T "1.5") then Ok (PA (ADec 15 (-1))) else Ok v.
Definition S1 : atom -> result jval :=
  fun a => if atom_eqb a (ADec 15 (-1)) then Ok (JText (txt "1.5")) else Raise TypeError.

Lemma price_wf : wf_col price.
Proof.
  constructor; cbn.
  - eexists. split; reflexivity.
  - left. reflexivity.
  - intros H. vm_compute in H. discriminate.
  - right. eexists. split; reflexivity.
  - intros _. split; reflexivity.
Qed.

Example C16_nonvacuous_dict :
  persistable P1 price /\ untyped price = false /\
  init P1 class_flat [] (to_dict_col price) = Ok price /\
  lookup FType (to_dict_col price) = Some (T "DECIMAL") /\ lookup FDisposition (to_dict_col price) = Some (T "age").
Proof.
  split; [|repeat split; vm_compute; reflexivity].
  split; [exact price_wf|]. split; [|split].
  - intros f Hf. destruct f; try discriminate Hf; reflexivity.
  - vm_compute. split; [intros H; discriminate | intros _ m H; inversion H; reflexivity].
  - reflexivity.
Qed.

Example C16_nonvacuous_json :
  json_persistable P1 S1 price /\
  bind (to_json S1 price) (from_json P1 []) = Ok price /\
  normalised P1 price /\ bind (to_flatcolumn P1 [] price) (fun c => Ok (c_identity c, c_default c, c_disposition c)) =
                         Ok (T "0123456789abcdef", PA (ADec 15 (-1)), PNone).
Proof.
  split; [|split; [vm_compute; reflexivity | split; [|vm_compute; reflexivity]]].
  - split; [exact price_wf|]. split; [|split].
    + intros f Hf H1 H2. destruct f; try discriminate Hf; try (contradiction H1; reflexivity); try (contradiction H2; reflexivity);
        (apply native_stable; cbn; auto) || (apply native_list_stable; repeat constructor).
    + eexists. split; [vm_compute; reflexivity|]. vm_compute.
      split; [intros H; discriminate | intros _ m H; inversion H; reflexivity].
    + eexists. split; vm_compute; reflexivity.
  - unfold normalised. split; [left; eexists; reflexivity|]. split; [left; reflexivity|].
    split; [intros _; split; reflexivity|]. intros _ m H _. inversion H. reflexivity.
Qed.

(* Round 2 non-vacuity.  BLOB[3] with the text default 'h\233llo' (h, e-acute, l, l, o): the cast keeps the first three
   BYTES 'h' 0xC3 0xA9; the stored default is a fixed point; the hypotheses of C16_cut_default_survives_reparse hold
   for the parse that IS the sub-model. *)
Definition PC : str -> params -> pv -> result pv :=
  fun m q v => match text_cast m q v with Some r => r | None => Ok v end.
Definition blob3 : column :=
  mkcolumn (T "payload") (PA (ABytes [104; 195; 169]%N)) (PA (ATy m_blob)) PNone PNone PNone (PL []) (PA (ABool false)) (PL [])
           (T "0123456789abcdef") (PA (AInt 3)) PNone PNone (PL []) PNone PNone PNone.
Example C16_nonvacuous_cut :
  agrees_with_text_cast PC /\
  text_cast m_blob (col_params blob3) (PA (AText [104; 233; 108; 108; 111]%N)) = Some (Ok (c_default blob3)) /\
  text_cast m_varchar (PA (AInt 3), PNone, PNone, PNone) (PA (ABytes [104; 195; 169; 108; 108; 111]%N)) =
    Some (Ok (PA (AText [104; 233; 108]%N))) /\
  init PC class_flat [] (to_dict_col blob3) = Ok blob3.
Proof.
  split; [|repeat split; vm_compute; reflexivity].
  intros m q v r H. unfold PC. rewrite H. reflexivity.
Qed.

(* Two columns called "id" with different identities and types, and one of them listed twice: all three come back. *)
Definition id_left : column := plain_column "id" (PA (ATy m_varchar)) PNone.
Definition id_right : column :=
  mkcolumn (T "id") PNone (PA (ATy (txt "INTEGER"))) PNone PNone PNone (PL []) (PA (ABool true)) (PL []) (T "fedcba9876543210") PNone PNone PNone
           (PL []) PNone PNone PNone.
Example C16_nonvacuous_repeated_names :
  let s := mkschema (T "j") (PL []) [id_left; id_right; id_left] (T "id") PNone PNone PNone PNone in
  from_dict P0 (fun _ => []) (to_dict s) = Ok s.
Proof. vm_compute. reflexivity. Qed.

(* Round 3 non-vacuity: a session on [id_left; id_right; id_left again - the SAME object]: save, append an alias to
   object 0 and to the schema in place, list object 1 once more, save again.  The second round trip returns the
   schema with the new alias at BOTH positions of object 0, the new schema alias and four columns. *)
Example C16_nonvacuous_session :
  let st0 : sstate := ([id_left; id_right], [0; 1; 0]%nat, mkschema (T "j") (PL []) [] (T "id") PNone PNone PNone PNone) in
  let ops := [SRound (Raise OtherExn) (Raise OtherExn); SColAppend 0 FAliases (AText (txt "l.id"));
              STopAppend (AText (txt "joined")); SListAppend 1; SRound (Raise OtherExn) (Raise OtherExn)] in
  exists st', exec st0 ops = Some st' /\
              from_dict P0 (fun _ => []) (to_dict (view st')) = Ok (view st') /\
              map c_aliases (s_columns (view st')) = [PL [AText (txt "l.id")]; PL []; PL [AText (txt "l.id")]; PL []] /\
              s_aliases (view st') = PL [AText (txt "joined")] /\
              view st' <> view st0.
Proof.
  eexists. split; [vm_compute; reflexivity|]. split; [vm_compute; reflexivity|].
  split; [vm_compute; reflexivity|]. split; [vm_compute; reflexivity|]. vm_compute. discriminate.
Qed.

(* A ConstantColumn-like object built for 1000 rows, later told to stand for 3 rows, flattens to the same column. *)
Example C16_nonvacuous_flatten_session :
  let c := mkcolumn (T "greeting") (T "hello, world!") (PA (ATy m_varchar)) PNone PNone PNone (PL []) (PA (ABool true)) (PL [])
                    (T "0123456789abcdef") (PA (AInt 1000)) PNone PNone (PL []) PNone PNone PNone in
  exists c', fexec c [FFlatten (RSame []) (RSame []); FSet FLength (PA (AInt 3)); FAppend FAliases (AText (txt "g"))] = Some c' /\
             c_length c' = PA (AInt 3) /\
             bind (to_flatcolumn PC [] c') (fun r => Ok (c_default r, c_length r, c_aliases r)) =
             Ok (T "hello, world!", PNone, PL [AText (txt "g")]).
Proof. eexists. split; [vm_compute; reflexivity|]. split; vm_compute; reflexivity. Qed.

(* Round 5 non-vacuity / the two declaration paths agree: parameters said by the type name and the same parameters
   said by keywords build the same column (identity given), and a DECIMAL column with only its precision declared gets
   scale 7 BEFORE its default is cast (the parse below records the precision and scale it is given). *)
Definition PR : str -> params -> pv -> result pv :=
  fun m q v => let '(len, p, s, e) := q in
               match text_cast m q v with Some r => r | None => Ok (PL [AText m; match p with PA a => a | _ => ANone end;
                                                                        match s with PA a => a | _ => ANone end]) end.
Definition kw_of (ty : string) (extra : kwargs) : kwargs :=
  [(FName, T "x"); (FType, T ty); (FIdentity, T "0123456789abcdef"); (FDefault, T "1.123456789")] ++ extra.
Example C16_nonvacuous_two_paths :
  init PR class_flat [] (kw_of "DECIMAL(10,2)" []) = init PR class_flat [] (kw_of "DECIMAL" [(FPrecision, PA (AInt 10)); (FScale, PA (AInt 2))]) /\
  init PR class_flat [] (kw_of "VARCHAR[3]" []) = init PR class_flat [] (kw_of "VARCHAR" [(FLength, PA (AInt 3))]) /\
  init PR class_flat [] (kw_of "BLOB[8]" []) = init PR class_flat [] (kw_of "blob" [(FLength, PA (AInt 8))]) /\
  init PR class_flat [] (kw_of "ARRAY<INTEGER>" []) = init PR class_flat [] (kw_of "ARRAY" [(FElementType, T "INTEGER")]) /\
  bind (init PR class_flat [] (kw_of "DECIMAL" [(FPrecision, PA (AInt 10))])) (fun c => Ok (c_precision c, c_scale c, c_default c)) =
    Ok (PA (AInt 10), PA (AInt 7), PL [AText ty_decimal; AInt 10; AInt 7]) /\
  bind (init PR class_flat [] (kw_of "DECIMAL" [])) (fun c => Ok (c_precision c, c_scale c, c_default c)) =
    Ok (PA (AInt decimal_default_precision), PA (AInt 21), PL [AText ty_decimal; AInt decimal_default_precision; AInt 21]) /\
  bind (init PR class_flat [] (kw_of "VARCHAR[3]" [])) (fun c => Ok (c_default c)) = Ok (T "1.1").
Proof. repeat split; vm_compute; reflexivity. Qed.

(* ---------------- round 7: looking columns up by name on a schema that has been in use and edited ---------------- *)
(* RelationSchema.find_column(name) - the path of RelationSchema.column(name) and of every DataFrame.description - is
   [find_col]: the position of the FIRST column of the columns list AS IT IS NOW one of whose names (aliases + name) is
   the text asked for.  A lookup ([SFind]) is an observation; the correspondence evaluates it at every such step of a
   session on the current state and on the schema restored from it. *)
Theorem C16_lookup_does_not_change_the_objects :
  forall (st : sstate) (name : str) (live rest : result (option nat)), step st (SFind name live rest) = Some st.
Proof. exact lookup_keeps_state. Qed.
Print Assumptions C16_lookup_does_not_change_the_objects.

(* what a lookup returns: the first listed column that answers to the name, none if no column does *)
Theorem C16_lookup_returns_the_first_column_answering_to_the_name :
  forall (name : str) (s : schema),
  (forall k, find_col s name = Ok (Some k) ->
     (k < List.length (s_columns s))%nat /\ answers_to name (nth k (s_columns s) dummy_column) = Ok true /\
     forall j, (j < k)%nat -> answers_to name (nth j (s_columns s) dummy_column) = Ok false) /\
  (find_col s name = Ok None -> Forall (fun c => answers_to name c = Ok false) (s_columns s)).
Proof.
  intros name s. split.
  - intros k H. destruct (find_pos_some name (s_columns s) 0 k H) as [j [H1 [H2 [H3 H4]]]]. cbn in H1. subst k. repeat split; assumption.
  - exact (find_pos_none name (s_columns s) 0).
Qed.
Print Assumptions C16_lookup_returns_the_first_column_answering_to_the_name.

(* ... it reads the names and aliases of the columns as listed now and nothing else (two schemas that agree on those
   answer every lookup alike - whatever lookups were made before, there is nothing else to answer from) *)
Theorem C16_lookup_reads_current_names_and_aliases_only :
  forall (name : str) (s s' : schema),
  map c_name (s_columns s) = map c_name (s_columns s') -> map c_aliases (s_columns s) = map c_aliases (s_columns s') ->
  find_col s name = find_col s' name.
Proof. intros name s s' H1 H2. exact (find_pos_names_only name (s_columns s) (s_columns s') 0 H1 H2). Qed.
Print Assumptions C16_lookup_reads_current_names_and_aliases_only.

(* schema.columns[i] = obj_o (a column redefined in place): position i of the columns list now shows object o, every
   other position is as before, the number of columns is unchanged *)
Theorem C16_redefining_a_column_in_place_shows_at_that_position :
  forall (h : list column) (refs : list nat) (top : schema) (i o : nat) (st' : sstate),
  step (h, refs, top) (SListSet i o) = Some st' ->
  (i < List.length (s_columns (view (h, refs, top))))%nat /\
  s_columns (view st') = upd i (fun _ => nth o h dummy_column) (s_columns (view (h, refs, top))).
Proof. exact list_set_view. Qed.
Print Assumptions C16_redefining_a_column_in_place_shows_at_that_position.

(* The restored schema behaves identically under lookups: after ANY sequence of operations (lookups, aliases appended,
   columns renamed, redefined in place, the list shrunk and grown), the schema restored now finds - for every name -
   the column at the same position as the schema as it is now. *)
Theorem C16_restored_schema_finds_the_same_columns :
  forall (parse : str -> params -> pv -> result pv) (fresh : nat -> str) (st : sstate) (ops : list sop) (st' : sstate),
  exec st ops = Some st' ->
  Forall (persistable parse) (s_columns (view st')) -> plain_top (view st') ->
  exists s', from_dict parse fresh (to_dict (view st')) = Ok s' /\
             forall name, find_col s' name = find_col (view st') name.
Proof. exact session_restored_finds_same. Qed.
Print Assumptions C16_restored_schema_finds_the_same_columns.

(* Round 7 non-vacuity: [id_left (VARCHAR); id_right (INTEGER)], both named "id": looked up, then the first renamed,
   given the alias "key", and position 1 redefined as object 0 as well - every lookup follows the current definitions,
   and the restored schema answers the same. *)
Example C16_nonvacuous_lookup_session :
  let st0 : sstate := ([id_left; id_right], [0; 1]%nat, mkschema (T "j") (PL []) [] (T "id") PNone PNone PNone PNone) in
  let ops := [SFind (txt "id") (Ok (Some 0%nat)) (Ok (Some 0%nat)); SColSet 0 FName (T "l_id"); SColAppend 0 FAliases (AText (txt "key"))] in
  find_col (view st0) (txt "id") = Ok (Some 0%nat) /\ find_col (view st0) (txt "key") = Ok None /\
  exists st' st'', exec st0 ops = Some st' /\ step st' (SListSet 1 0) = Some st'' /\
    find_col (view st') (txt "id") = Ok (Some 1%nat) /\ find_col (view st') (txt "l_id") = Ok (Some 0%nat) /\
    find_col (view st') (txt "key") = Ok (Some 0%nat) /\
    find_col (view st'') (txt "id") = Ok None /\ find_col (view st'') (txt "key") = Ok (Some 0%nat) /\
    bind (from_dict P0 (fun _ => []) (to_dict (view st''))) (fun r => find_col r (txt "key")) = Ok (Some 0%nat) /\
    bind (from_dict P0 (fun _ => []) (to_dict (view st'))) (fun r => find_col r (txt "id")) = Ok (Some 1%nat).
Proof.
  split; [vm_compute; reflexivity|]. split; [vm_compute; reflexivity|].
  eexists. eexists. split; [vm_compute; reflexivity|]. split; [vm_compute; reflexivity|].
  repeat split; vm_compute; reflexivity.
Qed.
