(* C16 - Schemas and columns survive persistence round-trips unchanged. *)
From Coq Require Import List NArith ZArith Bool.
From Orso Require Import Base.C16_Defs Gen.C16_Fields Model.C16 Proofs.C16.
Import ListNotations.

Theorem C16_declared_fields_are_the_modelled_ones :
  map fst column_field_table = map field_name all_fields /\
  map fst schema_field_table = schema_field_names.
Proof. exact field_tables_modelled. Qed.
Print Assumptions C16_declared_fields_are_the_modelled_ones.
