(* C12 - GroupBy aggregates equal a reference partition-and-fold.
   Property theorems only; each is closed by [exact] of a lemma from Proofs/C12.v or
   Proofs/C12_Session.v (the _refuted witness and the Examples by vm_compute) and
   followed by Print Assumptions.  K is the type of non-integer, non-null cells (text,
   floats ...) with a boolean equality that decides Leibniz equality; the theorems hold
   for every such K. *)
From Coq Require Import List ZArith QArith Bool Permutation.
From Orso Require Import Model.C12 Proofs.C12 Proofs.C12_Session Proofs.C12_Columns.
Import ListNotations.
Close Scope Q_scope.
Close Scope Z_scope.

(* For all frames (list- or generator-backed), key column lists and non-empty request
   lists: the code model of aggregate (emission of (key, column, value) triples,
   first-seen key bookkeeping, null-skipping collection into nested dictionaries, per-group
   folds, result dictionaries) returns exactly the specification: ValueError for an unknown
   key column, otherwise one dictionary per distinct key in first-seen order holding, under
   FUNC(column), the fold of FUNC over the group's non-null values of the column, then the
   key columns; TypeError when a fold is not defined (SUM/AVG of a column the frame lacks). *)
Theorem C12_code_eq_spec :
  forall (K : Type) (K_eqb : K -> K -> bool),
  (forall a b : K, K_eqb a b = true <-> a = b) ->
  forall (f : frame K) (keycols : list name) (reqs : list (func * name)),
  reqs <> [] ->
  fst (aggregate K K_eqb f keycols reqs) = spec_aggregate K K_eqb (fnames f) (frows f) keycols reqs.
Proof. exact code_eq_spec. Qed.
Print Assumptions C12_code_eq_spec.

(* One output row per distinct key: the output rows correspond one-to-one, in order, to
   the duplicate-free list D of keys; a key is in D exactly when some input row has it
   (keys are compared by equality of their values, never by a hash); and each output row
   carries, under every key column name, that key's value. *)
Theorem C12_one_row_per_distinct_key :
  forall (K : Type) (K_eqb : K -> K -> bool),
  (forall a b : K, K_eqb a b = true <-> a = b) ->
  forall (f : frame K) (keycols : list name) (reqs : list (func * name)) (rs : list (list (lab * cell K))),
  reqs <> [] ->
  fst (aggregate K K_eqb f keycols reqs) = Ok rs ->
  exists gidx, group_indices (fnames f) keycols = Some gidx /\
    let D := dedup (key_eqb K K_eqb) (map (key_of K gidx) (frows f)) in
    NoDup D /\
    (forall k, In k D <-> exists r, In r (frows f) /\ key_of K gidx r = k) /\
    Forall2 (fun k row => Forall2 (fun n v => dget lab_eqb (LKey n) row = Some (CVal v)) keycols k) D rs.
Proof. exact one_row_per_key. Qed.
Print Assumptions C12_one_row_per_distinct_key.

(* Each requested aggregate, found under its label FUNC(column) in the row of group k, is
   the fold of FUNC over the non-null values of that column in the rows whose key equals k. *)
Theorem C12_cells_are_reference_folds :
  forall (K : Type) (K_eqb : K -> K -> bool),
  (forall a b : K, K_eqb a b = true <-> a = b) ->
  forall (f : frame K) (keycols : list name) (reqs : list (func * name)) (rs : list (list (lab * cell K))),
  reqs <> [] ->
  fst (aggregate K K_eqb f keycols reqs) = Ok rs ->
  exists gidx, group_indices (fnames f) keycols = Some gidx /\
    Forall2 (fun k row => forall fn c, In (fn, c) reqs ->
               exists y, fold_agg K fn (column_values K (fnames f) c (group_of K K_eqb gidx (frows f) k)) = Some y /\
                         dget lab_eqb (LAgg fn c) row = Some y)
            (dedup (key_eqb K K_eqb) (map (key_of K gidx) (frows f))) rs.
Proof. exact cells_are_reference. Qed.
Print Assumptions C12_cells_are_reference_folds.

(* ... where the folds are MIN, MAX, SUM, COUNT and AVG as usually defined: over the
   integers zs of the group COUNT is their number; with none, the others are null; with
   some, MIN / MAX is an element below / above all others, SUM their sum, AVG the rational
   sum / count. *)
Theorem C12_aggregates_as_usually_defined :
  forall (K : Type) (vals : list (val K)) (zs : list Z),
  mapM (as_int K) vals = Some zs ->
  fold_agg K COUNT vals = Some (CVal (VInt (Z.of_nat (length zs)))) /\
  (zs = [] -> forall fn, fn <> COUNT -> fold_agg K fn vals = Some (CVal VNull)) /\
  (zs <> [] ->
     (exists m, fold_agg K MIN vals = Some (CVal (VInt m)) /\ In m zs /\ forall x, In x zs -> (m <= x)%Z) /\
     (exists m, fold_agg K MAX vals = Some (CVal (VInt m)) /\ In m zs /\ forall x, In x zs -> (x <= m)%Z) /\
     fold_agg K SUM vals = Some (CVal (VInt (fold_right Z.add 0%Z zs))) /\
     (exists q, fold_agg K AVG vals = Some (CRat q) /\
                (q == inject_Z (fold_right Z.add 0%Z zs) / inject_Z (Z.of_nat (length zs)))%Q)).
Proof. exact fold_agg_defined. Qed.
Print Assumptions C12_aggregates_as_usually_defined.

(* The values folded: for a column of the frame, the group's non-null cells of that column ... *)
Theorem C12_values_are_the_non_null_cells :
  forall (K : Type) (names : list name) (c : name) (i : nat) (g : list (list (val K))),
  index_of c names = Some i ->
  column_values K names c g = filter (nonnull K) (map (fun r => cellat K r i) g).
Proof. exact column_values_known. Qed.
Print Assumptions C12_values_are_the_non_null_cells.

(* ... and COUNT of a column the frame does not have - COUNT( * ) - is the group size. *)
Theorem C12_count_star_is_group_size :
  forall (K : Type) (names : list name) (c : name) (g : list (list (val K))),
  index_of c names = None ->
  fold_agg K COUNT (column_values K names c g) = Some (CVal (VInt (Z.of_nat (length g)))).
Proof. exact count_star. Qed.
Print Assumptions C12_count_star_is_group_size.

(* Requested together or one at a time: a request that is part of a successful joint call
   succeeds alone, with the same groups in the same order, the same cell under its label and
   the same key columns. *)
Theorem C12_together_or_one_at_a_time :
  forall (K : Type) (K_eqb : K -> K -> bool),
  (forall a b : K, K_eqb a b = true <-> a = b) ->
  forall (f : frame K) (keycols : list name) (reqs : list (func * name)) (rs : list (list (lab * cell K)))
         (fn : func) (c : name),
  fst (aggregate K K_eqb f keycols reqs) = Ok rs -> In (fn, c) reqs ->
  exists rs1, fst (aggregate K K_eqb f keycols [(fn, c)]) = Ok rs1 /\
    Forall2 (fun row row1 => dget lab_eqb (LAgg fn c) row = dget lab_eqb (LAgg fn c) row1 /\
                             forall n, dget lab_eqb (LKey n) row = dget lab_eqb (LKey n) row1) rs rs1.
Proof. exact single_vs_joint. Qed.
Print Assumptions C12_together_or_one_at_a_time.

(* For all permutations of the input rows the result dictionaries are the same up to
   their order (and an exception, if any, is the same) ... *)
Theorem C12_row_permutation :
  forall (K : Type) (K_eqb : K -> K -> bool),
  (forall a b : K, K_eqb a b = true <-> a = b) ->
  forall (names : list name) (rows rows' : list (list (val K))) (lz lz' : bool)
         (keycols : list name) (reqs : list (func * name)),
  reqs <> [] -> Permutation rows rows' ->
  match fst (aggregate K K_eqb (mkframe names rows lz) keycols reqs),
        fst (aggregate K K_eqb (mkframe names rows' lz') keycols reqs) with
  | Ok a, Ok b => Permutation a b
  | Raise e, Raise e' => e = e'
  | _, _ => False
  end.
Proof. exact aggregate_perm. Qed.
Print Assumptions C12_row_permutation.

(* ... and so is the DataFrame built from them: same column labels, rows equal up to order. *)
Theorem C12_row_permutation_frame :
  forall (K : Type) (K_eqb : K -> K -> bool),
  (forall a b : K, K_eqb a b = true <-> a = b) ->
  forall (names : list name) (rows rows' : list (list (val K))) (lz lz' : bool)
         (keycols : list name) (reqs : list (func * name)),
  reqs <> [] -> Permutation rows rows' ->
  match fst (aggregate K K_eqb (mkframe names rows lz) keycols reqs),
        fst (aggregate K K_eqb (mkframe names rows' lz') keycols reqs) with
  | Ok a, Ok b => fst (to_frame K a) = fst (to_frame K b) /\
                  Permutation (snd (to_frame K a)) (snd (to_frame K b))
  | Raise e, Raise e' => e = e'
  | _, _ => False
  end.
Proof. exact aggregate_frame_perm. Qed.
Print Assumptions C12_row_permutation_frame.

(* Lazily backed = materialised: same result ... *)
Theorem C12_lazy_eq_eager :
  forall (K : Type) (K_eqb : K -> K -> bool)
         (names : list name) (rows : list (list (val K))) (keycols : list name) (reqs : list (func * name)),
  fst (aggregate K K_eqb (mkframe names rows true) keycols reqs) =
  fst (aggregate K K_eqb (mkframe names rows false) keycols reqs).
Proof. exact lazy_eq_eager. Qed.
Print Assumptions C12_lazy_eq_eager.

(* ... while the frame itself is untouched if list-backed and spent if generator-backed
   (untouched when the call raised ValueError before reading a record). *)
Theorem C12_frame_afterwards :
  forall (K : Type) (K_eqb : K -> K -> bool)
         (f : frame K) (keycols : list name) (reqs : list (func * name)),
  snd (aggregate K K_eqb f keycols reqs) =
  match group_indices (fnames f) keycols with
  | None => f
  | Some _ => if flazy f then mkframe (fnames f) [] true else f
  end.
Proof. exact frame_after. Qed.
Print Assumptions C12_frame_afterwards.

(* groups(): one dictionary of key columns per distinct key, in first-seen order. *)
Theorem C12_groups :
  forall (K : Type) (K_eqb : K -> K -> bool),
  (forall a b : K, K_eqb a b = true <-> a = b) ->
  forall (f : frame K) (keycols : list name),
  fst (groups K K_eqb f keycols) =
  match group_indices (fnames f) keycols with
  | None => Raise ValueError
  | Some gidx => Ok (map (fun k => dict_of lab_eqb (keypairs K (fnames f) gidx k))
                         (dedup (key_eqb K K_eqb) (map (key_of K gidx) (frows f))))
  end.
Proof. exact groups_spec. Qed.
Print Assumptions C12_groups.

(* Outside the property's quantifier ("non-empty lists of requests"), recorded so that the
   hypothesis reqs <> [] above is seen to be needed: with no request no record is collected
   and the result has no rows at all, whatever the frame. *)
Theorem C12_empty_requests :
  forall (K : Type) (K_eqb : K -> K -> bool) (f : frame K) (keycols : list name),
  fst (aggregate K K_eqb f keycols []) =
  match group_indices (fnames f) keycols with None => Raise ValueError | Some _ => Ok [] end.
Proof. exact empty_requests. Qed.
Print Assumptions C12_empty_requests.

(* The label text FUNC(column) determines the function and the column, so modelling the
   dictionary keys as (function, column) pairs loses nothing. *)
Theorem C12_label_text_injective :
  forall (f : func) (c : name) (g : func) (d : name),
  render (LAgg f c) = render (LAgg g d) -> f = g /\ c = d.
Proof. exact render_agg_inj. Qed.
Print Assumptions C12_label_text_injective.

(* ---------- sessions: the same objects used again, the frame mutated in between ---------- *)
(* A heap holds frames (list- or generator-backed) and GroupBy objects; a GroupBy refers to its
   frame and carries self._group_keys from earlier calls.  Operations: append a row, materialise,
   take a GroupBy, aggregate / groups on an EXISTING GroupBy.  At EVERY state h of the heap -
   in particular every state a session reaches from any initial frames by any operations -
   aggregate on any GroupBy object gb returns exactly the partition-and-fold of the rows its
   frame f holds at that moment: nothing the object or the frame went through before (earlier
   calls with the same or other requests, rows appended since, a generator already spent,
   other GroupBy objects over the same frame) changes the answer; the frame is left as a fresh
   aggregate leaves it. *)
Theorem C12_session_aggregate_depends_only_on_current_rows :
  forall (K : Type) (K_eqb : K -> K -> bool),
  (forall a b : K, K_eqb a b = true <-> a = b) ->
  forall (h : heap K) (g : nat) (reqs : list (func * name)) (gb : gbobj K) (f : frame K),
  reqs <> [] ->
  nth_error (hgbs h) g = Some gb -> nth_error (hframes h) (gframe gb) = Some f ->
  snd (step K K_eqb h (OAggregate g reqs)) =
    OutRes (spec_aggregate K K_eqb (fnames f) (frows f) (gcols gb) reqs)
  /\ nth_error (hframes (fst (step K K_eqb h (OAggregate g reqs)))) (gframe gb) =
     Some (snd (aggregate K K_eqb f (gcols gb) reqs)).
Proof. exact session_aggregate. Qed.
Print Assumptions C12_session_aggregate_depends_only_on_current_rows.

(* The outputs of a session are the outputs of its steps, each taken at the state the
   preceding operations lead to - so the theorems here speak of every call of every session. *)
Theorem C12_session_outputs_stepwise :
  forall (K : Type) (K_eqb : K -> K -> bool) (ops : list (op K)) (h : heap K) (o : op K),
  run K K_eqb h (ops ++ [o]) =
  (fst (step K K_eqb (fst (run K K_eqb h ops)) o),
   snd (run K K_eqb h ops) ++ [snd (step K K_eqb (fst (run K K_eqb h ops)) o)]).
Proof. exact run_snoc. Qed.
Print Assumptions C12_session_outputs_stepwise.

(* groups() on an existing GroupBy object, at every state of the heap and for list-backed and
   generator-backed frames alike (the restriction to list-backed sessions and the refutation of
   the full statement went with the fix of F-C12-5): it is groups() of the rows the frame holds
   now (C12_groups: one row per distinct key), and the frame is left as a fresh groups() leaves it. *)
Theorem C12_session_groups_depends_only_on_current_rows :
  forall (K : Type) (K_eqb : K -> K -> bool)
         (h : heap K) (g : nat) (gb : gbobj K) (f : frame K),
  nth_error (hgbs h) g = Some gb -> nth_error (hframes h) (gframe gb) = Some f ->
  snd (step K K_eqb h (OGroups g)) = OutRes (fst (groups K K_eqb f (gcols gb)))
  /\ nth_error (hframes (fst (step K K_eqb h (OGroups g)))) (gframe gb) =
     Some (snd (groups K K_eqb f (gcols gb))).
Proof. exact session_groups. Qed.
Print Assumptions C12_session_groups_depends_only_on_current_rows.

(* What a GroupBy object holds after aggregate or groups is the key bookkeeping of that call's
   pass over the rows it read (unchanged if ValueError was raised before reading): nothing older
   survives in it. *)
Theorem C12_session_object_holds_last_pass_only :
  forall (K : Type) (K_eqb : K -> K -> bool)
         (h : heap K) (g : nat) (gb : gbobj K) (f : frame K) (o : op K),
  nth_error (hgbs h) g = Some gb -> nth_error (hframes h) (gframe gb) = Some f ->
  (o = OGroups g \/ exists reqs, o = OAggregate g reqs) ->
  nth_error (hgbs (fst (step K K_eqb h o))) g =
  Some (mkgb (gframe gb) (gcols gb)
         match group_indices (fnames f) (gcols gb) with
         | None => gmemo gb
         | Some gidx => group_keys K K_eqb (fnames f) gidx (frows f)
         end).
Proof. exact session_memo_is_last_pass. Qed.
Print Assumptions C12_session_object_holds_last_pass_only.

(* The methods of a GroupBy object are the functions of its frame, whatever the object holds. *)
Theorem C12_groupby_object_methods :
  forall (K : Type) (K_eqb : K -> K -> bool) (memo : gkmemo K) (f : frame K) (keycols : list name)
         (reqs : list (func * name)),
  fst (gb_aggregate K K_eqb memo f keycols reqs) = aggregate K K_eqb f keycols reqs /\
  fst (gb_groups K K_eqb memo f keycols) = groups K K_eqb f keycols.
Proof. intros. split; [apply gb_aggregate_eq|apply gb_groups_eq]. Qed.
Print Assumptions C12_groupby_object_methods.

(* ---------- which column a name denotes ---------- *)
(* A name (key column or requested column) denotes the FIRST frame column whose name is the same
   sequence of code points - no case folding, no Unicode normalisation, no trimming: "v" and "V",
   "strasse" and "stra\195\159e", "k" and the Kelvin sign are different columns. *)
Theorem C12_name_denotes_first_exact_match :
  forall (t : name) (names : list name) (i : nat),
  index_of t names = Some i <->
  (nth_error names i = Some t /\ forall j, j < i -> nth_error names j <> Some t).
Proof. exact index_of_exact. Qed.
Print Assumptions C12_name_denotes_first_exact_match.

(* ... and only the named columns matter: two frames with the same column names whose rows agree,
   row by row, on the cells of the key columns and of the columns named in the requests give the
   same result, whatever their other columns hold (a sibling column whose name differs by case
   included). *)
Theorem C12_only_named_columns_matter :
  forall (K : Type) (K_eqb : K -> K -> bool),
  (forall a b : K, K_eqb a b = true <-> a = b) ->
  forall (names : list name) (rows rows' : list (list (val K))) (lz lz' : bool)
         (keycols : list name) (reqs : list (func * name)) (gidx : list nat),
  reqs <> [] ->
  group_indices names keycols = Some gidx ->
  Forall2 (same_named_cells K names gidx (map snd reqs)) rows rows' ->
  fst (aggregate K K_eqb (mkframe names rows lz) keycols reqs) =
  fst (aggregate K K_eqb (mkframe names rows' lz') keycols reqs).
Proof. exact only_named_columns. Qed.
Print Assumptions C12_only_named_columns_matter.

(* ---------- non-vacuity ---------- *)
(* The hypotheses are satisfiable by a non-trivial value: a 5-row frame keyed on k with the
   hash-colliding keys -1 and -2, a null key, an all-null group and a repeated column;
   the request list is non-empty, the call succeeds, and a permutation of the rows
   gives the same three rows in another order. *)
Example C12_nonvacuous :
  let names : list name := [[107]; [118]]%N in            (* "k", "v" *)
  let rows : list (list (val kc)) :=
    [[vi (-1); vi 1]; [vi (-2); vi 2]; [vi (-1); vi 4]; [vn; vn]; [vi (-2); vn]]%Z in
  let reqs : list (func * name) := [(SUM, [118]); (COUNT, [118]); (AVG, [118]); (COUNT, [42])]%N in
  reqs <> [] /\
  Permutation rows (rev rows) /\
  fst (aggregate kc kc_eqb (mkframe names rows false) [[107%N]] reqs) =
    Ok [ [(LAgg SUM [118%N], cv (vi 5)); (LAgg COUNT [118%N], cv (vi 2)); (LAgg AVG [118%N], cq 5 2);
          (LAgg COUNT [42%N], cv (vi 2)); (LKey [107%N], cv (vi (-1)))];
         [(LAgg SUM [118%N], cv (vi 2)); (LAgg COUNT [118%N], cv (vi 1)); (LAgg AVG [118%N], cq 2 1);
          (LAgg COUNT [42%N], cv (vi 2)); (LKey [107%N], cv (vi (-2)))];
         [(LAgg SUM [118%N], cv vn); (LAgg COUNT [118%N], cv (vi 0)); (LAgg AVG [118%N], cv vn);
          (LAgg COUNT [42%N], cv (vi 1)); (LKey [107%N], cv vn)] ] /\
  (exists rs, fst (aggregate kc kc_eqb (mkframe names (rev rows) true) [[107%N]] reqs) = Ok rs /\ length rs = 3).
Proof.
  cbv zeta. split; [discriminate|]. split; [apply Permutation_rev|]. split; [vm_compute; reflexivity|].
  eexists. split; [vm_compute; reflexivity|reflexivity].
Qed.

(* ... and the decidable-equality premise is satisfiable: kc_eqb (the instance the
   correspondence evaluates) decides equality on kc. *)
Example C12_kc_eqb_decides : forall a b : kc, kc_eqb a b = true <-> a = b.
Proof. exact kc_eqb_spec. Qed.

(* ... and a session exists in which the same GroupBy object is used twice with the frame
   appended to in between: the first SUM(v) answers for the rows then present, the second for
   all rows, a new group included. *)
Example C12_session_nonvacuous :
  let names : list name := [[107]; [118]]%N in
  let frames := [mkframe names [[vi (-1); vi 1]; [vi (-2); vi 2]]%Z false] in
  let ops := [ogb 0 [[107%N]]; oagg 0 [(SUM, [118%N])]; oapp 0 [vi (-1); vi 100]%Z; oapp 0 [vn; vi 7]%Z;
              oagg 0 [(SUM, [118%N])]; ogrp 0] in
  snd (run kc kc_eqb (mkheap frames []) ops) =
    [OutUnit;
     OutRes (Ok [[(LAgg SUM [118%N], cv (vi 1)); (LKey [107%N], cv (vi (-1)))];
                 [(LAgg SUM [118%N], cv (vi 2)); (LKey [107%N], cv (vi (-2)))]]);
     OutUnit; OutUnit;
     OutRes (Ok [[(LAgg SUM [118%N], cv (vi 101)); (LKey [107%N], cv (vi (-1)))];
                 [(LAgg SUM [118%N], cv (vi 2)); (LKey [107%N], cv (vi (-2)))];
                 [(LAgg SUM [118%N], cv (vi 7)); (LKey [107%N], cv vn)]]);
     OutRes (Ok [[(LKey [107%N], cv (vi (-1)))]; [(LKey [107%N], cv (vi (-2)))]; [(LKey [107%N], cv vn)]])].
Proof.
  cbv zeta. vm_compute. reflexivity.
Qed.

(* ... and the session that witnessed F-C12-5: a generator-backed frame is scanned by count(),
   materialised (empty), appended to; groups() of the same GroupBy object lists the key of the
   one row the frame holds, not the keys the generator has given up. *)
Example C12_session_after_generator_spent :
  snd (run kc kc_eqb (mkheap [mkframe [[107%N]; [118%N]] [[vi 1; vi 1]; [vi 2; vi 2]]%Z true] [])
           [ogb 0 [[107%N]]; oagg 0 [(COUNT, [42%N])]; omat 0; oapp 0 [vi 3; vi 5]%Z; ogrp 0; oagg 0 [(COUNT, [42%N])]]) =
    [OutUnit;
     OutRes (Ok [[(LAgg COUNT [42%N], cv (vi 1)); (LKey [107%N], cv (vi 1))];
                 [(LAgg COUNT [42%N], cv (vi 1)); (LKey [107%N], cv (vi 2))]]);
     OutCount 0; OutUnit;
     OutRes (Ok [[(LKey [107%N], cv (vi 3))]]);
     OutRes (Ok [[(LAgg COUNT [42%N], cv (vi 1)); (LKey [107%N], cv (vi 3))]])].
Proof. vm_compute. reflexivity. Qed.

(* ... and frames with sibling columns exist: columns "k", "v", "V" (118 / 86); SUM(v), SUM(V) and
   COUNT of the absent "K" are each taken from the column named (the absent one counts rows);
   overwriting column V leaves SUM(v) as it was. *)
Example C12_sibling_columns :
  let names : list name := [[107]; [118]; [86]]%N in
  let rows : list (list (val kc)) := [[vi 1; vi 1; vi 100]; [vi 1; vi 2; vn]; [vi 2; vn; vi 300]]%Z in
  let rows' : list (list (val kc)) := [[vi 1; vi 1; vi 7]; [vi 1; vi 2; vi 7]; [vi 2; vn; vn]]%Z in
  fst (aggregate kc kc_eqb (mkframe names rows false) [[107%N]] [(SUM, [118%N]); (SUM, [86%N]); (COUNT, [75%N])]) =
    Ok [ [(LAgg SUM [118%N], cv (vi 3)); (LAgg SUM [86%N], cv (vi 100)); (LAgg COUNT [75%N], cv (vi 2)); (LKey [107%N], cv (vi 1))];
         [(LAgg SUM [118%N], cv vn); (LAgg SUM [86%N], cv (vi 300)); (LAgg COUNT [75%N], cv (vi 1)); (LKey [107%N], cv (vi 2))] ] /\
  Forall2 (same_named_cells kc names [0] (map snd [(SUM, [118%N])])) rows rows' /\
  group_indices names [[75%N]] = None.
Proof.
  cbv zeta. split; [vm_compute; reflexivity|]. split; [|vm_compute; reflexivity].
  assert (P : forall r r' : list (val kc), cellat kc r 0 = cellat kc r' 0 -> cellat kc r 1 = cellat kc r' 1 ->
              same_named_cells kc [[107]; [118]; [86]]%N [0] (map snd [(SUM, [118%N])]) r r').
  { intros r r' H0 H1. split.
    - intros i [<-|[]]. exact H0.
    - intros c i [<-|[]] H. vm_compute in H. inversion H; subst. exact H1. }
  constructor; [apply P; reflexivity|]. constructor; [apply P; reflexivity|].
  constructor; [apply P; reflexivity|]. constructor.
Qed.
