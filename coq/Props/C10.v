(* C10 - Native kernels match their Python definitions and are bounds-safe.
   Property theorems only; each is closed by [exact] of a lemma from Proofs/C10.v and
   followed by Print Assumptions.  [collect] is the model of collect_cython written as
   compiled.pyx:102-154 writes it; [UB] is an unchecked read outside the object. *)
From Coq Require Import List ZArith Bool NArith.
From Orso Require Import Model.C10 Proofs.C10 Proofs.C10_Frame Proofs.C10_Session Proofs.C10_PyDef.
Import ListNotations.

(* Rectangular tuple rows (every row as wide as the first), any index vector, any limit:
   - no rows: an empty result, whatever the indexes (there is no width to be outside of);
   - every index inside [0, width): Ok of the Python definition result[i][j] = rows[j][cols[i]]
     over the first limit' rows (all rows when the limit is negative or exceeds the row count);
   - IndexError exactly when some index is outside [0, width). *)
Theorem C10_collect_correct :
  forall (A : Type) (w : nat) (rows : list (list A)) (cols : list Z) (limit : Z),
  rectangular A w rows ->
  (rows = [] -> collect (map RTuple rows) cols limit = Ok (repeat [] (length cols))) /\
  (rows <> [] ->
     ((forall c, In c cols -> (0 <= c < Z.of_nat w)%Z) ->
        exists res, collect (map RTuple rows) cols limit = Ok res /\
                    collect_def rows cols (eff_limit limit (length rows)) = Some res) /\
     ((exists c, In c cols /\ ((c < 0)%Z \/ (Z.of_nat w <= c)%Z)) <->
        collect (map RTuple rows) cols limit = Raise IndexError)).
Proof. exact collect_correct. Qed.
Print Assumptions C10_collect_correct.

(* What "the Python definition" says, cell by cell: one column per requested index, each as long as
   the number of rows taken, and result[i][j] = rows[j][cols[i]]. *)
Theorem C10_collect_def_pointwise :
  forall (A : Type) (rows : list (list A)) (cols : list Z) (n : nat) (res : list (list A)),
  collect_def rows cols n = Some res ->
  length res = length cols /\
  forall i c, nth_error cols i = Some c ->
    exists col, nth_error res i = Some col /\ length col = length (firstn n rows) /\
      forall j row, nth_error (firstn n rows) j = Some row ->
        exists v, nth_error col j = Some v /\ (0 <= c)%Z /\ nth_error row (Z.to_nat c) = Some v.
Proof. exact collect_def_pointwise. Qed.
Print Assumptions C10_collect_def_pointwise.

(* ... and how many rows are taken: all when the limit is negative, else min(limit, row count). *)
Theorem C10_collect_limit :
  forall (A : Type) (limit : Z) (rows : list (list A)),
  length (firstn (eff_limit limit (length rows)) rows) =
  if (limit <? 0)%Z then length rows else Nat.min (Z.to_nat limit) (length rows).
Proof. exact firstn_eff_length. Qed.
Print Assumptions C10_collect_limit.

(* The 1-column and 2-column fast paths compute what the general path computes - on every input,
   including rows that are not tuples and indexes that are out of range (same exception, same UB). *)
Theorem C10_paths_agree :
  forall (A : Type) (rows : list (rowobj A)) (n : nat) (c0 c1 : Z),
  path1 rows n c0 = pathn rows n [c0] /\ path2 rows n c0 c1 = pathn rows n [c0; c1].
Proof. intros A rows n c0 c1. split; [exact (path1_pathn A rows n c0)|exact (path2_pathn A rows n c0 c1)]. Qed.
Print Assumptions C10_paths_agree.

Theorem C10_collect_is_general :
  forall (A : Type) (rows : list (rowobj A)) (cols : list Z) (limit : Z),
  collect rows cols limit = collect_general rows cols limit.
Proof. exact collect_general_eq. Qed.
Print Assumptions C10_collect_is_general.

(* FULL STATEMENT (refuted, F-C10-1 and F-C10-2):
     forall rows cols limit, collect rows cols limit <> UB.
   PROVED: no unchecked read leaves its object when the rows are rectangular tuples.  What is
   missing is exactly the hypothesis: compiled.pyx checks the indexes against the first row only and
   never checks that a row is a tuple. *)
Theorem C10_collect_safe_partial :
  forall (A : Type) (w : nat) (rows : list (list A)) (cols : list Z) (limit : Z),
  rectangular A w rows -> collect (map RTuple rows) cols limit <> UB.
Proof. exact collect_safe_rect. Qed.
Print Assumptions C10_collect_safe_partial.

(* The exact extent of F-C10-1 on tuple rows (this is the guard the harness evaluates): UB iff the indexes
   pass the test against the first row and one of the first limit' rows is too short for a requested index. *)
Theorem C10_collect_ub_iff :
  forall (A : Type) (rows : list (list A)) (cols : list Z) (limit : Z),
  collect (map RTuple rows) cols limit = UB <->
  exists r0, hd_error rows = Some r0 /\
    (forall c, In c cols -> (0 <= c < Z.of_nat (length r0))%Z) /\
    exists c row, In c cols /\ In row (firstn (eff_limit limit (length rows)) rows) /\
                  (Z.of_nat (length row) <= c)%Z.
Proof. exact collect_ub_iff. Qed.
Print Assumptions C10_collect_ub_iff.

(* Hence rows that are all at least as wide as the first are safe too. *)
Theorem C10_collect_safe_wide :
  forall (A : Type) (rows : list (list A)) (cols : list Z) (limit : Z) (r0 : list A),
  hd_error rows = Some r0 -> Forall (fun r => length r0 <= length r) rows ->
  collect (map RTuple rows) cols limit <> UB.
Proof. exact collect_safe_wide. Qed.
Print Assumptions C10_collect_safe_wide.

(* F-C10-1: first row wider than a later row, index valid for the first row. *)
Theorem C10_collect_ragged_refuted :
  exists (rows : list (list Z)) (cols : list Z) (limit : Z),
    collect (map RTuple rows) cols limit = UB.
Proof. exists [[1; 2]; [3]]%Z, [1%Z], (-1)%Z. exact collect_ragged_ub. Qed.
Print Assumptions C10_collect_ragged_refuted.

(* F-C10-2: rows that are lists (same length each, every index in range): the unchecked <tuple> cast. *)
Theorem C10_collect_nontuple_refuted :
  exists (rows : list (rowobj Z)) (cols : list Z) (limit : Z),
    Forall (fun r => py_len r = Ok 2) rows /\ Forall (fun c => in_range 2 c = true) cols /\
    collect rows cols limit = UB.
Proof.
  exists [RSeq 2; RSeq 2], [0%Z], (-1)%Z.
  split; [repeat constructor|]. split; [repeat constructor|]. exact collect_listrows_ub.
Qed.
Print Assumptions C10_collect_nontuple_refuted.

(* DataFrame.collect: limit None or negative means all rows, otherwise as collect_cython. *)
Theorem C10_df_collect_limit :
  forall (A : Type) (rows : list (rowobj A)) (cols : list Z) (limit : option Z) (n : nat),
  df_collect rows cols limit =
    collect rows cols (match limit with None => (-1)%Z | Some l => if (l <? 0)%Z then (-1)%Z else l end) /\
  eff_limit (match limit with None => (-1)%Z | Some l => if (l <? 0)%Z then (-1)%Z else l end) n
  = match limit with None => n | Some l => eff_limit l n end.
Proof. intros A rows cols limit n. split; [reflexivity|exact (df_limit_eff limit n)]. Qed.
Print Assumptions C10_df_collect_limit.

(* ---- the DataFrame as an object with state: sequences of calls on one frame ----
   [frame_init k rows] is DataFrame(rows=<rows held in a list / tuple / deque / one-shot iterator>);
   [run s ops] the outputs of the calls [ops] made one after the other on that one object. *)

(* History and backing independence: on a frame built from ANY kind of row container, ANY sequence of
   reading calls (collect with any columns and limit, df[...], a collect of an unknown name, rowcount/len,
   materialize) returns, call by call, what each call returns on the rows themselves - in particular
   a collect returns df_collect of the frame's rows whatever was collected (or limited) before. *)
Theorem C10_frame_history_independent :
  forall (A : Type) (k : backing) (rows : list (rowobj A)) (ops : list (fop A)),
  forallb is_read ops = true ->
  run (frame_init k rows) ops = map (read_out rows) ops.
Proof. exact frame_history_independent. Qed.
Print Assumptions C10_frame_history_independent.

(* The frame's rows after any history (appends included, from any state): the rows before followed by
   the successfully appended rows in order - never dropped, duplicated or reordered - ... *)
Theorem C10_frame_rows_preserved :
  forall (A : Type) (s : store A) (ops : list (fop A)),
  contents (state_after s ops) = contents s ++ appended s ops /\
  (forallb is_read ops = true -> appended s ops = []).
Proof.
  intros A s ops. split; [exact (state_after_contents A ops s)|exact (appended_reads A ops s)].
Qed.
Print Assumptions C10_frame_rows_preserved.

(* ... and the reading calls made after that history see exactly those rows. *)
Theorem C10_frame_any_history :
  forall (A : Type) (k : backing) (rows : list (rowobj A)) (pre ops : list (fop A)),
  forallb is_read ops = true ->
  run (frame_init k rows) (pre ++ ops) =
  run (frame_init k rows) pre ++ map (read_out (rows ++ appended (frame_init k rows) pre)) ops.
Proof. exact frame_any_history. Qed.
Print Assumptions C10_frame_any_history.

(* Tied to the definition: rectangular tuple rows in any container, any reading history, every index in
   range: the next collect returns result[i][j] = rows[j][cols[i]] for the first limit' rows
   (limit None = all rows). *)
Theorem C10_frame_collect_correct :
  forall (A : Type) (w : nat) (k : backing) (rows : list (list A)) (pre : list (fop A))
         (cols : list Z) (limit : option Z),
  rectangular A w rows -> rows <> [] -> forallb is_read pre = true ->
  (Z.of_nat w <= 2147483648)%Z -> limit_fits limit = true ->     (* round 3: the width and the limit fit a C int *)
  (forall c, In c cols -> (0 <= c < Z.of_nat w)%Z) ->
  exists res,
    nth_error (run (frame_init k (map RTuple rows)) (pre ++ [OpCollect cols limit])) (length pre)
      = Some (FCols (Ok res)) /\
    collect_def rows cols (match limit with None => length rows | Some l => eff_limit l (length rows) end)
      = Some res.
Proof. exact frame_collect_correct. Qed.
Print Assumptions C10_frame_collect_correct.

(* Non-vacuity: a tuple-backed 3x2 frame, a limited collect, then an unlimited one and the row count;
   an append on the still-lazy tuple raises, after materialisation it succeeds and the next collect sees it. *)
Example C10_nonvacuous_frame :
  run (frame_init KTuple (map RTuple [[1; 2]; [3; 4]; [5; 6]]%Z))
      [OpCollect [1; 0]%Z (Some 1%Z); OpCollect [1; 0]%Z None; OpRowcount]
  = [FCols (Ok [[2]; [1]]%Z); FCols (Ok [[2; 4; 6]; [1; 3; 5]]%Z); FCount 3] /\
  run (frame_init KTuple (map RTuple [[1; 2]; [3; 4]]%Z))
      [OpAppend [7; 8]%Z; OpRowcount; OpAppend [9; 10]%Z; OpGetitem [1%Z]]
  = [FAttributeError; FCount 2; FNone; FCols (Ok [[2; 4; 10]]%Z)] /\
  run (frame_init KDeque (map RTuple [[1; 2]]%Z)) [OpAppend [7; 8]%Z; OpGetitem [0%Z]]
  = [FNone; FCols (Ok [[1; 7]]%Z)].
Proof. repeat split; reflexivity. Qed.

(* ---- the subscript entry point df[...] (round 6) ---- *)

(* df[cols] is collect(cols, limit=None): same result, same exception, same effect on the frame - for every request. *)
Theorem C10_getitem_is_collect :
  forall (A : Type) (s : store A) (cols : list Z),
  step s (OpGetitem cols) = step s (OpCollect cols None).
Proof. exact getitem_is_collect. Qed.
Print Assumptions C10_getitem_is_collect.

(* ... in particular a position outside 0..width-1 - df[-1] included - never yields a column. *)
Theorem C10_getitem_outside_never_ok :
  forall (A : Type) (w : nat) (k : backing) (rows : list (list A)) (cols : list Z),
  rectangular A w rows -> rows <> [] ->
  (exists c, In c cols /\ ((c < 0)%Z \/ (Z.of_nat w <= c)%Z)) ->
  forall res, snd (step (frame_init k (map RTuple rows)) (OpGetitem cols)) <> FCols (Ok res).
Proof. exact getitem_outside_never_ok. Qed.
Print Assumptions C10_getitem_outside_never_ok.

Example C10_nonvacuous_getitem :
  snd (step (frame_init KList (map RTuple [[1; 2]; [3; 4]]%Z)) (OpGetitem [(-1)%Z])) = FCols (Raise IndexError) /\
  snd (step (frame_init KList (map RTuple [[1; 2]; [3; 4]]%Z)) (OpGetitem [1%Z])) = FCols (Ok [[2; 4]]%Z).
Proof. split; reflexivity. Qed.

(* ---- argument conversion of DataFrame.collect (round 3) ----
   [df_collect_conv] is DataFrame.collect with the conversions Python performs on the way in: the index
   vector becomes an int32 array (OverflowError outside the int32 range - no wrap-around), the limit a C int. *)

(* Inside the ranges the conversion is the identity; outside, OverflowError whatever the rows. *)
Theorem C10_df_conversion :
  forall (A : Type) (rows : list (rowobj A)) (cols : list Z) (limit : option Z),
  (forallb fits_int32 cols = true -> limit_fits limit = true ->
     df_collect_conv rows cols limit = df_collect rows cols limit) /\
  ((exists c, In c cols /\ ((c < -2147483648)%Z \/ (2147483647 < c)%Z)) \/
   (exists l, limit = Some l /\ (2147483647 < l)%Z) ->
     df_collect_conv rows cols limit = Raise OverflowError).
Proof.
  intros A rows cols limit. split.
  - exact (df_conv_fits A rows cols limit).
  - exact (df_conv_overflow A rows cols limit).
Qed.
Print Assumptions C10_df_conversion.

(* "A column index outside 0..width-1 - negative, equal to the width, or larger - raises": for rectangular
   tuple rows an index outside 0..width-1, HOWEVER FAR outside (2**32 + k included), never yields a result. *)
Theorem C10_df_index_outside_never_ok :
  forall (A : Type) (w : nat) (rows : list (list A)) (cols : list Z) (limit : option Z),
  rectangular A w rows -> rows <> [] ->
  (exists c, In c cols /\ ((c < 0)%Z \/ (Z.of_nat w <= c)%Z)) ->
  forall res, df_collect_conv (map RTuple rows) cols limit <> Ok res.
Proof. exact df_conv_outside_never_ok. Qed.
Print Assumptions C10_df_index_outside_never_ok.

Example C10_nonvacuous_conversion :
  df_collect_conv (map RTuple [[1; 2]; [3; 4]]%Z) [4294967296%Z] None = Raise OverflowError /\
  df_collect_conv (map RTuple [[1; 2]; [3; 4]]%Z) [0; (-4294967295)]%Z None = Raise OverflowError /\
  df_collect_conv (map RTuple [[1; 2]; [3; 4]]%Z) [2147483647%Z] None = Raise IndexError /\
  df_collect_conv (map RTuple [[1; 2]; [3; 4]]%Z) [0%Z] (Some 4294967297%Z) = Raise OverflowError /\
  df_collect_conv (map RTuple [[1; 2]; [3; 4]]%Z) [1%Z] (Some 2147483647%Z) = Ok [[2; 4]]%Z.
Proof. repeat split; reflexivity. Qed.

(* ---- sessions: several row classes and frames alive in one process (round 3) ----
   [sess_run st ops] are the outputs of the operations [ops] (create a row class, create a frame, act
   on object i) on the heap [st] of objects, indexed by creation order. *)

(* Locality: after ANY session the object at index i is what it would be had only the actions
   addressed to it been performed on it alone - creating or using other classes / frames (with the
   same field names or not, tuples-only or not) changes nothing about it. *)
Theorem C10_session_local :
  forall (A : Type) (keq : A -> A -> bool) (none : A)
         (ops : list (sop A)) (st : list (obj A)) (i : nat) (o : obj A),
  nth_error st i = Some o ->
  nth_error (sess_state keq none st ops) i = Some (obj_after keq none o (actions_on i ops)).
Proof. exact sess_state_local. Qed.
Print Assumptions C10_session_local.

(* ... hence what an action on object i returns at the end of any session is what it returns on that
   object alone after the actions addressed to it. *)
Theorem C10_session_output :
  forall (A : Type) (keq : A -> A -> bool) (none : A)
         (st : list (obj A)) (pre : list (sop A)) (i : nat) (o : obj A) (a : action A),
  nth_error st i = Some o ->
  nth_error (sess_run keq none st (pre ++ [On i a])) (length pre) =
  Some (snd (obj_step keq none (obj_after keq none o (actions_on i pre)) a)).
Proof. exact sess_output. Qed.
Print Assumptions C10_session_output.

(* The same for an object created in the middle of the session by [mk]: it starts as its constructor
   arguments say (C10_session_new), whatever was created before. *)
Theorem C10_session_output_created :
  forall (A : Type) (keq : A -> A -> bool) (none : A)
         (st : list (obj A)) (p1 p2 : list (sop A)) (mk : sop A) (o : obj A) (a : action A),
  nth_error (fst (sess_step keq none (sess_state keq none st p1) mk)) (length (sess_state keq none st p1)) = Some o ->
  nth_error (sess_run keq none st (p1 ++ mk :: p2 ++ [On (length (sess_state keq none st p1)) a]))
            (length p1 + S (length p2)) =
  Some (snd (obj_step keq none (obj_after keq none o (actions_on (length (sess_state keq none st p1)) p2)) a)).
Proof. exact sess_output_created. Qed.
Print Assumptions C10_session_output_created.

Theorem C10_session_new :
  forall (A : Type) (keq : A -> A -> bool) (none : A) (st : list (obj A)) (f : list A) (t : bool)
         (k : backing) (names : list A) (rows : list (rowobj A)),
  nth_error (fst (sess_step keq none st (NewClass f t))) (length st) = Some (OClass f t) /\
  nth_error (fst (sess_step keq none st (NewFrame k names rows))) (length st)
    = Some (OFrame names (frame_init k rows)).
Proof. exact sess_new. Qed.
Print Assumptions C10_session_new.

(* Round 6 - objects derived from other objects: copy.deepcopy(object i) starts as the value object i has at that
   moment, frame i .head(n) as a list-backed frame of the first n rows; by C10_session_local they are independent
   from then on (what is done to the copy does not reach the original and vice versa; head only materialises its source). *)
Theorem C10_session_derived :
  forall (A : Type) (keq : A -> A -> bool) (none : A) (st : list (obj A)) (i n : nat),
  (forall o, nth_error st i = Some o ->
     nth_error (fst (sess_step keq none st (NewCopy i))) (length st) = Some o) /\
  (forall names s, nth_error st i = Some (OFrame names s) ->
     nth_error (fst (sess_step keq none st (NewHead i n))) (length st)
       = Some (OFrame names (SEager (firstn n (contents s))))).
Proof. exact sess_new_derived. Qed.
Print Assumptions C10_session_derived.

Example C10_nonvacuous_derived :   (* head of the whole frame, then append to it: the original keeps its two rows *)
  sess_run Z.eqb 0%Z []
    [NewFrame KTuple [10; 11]%Z [RTuple [1; 2]%Z; RTuple [3; 4]%Z]; NewHead 0 5; NewCopy 0;
     On 1 (AFrame (OpAppend [5; 6]%Z)); On 2 (AFrame (OpAppend [7; 8]%Z)); On 2 (AFrame (OpAppend [9; 9]%Z));
     On 0 (AFrame OpRowcount); On 1 (AFrame OpRowcount); On 2 (AFrame (OpGetitem [0%Z]))]
  = [SNone; SNone; SNone; SFrameOut FNone; SFrameOut FNone; SFrameOut FNone;
     SFrameOut (FCount 2); SFrameOut (FCount 3); SFrameOut (FCols (Ok [[1; 3; 7; 9]]%Z))].
Proof. reflexivity. Qed.

(* What an ordinary row class makes of a dictionary (and so what DataFrame.append({...}) stores): one
   cell per field of THAT class, in order - the value under the first equal key, else None. *)
Theorem C10_row_class_extract :
  forall (A : Type) (keq : A -> A -> bool) (none : A) (fields : list A) (d : list (A * A)),
  length (make_row keq none fields false (DDict d)) = length fields /\
  forall i f, nth_error fields i = Some f ->
    nth_error (make_row keq none fields false (DDict d)) i =
    Some (match lookup keq d f with Some v => v | None => none end).
Proof. exact make_row_dict. Qed.
Print Assumptions C10_row_class_extract.

(* Non-vacuity: a tuples-only class for fields (10, 11), then an ordinary class for the same fields and a
   frame over them; the dictionary {11: 7, 10: 8, 12: 9} goes through field extraction in the ordinary class
   and in the frame's append, and is iterated (keys) only by the tuples-only class. *)
Example C10_nonvacuous_session :
  sess_run Z.eqb 0%Z []
    [NewClass [10; 11]%Z true; NewClass [10; 11]%Z false; NewFrame KList [10; 11]%Z [RTuple [1; 2]%Z];
     On 1 (AMake (DDict [(11, 7); (10, 8); (12, 9)]%Z));
     On 0 (AMake (DDict [(11, 7); (10, 8); (12, 9)]%Z));
     On 2 (AAppendDict [(11, 7); (12, 9)]%Z);
     On 2 (AFrame (OpGetitem [0; 1]%Z))]
  = [SNone; SNone; SNone; SRow [8; 7]%Z; SRow [11; 10; 12]%Z; SFrameOut FNone;
     SFrameOut (FCols (Ok [[1; 0]; [2; 7]]%Z))].
Proof. reflexivity. Qed.

(* ---- the plain-Python definition orso.row.extract_columns itself (round 4) ----
   [extract_columns_py] is row.py:49-68 as written: per-position output lists filled row by row. *)

(* Tuple rows of any widths, any integer requests (repeats, negatives): the function is the column-major
   definition - one list per REQUESTED column, list i = [rows[j][cols[i]] for every j] with Python's
   indexing (py_index: wrap-around of -len..-1) - and IndexError exactly where some rows[j][cols[i]] does not exist. *)
Theorem C10_pydef_tuples :
  forall (A K : Type) (keq : K -> K -> bool) (rows : list (list A)) (cols : list Z),
  extract_columns_py keq (map PTuple rows) (map int_col cols) =
  match mapO (fun c => mapO (fun l => py_index l c) rows) cols with
  | Some res => Ok res
  | None => Raise IndexError
  end.
Proof.
  intros A K keq rows cols. rewrite (extract_columns_tuples A K keq rows cols).
  unfold pydef_def. destruct (mapO _ cols); reflexivity.
Qed.
Print Assumptions C10_pydef_tuples.

(* ... so whenever it returns there is one list per requested column, in request order. *)
Theorem C10_pydef_one_list_per_request :
  forall (A K : Type) (keq : K -> K -> bool) (rows : list (list A)) (cols : list Z) (res : list (list A)),
  extract_columns_py keq (map PTuple rows) (map int_col cols) = Ok res ->
  length res = length cols /\
  forall i c, nth_error cols i = Some c ->
    exists col, nth_error res i = Some col /\ mapO (fun l => py_index l c) rows = Some col.
Proof. exact extract_columns_length. Qed.
Print Assumptions C10_pydef_one_list_per_request.

(* Python's subscription on a tuple: a non-negative position is the definition's rows[j][c]; a negative
   one in -len..-1 wraps around (this is where the plain-Python function and the compiled collector,
   which raises, differ by design). *)
Theorem C10_pydef_index :
  forall (A : Type) (l : list A) (c : Z),
  ((0 <= c)%Z -> py_index l c = get_def l c) /\
  ((- Z.of_nat (length l) <= c < 0)%Z -> py_index l c = py_index l (c + Z.of_nat (length l))).
Proof. intros A l c. split; [exact (py_index_nonneg A l c)|exact (py_index_negative A l c)]. Qed.
Print Assumptions C10_pydef_index.

(* "The compiled helpers return exactly what their plain-Python definitions return": rectangular tuple
   rows, every index in 0..width-1 (repeats allowed), all rows: collect_cython's model and
   extract_columns' model return the same columns, one per requested index. *)
Theorem C10_compiled_equals_pydef :
  forall (A K : Type) (keq : K -> K -> bool) (w : nat) (rows : list (list A)) (cols : list Z),
  rectangular A w rows -> rows <> [] -> (forall c, In c cols -> (0 <= c < Z.of_nat w)%Z) ->
  exists res, collect (map RTuple rows) cols (-1)%Z = Ok res /\
              extract_columns_py keq (map PTuple rows) (map int_col cols) = Ok res /\
              length res = length cols.
Proof. exact compiled_equals_pydef. Qed.
Print Assumptions C10_compiled_equals_pydef.

(* Non-vacuity: a repeated column gives two lists; 1 and True (the same position) give two lists; -1 wraps;
   dictionary rows take equal keys to the same value and raise KeyError for an absent one. *)
Example C10_nonvacuous_pydef :
  extract_columns_py Z.eqb (map PTuple [[1; 2; 3]; [4; 5; 6]]%Z) (map int_col [0; 0; 2; (-1)]%Z)
    = Ok [[1; 4]; [1; 4]; [3; 6]; [3; 6]]%Z /\
  extract_columns_py Z.eqb (map PTuple [[1; 2]; [3]]%Z) (map int_col [0; 1]%Z) = Raise IndexError /\
  extract_columns_py Z.eqb [PDict [(7, 70); (8, 80)]%Z; PDict [(8, 81); (7, 71)]%Z]
    [PCol None (Some 7%Z); PCol (Some 1%Z) (Some 8%Z); PCol None (Some 7%Z)] = Ok [[70; 71]; [80; 81]; [70; 71]]%Z /\
  extract_columns_py Z.eqb [PDict [(7, 70)]%Z] [PCol None (Some 9%Z)] = Raise KeyError /\
  extract_columns_py Z.eqb [PTuple [1]%Z] [PCol None (Some 9%Z)] = Raise TypeError.
Proof. repeat split; reflexivity. Qed.

(* extract_dict_columns, all inputs: one output per requested field, in order; each is the value the
   dictionary lookup finds, else None. *)
Theorem C10_extract_spec :
  forall (K V : Type) (keq : K -> K -> bool) (none : V)
         (data : option (list (K * V))) (fields : list (field K)),
  length (extract keq none data fields) = length fields /\
  forall i f, nth_error fields i = Some f ->
    nth_error (extract keq none data fields) i =
    Some (match dict_get_item keq data f with Some v => v | None => none end).
Proof.
  intros K V keq none data fields. split.
  - exact (extract_length K V keq none data fields).
  - intros i f. exact (extract_nth K V keq none data fields i f).
Qed.
Print Assumptions C10_extract_spec.

(* ... where the lookup finds the value stored under the first (for a dict: the only) equal key, and
   nothing iff no key is equal. *)
Theorem C10_extract_lookup :
  forall (K V : Type) (keq : K -> K -> bool) (d : list (K * V)) (k : K),
  (forall v, dict_get_item keq (Some d) (FKey k) = Some v ->
     exists pre k' post, d = pre ++ (k', v) :: post /\ keq k' k = true /\
                         forall k'' v'', In (k'', v'') pre -> keq k'' k = false) /\
  (dict_get_item keq (Some d) (FKey k) = None <-> forall k' v', In (k', v') d -> keq k' k = false).
Proof.
  intros K V keq d k. split.
  - intros v. exact (lookup_some K V keq d k v).
  - exact (lookup_none K V keq d k).
Qed.
Print Assumptions C10_extract_lookup.

(* calculate_data_width, all inputs: at least four, at least every rendered non-null value, and
   attained (four, or the length of some non-null element). *)
Theorem C10_data_width_spec :
  forall (vals : list (option (list N))),
  (4 <= data_width vals)%Z /\
  (forall s, In (Some s) vals -> (Z.of_nat (length s) <= data_width vals)%Z) /\
  (data_width vals = 4%Z \/ exists s, In (Some s) vals /\ data_width vals = Z.of_nat (length s)).
Proof. exact data_width_spec. Qed.
Print Assumptions C10_data_width_spec.

(* ---- the second width path (round 5): the markdown renderer sizes its columns in plain Python ---- *)

(* max(lengths of the non-null rendered values + [4]) as display.markdown writes it IS what
   calculate_data_width computes - for every column, falsy values (False, 0, '', Decimal('0.000')) included:
   only None is skipped. *)
Theorem C10_markdown_width_agrees :
  forall (vals : list (option (list N))), md_data_width vals = data_width vals.
Proof. exact md_width_agrees. Qed.
Print Assumptions C10_markdown_width_agrees.

(* ... so a markdown column is min(max(len(name), compiled width of the head rows), max_column_width). *)
Theorem C10_markdown_col_width :
  forall (name_len : Z) (vals : list (option (list N))) (limit maxw : Z),
  md_col_width name_len vals limit maxw =
  Z.min (Z.max name_len (data_width (if (0 <? limit)%Z then firstn (Z.to_nat limit) vals else vals))) maxw.
Proof. intros name_len vals limit maxw. unfold md_col_width, md_head. rewrite md_width_agrees. reflexivity. Qed.
Print Assumptions C10_markdown_col_width.

Example C10_nonvacuous_markdown :   (* 'False' (5) under the header 'ok': width 5; limit 1 hides it; cap 3 *)
  md_col_width 2 [None; Some [70; 97; 108; 115; 101]%N] 5 30 = 5%Z /\
  md_col_width 2 [None; Some [70; 97; 108; 115; 101]%N] 1 30 = 4%Z /\
  md_col_width 2 [None; Some [70; 97; 108; 115; 101]%N] 0 3 = 3%Z.
Proof. repeat split; reflexivity. Qed.

(* Non-vacuity: a rectangular 3x2 frame, indexes in range with a repeat, limit 2. *)
Example C10_nonvacuous_ok :
  rectangular Z 2 [[1; 2]; [3; 4]; [5; 6]]%Z /\
  (forall c, In c [1; 0; 1]%Z -> (0 <= c < Z.of_nat 2)%Z) /\
  collect (map RTuple [[1; 2]; [3; 4]; [5; 6]]%Z) [1; 0; 1]%Z 2%Z = Ok [[2; 4]; [1; 3]; [2; 4]]%Z /\
  collect_def [[1; 2]; [3; 4]; [5; 6]]%Z [1; 0; 1]%Z (eff_limit 2 3) = Some [[2; 4]; [1; 3]; [2; 4]]%Z.
Proof.
  split; [repeat constructor|]. split.
  - intros c [<-|[<-|[<-|[]]]]; split; vm_compute; congruence.
  - split; reflexivity.
Qed.

(* Non-vacuity: the boundary index equal to the width raises; the three paths are all reachable. *)
Example C10_nonvacuous_boundary :
  collect (map RTuple [[1; 2]; [3; 4]]%Z) [2%Z] (-1)%Z = Raise IndexError /\
  collect (map RTuple [[1; 2]; [3; 4]]%Z) [0; 2]%Z (-1)%Z = Raise IndexError /\
  collect (map RTuple [[1; 2]; [3; 4]]%Z) [0; 1; (-1)]%Z 0%Z = Raise IndexError /\
  collect (map RTuple [[1; 2]; [3; 4]]%Z) [1%Z] 1%Z = Ok [[2%Z]] /\
  collect (map RTuple [[1; 2]; [3; 4]]%Z) [1; 1]%Z 5%Z = Ok [[2; 4]; [2; 4]]%Z.
Proof. repeat split; reflexivity. Qed.

(* Non-vacuity: ragged rows whose first row is the narrowest satisfy C10_collect_safe_wide. *)
Example C10_nonvacuous_wide :
  hd_error [[1]; [2; 3]]%Z = Some [1%Z] /\
  Forall (fun r => length [1%Z] <= length r) [[1]; [2; 3]]%Z /\
  collect (map RTuple [[1]; [2; 3]]%Z) [0%Z] (-1)%Z = Ok [[1; 2]]%Z.
Proof. split; [reflexivity|]. split; [repeat constructor|reflexivity]. Qed.

Example C10_nonvacuous_extract :
  extract Z.eqb 0%Z (Some [(1, 10); (2, 20)]%Z) [FKey 2%Z; FKey 7%Z; FUnhashable; FKey 1%Z] = [20; 0; 0; 10]%Z /\
  data_width [None; Some [97; 98; 99; 100; 101; 102]%N; Some [49]%N] = 6%Z /\
  data_width [None; Some [97]%N] = 4%Z.
Proof. repeat split; reflexivity. Qed.
