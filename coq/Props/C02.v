(* C02 - Dictionary records map onto rows by field name.
   Property theorems only; each is closed by [exact] of lemmas from Proofs/C02.v and followed by
   Print Assumptions.  K = names, V = values (both abstract), eqK = decidable equality of names,
   vnone = the value Python calls None.  A dictionary is the list of its items in insertion order;
   "well-formed" (pairwise different keys) is the hypothesis NoDup (map fst d) where it is needed. *)
From Coq Require Import List ZArith NArith Bool Permutation.
From Orso Require Import Model.C02 Proofs.C02 Proofs.C02_Session Proofs.C02_Source Proofs.C02_Producer Proofs.C02_Keyed.
Import ListNotations.

(* Row(dict) has exactly one cell per field, duplicates included. *)
Theorem C02_extract_length :
  forall (K V : Type) (eqK : forall a b : K, {a = b} + {a <> b}) (vnone : V)
         (fields : list K) (d : list (K * V)),
  length (extract eqK vnone fields d) = length fields.
Proof. exact extract_length. Qed.
Print Assumptions C02_extract_length.

(* Cell i holds the dictionary's value for the i-th field name, None when the dictionary has no
   such key; and there is no cell beyond the last field. *)
Theorem C02_extract_nth :
  forall (K V : Type) (eqK : forall a b : K, {a = b} + {a <> b}) (vnone : V)
         (fields : list K) (d : list (K * V)) (i : nat) (k0 : K),
  (i < length fields ->
   nth i (extract eqK vnone fields d) vnone =
   match lookup eqK (nth i fields k0) d with Some v => v | None => vnone end) /\
  (length fields <= i -> nth_error (extract eqK vnone fields d) i = None).
Proof.
  intros K V eqK vnone fields d i k0. split.
  - exact (extract_nth K V eqK vnone fields d i k0).
  - exact (extract_nth_beyond K V eqK vnone fields d i).
Qed.
Print Assumptions C02_extract_nth.

(* [lookup] is the dictionary: on a well-formed dictionary it returns v exactly when (k, v) is an
   item, and None exactly when k is not a key (so the previous theorem speaks about the items). *)
Theorem C02_lookup_is_membership :
  forall (K V : Type) (eqK : forall a b : K, {a = b} + {a <> b}) (d : list (K * V)) (k : K),
  NoDup (map fst d) ->
  (forall v, lookup eqK k d = Some v <-> In (k, v) d) /\
  (lookup eqK k d = None <-> ~ In k (map fst d)).
Proof.
  intros K V eqK d k ND. split.
  - intros v. exact (lookup_in_iff K V eqK k v d ND).
  - exact (lookup_none_notin K V eqK k d).
Qed.
Print Assumptions C02_lookup_is_membership.

(* Whatever the dictionary's key order: any permutation of the insertion order gives the same row. *)
Theorem C02_extract_permutation :
  forall (K V : Type) (eqK : forall a b : K, {a = b} + {a <> b}) (vnone : V)
         (fields : list K) (d d' : list (K * V)),
  NoDup (map fst d) -> Permutation d d' ->
  extract eqK vnone fields d = extract eqK vnone fields d'.
Proof. exact extract_perm. Qed.
Print Assumptions C02_extract_permutation.

(* Keys that are not fields are ignored: the row depends only on what the dictionary holds under
   the field names; dropping every other item, or inserting an item with a non-field key at any
   position, changes nothing. *)
Theorem C02_extract_ignores_other_keys :
  forall (K V : Type) (eqK : forall a b : K, {a = b} + {a <> b}) (vnone : V) (fields : list K),
  (forall d d' : list (K * V),
     (forall f, In f fields -> lookup eqK f d = lookup eqK f d') ->
     extract eqK vnone fields d = extract eqK vnone fields d') /\
  (forall d : list (K * V),
     extract eqK vnone fields d =
     extract eqK vnone fields (filter (fun kv => memK K eqK fields (fst kv)) d)) /\
  (forall (d1 d2 : list (K * V)) (k : K) (v : V),
     ~ In k fields ->
     extract eqK vnone fields (d1 ++ (k, v) :: d2) = extract eqK vnone fields (d1 ++ d2)).
Proof.
  intros K V eqK vnone fields. split; [|split].
  - exact (extract_ext K V eqK vnone fields).
  - exact (extract_only_fields K V eqK vnone fields).
  - exact (extract_extra_key K V eqK vnone fields).
Qed.
Print Assumptions C02_extract_ignores_other_keys.

(* DataFrame(dicts), for every sequence of dictionaries including the empty one: the columns are
   the keys of the first dictionary (none when there is no dictionary), there is exactly one row
   per dictionary, every row is as wide as the column list, and row j is dictionary j read through
   the columns. *)
Theorem C02_frame_shape :
  forall (K V : Type) (eqK : forall a b : K, {a = b} + {a <> b}) (vnone : V) (ds : list (list (K * V))),
  let f := frame_of_dicts eqK vnone ds in
  fst f = match ds with [] => [] | d :: _ => map fst d end /\
  length (snd f) = length ds /\
  Forall (fun r => length r = length (fst f)) (snd f) /\
  (forall j, nth_error (snd f) j = option_map (extract eqK vnone (fst f)) (nth_error ds j)).
Proof. exact frame_shape. Qed.
Print Assumptions C02_frame_shape.

(* Cell (j, i) of the frame is dictionary j's value under column i's name, else None; the first row
   is the first dictionary's values in its own order. *)
Theorem C02_frame_cells :
  forall (K V : Type) (eqK : forall a b : K, {a = b} + {a <> b}) (vnone : V)
         (ds : list (list (K * V))),
  (forall (j i : nat) (d : list (K * V)) (k : K),
     nth_error ds j = Some d -> nth_error (fst (frame_of_dicts eqK vnone ds)) i = Some k ->
     exists r, nth_error (snd (frame_of_dicts eqK vnone ds)) j = Some r /\
               nth_error r i = Some (match lookup eqK k d with Some v => v | None => vnone end)) /\
  (forall d rest, ds = d :: rest -> NoDup (map fst d) ->
     nth_error (snd (frame_of_dicts eqK vnone ds)) 0 = Some (map snd d)).
Proof.
  intros K V eqK vnone ds. split.
  - intros j i d k. exact (frame_cell K V eqK vnone ds j i d k).
  - intros d rest -> ND. exact (frame_first_row K V eqK vnone d rest ND).
Qed.
Print Assumptions C02_frame_cells.

(* append(dict): the columns stay, exactly one row is added at the end, it is the dictionary read
   through the columns, and a rectangular frame stays rectangular.  After a non-empty construction,
   appending is the same as having passed the dictionaries to the constructor. *)
Theorem C02_append :
  forall (K V : Type) (eqK : forall a b : K, {a = b} + {a <> b}) (vnone : V),
  (forall (f : list K * list (list V)) (d : list (K * V)),
     fst (frame_append eqK vnone f d) = fst f /\
     snd (frame_append eqK vnone f d) = snd f ++ [extract eqK vnone (fst f) d] /\
     length (snd (frame_append eqK vnone f d)) = S (length (snd f)) /\
     (Forall (fun r => length r = length (fst f)) (snd f) ->
      Forall (fun r => length r = length (fst (frame_append eqK vnone f d)))
             (snd (frame_append eqK vnone f d)))) /\
  (forall (d : list (K * V)) (ds more : list (list (K * V))),
     frame_appends eqK vnone (frame_of_dicts eqK vnone (d :: ds)) more =
     frame_of_dicts eqK vnone (d :: ds ++ more)).
Proof.
  intros K V eqK vnone. split.
  - exact (frame_append_shape K V eqK vnone).
  - exact (frame_appends_as_constructed K V eqK vnone).
Qed.
Print Assumptions C02_append.

(* Positional views of any row as wide as its field list (duplicate names allowed): as_map pairs
   the i-th name with the i-th value, keys() is the field list, values the row. *)
Theorem C02_positional_views :
  forall (K V : Type) (fields : list K) (row : list V),
  length row = length fields ->
  map fst (as_map fields row) = fields /\
  map snd (as_map fields row) = row /\
  (forall i, nth_error (as_map fields row) i =
             match nth_error fields i, nth_error row i with
             | Some f, Some v => Some (f, v)
             | _, _ => None
             end) /\
  row_keys fields = fields /\ row_values row = row.
Proof.
  intros K V fields row L. repeat split.
  - exact (as_map_fst K V fields row L).
  - exact (as_map_snd K V fields row L).
  - exact (as_map_nth_error K V fields row).
Qed.
Print Assumptions C02_positional_views.

(* For a row built from a dictionary the pair view is literally (field, dictionary value or None)
   for each field in order. *)
Theorem C02_as_map_of_dict :
  forall (K V : Type) (eqK : forall a b : K, {a = b} + {a <> b}) (vnone : V)
         (fields : list K) (d : list (K * V)),
  as_map fields (extract eqK vnone fields d) =
  map (fun f => (f, match lookup eqK f d with Some v => v | None => vnone end)) fields.
Proof. exact as_map_extract. Qed.
Print Assumptions C02_as_map_of_dict.

(* as_dict: with pairwise different names it is the pair view itself (same items, same order);
   in every case its keys are pairwise different and a name is bound to the value of its last
   occurrence; for a row built from a dictionary - duplicates allowed - it binds exactly the field
   names, each to the dictionary's value or None. *)
Theorem C02_as_dict :
  forall (K V : Type) (eqK : forall a b : K, {a = b} + {a <> b}) (vnone : V)
         (fields : list K),
  (forall row : list V, NoDup fields -> length row = length fields ->
     as_dict eqK fields row = as_map fields row) /\
  (forall row : list V, NoDup (map fst (as_dict eqK fields row))) /\
  (forall (row : list V) (k : K),
     lookup eqK k (as_dict eqK fields row) = lookup eqK k (rev (as_map fields row))) /\
  (forall (d : list (K * V)) (k : K),
     lookup eqK k (as_dict eqK fields (extract eqK vnone fields d)) =
     if in_dec eqK k fields
     then Some (match lookup eqK k d with Some v => v | None => vnone end)
     else None).
Proof.
  intros K V eqK vnone fields. split; [|split; [|split]].
  - intros row. exact (as_dict_distinct K V eqK fields row).
  - exact (as_dict_nodup_keys K V eqK fields).
  - exact (as_dict_last_wins K V eqK fields).
  - exact (as_dict_extract_lookup K V eqK vnone fields).
Qed.
Print Assumptions C02_as_dict.

(* as_json encodes as_dict member by member (jenc = the JSON rendering of one value, any function);
   with pairwise different names the document is (field, rendering of the dictionary's value or of
   None) for each field in order. *)
Theorem C02_as_json :
  forall (K V J : Type) (eqK : forall a b : K, {a = b} + {a <> b}) (vnone : V) (jenc : V -> J)
         (fields : list K),
  (forall row : list V,
     map fst (as_json eqK jenc fields row) = map fst (as_dict eqK fields row) /\
     map snd (as_json eqK jenc fields row) = map jenc (map snd (as_dict eqK fields row))) /\
  (forall d : list (K * V), NoDup fields ->
     as_json eqK jenc fields (extract eqK vnone fields d) =
     map (fun f => (f, jenc (match lookup eqK f d with Some v => v | None => vnone end))) fields).
Proof.
  intros K V J eqK vnone jenc fields. split.
  - exact (as_json_is_as_dict K V eqK J jenc fields).
  - intros d. exact (as_json_distinct K V eqK vnone J jenc fields d).
Qed.
Print Assumptions C02_as_json.

(* get(name, default) never raises on a row as wide as its field list; an absent name gives the
   default; a present name gives the value at the name's (first) position, which with pairwise
   different names is what as_map pairs the name with. *)
Theorem C02_get :
  forall (K V : Type) (eqK : forall a b : K, {a = b} + {a <> b})
         (fields : list K) (row : list V) (name : K) (default : V),
  length row = length fields ->
  (exists v, row_get eqK fields row name default = Ok v) /\
  (~ In name fields -> row_get eqK fields row name default = Ok default) /\
  (In name fields ->
     exists i v, index_of eqK name fields = Some i /\ nth_error fields i = Some name /\
                 nth_error row i = Some v /\ row_get eqK fields row name default = Ok v) /\
  (NoDup fields ->
     row_get eqK fields row name default =
     Ok (match lookup eqK name (as_map fields row) with Some v => v | None => default end)).
Proof.
  intros K V eqK fields row name default L. split; [|split; [|split]].
  - exact (row_get_never_raises K V eqK fields row name default L).
  - exact (row_get_absent K V eqK fields row name default).
  - exact (row_get_present K V eqK fields row name default L).
  - intros ND. exact (row_get_as_map K V eqK fields row name default ND L).
Qed.
Print Assumptions C02_get.

(* get on a row built from a dictionary, any field list: the dictionary's value for a field the
   dictionary has, None for a field it lacks, the default for a name that is not a field. *)
Theorem C02_get_of_dict :
  forall (K V : Type) (eqK : forall a b : K, {a = b} + {a <> b}) (vnone : V)
         (fields : list K) (d : list (K * V)) (name : K) (default : V),
  row_get eqK fields (extract eqK vnone fields d) name default =
  Ok (if in_dec eqK name fields
      then match lookup eqK name d with Some v => v | None => vnone end
      else default).
Proof. exact row_get_extract. Qed.
Print Assumptions C02_get_of_dict.

(* ---------- sessions: several row classes and frames in one process ----------
   [s] is the state after ANY earlier history (in particular one in which a tuples-only class, an
   Arrow frame or another frame over exactly the same names was created), [ops] ANY later history. *)

(* A class made by Row.create_class(fs) builds a row from a dictionary by field name, and a class made
   with either flag stores a tuple as given under its own names - whatever was created before it and
   whatever is created or used between its creation and the call. *)
Theorem C02_session_class_keeps_meaning :
  forall (K V : Type) (eqK : forall a b : K, {a = b} + {a <> b}) (vnone : V)
         (s : sstate K V) (fs : list K) (ops : list (sop K V)),
  (forall d : list (K * V),
     snd (sstep eqK vnone (fst (srun eqK vnone (fst (sstep eqK vnone s (SClass fs false))) ops))
                (SRowDict (length (s_classes s)) d)) =
     SORow fs (extract eqK vnone fs d) (as_dict eqK fs (extract eqK vnone fs d))) /\
  (forall (t : bool) (cells : list V),
     snd (sstep eqK vnone (fst (srun eqK vnone (fst (sstep eqK vnone s (SClass fs t))) ops))
                (SRowTuple (length (s_classes s)) cells)) =
     SORow fs cells (as_dict eqK fs cells)).
Proof.
  intros K V eqK vnone s fs ops. split.
  - exact (session_row_by_name K V eqK vnone s fs ops).
  - intros t. exact (session_row_of_tuple K V eqK vnone s fs t ops).
Qed.
Print Assumptions C02_session_class_keeps_meaning.

(* A frame that takes dictionaries keeps its columns and only grows by rows as wide as the columns;
   append(d) after any later history adds exactly d read through the frame's own columns.  Stated
   for a frame already in the state, for DataFrame(dicts) and for DataFrame(rows=[], schema=cols)
   created after any history. *)
Theorem C02_session_frame_keeps_columns :
  forall (K V : Type) (eqK : forall a b : K, {a = b} + {a <> b}) (vnone : V)
         (s : sstate K V) (ops : list (sop K V)) (d : list (K * V)),
  (forall f cols rows, nth_error (s_frames s) f = Some (true, (cols, rows)) ->
     exists extra,
       Forall (fun r => length r = length cols) extra /\
       snd (sstep eqK vnone (fst (srun eqK vnone s ops)) (SRows f)) = SOFrame cols (rows ++ extra) /\
       snd (sstep eqK vnone (fst (srun eqK vnone s ops)) (SAppend f d)) =
       SOFrame cols (rows ++ extra ++ [extract eqK vnone cols d])) /\
  (forall ds : list (list (K * V)),
     let cols := fst (frame_of_dicts eqK vnone ds) in
     exists extra,
       Forall (fun r => length r = length cols) extra /\
       snd (sstep eqK vnone (fst (srun eqK vnone (fst (sstep eqK vnone s (SFrame ds))) ops))
                  (SAppend (length (s_frames s)) d)) =
       SOFrame cols (map (extract eqK vnone cols) ds ++ extra ++ [extract eqK vnone cols d])) /\
  (forall cols : list K,
     exists extra,
       Forall (fun r => length r = length cols) extra /\
       snd (sstep eqK vnone (fst (srun eqK vnone (fst (sstep eqK vnone s (SNamed cols))) ops))
                  (SAppend (length (s_frames s)) d)) =
       SOFrame cols (extra ++ [extract eqK vnone cols d])).
Proof.
  intros K V eqK vnone s ops d. split; [|split].
  - intros f cols rows. exact (session_frame_grown K V eqK vnone s f cols rows ops d).
  - intros ds. exact (session_frame_of_dicts K V eqK vnone s ds ops d).
  - intros cols. exact (session_frame_named K V eqK vnone s cols ops d).
Qed.
Print Assumptions C02_session_frame_keeps_columns.

(* Nothing that happens later changes a frame read from Arrow or a row that has been built. *)
Theorem C02_session_later_calls_inert :
  forall (K V : Type) (eqK : forall a b : K, {a = b} + {a <> b}) (vnone : V)
         (s : sstate K V) (ops : list (sop K V)),
  (forall cols rows,
     snd (sstep eqK vnone (fst (srun eqK vnone (fst (sstep eqK vnone s (SArrow cols rows))) ops))
                (SRows (length (s_frames s)))) = SOFrame cols rows) /\
  (forall r fr, nth_error (s_rows s) r = Some fr ->
     snd (sstep eqK vnone (fst (srun eqK vnone s ops)) (SView r)) = row_out eqK fr).
Proof.
  intros K V eqK vnone s ops. split.
  - intros cols rows. exact (session_arrow_fixed K V eqK vnone s cols rows ops).
  - intros r fr. exact (session_view_stable K V eqK vnone s r fr ops).
Qed.
Print Assumptions C02_session_later_calls_inert.

(* Frames made from the Row objects of another frame - DataFrame(rows=list(frame), schema=cols), or
   head / slice / query of a frame (also of one read from Arrow, whose rows carry a tuples-only class) -
   show those rows under their OWN column list and, after any later history, map an appended dictionary
   onto their own columns by name.  [s] is the state after any earlier history. *)
Theorem C02_session_derived_frame_uses_own_columns :
  forall (K V : Type) (eqK : forall a b : K, {a = b} + {a <> b}) (vnone : V)
         (s : sstate K V) (f : nat) (b : bool) (fr : list K * list (list V))
         (ops : list (sop K V)) (d : list (K * V)),
  nth_error (s_frames s) f = Some (b, fr) ->
  (forall cols : list K,
     snd (sstep eqK vnone s (SReframe f cols)) = SOFrame cols (snd fr) /\
     exists extra,
       Forall (fun r => length r = length cols) extra /\
       snd (sstep eqK vnone (fst (srun eqK vnone (fst (sstep eqK vnone s (SReframe f cols))) ops))
                  (SAppend (length (s_frames s)) d)) =
       SOFrame cols (snd fr ++ extra ++ [extract eqK vnone cols d])) /\
  (forall n : nat,
     snd (sstep eqK vnone s (SDerive f n)) = SOFrame (fst fr) (firstn n (snd fr)) /\
     exists extra,
       Forall (fun r => length r = length (fst fr)) extra /\
       snd (sstep eqK vnone (fst (srun eqK vnone (fst (sstep eqK vnone s (SDerive f n))) ops))
                  (SAppend (length (s_frames s)) d)) =
       SOFrame (fst fr) (firstn n (snd fr) ++ extra ++ [extract eqK vnone (fst fr) d])).
Proof.
  intros K V eqK vnone s f b fr ops d H. split.
  - intros cols. exact (session_reframe K V eqK vnone s f b fr cols ops d H).
  - intros n. exact (session_derive K V eqK vnone s f b fr n ops d H).
Qed.
Print Assumptions C02_session_derived_frame_uses_own_columns.

(* ---------- the object that delivers the dictionaries ----------
   DataFrame(obj) - modelled as the constructor's own protocol: one iter(), one next(), the same iterator to
   its end - reads exactly the dictionaries one pass over obj delivers at that moment, and leaves obj as a
   full read leaves it: unchanged if obj is a container, spent otherwise. *)
Theorem C02_frame_from_any_iterable :
  forall (K V : Type) (eqK : forall a b : K, {a = b} + {a <> b}) (vnone : V) (s : source K V),
  frame_from_source eqK vnone s = (frame_of_dicts eqK vnone (src_pending s), src_spent K V s) /\
  src_pending (src_spent K V s) = (if src_rewinds s then src_pending s else []).
Proof.
  intros K V eqK vnone s. split.
  - exact (frame_from_source_spec K V eqK vnone s).
  - exact (src_spent_pending K V s).
Qed.
Print Assumptions C02_frame_from_any_iterable.

(* Whatever the caller did with the object before (read single records, read it to the end, built other
   frames from it): the frame built now has the columns of, and exactly one row per, the dictionaries the
   object still has to deliver - all of them if it is a container (k = 0), a suffix otherwise - and a
   non-container is spent afterwards. *)
Theorem C02_frame_from_iterable_after_history :
  forall (K V : Type) (eqK : forall a b : K, {a = b} + {a <> b}) (vnone : V)
         (s : source K V) (ops : list src_op),
  exists k,
    (src_rewinds s = true -> k = 0) /\
    let ds := skipn k (src_pending s) in
    snd (src_step eqK vnone (fst (src_run eqK vnone s ops)) SrcFrame) =
      SrcFrameOut (fst (frame_of_dicts eqK vnone ds)) (snd (frame_of_dicts eqK vnone ds)) /\
    length (snd (frame_of_dicts eqK vnone ds)) = length ds /\
    src_pending (fst (src_step eqK vnone (fst (src_run eqK vnone s ops)) SrcFrame)) =
      (if src_rewinds s then ds else []).
Proof. exact source_frame_after_history. Qed.
Print Assumptions C02_frame_from_iterable_after_history.

(* ---------- lazily produced records ----------
   The producer runs between the constructor's reads and keeps the record objects it has handed over
   (annotating the previous record, refilling one buffer dictionary, deleting a key).  Reading lazily -
   columns copied from the first record when it is read, each row built when its record is read - gives
   exactly the frame of the finished list of what was handed over, each record as it was when it was
   yielded; hence columns of the first, one row per yielded record, every row as wide as the columns;
   and whatever the producer does after its last yield is irrelevant. *)
Theorem C02_lazy_agrees_with_finished_list :
  forall (K V : Type) (eqK : forall a b : K, {a = b} + {a <> b}) (vnone : V)
         (st : list (list (K * V))) (acts : list (pact K V)),
  frame_from_producer eqK vnone st acts = frame_of_dicts eqK vnone (delivered eqK st acts) /\
  (let f := frame_from_producer eqK vnone st acts in
   fst f = match delivered eqK st acts with [] => [] | d :: _ => map fst d end /\
   length (snd f) = length (delivered eqK st acts) /\
   Forall (fun r => length r = length (fst f)) (snd f)) /\
  (forall tail : list (pact K V),
     (forall a, In a tail -> forall r, a <> PYield r) ->
     frame_from_producer eqK vnone st (acts ++ tail) = frame_from_producer eqK vnone st acts).
Proof.
  intros K V eqK vnone st acts. split; [|split].
  - exact (producer_agrees K V eqK vnone acts st).
  - exact (producer_shape K V eqK vnone acts st).
  - intros tail H. rewrite !(producer_agrees K V eqK vnone).
    now rewrite (delivered_app_no_yield K V eqK acts tail st H).
Qed.
Print Assumptions C02_lazy_agrees_with_finished_list.

(* ---------- non-vacuity: the hypotheses are satisfiable by non-trivial values ---------- *)
Local Open Scope Z_scope.
Definition ex_a : key := [97%N].
Definition ex_b : key := [98%N].
Definition ex_c : key := [99%N].
Definition ex_d : list (key * Z) := [(ex_b, 2); (ex_a, 1); (ex_c, 3)].
Definition ex_d' : list (key * Z) := [(ex_c, 3); (ex_b, 2); (ex_a, 1)].

(* a well-formed dictionary, a genuine permutation of it, fields with a duplicate and an absent name *)
Example C02_nonvacuous_row :
  NoDup (map fst ex_d) /\ Permutation ex_d ex_d' /\ ex_d <> ex_d' /\
  extract key_dec 0 [ex_a; [122%N]; ex_b; ex_a] ex_d = [1; 0; 2; 1] /\
  extract key_dec 0 [ex_a; [122%N]; ex_b; ex_a] ex_d' = [1; 0; 2; 1] /\
  as_dict key_dec [ex_a; [122%N]; ex_b; ex_a] [1; 0; 2; 1] = [(ex_a, 1); ([122%N], 0); (ex_b, 2)] /\
  row_get key_dec [ex_a; ex_b] [1; 2] ex_b 7 = Ok 2 /\
  row_get key_dec [ex_a; ex_b] [1; 2] [122%N] 7 = Ok 7 /\
  row_get key_dec [ex_a; ex_b] [1] ex_b 7 = Raise IndexError.
Proof.
  split; [|split; [|split]].
  - repeat constructor; cbn; intuition discriminate.
  - unfold ex_d, ex_d'.
    apply (Permutation_trans (l' := [(ex_b, 2); (ex_c, 3); (ex_a, 1)])).
    + apply perm_skip, perm_swap.
    + apply perm_swap.
  - discriminate.
  - repeat split; reflexivity.
Qed.

(* frames: the empty sequence, an empty first dictionary, and a ragged sequence with an extra key *)
Example C02_nonvacuous_frame :
  frame_of_dicts key_dec 0 ([] : list (list (key * Z))) = ([], []) /\
  frame_of_dicts key_dec 0 [[]; [(ex_a, 1)]] = ([], [[]; []]) /\
  frame_of_dicts key_dec 0 [ex_d; [(ex_a, 5)]; [([122%N], 9); (ex_c, 6)]] =
    ([ex_b; ex_a; ex_c], [[2; 1; 3]; [0; 5; 0]; [0; 0; 6]]) /\
  frame_appends key_dec 0 ([ex_a; ex_b], []) [[(ex_b, 2); (ex_c, 3)]] = ([ex_a; ex_b], [[0; 2]]).
Proof. repeat split; reflexivity. Qed.

(* sessions: a tuples-only class and an Arrow frame over (a, b) are created first, then a class and two
   frames over exactly the same names are given dictionaries in the other key order, with a gap and
   an extra key *)
Example C02_nonvacuous_session :
  snd (srun key_dec 0 s_init
         [SClass [ex_a; ex_b] true; SArrow [ex_a; ex_b] [[10; 11]];
          SClass [ex_a; ex_b] false; SRowDict 1%nat [(ex_b, 2); (ex_a, 1); (ex_c, 3)];
          SFrame [[(ex_a, 1); (ex_b, 2)]]; SNamed [ex_a; ex_b];
          SAppend 1%nat [(ex_b, 5)]; SAppend 2%nat [(ex_b, 7); (ex_a, 6)];
          SRowTuple 0%nat [8; 9]; SView 0%nat; SRows 0%nat]) =
  [SOClass; SOFrame [ex_a; ex_b] [[10; 11]];
   SOClass; SORow [ex_a; ex_b] [1; 2] [(ex_a, 1); (ex_b, 2)];
   SOFrame [ex_a; ex_b] [[1; 2]]; SOFrame [ex_a; ex_b] [];
   SOFrame [ex_a; ex_b] [[1; 2]; [0; 5]]; SOFrame [ex_a; ex_b] [[6; 7]];
   SORow [ex_a; ex_b] [8; 9] [(ex_a, 8); (ex_b, 9)];
   SORow [ex_a; ex_b] [1; 2] [(ex_a, 1); (ex_b, 2)]; SOFrame [ex_a; ex_b] [[10; 11]]].
Proof. reflexivity. Qed.

(* the same three records through a container and through a read-once object: peek, build, build again *)
Example C02_nonvacuous_source :
  let ds := [[(ex_a, 1); (ex_b, 2)]; [(ex_b, 3)]; [(ex_c, 4); (ex_a, 5)]] in
  snd (src_run key_dec 0 (Source ds 0%nat true) [SrcNext; SrcFrame; SrcFrame]) =
    [SrcItem (Some [(ex_a, 1); (ex_b, 2)]);
     SrcFrameOut [ex_a; ex_b] [[1; 2]; [0; 3]; [5; 0]]; SrcFrameOut [ex_a; ex_b] [[1; 2]; [0; 3]; [5; 0]]] /\
  snd (src_run key_dec 0 (Source ds 0%nat false) [SrcNext; SrcFrame; SrcFrame; SrcList]) =
    [SrcItem (Some [(ex_a, 1); (ex_b, 2)]);
     SrcFrameOut [ex_b] [[3]; [0]]; SrcFrameOut [] []; SrcItems []].
Proof. split; reflexivity. Qed.

(* producers: the previous record is annotated after it was handed over; one buffer refilled; a key deleted *)
Example C02_nonvacuous_producer :
  frame_from_producer key_dec 0 []
    [PNew [(ex_a, 1); (ex_b, 2)]; PYield 0%nat; PNew [(ex_a, 3); (ex_b, 4)]; PSet 0%nat ex_c 9; PYield 1%nat] =
    ([ex_a; ex_b], [[1; 2]; [3; 4]]) /\
  frame_from_producer key_dec 0 []
    [PNew [(ex_a, 1)]; PYield 0%nat; PSet 0%nat ex_a 2; PSet 0%nat ex_b 7; PYield 0%nat] = ([ex_a], [[1]; [2]]) /\
  frame_from_producer key_dec 0 []
    [PNew [(ex_a, 1); (ex_b, 2)]; PYield 0%nat; PDel 0%nat ex_b; PNew [(ex_b, 4)]; PYield 1%nat; PYield 0%nat] =
    ([ex_a; ex_b], [[1; 2]; [0; 4]; [1; 0]]).
Proof. repeat split; reflexivity. Qed.

(* derived frames: the rows of a frame built from dictionaries under new / permuted names, and head() of an
   Arrow frame, each then given a dictionary in another key order *)
Example C02_nonvacuous_derived :
  snd (srun key_dec 0 s_init
         [SFrame [[(ex_a, 1); (ex_b, 2)]; [(ex_b, 4); (ex_a, 3)]]; SReframe 0%nat [ex_b; ex_c];
          SAppend 1%nat [(ex_c, 6); (ex_b, 5)];
          SArrow [ex_a; ex_b] [[7; 8]; [9; 10]]; SDerive 2%nat 1%nat; SAppend 3%nat [(ex_b, 12); (ex_a, 11)]; SRows 0%nat]) =
  [SOFrame [ex_a; ex_b] [[1; 2]; [3; 4]]; SOFrame [ex_b; ex_c] [[1; 2]; [3; 4]];
   SOFrame [ex_b; ex_c] [[1; 2]; [3; 4]; [5; 6]];
   SOFrame [ex_a; ex_b] [[7; 8]; [9; 10]]; SOFrame [ex_a; ex_b] [[7; 8]]; SOFrame [ex_a; ex_b] [[7; 8]; [11; 12]];
   SOFrame [ex_a; ex_b] [[1; 2]; [3; 4]]].
Proof. reflexivity. Qed.

(* ---- dictionaries whose keys are not all strings (round 7) ----
   PK = key objects, K = names (strings); an entry is ((key object, its str()), value).
   DataFrame(dictionaries) puts each value at the position of the KEY OBJECT it is stored under: cell (j, i) is
   dictionary j's value under the i-th key object of the first dictionary (None when it has no equal key); the
   column is merely named str(key object) - two keys with one name (1 and '1') are two columns with their own
   values.  One row per dictionary, every row as wide as the column list; the rows are exactly those of the
   constructor model run over the key objects. *)
Theorem C02_keyed_frame_by_key_object :
  forall (PK K V : Type) (eqPK : forall a b : PK, {a = b} + {a <> b}) (vnone : V) (ds : list (list ((PK * K) * V))),
  let f := keyed_frame eqPK vnone ds in
  fst f = match ds with [] => [] | d :: _ => kd_names d end /\
  length (snd f) = length ds /\
  Forall (fun r => length r = length (fst f)) (snd f) /\
  snd f = snd (frame_of_dicts eqPK vnone (map kd_ident ds)) /\
  (forall first rest d j i o n v0,
     ds = first :: rest -> nth_error ds j = Some d -> nth_error first i = Some ((o, n), v0) ->
     nth_error (fst f) i = Some n /\
     exists r, nth_error (snd f) j = Some r /\
               nth_error r i = Some (match lookup eqPK o (kd_ident d) with Some v => v | None => vnone end)).
Proof.
  intros PK K V eqPK vnone ds f.
  destruct (keyed_rows_are_object_rows PK K V eqPK vnone ds) as [Hr [Hc _]].
  destruct (keyed_shape PK K V eqPK vnone ds) as [Hl Hw].
  repeat split; try assumption.
  - eapply (keyed_cell PK K V eqPK vnone ds); eassumption.
  - eapply (keyed_cell PK K V eqPK vnone ds first d rest j i o n v0); eassumption.
Qed.
Print Assumptions C02_keyed_frame_by_key_object.

(* append(dict) on such a frame goes by column NAME: the appended cell i is the dictionary's value under the key
   object that IS the string naming column i (a key 1 does not feed a column named '1'). *)
Theorem C02_keyed_append_by_name :
  forall (PK K V : Type) (eqPK : forall a b : PK, {a = b} + {a <> b}) (vnone : V) (inj : K -> PK)
         (f : list K * list (list V)) (d : list ((PK * K) * V)),
  fst (keyed_append eqPK vnone inj f d) = fst f /\
  snd (keyed_append eqPK vnone inj f d) =
    snd f ++ [map (fun c => match lookup eqPK (inj c) (kd_ident d) with Some v => v | None => vnone end) (fst f)].
Proof. exact keyed_append_row. Qed.
Print Assumptions C02_keyed_append_by_name.

(* On dictionaries whose keys are all strings the keyed model IS the constructor / append model of the theorems
   above (a string is only equal to itself as a key object). *)
Theorem C02_keyed_agrees_on_string_keys :
  forall (PK K V : Type) (eqPK : forall a b : PK, {a = b} + {a <> b}) (eqK : forall a b : K, {a = b} + {a <> b})
         (vnone : V) (inj : K -> PK),
  (forall a b, inj a = inj b -> a = b) ->
  (forall ds : list (list (K * V)), keyed_frame eqPK vnone (map (kd_of_dict inj) ds) = frame_of_dicts eqK vnone ds) /\
  (forall f (d : list (K * V)), keyed_append eqPK vnone inj f (kd_of_dict inj d) = frame_append eqK vnone f d).
Proof.
  intros PK K V eqPK eqK vnone inj Hinj. split.
  - exact (keyed_frame_of_string_keyed PK K V eqPK eqK vnone inj Hinj).
  - exact (keyed_append_of_string_keyed PK K V eqPK eqK vnone inj Hinj).
Qed.
Print Assumptions C02_keyed_agrees_on_string_keys.

(* keys 1 and '1' in one dictionary (two columns named "1", each with its own value, also when the second
   dictionary lists them the other way round); int / None / bytes / tuple keys keep their values; True finds the
   value stored under 1; append({1: .., '1': ..}) feeds both columns named "1" from the string key.
   PKStr is injective, so the previous theorem applies to the instance. *)
Example C02_nonvacuous_keyed :
  let one := [49%N] in
  keyed_frame pkey_dec 0 [[((PKNum 1, one), 5); ((PKStr one, one), 6)]; [((PKStr one, one), 8); ((PKNum 1, one), 7)]] =
    ([one; one], [[5; 6]; [7; 8]]) /\
  keyed_appends pkey_dec 0 PKStr ([one; one], [[5; 6]]) [[((PKNum 1, one), 3); ((PKStr one, one), 4)]] =
    ([one; one], [[5; 6]; [4; 4]]) /\
  keyed_frame pkey_dec 0 [[((PKNum 0, [48%N]), 1); ((PKNone, [78%N]), 2); ((PKBytes [107%N], [98%N]), 3); ((PKObj 0, [40%N]), 4)];
                          [((PKObj 0, [40%N]), 9); ((PKNum 1, [84%N]), 8); ((PKStr [48%N], [48%N]), 7)]] =
    ([[48%N]; [78%N]; [98%N]; [40%N]], [[1; 2; 3; 4]; [0; 0; 0; 9]]) /\
  (forall a b, PKStr a = PKStr b -> a = b).
Proof. repeat split; try reflexivity. intros a b H. now inversion H. Qed.
