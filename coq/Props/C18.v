(* C18 - Rendering a DataFrame never fails and shows the right rows.
   Property theorems only; each is closed by [exact] of a lemma from Proofs/C18*.v and
   followed by Print Assumptions.  The definitions are those of Model/C18.v, the same ones
   the correspondence evaluates (shown_lines, type_formatter, cut_lines, ascii_table,
   df_str, pw). *)
From Coq Require Import String.
From Coq Require Import List NArith ZArith Bool Arith.
From Orso Require Import Model.C18 Proofs.C18.
Import ListNotations.
Local Open Scope list_scope.

(* ---------------- (a) the rows shown and their labels ---------------- *)

(* For every frame, every limit >= 1, head-only and top-and-tail, eager and lazily backed
   (the islice/deque path included): what ascii_table's selection and its two labelling loops
   produce is exactly the property's description [spec_lines] - the first `limit` rows
   numbered from 1 (head-only); all rows numbered from 1 when n <= 2*limit; otherwise the
   first `limit` rows, ONE ellipsis line, the last `limit` rows numbered n-limit+1 .. n. *)
Theorem C18_rows_shown :
  forall (A : Type) (l : list A) (limit : nat) (tt lz : bool),
  1 <= limit -> shown_lines l limit tt lz = spec_lines l limit tt.
Proof. exact (@shown_lines_spec). Qed.
Print Assumptions C18_rows_shown.

(* Each label is the row's true 1-based position in the frame. *)
Theorem C18_labels_true_position :
  forall (A : Type) (l : list A) (limit : nat) (tt lz : bool) (lab : nat) (r : A),
  1 <= limit -> In (LRow lab r) (shown_lines l limit tt lz) ->
  1 <= lab /\ nth_error l (lab - 1) = Some r.
Proof. exact (@labels_true_position). Qed.
Print Assumptions C18_labels_true_position.

(* Closed form: rows, labels and the number (and place) of ellipsis lines. *)
Theorem C18_rows_labels_ellipsis :
  forall (A : Type) (l : list A) (limit : nat) (tt lz : bool),
  1 <= limit ->
  let n := length l in
  let ls := shown_lines l limit tt lz in
  (tt = false ->
     rows_of ls = firstn limit l /\ labels_of ls = seq 1 (Nat.min limit n) /\ ellipses ls = 0) /\
  (tt = true -> n <= 2 * limit ->
     rows_of ls = l /\ labels_of ls = seq 1 n /\ ellipses ls = 0) /\
  (tt = true -> 2 * limit < n ->
     rows_of ls = firstn limit l ++ skipn (n - limit) l /\
     labels_of ls = seq 1 limit ++ seq (n - limit + 1) limit /\
     ellipses ls = 1 /\
     nth_error ls limit = Some LEllipsis).
Proof. exact (@shown_rows_labels_ellipsis). Qed.
Print Assumptions C18_rows_labels_ellipsis.

(* ---------------- (b) never fails ---------------- *)

(* For every value of the kinds the property enumerates (null, bool, int, float, Decimal, text of any
   code points, date, datetime, bytes of any content, dict, interval, list/tuple, objects rendered
   through str() such as times, NumPy ints / floats / bools / other scalars, arrays, timedelta64
   of any unit, NaT included) and every width, the cell formatter returns Ok: no Raise is
   reachable.  The model receives str(value) / strftime / tolist() texts as data; a value whose own
   str() raises (an int beyond CPython's int->str digit limit, a user object) cannot be described
   as a case and is outside every model - the differential run is all there is for those. *)
Theorem C18_formatter_total :
  forall (c : cell) (w : nat), exists t, type_formatter c w = Ok t.
Proof. exact type_formatter_total. Qed.
Print Assumptions C18_formatter_total.

(* bytes of ANY content (valid UTF-8 or not) format without error (F-C18-2, fixed) *)
Theorem C18_bytes_any_content_total :
  forall (bs : list N) (cs : option text) (w : nat),
  exists t, type_formatter (mkcell (VBytes bs) cs) w = Ok t.
Proof. exact blob_cell_total. Qed.
Print Assumptions C18_bytes_any_content_total.

(* the whole table, for every frame (ragged or not), every limit / width / mode, eager and lazy;
   str() likewise; markdown is total by its type *)
Theorem C18_display_total :
  forall (f : frame) (cfg : config), exists t, ascii_table f cfg = Ok t.
Proof. exact ascii_table_total. Qed.
Print Assumptions C18_display_total.

Theorem C18_str_total :
  forall (f : frame) (cols : nat), exists t, df_str f cols = Ok t.
Proof. exact df_str_total. Qed.
Print Assumptions C18_str_total.

(* ---------------- (b') subclass instances (round 4) ---------------- *)

(* A cell that is an instance of a proper SUBCLASS of a listed kind - numpy.ma.MaskedArray / numpy.matrix /
   numpy.recarray / a user subclass of ndarray, an int / float / str / bytes / Decimal / date / datetime /
   timedelta / dict / list / tuple subclass (IntEnum, OrderedDict, namedtuple ...) - is [VSub v], v describing
   it as a base-class instance of equal content.  Every observer of a cell the renderers use gives it what
   it gives the base-class instance: every class test of ascii_table is an isinstance test. *)
Theorem C18_subclass_cell_as_base :
  forall (v : value) (s : option text) (w : nat),
  is_none (mkcell (VSub v) s) = is_none (mkcell v s) /\
  cell_str (mkcell (VSub v) s) = cell_str (mkcell v s) /\
  type_formatter (mkcell (VSub v) s) w = type_formatter (mkcell v s) w.
Proof. exact subclass_cell_as_base. Qed.
Print Assumptions C18_subclass_cell_as_base.

(* ... and so do the three renderings of any frame, for every configuration, eager and lazy: removing
   every subclass mark of a frame (arbitrarily nested marks, any cell, ragged or not) changes no rendering.
   With C18_display_total / C18_str_total: a frame holding such instances renders, and renders as the
   frame of base-class instances does. *)
Theorem C18_subclass_frame_as_base :
  forall (f : frame) (cfg : config) (cols lim m : nat),
  ascii_table (erase_frame f) cfg = ascii_table f cfg /\
  df_str (erase_frame f) cols = df_str f cols /\
  markdown (erase_frame f) lim m = markdown f lim m.
Proof. exact subclass_frame_as_base. Qed.
Print Assumptions C18_subclass_frame_as_base.

(* an ndarray subclass instance of any content and dtype is formatted as its tolist() is - the scalar
   branches int(value) / float(value) / bool(value) of numpy_type_mapper are never taken for it *)
Theorem C18_ndarray_subclass_as_tolist :
  forall (x : value) (s : option text) (w : nat),
  type_formatter (mkcell (VSub (VNpArray x)) s) w = fmt_value (unsub x) w.
Proof. exact subarray_as_tolist. Qed.
Print Assumptions C18_ndarray_subclass_as_tolist.

(* ---------------- (c) equal printed width ---------------- *)

(* Full statement: for printable-ASCII names, type names and cells, all box lines of the
   OUTPUT have the same printed width <= display width.
   Proved: for every rectangular frame with printable-ASCII content, limit, max column width
   and display width >= 1, both modes, eager and lazy: every box line handed to colorizer (after
   the display-width cut) has printed width exactly min(table width, display width), colour tokens
   counted as zero width as trunc_printable itself counts them.  Missing (the only reason for
   _partial): that colorizer turns exactly the tokens into zero-width escape sequences / nothing.
   That is false when the content contains the six characters \u0001 (known finding F-C18-4,
   refuted below); for all other content it is checked by the correspondence and the oracle, not
   proved. *)
Theorem C18_box_lines_equal_width_partial :
  forall (f : frame) (cfg : config) (cuts : list (lkind * text)),
  frame_ok f -> pframe f -> 1 <= limit cfg -> 1 <= mcw cfg -> 1 <= dwidth cfg ->
  cut_lines f cfg = Ok cuts ->
  forall ln, In (KBox, ln) cuts -> pw ln = Nat.min (table_width f cfg) (dwidth cfg).
Proof. exact box_lines_cut_width. Qed.
Print Assumptions C18_box_lines_equal_width_partial.

Theorem C18_box_lines_within_display_partial :
  forall (f : frame) (cfg : config) (cuts : list (lkind * text)),
  frame_ok f -> pframe f -> 1 <= limit cfg -> 1 <= mcw cfg -> 1 <= dwidth cfg ->
  cut_lines f cfg = Ok cuts ->
  forall l1 l2, In (KBox, l1) cuts -> In (KBox, l2) cuts -> pw l1 = pw l2 /\ pw l1 <= dwidth cfg.
Proof. exact box_lines_within_display. Qed.
Print Assumptions C18_box_lines_within_display_partial.

(* the cut itself, for any well-formed markup: trunc_printable's accounting is exact *)
Theorem C18_trunc_printable_width :
  forall (s : text) (k w : nat), wf s k -> 1 <= w ->
  pw (trunc_printable s w true) = w /\ pw (trunc_printable s w false) = Nat.min k w.
Proof. exact trunc_printable_width. Qed.
Print Assumptions C18_trunc_printable_width.

(* F-C18-4: printable-ASCII content containing \u0001OFFm: the two data lines have the same
   printed width before colorizer and different lengths after it (colour off, so length =
   printed width) *)
Theorem C18_literal_u0001_width_refuted :
  exists (f : frame) (cfg : config), frame_ok f /\ pframe f /\
  exists cuts l1 l2, cut_lines f cfg = Ok cuts /\ In (KBox, l1) cuts /\ In (KBox, l2) cuts /\
    pw l1 = pw l2 /\ length (colorizer l1 false) <> length (colorizer l2 false).
Proof. exists f4, cfg4. exact literal_u0001_breaks_width. Qed.
Print Assumptions C18_literal_u0001_width_refuted.

(* ---------------- non-vacuity ---------------- *)
(* a lazily backed 7-row frame with a typed schema and a list column satisfies every
   hypothesis above; limit 2 shows rows 1 2 ... 6 7 *)
Example C18_nonvacuous_hypotheses : frame_ok fx /\ pframe fx.
Proof. exact fx_hypotheses. Qed.

Example C18_nonvacuous_labels :
  labels_of (shown_lines (rows fx) (limit cfgx) (top_tail cfgx) (lazy fx)) = [1; 2; 6; 7] /\
  ellipsis_at (shown_lines (rows fx) (limit cfgx) (top_tail cfgx) (lazy fx)) 0 = [2].
Proof. split; reflexivity. Qed.

Example C18_nonvacuous_widths :
  match cut_lines fx cfgx with
  | Ok cuts => map (fun l => pw (snd l)) cuts = [25; 25; 25; 25; 25; 25; 3; 25; 25; 25] /\ table_width fx cfgx = 30
  | Raise _ => False
  end.
Proof. vm_compute. split; reflexivity. Qed.

(* the former F-C18-3 witnesses (fixed by c25f207): NaT renders as null, 14 months as 1y 2mo *)
Example C18_timedelta64_nat_is_null :
  type_formatter (mkcell (VNpTimedelta true true 0%Z) (Some (T "NaT"))) 4 = Ok (tok "NULL" ++ T "null" ++ OFF).
Proof. exact nat_timedelta_null. Qed.
Example C18_timedelta64_months :
  type_formatter (mkcell (VNpTimedelta false false 14%Z) (Some (T "14 months"))) 9
  = Ok (tok "INTERVAL" ++ T "1y 2mo" ++ OFF ++ OFF ++ T "   ").
Proof. exact month_timedelta_interval. Qed.

(* the F-C18-2 witness under the decoder without errors="replace" *)
Example C18_strict_decode_raises : utf8_decode false [255%N; 254%N] = Raise UnicodeDecodeError.
Proof. exact strict_decode_raises. Qed.

(* well-formed markup exists with tokens inside: a coloured cell *)
Example C18_nonvacuous_wf : wf (tok "INTEGER" ++ T "  42" ++ OFF) 4.
Proof. apply wfb_wf. vm_compute. reflexivity. Qed.

(* round 4: a masked array cell [1 -- 3] renders as the list its tolist() is, and the mark is a real one *)
Example C18_masked_array_renders :
  type_formatter masked_cell 18
  = Ok (tok "PUNC" ++ T "['" ++ tok "VALUE" ++ T "1" ++ tok "PUNC" ++ T "', '" ++ tok "VALUE" ++ T "None" ++ tok "PUNC" ++ T "', '"
        ++ tok "VALUE" ++ T "3" ++ tok "PUNC" ++ T "']" ++ OFF)
  /\ erase_cell masked_cell <> masked_cell.
Proof. exact masked_array_renders. Qed.

(* ---------------- (e) round 7: columns are positional ---------------- *)

(* The width of column j in closed form: min(max_column_width, max(its own name, its own type text when the type row is
   shown, calculate_data_width of its own shown cells)).  Nothing else enters: not another column's cells, not whether
   another column carries the same name (there is no lookup by name anywhere in the model of ascii_table). *)
Theorem C18_column_width_is_its_own :
  forall (f : frame) (cfg : config) (t : list (list cell)) (j : nat) (nm ty : text),
  nth_error (names f) j = Some nm -> nth_error (col_types f) j = Some ty ->
  nth_error (col_widths f cfg t) j =
  Some (Nat.min (Nat.max (Nat.max (length nm) (if show_types cfg then length ty else 0)) (data_width t j)) (mcw cfg)).
Proof. exact col_widths_nth. Qed.
Print Assumptions C18_column_width_is_its_own.

(* Nothing but max_column_width cuts a cell: column j is at least as wide as the text of each of its own shown non-null
   cells and as its own name, up to max_column_width. *)
Theorem C18_column_wide_enough :
  forall (f : frame) (cfg : config) (t : list (list cell)) (j : nat) (nm ty : text) (r : list cell) (c : cell),
  nth_error (names f) j = Some nm -> nth_error (col_types f) j = Some ty ->
  In r t -> nth_error r j = Some c -> is_none c = false ->
  exists w, nth_error (col_widths f cfg t) j = Some w /\
            Nat.min (length (cell_str c)) (mcw cfg) <= w /\ Nat.min (length nm) (mcw cfg) <= w /\ w <= mcw cfg.
Proof. exact column_wide_enough. Qed.
Print Assumptions C18_column_wide_enough.

(* A number (int, float, Decimal) in a shown row whose text is not longer than max_column_width is printed with every
   digit, right-aligned in its column. *)
Theorem C18_number_shown_in_full :
  forall (f : frame) (cfg : config) (t : list (list cell)) (j : nat) (nm ty : text) (r : list cell) (c : cell)
         (tk : String.string) (s : text),
  nth_error (names f) j = Some nm -> nth_error (col_types f) j = Some ty ->
  In r t -> nth_error r j = Some c -> numeric_cell c tk s -> length s <= mcw cfg ->
  exists w, nth_error (col_widths f cfg t) j = Some w /\ length s <= w /\
            type_formatter c w = Ok (tok tk ++ spaces (w - length s) ++ s ++ OFF).
Proof. exact number_shown_in_full. Qed.
Print Assumptions C18_number_shown_in_full.

(* Renaming the columns to names of the same lengths - all to ONE name included - changes the header line and nothing
   else: the same top rule, type row, separator, row lines (cells, widths, labels, ellipsis) and bottom rule, and the
   same error if there is one. *)
Theorem C18_names_only_in_header :
  forall (f : frame) (ns : list text) (cfg : config),
  map (@length N) ns = map (@length N) (names f) ->
  match inner_tagged f cfg, inner_tagged (rename f ns) cfg with
  | Ok ls, Ok ls' => exists top hd hd' rest, ls = top :: hd :: rest /\ ls' = top :: hd' :: rest
  | Raise e, Raise e' => e = e'
  | _, _ => False
  end.
Proof. exact names_only_in_header. Qed.
Print Assumptions C18_names_only_in_header.

(* schema id, id, km with the wider values in the SECOND id column: widths 4, 8, 4 *)
Example C18_repeated_name_widths : col_widths dup_frame dup_cfg (rows dup_frame) = [4; 8; 4].
Proof. exact dup_frame_widths. Qed.
