(* C18 - Rendering a DataFrame never fails and shows the right rows. *)
From Coq Require Import List NArith ZArith Bool Arith.
From Orso Require Import Model.C18 Proofs.C18.
Import ListNotations.

Theorem C18_blob_decode_total : forall bs : list N, exists t, utf8_decode true bs = Ok t.
Proof. exact blob_decode_total. Qed.
Print Assumptions C18_blob_decode_total.
