(* C18 - Rendering a DataFrame never fails and shows the right rows.
   Property theorems only; each is closed by [exact] of a lemma from Proofs/C18*.v and
   followed by Print Assumptions.  The definitions are those of Model/C18.v, the same ones
   the correspondence evaluates (shown_lines, type_formatter, cut_lines, ascii_table,
   df_str, pw). *)
From Coq Require Import String.
From Coq Require Import List NArith ZArith Bool Arith.
From Orso Require Import Model.C18 Proofs.C18.
Import ListNotations.
Local Open Scope list_scope.

(* ---------------- (a) the rows shown and their labels ---------------- *)

(* For every frame, every limit >= 1, head-only and top-and-tail, eager and lazily backed
   (the islice/deque path included): what ascii_table's selection and its two labelling loops
   produce is exactly the property's description [spec_lines] - the first `limit` rows
   numbered from 1 (head-only); all rows numbered from 1 when n <= 2*limit; otherwise the
   first `limit` rows, ONE ellipsis line, the last `limit` rows numbered n-limit+1 .. n. *)
Theorem C18_rows_shown :
  forall (A : Type) (l : list A) (limit : nat) (tt lz : bool),
  1 <= limit -> shown_lines l limit tt lz = spec_lines l limit tt.
Proof. exact (@shown_lines_spec). Qed.
Print Assumptions C18_rows_shown.

(* Each label is the row's true 1-based position in the frame. *)
Theorem C18_labels_true_position :
  forall (A : Type) (l : list A) (limit : nat) (tt lz : bool) (lab : nat) (r : A),
  1 <= limit -> In (LRow lab r) (shown_lines l limit tt lz) ->
  1 <= lab /\ nth_error l (lab - 1) = Some r.
Proof. exact (@labels_true_position). Qed.
Print Assumptions C18_labels_true_position.

(* Closed form: rows, labels and the number (and place) of ellipsis lines. *)
Theorem C18_rows_labels_ellipsis :
  forall (A : Type) (l : list A) (limit : nat) (tt lz : bool),
  1 <= limit ->
  let n := length l in
  let ls := shown_lines l limit tt lz in
  (tt = false ->
     rows_of ls = firstn limit l /\ labels_of ls = seq 1 (Nat.min limit n) /\ ellipses ls = 0) /\
  (tt = true -> n <= 2 * limit ->
     rows_of ls = l /\ labels_of ls = seq 1 n /\ ellipses ls = 0) /\
  (tt = true -> 2 * limit < n ->
     rows_of ls = firstn limit l ++ skipn (n - limit) l /\
     labels_of ls = seq 1 limit ++ seq (n - limit + 1) limit /\
     ellipses ls = 1 /\
     nth_error ls limit = Some LEllipsis).
Proof. exact (@shown_rows_labels_ellipsis). Qed.
Print Assumptions C18_rows_labels_ellipsis.

(* ---------------- (b) never fails ---------------- *)

(* Full statement (not provable in any model): for ANY Python object in a cell the renderings
   complete.  Proved: for every value of the enumerated kinds (null, bool, int, float, Decimal,
   text of any code points, date, datetime, bytes of any content, dict, interval, list/tuple,
   other objects rendered through str(), NumPy ints/floats/bools/other scalars, arrays,
   timedelta64) except a timedelta64 that is NaT or counted in months/years (F-C18-3), the cell
   formatter returns Ok for every width.  Outside: arbitrary objects whose str() raises. *)
Theorem C18_formatter_total_partial :
  forall (c : cell) (w : nat), td_ok (cv c) -> exists t, type_formatter c w = Ok t.
Proof. exact type_formatter_total. Qed.
Print Assumptions C18_formatter_total_partial.

(* ... and the formatter raises on nothing else. *)
Theorem C18_formatter_raises_only_on_timedelta64 :
  forall (c : cell) (w : nat) (e : exn), type_formatter c w = Raise e ->
  exists is_nat linear ns, cv c = VNpTimedelta is_nat linear ns /\ (is_nat = true \/ linear = false).
Proof. exact type_formatter_raises. Qed.
Print Assumptions C18_formatter_raises_only_on_timedelta64.

(* bytes of ANY content (valid UTF-8 or not) format without error (F-C18-2, fixed) *)
Theorem C18_bytes_any_content_total :
  forall (bs : list N) (cs : option text) (w : nat),
  exists t, type_formatter (mkcell (VBytes bs) cs) w = Ok t.
Proof. exact blob_cell_total. Qed.
Print Assumptions C18_bytes_any_content_total.

(* the whole table and str(): Ok whenever no cell is a NaT / month-year timedelta64 *)
Theorem C18_display_total_partial :
  forall (f : frame) (cfg : config), 1 <= limit cfg -> cells_ok f -> exists t, ascii_table f cfg = Ok t.
Proof. exact ascii_table_total. Qed.
Print Assumptions C18_display_total_partial.

Theorem C18_str_total_partial :
  forall (f : frame) (cols : nat), cells_ok f -> exists t, df_str f cols = Ok t.
Proof. exact df_str_total. Qed.
Print Assumptions C18_str_total_partial.

Theorem C18_display_raises_only_on_timedelta64 :
  forall (f : frame) (cfg : config) (e : exn), 1 <= limit cfg -> ascii_table f cfg = Raise e ->
  exists r c is_nat linear ns, In r (rows f) /\ In c r /\
    cv c = VNpTimedelta is_nat linear ns /\ (is_nat = true \/ linear = false).
Proof. exact ascii_table_raises. Qed.
Print Assumptions C18_display_raises_only_on_timedelta64.

(* F-C18-3: a NaT timedelta64 raises ValueError, a month-unit one TypeError *)
Theorem C18_timedelta64_nat_refuted :
  exists (c : cell) (w : nat), type_formatter c w = Raise ValueError.
Proof. eexists; eexists; exact nat_timedelta_raises. Qed.
Print Assumptions C18_timedelta64_nat_refuted.

Theorem C18_timedelta64_month_refuted :
  exists (c : cell) (w : nat), type_formatter c w = Raise TypeError.
Proof. eexists; eexists; exact month_timedelta_raises. Qed.
Print Assumptions C18_timedelta64_month_refuted.

(* ---------------- (c) equal printed width ---------------- *)

(* Full statement: for printable-ASCII names, type names and cells, all box lines of the
   OUTPUT have the same printed width <= display width.
   Proved: for every rectangular frame with printable-ASCII content, limit, max column width
   and display width >= 1: every box line handed to colorizer (after the display-width cut) has
   printed width exactly min(table width, display width), colour tokens counted as zero width
   as trunc_printable itself counts them.  Missing: (1) that colorizer turns exactly the tokens
   into zero-width escape sequences / nothing - false when the content contains the six
   characters \u0001 (F-C18-4, refuted below), otherwise checked by the correspondence and the
   oracle only; (2) lazily backed head-only rendering of 100 or more rows, where the label
   outgrows the index column (F-C18-5, refuted below): [frame_guard]. *)
Theorem C18_box_lines_equal_width_partial :
  forall (f : frame) (cfg : config) (cuts : list (lkind * text)),
  frame_ok f -> pframe f -> 1 <= limit cfg -> 1 <= mcw cfg -> 1 <= dwidth cfg -> frame_guard f cfg ->
  cut_lines f cfg = Ok cuts ->
  forall ln, In (KBox, ln) cuts -> pw ln = Nat.min (table_width f cfg) (dwidth cfg).
Proof. exact box_lines_cut_width. Qed.
Print Assumptions C18_box_lines_equal_width_partial.

Theorem C18_box_lines_within_display_partial :
  forall (f : frame) (cfg : config) (cuts : list (lkind * text)),
  frame_ok f -> pframe f -> 1 <= limit cfg -> 1 <= mcw cfg -> 1 <= dwidth cfg -> frame_guard f cfg ->
  cut_lines f cfg = Ok cuts ->
  forall l1 l2, In (KBox, l1) cuts -> In (KBox, l2) cuts -> pw l1 = pw l2 /\ pw l1 <= dwidth cfg.
Proof. exact box_lines_within_display. Qed.
Print Assumptions C18_box_lines_within_display_partial.

(* the cut itself, for any well-formed markup: trunc_printable's accounting is exact *)
Theorem C18_trunc_printable_width :
  forall (s : text) (k w : nat), wf s k -> 1 <= w ->
  pw (trunc_printable s w true) = w /\ pw (trunc_printable s w false) = Nat.min k w.
Proof. exact trunc_printable_width. Qed.
Print Assumptions C18_trunc_printable_width.

(* F-C18-5: a generator-backed frame of 100 rows rendered head-only with limit 100 has box
   lines of different printed widths (label "100" in a 2-column index field) *)
Theorem C18_lazy_head_only_width_refuted :
  exists (f : frame) (cfg : config), frame_ok f /\ pframe f /\
  exists cuts l1 l2, cut_lines f cfg = Ok cuts /\ In (KBox, l1) cuts /\ In (KBox, l2) cuts /\ pw l1 <> pw l2.
Proof. exists f5, cfg5. exact lazy_head_only_overflow. Qed.
Print Assumptions C18_lazy_head_only_width_refuted.

(* F-C18-4: printable-ASCII content containing \u0001OFFm: the two data lines have the same
   printed width before colorizer and different lengths after it (colour off, so length =
   printed width) *)
Theorem C18_literal_u0001_width_refuted :
  exists (f : frame) (cfg : config), frame_ok f /\ pframe f /\ frame_guard f cfg /\
  exists cuts l1 l2, cut_lines f cfg = Ok cuts /\ In (KBox, l1) cuts /\ In (KBox, l2) cuts /\
    pw l1 = pw l2 /\ length (colorizer l1 false) <> length (colorizer l2 false).
Proof. exists f4, cfg4. exact literal_u0001_breaks_width. Qed.
Print Assumptions C18_literal_u0001_width_refuted.

(* ---------------- non-vacuity ---------------- *)
(* a lazily backed 7-row frame with a typed schema and a list column satisfies every
   hypothesis above; limit 2 shows rows 1 2 ... 6 7 *)
Example C18_nonvacuous_hypotheses : frame_ok fx /\ pframe fx /\ frame_guard fx cfgx /\ cells_ok fx.
Proof. exact fx_hypotheses. Qed.

Example C18_nonvacuous_labels :
  labels_of (shown_lines (rows fx) (limit cfgx) (top_tail cfgx) (lazy fx)) = [1; 2; 6; 7] /\
  ellipsis_at (shown_lines (rows fx) (limit cfgx) (top_tail cfgx) (lazy fx)) 0 = [2].
Proof. split; reflexivity. Qed.

Example C18_nonvacuous_widths :
  match cut_lines fx cfgx with
  | Ok cuts => map (fun l => pw (snd l)) cuts = [25; 25; 25; 25; 25; 25; 3; 25; 25; 25] /\ table_width fx cfgx = 30
  | Raise _ => False
  end.
Proof. vm_compute. split; reflexivity. Qed.

(* the F-C18-2 witness under the decoder without errors="replace" *)
Example C18_strict_decode_raises : utf8_decode false [255%N; 254%N] = Raise UnicodeDecodeError.
Proof. exact strict_decode_raises. Qed.

(* well-formed markup exists with tokens inside: a coloured cell *)
Example C18_nonvacuous_wf : wf (tok "INTEGER" ++ T "  42" ++ OFF) 4.
Proof. apply wfb_wf. vm_compute. reflexivity. Qed.
