(* C01 - Row byte format is lossless and self-delimiting.
   Property theorems only; each is closed by [exact] of a lemma from Proofs/C01*.v and followed by
   Print Assumptions.  [encode_row] models Row.as_bytes, [decode_row] models from_bytes_cython,
   [pack]/[unpack] model ormsgpack.packb/unpackb (Model/C01.v); the header constants and ormsgpack's
   nesting limits come from Gen/C01_RowFmt.v, regenerated on every run. *)
From Coq Require Import List NArith ZArith Bool.
From Orso Require Import Gen.C01_RowFmt Model.C01 Model.C01_Sched Model.C01_Sess Proofs.C01 Proofs.C01_Sched Proofs.C01_Sess.
Import ListNotations.
Open Scope N_scope.

(* The reader inverts the writer on every well-formed value (64-bit integers, 64-bit float patterns - NaN
   payloads, infinities and -0.0 are just patterns -, well-formed UTF-8 text and keys, every length < 2^32),
   whatever follows it in the input: the encoding is self-delimiting.  [fuel] bounds the nesting the reader accepts. *)
Theorem C01_unpack_pack :
  forall v : mval, wf v ->
  forall (fuel : nat) (rest : bytes), (vdepth v <= fuel)%nat ->
  unpack fuel (pack v ++ rest) = Some (v, rest).
Proof. exact unpack_pack. Qed.
Print Assumptions C01_unpack_pack.

(* Whatever the encoder can emit, the decoder can open: the deepest nesting packb accepts (measured) is
   within what unpackb accepts (measured). *)
Theorem C01_every_emitted_depth_is_decodable : enc_limit <= dec_limit.
Proof. exact enc_limit_le_dec_limit. Qed.
Print Assumptions C01_every_emitted_depth_is_decodable.

(* Every record the encoder emits passes the decoder's three header checks and unpacks to exactly the row
   that was packed; only the ['__datetime__', x] rewrite of from_bytes_cython remains to be applied. *)
Theorem C01_emitted_accepted :
  forall (ts : N) (row : list mval) (r : bytes),
  encode_row ts row = Ok r -> decode_row r = post row.
Proof. exact decode_encode. Qed.
Print Assumptions C01_emitted_accepted.

(* Lossless: decoding an emitted record returns the row, value for value and in order (floats compared as
   64-bit patterns, so NaN / +-inf / -0.0 are covered; int64/uint64 extremes are in the domain), provided no
   top-level element has the reserved form ['__datetime__', x]. *)
Theorem C01_roundtrip :
  forall (ts : N) (row : list mval) (r : bytes),
  encode_row ts row = Ok r -> no_datetime row = true ->
  decode_row r = Ok (map CVal row).
Proof. exact roundtrip. Qed.
Print Assumptions C01_roundtrip.

(* ... and the encoder does emit a record for every well-formed row within the serialiser's nesting limit
   and the 16 MiB cap (the statement of DESIGN.md, with its hypotheses spelled out). *)
Theorem C01_roundtrip_explicit :
  forall (ts : N) (row : list mval),
  wf (MArr row) -> cdepth (MArr row) <= enc_container_limit -> no_datetime row = true ->
  (Z.of_N (len (pack (MArr row))) <= row_MAXIMUM_RECORD_SIZE)%Z ->
  exists r, encode_row ts row = Ok r /\ decode_row r = Ok (map CVal row).
Proof. exact roundtrip_explicit. Qed.
Print Assumptions C01_roundtrip_explicit.

(* Above the cap nothing is emitted: DataError. *)
Theorem C01_oversize_refused :
  forall (ts : N) (row : list mval),
  wf (MArr row) -> cdepth (MArr row) <= enc_container_limit ->
  (row_MAXIMUM_RECORD_SIZE < Z.of_N (len (pack (MArr row))))%Z ->
  encode_row ts row = Raise DataError.
Proof. exact encode_oversize. Qed.
Print Assumptions C01_oversize_refused.

(* A write torn at any byte: every strict prefix of an emitted record is rejected with DataError. *)
Theorem C01_torn :
  forall (ts : N) (row : list mval) (r : bytes) (k : nat),
  encode_row ts row = Ok r -> (k < length r)%nat ->
  decode_row (firstn k r) = Raise DataError.
Proof. exact torn_rejected. Qed.
Print Assumptions C01_torn.

(* Every extension of an emitted record by a non-empty suffix is rejected with DataError. *)
Theorem C01_extended :
  forall (ts : N) (row : list mval) (r s : bytes),
  encode_row ts row = Ok r -> s <> [] ->
  decode_row (r ++ s) = Raise DataError.
Proof. exact extended_rejected. Qed.
Print Assumptions C01_extended.

(* The first byte replaced by any byte whose high nibble is not the version (1): DataError.
   (The encoder writes 0x10: [version_written].) *)
Theorem C01_version_altered :
  forall (ts : N) (row : list mval) (b0 : N) (tl : bytes) (b0' : N),
  encode_row ts row = Ok (b0 :: tl) ->
  b0' < 256 -> b0' / 16 <> 1 ->
  decode_row (b0' :: tl) = Raise DataError.
Proof. exact version_altered_rejected. Qed.
Print Assumptions C01_version_altered.

(* The four length bytes replaced by any four bytes that differ from them (i.e. encode a different
   value): DataError - including values whose top bit makes the C expression negative. *)
Theorem C01_length_altered :
  forall (ts : N) (row : list mval) (p0 p1 l2 l3 l4 l5 : N) (tl : bytes) (c2 c3 c4 c5 : N),
  encode_row ts row = Ok (p0 :: p1 :: l2 :: l3 :: l4 :: l5 :: tl) ->
  c2 < 256 -> c3 < 256 -> c4 < 256 -> c5 < 256 ->
  [c2; c3; c4; c5] <> [l2; l3; l4; l5] ->
  decode_row (p0 :: p1 :: c2 :: c3 :: c4 :: c5 :: tl) = Raise DataError.
Proof. exact length_altered_rejected. Qed.
Print Assumptions C01_length_altered.

(* The property's own quantifier: every single-bit change of the version nibble (byte 0, bits 4..7) and of
   the four length bytes (bytes 2..5, bits 0..7) of an emitted record is rejected with DataError. *)
Theorem C01_single_bit_flips :
  forall (ts : N) (row : list mval) (r : bytes) (i b : N),
  encode_row ts row = Ok r ->
  (i = 0 /\ 4 <= b < 8) \/ (2 <= i <= 5 /\ b < 8) ->
  decode_row (flip_at r i b) = Raise DataError.
Proof. exact single_bit_flips. Qed.
Print Assumptions C01_single_bit_flips.

(* ---- non-vacuity: a row with every value kind, containers nested three levels below the row ---- *)
Definition nv_row : list mval :=
  [ MNil; MBool true; MBool false;
    MInt (-9223372036854775808); MInt 18446744073709551615; MInt (-33); MInt 128;
    MFloat 9221120237041090561 (* a NaN with payload *); MFloat 9223372036854775808 (* -0.0 *);
    MFloat 18442240474082181120 (* -inf *);
    MStr [104; 195; 169; 240; 159; 152; 128] (* "h", e-acute, U+1F600 *); MBin [0; 255; 193];
    MArr [MInt 1; MMap [([107], MArr [MNil; MFloat 9218868437227405312; MStr []; MMap []]); ([], MBin [])]; MArr []];
    MMap [([97], MArr [MArr [MBool true; MInt 65536]]);
          ([95; 95; 100; 97; 116; 101; 116; 105; 109; 101; 95; 95], MInt 1)] ].

Example C01_nonvacuous :
  wf (MArr nv_row) /\ cdepth (MArr nv_row) = 5 /\ no_datetime nv_row = true /\
  match encode_row 1700000000123456789 nv_row with
  | Ok r => length r = 127%nat /\ decode_row r = Ok (map CVal nv_row)
  | Raise _ => False
  end.
Proof. vm_compute. repeat split. Qed.

(* the 32 + 4 single-bit changes (and every tear point, and two extensions) swept by computation on that record *)
Example C01_nonvacuous_sweep :
  match encode_row 1700000000123456789 nv_row with
  | Ok r =>
      forallb (fun ib => is_data_error (decode_row (flip_at r (fst ib) (snd ib))))
              ([(0, 4); (0, 5); (0, 6); (0, 7)] ++
               flat_map (fun i => map (fun b => (i, N.of_nat b)) (seq 0 8)) [2; 3; 4; 5]) = true /\
      forallb (fun k => is_data_error (decode_row (firstn k r))) (seq 0 (length r)) = true /\
      is_data_error (decode_row (r ++ [0])) = true /\ is_data_error (decode_row (r ++ r)) = true
  | Raise _ => False
  end.
Proof. vm_compute. repeat split. Qed.

(* the hypotheses of C01_oversize_refused / the Raise branches are reachable too: an integer outside 64 bits *)
Example C01_unencodable : encode_row 0 [MInt 18446744073709551616] = Raise TypeError.
Proof. reflexivity. Qed.

(* ---- text is stored verbatim (round 4).  Text is a list of UTF-8 bytes in the model and [pack] copies it: no
   normalisation (NFC/NFD/NFKC), case mapping or trimming is applied on the way in or out.  Stated as injectivity:
   two rows that differ in anything - e.g. only in the normal form of one text - never share a record. ---- *)
Theorem C01_encode_injective :
  forall (ts ts' : N) (row row' : list mval) (r : bytes),
  encode_row ts row = Ok r -> encode_row ts' row' = Ok r -> row = row'.
Proof. exact encode_injective. Qed.
Print Assumptions C01_encode_injective.

(* "e" + COMBINING ACUTE (not NFC), its composed form U+00E9, ANGSTROM SIGN U+212B, conjoining jamo U+1112 U+1161 U+11AB,
   q + U+0307 + U+0323 (marks not in canonical order), sharp s, final sigma, " a " with spaces at both ends: every one
   comes back byte for byte, at the top level, nested, as a map value and as a map key; and the composed / decomposed
   spellings of one letter get different records. *)
Definition nv_texts : list bytes :=
  [ [101; 204; 129]; [195; 169]; [226; 132; 171]; [225; 132; 146; 225; 133; 161; 225; 134; 171];
    [113; 204; 135; 204; 163]; [195; 159]; [207; 130]; [32; 97; 32] ].

Example C01_text_verbatim :
  forallb (fun t =>
             let row := [MStr t; MArr [MStr t]; MMap [(t, MStr t)]] in
             match encode_row 7 row with
             | Ok r => match decode_row r with
                       | Ok cs => cells_match cs (map OVal row)
                       | Raise _ => false
                       end
             | Raise _ => false
             end) nv_texts = true /\
  encode_row 7 [MStr [101; 204; 129]] <> encode_row 7 [MStr [195; 169]].
Proof. split; [vm_compute; reflexivity | vm_compute; discriminate]. Qed.

(* ---- every entry point (round 5).  [from_bytes_cls c] is cls.from_bytes for the base class, for a class made by
   Row.create_class with any number of field names (plain or tuples_only), and for from_bytes_cython called directly;
   [encode_row_cls c] is cls(row).as_bytes.  They agree with [decode_row] / [encode_row], whatever the class: the width
   of a row is the number of values it holds, not the number of field names of its class. ---- *)
Theorem C01_entry_points_agree :
  forall (c : row_cls),
  (forall data, from_bytes_cls c data = decode_row data) /\
  (forall ts row, encode_row_cls c ts row = encode_row ts row).
Proof. intros c. split; [apply from_bytes_cls_agrees | apply encode_row_cls_agrees]. Qed.
Print Assumptions C01_entry_points_agree.

(* Lossless through any pair of entry points: written by class c, read back by class c'. *)
Theorem C01_roundtrip_any_class :
  forall (c c' : row_cls) (ts : N) (row : list mval) (r : bytes),
  encode_row_cls c ts row = Ok r -> no_datetime row = true -> from_bytes_cls c' r = Ok (map CVal row).
Proof. exact roundtrip_any_class. Qed.
Print Assumptions C01_roundtrip_any_class.

(* Self-delimiting through any pair of entry points: every strict prefix, every non-empty extension and every
   single-bit change of the version nibble / length field of a record written by class c is rejected by class c'. *)
Theorem C01_rejected_any_class :
  forall (c c' : row_cls) (ts : N) (row : list mval) (r x : bytes),
  encode_row_cls c ts row = Ok r ->
  (exists k, (k < length r)%nat /\ x = firstn k r) \/ (exists s, s <> [] /\ x = r ++ s) \/
  (exists i b, ((i = 0 /\ 4 <= b < 8) \/ (2 <= i <= 5 /\ b < 8)) /\ x = flip_at r i b) ->
  from_bytes_cls c' x = Raise DataError.
Proof. exact rejected_any_class. Qed.
Print Assumptions C01_rejected_any_class.

(* the model does tell a class-dependent reader apart: the variant that pads a decoded row with nulls up to the
   number of field names ([from_bytes_padded]) returns three cells for a two-value row read through a three-field
   class.  (A statement about the variant, not about /repo.) *)
Example C01_padding_variant_refuted :
  match encode_row_cls (Made 3 false) 7 [MInt 1; MInt 2] with
  | Ok r => from_bytes_cls (Made 3 false) r = Ok [CVal (MInt 1); CVal (MInt 2)] /\
            from_bytes_padded (Made 3 false) r = Ok [CVal (MInt 1); CVal (MInt 2); CVal MNil] /\
            from_bytes_padded Base r = Ok [CVal (MInt 1); CVal (MInt 2)]
  | Raise _ => False
  end.
Proof. vm_compute. repeat split. Qed.

(* ---- every schedule (round 2): Row.as_bytes run by any number of threads, switched between any two of its
   statements.  [run step fin sched sh th] gives one turn to each thread id of [sched] in order; [enc_step] is
   as_bytes statement by statement (Model/C01_Sched.v); [Sh] is whatever module-level state exists - as_bytes
   neither reads nor writes it. ---- *)

(* Whatever the interleaving, a thread that has returned (or raised) got exactly what the sequential
   [encode_row] gives on its own row and its own clock reading: every theorem above therefore applies to every
   record emitted under every schedule. *)
Theorem C01_any_schedule :
  forall (Sh : Type) (inp : nat -> N * list mval) (sched : list nat) (sh : Sh) (i : nat) (r : result bytes),
  enc_result (snd (run (@enc_step Sh) enc_fin sched sh (enc_start inp))) i = Some r ->
  r = encode_row (fst (inp i)) (snd (inp i)).
Proof. exact @any_schedule. Qed.
Print Assumptions C01_any_schedule.

(* ... and a thread that was given [enc_steps] turns has finished, however the turns were interleaved. *)
Theorem C01_any_schedule_complete :
  forall (Sh : Type) (inp : nat -> N * list mval) (sched : list nat) (sh : Sh) (i : nat),
  (enc_steps <= turns i sched)%nat ->
  enc_result (snd (run (@enc_step Sh) enc_fin sched sh (enc_start inp))) i
  = Some (encode_row (fst (inp i)) (snd (inp i))).
Proof. exact @any_schedule_complete. Qed.
Print Assumptions C01_any_schedule_complete.

(* Lossless under every schedule: a record emitted by thread i, whatever the other threads did meanwhile, is
   accepted and decodes to thread i's row. *)
Theorem C01_any_schedule_roundtrip :
  forall (Sh : Type) (inp : nat -> N * list mval) (sched : list nat) (sh : Sh) (i : nat) (rec : bytes),
  enc_result (snd (run (@enc_step Sh) enc_fin sched sh (enc_start inp))) i = Some (Ok rec) ->
  decode_row rec = post (snd (inp i)) /\
  (no_datetime (snd (inp i)) = true -> decode_row rec = Ok (map CVal (snd (inp i)))).
Proof. exact @any_schedule_roundtrip. Qed.
Print Assumptions C01_any_schedule_roundtrip.

(* the module-level state is left as it was *)
Theorem C01_any_schedule_shared_untouched :
  forall (Sh : Type) (inp : nat -> N * list mval) (sched : list nat) (sh : Sh),
  fst (run (@enc_step Sh) enc_fin sched sh (enc_start inp)) = sh.
Proof. exact @any_schedule_shared_untouched. Qed.
Print Assumptions C01_any_schedule_shared_untouched.

(* non-vacuity: three threads, turns interleaved one by one; all finish with their own records *)
Definition nv_inp (i : nat) : N * list mval :=
  match i with
  | O => (1, nv_row)
  | S O => (2, [MStr [97; 98; 99]])
  | _ => (3, [MInt 18446744073709551616])       (* refused by packb *)
  end.

Example C01_schedule_nonvacuous :
  let th := snd (run (@enc_step unit) enc_fin [0; 1; 2; 1; 0; 0; 1; 2; 1; 0; 1; 0]%nat tt (enc_start nv_inp)) in
  enc_result th 0%nat = Some (encode_row 1 nv_row) /\
  enc_result th 1%nat = Some (Ok [16; 0; 0; 0; 0; 5; 0; 0; 0; 0; 0; 0; 0; 2; 145; 163; 97; 98; 99]) /\
  enc_result th 2%nat = Some (Raise TypeError) /\
  enc_result th 3%nat = None.
Proof. vm_compute. repeat split. Qed.

(* the machine does tell a shared buffer apart: the variant that fills ONE module-level header in place and
   copies it on the next line ([shv_step]) emits, under the schedule "thread 0 up to and including pack_into,
   thread 1 from start to finish, thread 0 returns", a record that the decoder rejects - although the same
   row encoded without a switch is accepted.  (This is a statement about the variant, not about /repo.) *)
Example C01_shared_header_variant_refuted :
  let inp := fun i : nat => match i with O => (1, [MInt 1]) | _ => (2, [MStr [97; 98; 99]]) end in
  let hdr0 := row_HEADER_PREFIX ++ rep 12 0 in
  (exists rec, shv_result (snd (run shv_step shv_fin [0; 0; 0; 1; 1; 1; 1; 0]%nat hdr0 (shv_start inp))) 0%nat = Some (Ok rec)
               /\ decode_row rec = Raise DataError) /\
  (exists rec, shv_result (snd (run shv_step shv_fin [0; 0; 0; 0; 1; 1; 1; 1]%nat hdr0 (shv_start inp))) 0%nat = Some (Ok rec)
               /\ decode_row rec = Ok [CVal (MInt 1)]).
Proof. split; eexists; (split; [vm_compute; reflexivity|]); vm_compute; reflexivity. Qed.

(* ---- round 7: sessions on row OBJECTS.  A Row is a tuple, but the lists / maps it holds can be changed by whoever
   holds them, and the object carries lazily filled state (the size cached by nbytes(), which DataFrame.append
   calls on every row).  [sess_step] (Model/C01_Sess.v) is the step function: make an object (directly / through
   DataFrame.append), nbytes(), the read-only accessors, an in-place change of a held container, as_bytes + from_bytes.
   [vals_step] is the values-only reading of the same steps (no cached state). ---- *)

(* History independence: after ANY session, as_bytes of object r is the encoder applied to the values object r holds
   now (so every theorem above applies to that record), the step changes nothing, and the record decodes through the
   object's class to exactly these values. *)
Theorem C01_session_emit :
  forall (ops : list sop) (r : nat) (ts : N) (row : list mval),
  nth_error (fold_left vals_step ops []) r = Some row ->
  let h := fst (sess_run [] ops) in
  fst (sess_step h (SEmit r ts)) = h /\
  exists dec,
    snd (sess_step h (SEmit r ts)) = REmit row (encode_row ts row) dec /\
    (forall rec, encode_row ts row = Ok rec -> no_datetime row = true -> dec = Some (Ok (map CVal row))) /\
    (forall rec, encode_row ts row = Ok rec -> dec = Some (decode_row rec)).
Proof. exact session_emit. Qed.
Print Assumptions C01_session_emit.

(* nbytes(), the accessors and as_bytes leave the values of every object alone. *)
Theorem C01_session_observers_change_nothing :
  forall (h : heap) (op : sop),
  (match op with SSize _ | SRead _ _ | SEmit _ _ => True | _ => False end) ->
  map r_vals (fst (sess_step h op)) = map r_vals h.
Proof. exact session_observers_change_nothing. Qed.
Print Assumptions C01_session_observers_change_nothing.

(* The first nbytes() of an object is the length of the record as_bytes emits for the values held at that moment,
   whatever the clock. *)
Theorem C01_session_first_size :
  forall (o : robj) (n : N),
  r_size o = None -> snd (size_step o) = Ok n ->
  exists rec, encode_row 0 (r_vals o) = Ok rec /\ n = len rec /\
              forall ts rec', encode_row ts (r_vals o) = Ok rec' -> len rec' = n.
Proof. exact session_first_size. Qed.
Print Assumptions C01_session_first_size.

(* non-vacuity: a row (1, ["a"], {"k": [1]}) stored through DataFrame.append (sized), its list appended to, its map's
   inner list appended to and a key added, sized again (the stale 24 comes back: nbytes() is not part of the claim),
   then serialised: the record decodes to the values held now. *)
Definition nv_sess : list sop :=
  [SNew (Made 3 false) [MInt 1; MArr [MStr [97]]; MMap [([107], MArr [MInt 1])]] true;
   SUpd 0 1 [] (UAppend (MStr [98]));
   SUpd 0 2 [0%nat] (UAppend (MInt 2));
   SUpd 0 2 [] (UPut [122] MNil);
   SSize 0; SRead 0 0].

Example C01_session_nonvacuous :
  nth_error (fold_left vals_step nv_sess []) 0 = Some [MInt 1; MArr [MStr [97]; MStr [98]]; MMap [([107], MArr [MInt 1; MInt 2]); ([122], MNil)]] /\
  snd (sess_run [] nv_sess) = [RBirth None; RNone; RNone; RNone; RSize (Ok 24); RNone] /\
  match snd (sess_step (fst (sess_run [] nv_sess)) (SEmit 0 7)) with
  | REmit _ (Ok rec) dec => len rec = 30 /\ dec = Some (Ok [CVal (MInt 1); CVal (MArr [MStr [97]; MStr [98]]); CVal (MMap [([107], MArr [MInt 1; MInt 2]); ([122], MNil)])])
  | _ => False
  end.
Proof. vm_compute. repeat split. Qed.

(* the model does tell a kept record apart: the variant in which sizing keeps the packed record and as_bytes hands it
   back ([frozen_size] / [frozen_emit]) emits, after size -> append, a record that decodes to the EARLIER values.
   (A statement about the variant, not about /repo.) *)
Definition kept_o : robj_f := frozen_upd (frozen_size (mk_f [MArr [MStr [97]]] None)) 0 [] (UAppend (MStr [98])).
Example C01_kept_record_variant_refuted :
  f_vals kept_o = [MArr [MStr [97]; MStr [98]]] /\
  match frozen_emit kept_o 7 with
  | Ok rec => decode_row rec = Ok [CVal (MArr [MStr [97]])]
  | Raise _ => False
  end.
Proof. vm_compute. split; reflexivity. Qed.
