(* C01 - Row byte format is lossless and self-delimiting (property theorems; being built) *)
From Coq Require Import List NArith ZArith Bool.
From Orso Require Import Gen.C01_RowFmt Model.C01 Proofs.C01.
Import ListNotations.

Theorem C01_every_emitted_depth_is_decodable : (enc_limit <= dec_limit)%N.
Proof. exact enc_limit_le_dec_limit. Qed.
Print Assumptions C01_every_emitted_depth_is_decodable.
