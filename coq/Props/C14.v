(* C14 - Histogram estimators are monotone, bounded and exact at the ends.
   Property theorems only.  [QA] is the exact-rational instance of the model's arithmetic;
   count_at / quantile are the definitions of Model/C13.v whose binary64 instance is compared
   bit-for-bit with the implementation. *)
From Coq Require Import QArith ZArith List.
From Orso Require Import Model.C13 Model.C13_Q Proofs.C13 Proofs.C13_hist Proofs.C14.
Import ListNotations.
Open Scope Q_scope.

Theorem C14_count_at_none_outside :
  forall (s : @st Q) mn mx v,
  bins s <> [] -> hmin s = Some mn -> hmax s = Some mx -> (v < mn \/ mx < v) ->
  count_at QA s v = ANone.
Proof. exact count_at_outside. Qed.
Print Assumptions C14_count_at_none_outside.

Theorem C14_count_at_empty : forall (s : @st Q) v, bins s = [] -> count_at QA s v = ANone.
Proof. exact count_at_empty. Qed.
Print Assumptions C14_count_at_empty.

Theorem C14_count_at_min_is_zero :
  forall (s : @st Q) mn mx v,
  bins s <> [] -> hmin s = Some mn -> hmax s = Some mx -> mn <= mx -> v == mn ->
  count_at QA s v = AInt 0.
Proof. exact count_at_min. Qed.
Print Assumptions C14_count_at_min_is_zero.

Theorem C14_count_at_max_is_total :
  forall (s : @st Q) mn mx v,
  bins s <> [] -> hmin s = Some mn -> hmax s = Some mx -> mn < mx -> v == mx ->
  count_at QA s v = AInt (count s).
Proof. exact count_at_max. Qed.
Print Assumptions C14_count_at_max_is_total.

Theorem C14_quantile_none_outside :
  forall (s : @st Q) mn mx q,
  hmin s = Some mn -> hmax s = Some mx -> (q < 0 \/ 1 < q) -> quantile QA s q = ANone.
Proof. exact quantile_outside_valid. Qed.
Print Assumptions C14_quantile_none_outside.

Theorem C14_quantile_within_bounds :
  forall (s : @st Q) mn mx q x,
  hmin s = Some mn -> hmax s = Some mx -> mn <= mx ->
  quantile QA s q = ANum x -> mn <= x <= mx.
Proof. exact quantile_bounded. Qed.
Print Assumptions C14_quantile_within_bounds.
