(* C14 - Histogram estimators are monotone, bounded and exact at the ends.
   Property theorems only.  [QA] is the exact-rational instance of the model's arithmetic;
   count_at / quantile are the definitions of Model/C13.v whose binary64 instance is compared
   bit-for-bit with the implementation. *)
From Coq Require Import QArith ZArith List.
From Orso Require Import Model.C13 Model.C13_Q Proofs.C13 Proofs.C13_hist Proofs.C14 Proofs.C14_quantile Model.C14 Proofs.C14_Reject.
Import ListNotations.
Open Scope Q_scope.

Theorem C14_count_at_none_outside :
  forall (s : @st Q) mn mx v,
  bins s <> [] -> hmin s = Some mn -> hmax s = Some mx -> (v < mn \/ mx < v) ->
  count_at QA s v = ANone.
Proof. exact count_at_outside. Qed.
Print Assumptions C14_count_at_none_outside.

Theorem C14_count_at_empty : forall (s : @st Q) v, bins s = [] -> count_at QA s v = ANone.
Proof. exact count_at_empty. Qed.
Print Assumptions C14_count_at_empty.

Theorem C14_count_at_min_is_zero :
  forall (s : @st Q) mn mx v,
  bins s <> [] -> hmin s = Some mn -> hmax s = Some mx -> mn <= mx -> v == mn ->
  count_at QA s v = AInt 0.
Proof. exact count_at_min. Qed.
Print Assumptions C14_count_at_min_is_zero.

Theorem C14_count_at_max_is_total :
  forall (s : @st Q) mn mx v,
  bins s <> [] -> hmin s = Some mn -> hmax s = Some mx -> mn < mx -> v == mx ->
  count_at QA s v = AInt (count s).
Proof. exact count_at_max. Qed.
Print Assumptions C14_count_at_max_is_total.

Theorem C14_quantile_none_outside :
  forall (s : @st Q) mn mx q,
  hmin s = Some mn -> hmax s = Some mx -> (q < 0 \/ 1 < q) -> quantile QA s q = ANone.
Proof. exact quantile_outside_valid. Qed.
Print Assumptions C14_quantile_none_outside.

Theorem C14_quantile_within_bounds :
  forall (s : @st Q) mn mx q x,
  hmin s = Some mn -> hmax s = Some mx -> mn <= mx ->
  quantile QA s q = ANum x -> mn <= x <= mx.
Proof. exact quantile_bounded. Qed.
Print Assumptions C14_quantile_within_bounds.

(* count_at is monotone and bounded on {min} U (first centre, max], with 0 at the minimum and the
   total at the maximum.  Query points with min < x <= first centre are excluded: that is the
   left branch, known finding F-C14-1 (refuted below). *)
Theorem C14_count_at_monotone_bounded_partial :
  forall (s : @st Q) mn mx v0 f0 t x y,
  Inv s -> hmin s = Some mn -> hmax s = Some mx -> bins s = (v0, f0) :: t -> mn < mx ->
  (x == mn \/ (v0 < x /\ x <= mx)) -> (y == mn \/ (v0 < y /\ y <= mx)) -> x <= y ->
  exists a b, aval (count_at QA s x) = Some a /\ aval (count_at QA s y) = Some b /\
              0 <= a /\ a <= b /\ b <= sumq (bins s).
Proof. exact count_at_monotone_partial. Qed.
Print Assumptions C14_count_at_monotone_bounded_partial.

(* F-C14-1: on bins (150,3) (350,2) (1000,1) with minimum 100 the left branch answers 30 at
   x = 120 although only 6 values were inserted, and it is larger than the answer at 200. *)
Theorem C14_count_at_left_refuted :
  exists (s : @st Q) x y a b,
    Inv s /\ x <= y /\ aval (count_at QA s x) = Some a /\ aval (count_at QA s y) = Some b /\
    sumq (bins s) < a /\ b < a.
Proof.
  exists (mkst [(150 # 1, 3%Z); (350 # 1, 2%Z); (1000 # 1, 1%Z)] (Some (100 # 1)) (Some (1000 # 1)) None Inf 3%nat).
  exists (120 # 1), (200 # 1). eexists. eexists.
  split.
  { unfold Inv; cbn [bins cap hmin hmax diffs min_diff]. repeat split.
    - repeat constructor; unfold C13_lists.blt; cbn; reflexivity.
    - repeat constructor; cbn; discriminate.
    - cbn; repeat constructor.
    - repeat constructor.
    - unfold bounds_ok; cbn [bins hmin hmax]. exists (100 # 1), (1000 # 1). repeat split.
      repeat constructor; cbn; discriminate. }
  split; [discriminate|]. split; [vm_compute; reflexivity|]. split; [vm_compute; reflexivity|].
  split; vm_compute; reflexivity.
Qed.
Print Assumptions C14_count_at_left_refuted.

Theorem C14_quantile_zero_is_min :
  forall (s : @st Q) mn mx,
  Inv s -> bins s <> [] -> hmin s = Some mn -> hmax s = Some mx -> mn <= mx ->
  exists x, quantile QA s 0 = ANum x /\ x == mn.
Proof. exact quantile_at_zero. Qed.
Print Assumptions C14_quantile_zero_is_min.

Theorem C14_quantile_one_is_max :
  forall (s : @st Q) mn mx,
  Inv s -> bins s <> [] -> hmin s = Some mn -> hmax s = Some mx -> mn <= mx ->
  quantile QA s 1 = ANum mx.
Proof. exact quantile_at_one. Qed.
Print Assumptions C14_quantile_one_is_max.

(* profile estimates: below + above is the number of non-null values wherever below is defined *)
Theorem C14_below_plus_above :
  forall (nonnull : Q) (s : @st Q) x b,
  aval (count_at QA s x) = Some b -> exists a, est_above nonnull s x = Some a /\ b + a == nonnull.
Proof. exact below_above_sum. Qed.
Print Assumptions C14_below_plus_above.

(* NOT proved: monotonicity of quantile in its argument (exact arithmetic); it is checked on every
   histogram the differential run reaches, by the oracle, up to the ulp guard of F-C14-3. *)

(* quantile is non-decreasing in its argument, over the whole of [0,1] and across the three
   branches (left tail, interior segments found by the running sum of mids, right tail), for
   every valid histogram; exact arithmetic *)
Theorem C14_quantile_monotone :
  forall (s : @st Q) mn mx q1 q2 x1 x2,
  Inv s -> hmin s = Some mn -> hmax s = Some mx -> q1 <= q2 ->
  quantile QA s q1 = ANum x1 -> quantile QA s q2 = ANum x2 -> x1 <= x2.
Proof. exact quantile_monotone. Qed.
Print Assumptions C14_quantile_monotone.

(* ... and total there: it always answers with a number (the generator expression behind
   next() is never exhausted, no index is out of range) *)
Theorem C14_quantile_total :
  forall (s : @st Q) mn mx q,
  Inv s -> bins s <> [] -> hmin s = Some mn -> hmax s = Some mx -> 0 <= q -> q <= 1 ->
  exists x, quantile QA s q = ANum x.
Proof. exact quantile_total. Qed.
Print Assumptions C14_quantile_total.

(* ---- round 7: sessions with REJECTED calls (update with a count <= 0 raises ValueError, dump of an
   empty histogram raises, ...).  Stated about Model/C13.v's [exec] / [run_prog], the history machine the
   correspondence evaluates, for any arithmetic [A] (binary64 and exact alike). ---- *)

(* a call that raises leaves every histogram of the session as it was: its bins, its minimum and
   maximum and its gap cache - so the theorems above, which speak about a state, hold after it for
   the very same minimum / maximum / total as before it *)
Theorem C14_rejected_call_changes_nothing :
  forall (T : Type) (A : arith T) (e : @env T) (o : @op T),
  snd (exec A e o) = BRaise -> fst (exec A e o) = e.
Proof. exact @exec_raise_env_unchanged. Qed.
Print Assumptions C14_rejected_call_changes_nothing.

(* update with a count that is not strictly positive is such a call, whatever its value *)
Theorem C14_nonpositive_update_is_rejected :
  forall (T : Type) (A : arith T) (e : @env T) k v c,
  (c <= 0)%Z -> exec A e (OUpd k v c) = (e, BRaise).
Proof. exact @exec_update_nonpositive. Qed.
Print Assumptions C14_nonpositive_update_is_rejected.

(* the answers of a session are those of the session with its rejected calls deleted: count_at /
   quantile asked after a rejected call answer exactly as if the call had never been made *)
Theorem C14_answers_ignore_rejected_calls :
  forall (T : Type) (A : arith T) (p : list (@op T)) (e : @env T),
  filter (fun x => negb (is_raise x)) (run_prog A e p) = run_prog A e (prune A e p) /\
  forallb (fun x => negb (is_raise x)) (run_prog A e (prune A e p)) = true.
Proof. intros T A p e. split; [apply run_prog_prune | apply prune_no_raise]. Qed.
Print Assumptions C14_answers_ignore_rejected_calls.

(* non-vacuity: values 10 and 20, then two rejected updates far outside [10, 20]; count_at is still None
   at 1000 and at -1000, 0 at 10, the total at 20, and quantile 0 / 1 are 10 / 20 *)
Example C14_rejected_session_example :
  let p := [ONew 0 4; OUpd 0 (10 # 1) 1%Z; OUpd 0 (20 # 1) 2%Z;
            OUpd 0 (1000 # 1) 0%Z; OUpd 0 (- (1000) # 1) (-3)%Z;
            OCountAt 0 (1000 # 1); OCountAt 0 (- (1000) # 1); OCountAt 0 (10 # 1); OCountAt 0 (20 # 1);
            OQuantile 0 0; OQuantile 0 1] in
  prune QA [] p = [ONew 0 4; OUpd 0 (10 # 1) 1%Z; OUpd 0 (20 # 1) 2%Z;
                   OCountAt 0 (1000 # 1); OCountAt 0 (- (1000) # 1); OCountAt 0 (10 # 1); OCountAt 0 (20 # 1);
                   OQuantile 0 0; OQuantile 0 1] /\
  skipn 5 (run_prog QA [] p) = [BAns ANone; BAns ANone; BAns (AInt 0); BAns (AInt 3); BAns (ANum (10 # 1)); BAns (ANum (20 # 1))].
Proof. vm_compute. split; reflexivity. Qed.
