From Orso Require Import Model.C11 Proofs.C11.
Theorem C11_stub : True. Proof. exact stub. Qed.
Print Assumptions C11_stub.
