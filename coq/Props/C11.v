(* C11 - Arrow interchange preserves rows, nulls, order and column typing.
   Property theorems only; each is closed by [exact] of a lemma from Proofs/C11.v and followed by
   Print Assumptions.

   FULL PROPERTY (properties.jsonl): converting Arrow tables to a DataFrame yields one row per Arrow row, in
   order, across any number of tables and any batch chunking (empty tables included), cut to the requested
   size, WITH EVERY CELL EQUAL TO THE ARROW VALUE (nulls as None; a NaN may surface as None) AND INTEGERS
   STAYING EXACT INTEGERS; DataFrame -> Arrow (optionally limited) -> DataFrame returns the same rows and
   column names; column typing round-trips (except STRUCT, JSONB) with precision, scale, element type; an Arrow
   field's name and nullability carry over.

   PARTIAL BY CONSTRUCTION: the clause in capitals (what pyarrow/pandas do to a cell inside
   compiled.process_table, and what pyarrow.Table.from_arrays stores) is NOT proved.  process_table and
   from_arrays are oracles; each theorem about rows carries, as an explicit premise, that process_table
   returns the rows of the table for every batch size >= 1 (resp. that from_arrays holds the columns it is
   given).  That premise is decided by the differential run only, and is KNOWN to fail on the implementation
   for an integer column containing a null (F-C11-2) and for a numeric list column containing a null element
   (F-C11-5); the run excludes exactly those cells. *)
From Coq Require Import List NArith ZArith Bool.
From Orso Require Import Gen.C11_ArrowMap Model.C11 Proofs.C11.
Import ListNotations.

(* ---------------------------------------------------------------------------------------------- *)
(* rows: Arrow tables -> rows                                                                       *)
(* ---------------------------------------------------------------------------------------------- *)

(* For every list of tables (empty tables anywhere), every size and every k: the first k calls of next() on
   the iterator from_arrow returns deliver, in order, the first k rows of [limit size (all rows of all tables,
   concatenated)] - one row per Arrow row - and StopIteration (None) from then on, for ever. *)
Theorem C11_stream_next_calls :
  forall (R T : Type) (process_table : T -> N -> list R) (rows_of : T -> list R),
  (forall t b, (1 <= b)%N -> process_table t b = rows_of t) ->
  forall (tables : list T) (size : option N) (k : nat),
  nexts process_table k (from_arrow_iter tables size) =
  map Some (firstn k (limit size (concat (map rows_of tables)))) ++
  repeat None (k - length (limit size (concat (map rows_of tables)))).
Proof. exact stream_next_calls. Qed.
Print Assumptions C11_stream_next_calls.

(* What a for loop / list() collects from that iterator: exactly the rows, cut to the size. *)
Theorem C11_stream_collected :
  forall (R T : Type) (process_table : T -> N -> list R) (rows_of : T -> list R),
  (forall t b, (1 <= b)%N -> process_table t b = rows_of t) ->
  forall (tables : list T) (size : option N) (fuel : nat),
  drain process_table fuel (from_arrow_iter tables size) = firstn fuel (limit size (concat (map rows_of tables))) /\
  (length (limit size (concat (map rows_of tables))) <= fuel ->
   drain process_table fuel (from_arrow_iter tables size) = limit size (concat (map rows_of tables))).
Proof. exact stream_collected. Qed.
Print Assumptions C11_stream_collected.

(* "cut to the requested size": no size (or 0, which from_arrow reads as no size) keeps everything, a size
   n >= 1 keeps the first n rows, i.e. min(n, N) of them. *)
Theorem C11_size_limit_meaning :
  forall (A : Type) (l : list A),
  limit None l = l /\ limit (Some 0%N) l = l /\
  forall n, (1 <= n)%N -> limit (Some n) l = firstn (N.to_nat n) l /\
                          length (limit (Some n) l) = Nat.min (N.to_nat n) (length l).
Proof. exact limit_meaning. Qed.
Print Assumptions C11_size_limit_meaning.

(* Zero-row tables anywhere in the stream change nothing (F-C11-1 was the failure of this). *)
Theorem C11_zero_row_tables_invisible :
  forall (R T : Type) (process_table : T -> N -> list R) (rows_of : T -> list R),
  (forall t b, (1 <= b)%N -> process_table t b = rows_of t) ->
  forall (tables : list T) (size : option N) (k : nat),
  nexts process_table k (from_arrow_iter tables size) =
  nexts process_table k
    (from_arrow_iter (filter (fun t => match rows_of t with [] => false | _ => true end) tables) size).
Proof. exact zero_row_tables_invisible. Qed.
Print Assumptions C11_zero_row_tables_invisible.

(* ---------------------------------------------------------------------------------------------- *)
(* rows: DataFrame -> arrow(size) -> DataFrame                                                      *)
(* ---------------------------------------------------------------------------------------------- *)

(* to_arrow transposes the first [size] rows into arrays (zip( *rows), or one empty array per column when there
   is no row) and from_arrow reads them back: the rows delivered are exactly [head size rows], in order, then
   StopIteration.  Rows are rectangular with at least one column (a frame without columns cannot keep its rows
   in Arrow).  Premises: the two oracles. *)
Theorem C11_round_trip_rows :
  forall (C T Nm : Type) (process_table : T -> N -> list (list C)) (rows_of : T -> list (list C))
         (from_arrays : list (list C) -> list Nm -> T),
  (forall t b, (1 <= b)%N -> process_table t b = rows_of t) ->
  (forall cols names n, length cols = length names -> Forall (fun c => length c = n) cols ->
                        rows_of (from_arrays cols names) = zip_star cols) ->
  forall (rows : list (list C)) (names : list Nm) (size : option Z) (k : nat),
  1 <= length names -> Forall (fun r => length r = length names) rows ->
  nexts process_table k (from_arrow_iter [from_arrays (to_arrow_cols rows (length names) size) names] None) =
    map Some (firstn k (head size rows)) ++ repeat None (k - length (head size rows)) /\
  drain process_table k (from_arrow_iter [from_arrays (to_arrow_cols rows (length names) size) names] None) =
    firstn k (head size rows).
Proof. exact round_trip_rows. Qed.
Print Assumptions C11_round_trip_rows.

(* "optionally limited": no size keeps all rows, size >= 0 the first size rows, a negative size all rows. *)
Theorem C11_arrow_size_meaning :
  forall (C : Type) (rows : list (list C)),
  head None rows = rows /\
  (forall z, (0 <= z)%Z -> head (Some z) rows = firstn (Z.to_nat z) rows) /\
  (forall z, (z < 0)%Z -> head (Some z) rows = rows).
Proof. exact head_meaning. Qed.
Print Assumptions C11_arrow_size_meaning.

(* ---------------------------------------------------------------------------------------------- *)
(* rows: ONE frame used repeatedly (Round 2)                                                        *)
(* ---------------------------------------------------------------------------------------------- *)

(* A frame over Arrow tables holds its rows as a one-shot iterator until something materializes it.  For ANY
   sequence of calls arrow(size) / rowcount / materialize() on the same frame object, every call answers from the
   full row list E = limit size0 (all rows of all tables): the k-th export is to_arrow_cols E ncols size whatever
   was called before (so the second export equals the first), rowcount is |E|.  Premise: the process_table oracle.
   Composed with C11_round_trip_rows, every exported table reads back as [head size E]. *)
Theorem C11_repeated_export_lazy :
  forall (C T : Type) (process_table : T -> N -> list (list C)) (rows_of : T -> list (list C)),
  (forall t b, (1 <= b)%N -> process_table t b = rows_of t) ->
  forall (tables : list T) (size0 : option N) (ncols : nat) (ops : list fop),
  frun process_table ncols (FLazy (from_arrow_iter tables size0)) ops =
  map (expected_out (limit size0 (concat (map rows_of tables))) ncols) ops.
Proof. exact repeated_export_lazy. Qed.
Print Assumptions C11_repeated_export_lazy.

(* The same for a list-backed frame (no premise: the iterator is not involved). *)
Theorem C11_repeated_export_list :
  forall (C T : Type) (process_table : T -> N -> list (list C)),
  forall (rows : list (list C)) (ncols : nat) (ops : list fop),
  frun process_table ncols (FList rows) ops = map (expected_out rows ncols) ops.
Proof. exact repeated_export_list. Qed.
Print Assumptions C11_repeated_export_list.

(* ---------------------------------------------------------------------------------------------- *)
(* Round 3: objects used more than once, modified in place between two uses                         *)
(* ---------------------------------------------------------------------------------------------- *)

(* The rows iterator from_arrow returns, consumed in ANY sequence of steps - next(it), islice(it, k) / a for loop
   left with break after k rows, list(it) - on the same object: each step delivers the next rows of
   E = limit size (all rows of all tables), in order, nothing skipped, nothing repeated ([ispec]: firstn / skipn). *)
Theorem C11_stream_any_consumption :
  forall (R T : Type) (process_table : T -> N -> list R) (rows_of : T -> list R),
  (forall t b, (1 <= b)%N -> process_table t b = rows_of t) ->
  forall (tables : list T) (size : option N) (ops : list iop),
  irun process_table (from_arrow_iter tables size) ops = ispec (limit size (concat (map rows_of tables))) ops.
Proof. exact stream_any_consumption. Qed.
Print Assumptions C11_stream_any_consumption.

(* What [ispec] means: the steps of a session partition a prefix of E, and all of E once a list(it) has run. *)
Theorem C11_session_partitions_rows :
  forall (R : Type) (E : list R) (ops : list iop),
  (exists rest, concat (ispec E ops) ++ rest = E) /\
  (forall pre post, ops = pre ++ IDrain :: post -> concat (ispec E ops) = E).
Proof. exact session_partitions_rows. Qed.
Print Assumptions C11_session_partitions_rows.

(* Round 6: the SAME list of tables converted any number of times (each conversion with its own size and its own
   way of being consumed): every conversion delivers the rows of ALL the tables, cut to its size, whatever was
   converted before, and the caller's list still holds all its tables. *)
Theorem C11_caller_list_sessions :
  forall (R T : Type) (process_table : T -> N -> list R) (rows_of : T -> list R),
  (forall t b, (1 <= b)%N -> process_table t b = rows_of t) ->
  forall (tables : list T) (ops : list (option N * list iop)),
  lrun process_table tables ops =
  map (fun op => (ispec (limit (fst op) (concat (map rows_of tables))) (snd op), length tables)) ops.
Proof. exact caller_list_sessions. Qed.
Print Assumptions C11_caller_list_sessions.

(* ONE frame, any sequence of arrow(size) / rowcount / materialize() calls and in-place renames of its columns:
   every call answers from the rows E the frame holds and the column names in force at that moment ([sspec] is a
   function of E, the current names and the call alone - no memory of earlier calls). *)
Theorem C11_frame_session_lazy :
  forall (C T Nm : Type) (process_table : T -> N -> list (list C)) (rows_of : T -> list (list C)),
  (forall t b, (1 <= b)%N -> process_table t b = rows_of t) ->
  forall (tables : list T) (size : option N) (names : list Nm) (ops : list (sop Nm)),
  srun process_table (FLazy (from_arrow_iter tables size)) names ops =
  sspec (limit size (concat (map rows_of tables))) names ops.
Proof. exact frame_session_lazy. Qed.
Print Assumptions C11_frame_session_lazy.

Theorem C11_frame_session_list :
  forall (C T Nm : Type) (process_table : T -> N -> list (list C)),
  forall (rows : list (list C)) (names : list Nm) (ops : list (sop Nm)),
  srun process_table (FList rows) names ops = sspec rows names ops.
Proof. exact frame_session_list. Qed.
Print Assumptions C11_frame_session_list.

(* ONE column object, any sequence of in-place assignments (type, element type, precision, scale, name,
   nullable) and reads (arrow_field, schema-level export with or without identities): a read after the steps
   [pre] returns what a read of a column with the attributes [fold_left capply pre c] returns ... *)
Theorem C11_column_session_current_values :
  forall (ident : list N) (c : column) (pre : list cop) (op : cop) (post : list cop),
  nth (length pre) (crun ident c (pre ++ op :: post)) None = cout ident (fold_left capply pre c) op.
Proof. exact column_session_current_values. Qed.
Print Assumptions C11_column_session_current_values.

(* ... and if those current attributes are in the class the typing clause speaks about, the field read carries the
   expected name and maps back to exactly the current type, element type, precision and scale. *)
Theorem C11_column_session_round_trip :
  forall (ident : list N) (c : column) (op : cop) (cur : column) (nm : list N) (fs : result (list afield)),
  cout ident c op = Some (cur, nm, fs) -> roundtrippable c = true ->
  cur = c /\ exists f, fs = Ok [f] /\ fname f = nm /\
    from_arrow_field false f = Ok (mkCol nm (ctype c) (celem c) (cprec c) (cscale c) (fnullable f)).
Proof. exact column_session_round_trip. Qed.
Print Assumptions C11_column_session_round_trip.

(* ---------------------------------------------------------------------------------------------- *)
(* column typing (over the tables regenerated from the running code into Gen/C11_ArrowMap.v)        *)
(* ---------------------------------------------------------------------------------------------- *)

(* Every Orso type other than STRUCT, JSONB, the _MISSING_TYPE placeholder (and ARRAY / DECIMAL, next two
   theorems): arrow_field succeeds, keeps the name, and FlatColumn.from_arrow of that field is the same column
   (type; no element type, precision, scale) with the field's nullability.  F-C11-4 (DATE) broke this. *)
Theorem C11_type_round_trip_plain :
  forall (t : N) (nm : list N) (nl : bool),
  In t (map fst c11_type_names) ->
  t <> ty_STRUCT -> t <> ty_JSONB -> t <> ty_MISSING_TYPE -> t <> ty_ARRAY -> t <> ty_DECIMAL ->
  exists f, arrow_field (mkCol nm t None None None nl) = Ok f /\ fname f = nm /\
            from_arrow_field false f = Ok (mkCol nm t None None None (fnullable f)).
Proof. exact type_round_trip_plain. Qed.
Print Assumptions C11_type_round_trip_plain.

(* ARRAY<e> for every element type OrsoTypes.from_name accepts, with the same three exceptions. *)
Theorem C11_type_round_trip_array :
  forall (e : N) (nm : list N) (nl : bool),
  In e accepted_elems -> e <> ty_STRUCT -> e <> ty_JSONB -> e <> ty_MISSING_TYPE ->
  exists f, arrow_field (mkCol nm ty_ARRAY (Some e) None None nl) = Ok f /\ fname f = nm /\
            from_arrow_field false f = Ok (mkCol nm ty_ARRAY (Some e) None None (fnullable f)).
Proof. exact type_round_trip_array. Qed.
Print Assumptions C11_type_round_trip_array.

(* DECIMAL(p, s) for all 0 <= s <= p <= 38, p >= 1 (precision 0 does not exist in Arrow): same precision and
   scale.  F-C11-3 (scale 0 -> 10) broke this. *)
Theorem C11_type_round_trip_decimal :
  forall (p s : Z) (nm : list N) (nl : bool),
  (1 <= p <= 38)%Z -> (0 <= s <= p)%Z ->
  exists f, arrow_field (mkCol nm ty_DECIMAL None (Some p) (Some s) nl) = Ok f /\ fname f = nm /\
            from_arrow_field false f = Ok (mkCol nm ty_DECIMAL None (Some p) (Some s) (fnullable f)).
Proof. exact type_round_trip_decimal. Qed.
Print Assumptions C11_type_round_trip_decimal.

(* Round 2: the column OBJECT.  FlatColumn.__init__ may rewrite the attributes it is given ("validate decimal
   properties"); the model of that block is [ctor_decimal] / [flat_column] / [construct], and FlatColumn.from_arrow
   ends in the same constructor ([from_arrow_field] goes through [flat_column]).
   (1) the closed form agrees with every probe of the live constructor (table regenerated on every run) ... *)
Theorem C11_ctor_model_matches_live_constructor :
  forall (p s : option Z) (got : option (option Z * option Z)),
  In ((p, s), got) ctor_dec_probes -> got = Some (ctor_decimal p s).
Proof. exact ctor_model_matches_probes. Qed.
Print Assumptions C11_ctor_model_matches_live_constructor.

(* (2) ... the probes cover every 0 <= s <= p <= 38, p >= 1, given as attributes and as the type name
   "DECIMAL(p,s)", and on each the live constructor built precision p and scale s ... *)
Theorem C11_ctor_keeps_decimal_parameters_on_grid :
  forall p s : Z, (1 <= p <= 38)%Z -> (0 <= s <= p)%Z ->
  In ((Some p, Some s), Some (Some p, Some s)) ctor_dec_probes /\
  In ((p, s), Some (Some p, Some s)) ctor_dec_byname_probes.
Proof. exact ctor_grid_probed. Qed.
Print Assumptions C11_ctor_keeps_decimal_parameters_on_grid.

(* (3) ... hence DECIMAL(p, s) AS ASKED FOR is built with that precision and scale, maps to an Arrow type, and
   that maps back (through the constructor again) to DECIMAL(p, s). *)
Theorem C11_requested_decimal_round_trip :
  forall (p s : Z) (nm : list N) (nl : bool),
  (1 <= p <= 38)%Z -> (0 <= s <= p)%Z ->
  construct (mkCol nm ty_DECIMAL None (Some p) (Some s) nl) = mkCol nm ty_DECIMAL None (Some p) (Some s) nl /\
  exists f, arrow_field (construct (mkCol nm ty_DECIMAL None (Some p) (Some s) nl)) = Ok f /\ fname f = nm /\
            from_arrow_field false f = Ok (mkCol nm ty_DECIMAL None (Some p) (Some s) (fnullable f)).
Proof. exact requested_decimal_round_trip. Qed.
Print Assumptions C11_requested_decimal_round_trip.

(* An Arrow field of the decimal type DECIMAL maps to (any p, s) is described as DECIMAL(p, s), name and
   nullability carried: what a frame built over an Arrow table reports for a decimal column. *)
Theorem C11_arrow_decimal_described :
  forall (p s : Z) (nm : list N) (nl : bool) (i : N),
  assoc ty_DECIMAL top_table = Some (TmDecimal i) ->
  from_arrow_field false (mkField nm (ADec i p s) nl) = Ok (mkCol nm ty_DECIMAL None (Some p) (Some s) nl).
Proof. exact arrow_decimal_described. Qed.
Print Assumptions C11_arrow_decimal_described.

(* The three statements above as one, over the guard [roundtrippable] (Model/C11.v) that the correspondence
   evaluates on every column the implementation is run on: member type, not excluded, ARRAY with an accepted,
   non-excluded element type, DECIMAL with 1 <= p <= 38 and 0 <= s <= p, nothing else set. *)
Theorem C11_type_round_trip :
  forall c : column,
  roundtrippable c = true ->
  exists f, arrow_field c = Ok f /\ fname f = cname c /\
            from_arrow_field false f = Ok (mkCol (cname c) (ctype c) (celem c) (cprec c) (cscale c) (fnullable f)).
Proof. exact type_round_trip. Qed.
Print Assumptions C11_type_round_trip.

(* The run-time form of the typing clause ([came_back], applied by the correspondence to what the implementation
   returned) holds of the model for every column: it can fail only where the implementation leaves the model. *)
Theorem C11_typing_check_holds_of_model :
  forall c : column,
  came_back c (arrow_field c) (bind (arrow_field c) (from_arrow_field false)) = true.
Proof. exact came_back_model. Qed.
Print Assumptions C11_typing_check_holds_of_model.

(* The carve-out, stated positively: STRUCT and JSONB are carried as binary and come back as BLOB, the untyped
   placeholder is carried as string and comes back as VARCHAR - as column types and as element types. *)
Theorem C11_binary_carried_types :
  forall (nm : list N) (nl : bool),
  (exists f, arrow_field (mkCol nm ty_STRUCT None None None nl) = Ok f /\
             from_arrow_field false f = Ok (mkCol nm ty_BLOB None None None (fnullable f))) /\
  (exists f, arrow_field (mkCol nm ty_JSONB None None None nl) = Ok f /\
             from_arrow_field false f = Ok (mkCol nm ty_BLOB None None None (fnullable f))) /\
  (exists f, arrow_field (mkCol nm ty_MISSING_TYPE None None None nl) = Ok f /\
             from_arrow_field false f = Ok (mkCol nm ty_VARCHAR None None None (fnullable f))) /\
  (exists f, arrow_field (mkCol nm ty_ARRAY (Some ty_STRUCT) None None nl) = Ok f /\
             from_arrow_field false f = Ok (mkCol nm ty_ARRAY (Some ty_BLOB) None None (fnullable f))) /\
  (exists f, arrow_field (mkCol nm ty_ARRAY (Some ty_JSONB) None None nl) = Ok f /\
             from_arrow_field false f = Ok (mkCol nm ty_ARRAY (Some ty_BLOB) None None (fnullable f))) /\
  (exists f, arrow_field (mkCol nm ty_ARRAY (Some ty_MISSING_TYPE) None None nl) = Ok f /\
             from_arrow_field false f = Ok (mkCol nm ty_ARRAY (Some ty_VARCHAR) None None (fnullable f))).
Proof. exact binary_carried. Qed.
Print Assumptions C11_binary_carried_types.

(* An Arrow field's name and nullability carry over to the column built from it (any Arrow type that maps at
   all, with or without mappable_as_binary) ... *)
Theorem C11_field_name_nullability_carry :
  forall (mab : bool) (f : afield) (c : column),
  from_arrow_field mab f = Ok c -> cname c = fname f /\ cnullable c = fnullable f.
Proof. exact from_arrow_field_carry. Qed.
Print Assumptions C11_field_name_nullability_carry.

(* ... and so do a whole schema's, in order (convert_arrow_schema_to_orso_schema, and the schema from_arrow
   derives from the first table: this is "the same column names" of the DataFrame round trip). *)
Theorem C11_schema_names_nullability_carry :
  forall (fs : list afield) (cs : list column),
  arrow_to_orso_schema fs = Ok cs ->
  map cname cs = map fname fs /\ map cnullable cs = map fnullable fs /\ length cs = length fs.
Proof. exact schema_names_carry. Qed.
Print Assumptions C11_schema_names_nullability_carry.

(* convert_orso_schema_to_arrow_schema names the fields after the columns (or their identities), in order. *)
Theorem C11_arrow_schema_names :
  forall (use_ids : bool) (cols : list (list N * column)) (fs : list afield),
  orso_to_arrow_schema use_ids cols = Ok fs ->
  map fname fs = map (fun ic => if use_ids then fst ic else cname (snd ic)) cols.
Proof. exact arrow_schema_names. Qed.
Print Assumptions C11_arrow_schema_names.

(* ---------------------------------------------------------------------------------------------- *)
(* non-vacuity                                                                                      *)
(* ---------------------------------------------------------------------------------------------- *)

(* the oracle premise is satisfiable (by the instance the correspondence evaluates), and on a stream with a
   zero-row table in the middle and a cap inside the last table the iterator does what the theorem says *)
Example C11_nonvacuous_stream :
  (forall (t : list (list cell)) (b : N), (1 <= b)%N -> pt_rows t b = (fun x => x) t) /\
  nexts pt_rows 5 (from_arrow_iter [[[CInt 1]; [CNone]]; []; [[CInt 3]; [CInt 4]]] (Some 3%N)) =
    [Some [CInt 1]; Some [CNone]; Some [CInt 3]; None; None].
Proof. split; reflexivity. Qed.

Example C11_nonvacuous_round_trip :
  (forall (t : list (list cell)) (b : N), (1 <= b)%N -> pt_cols t b = zip_star t) /\
  to_arrow_cols [[CInt 1; CStr []]; [CInt 2; CNone]; [CInt 3; CNone]] 2 (Some 2%Z) = [[CInt 1; CInt 2]; [CStr []; CNone]] /\
  drain pt_cols 9 (from_arrow_iter [to_arrow_cols [[CInt 1; CStr []]; [CInt 2; CNone]; [CInt 3; CNone]] 2 (Some 2%Z)] None) =
    [[CInt 1; CStr []]; [CInt 2; CNone]] /\
  to_arrow_cols ([] : list (list cell)) 2 None = [[]; []].
Proof. repeat split; reflexivity. Qed.

(* Round 2: a lazily backed frame exported twice, limited in between, counted at the end *)
Example C11_nonvacuous_repeated_export :
  frun pt_rows 1 (FLazy (from_arrow_iter [[[CInt 1]; [CNone]]; []; [[CInt 3]]] None))
       [OpArrow None; OpArrow (Some 2%Z); OpArrow None; OpRowcount] =
  [OutTable [[CInt 1; CNone; CInt 3]]; OutTable [[CInt 1; CNone]]; OutTable [[CInt 1; CNone; CInt 3]]; OutCount 3] /\
  (exists i, assoc ty_DECIMAL top_table = Some (TmDecimal i)) /\
  construct (mkCol [100%N] ty_DECIMAL None (Some 38%Z) (Some 10%Z) true) = mkCol [100%N] ty_DECIMAL None (Some 38%Z) (Some 10%Z) true /\
  construct (mkCol [100%N] ty_DECIMAL None None None true) = mkCol [100%N] ty_DECIMAL None (Some ctor_ctx_prec) (Some (Z.quot (3 * ctor_ctx_prec) 4)) true.
Proof. vm_compute. repeat split; try reflexivity. eexists; reflexivity. Qed.

(* Round 3: sniff a row, take a page of two, read the rest (zero-row table in the middle, cap 4); a column retyped
   and re-scaled in place between two reads; a frame renamed between two exports *)
Example C11_nonvacuous_sessions :
  irun pt_rows (from_arrow_iter [[[CInt 1]; [CInt 2]; [CInt 3]]; []; [[CInt 4]; [CInt 5]]] (Some 4%N))
       [INext; ITake 2; IDrain; INext] = [[[CInt 1]]; [[CInt 2]; [CInt 3]]; [[CInt 4]]; []] /\
  (match crun [105%N] (mkCol [100%N] ty_DECIMAL None (Some 10%Z) (Some 2%Z) true)
               [CField; CSetPrec (Some 38%Z); CSetScale (Some 0%Z); CField; CSetType ty_INTEGER; CSchema true] with
   | [Some (_, _, Ok [f1]); None; None; Some (_, _, Ok [f2]); None; Some (_, n3, Ok [f3])] =>
       from_arrow_field false f1 = Ok (mkCol [100%N] ty_DECIMAL None (Some 10%Z) (Some 2%Z) (fnullable f1)) /\
       from_arrow_field false f2 = Ok (mkCol [100%N] ty_DECIMAL None (Some 38%Z) (Some 0%Z) (fnullable f2)) /\
       n3 = [105%N] /\ fname f3 = [105%N]
   | _ => False
   end) /\
  srun pt_rows (FLazy (from_arrow_iter [[[CInt 1]]] None)) [[97%N]]
       [SOp (OpArrow None); SRename 0 [98%N]; SOp (OpArrow None)] =
    [([[97%N]], OutTable [[CInt 1]]); ([[98%N]], OutNone); ([[98%N]], OutTable [[CInt 1]])].
Proof. vm_compute. repeat split; reflexivity. Qed.

(* the witnesses of the fixed findings F-C11-3 and F-C11-4 *)
Example C11_nonvacuous_types :
  bind (arrow_field (mkCol [100%N] ty_DECIMAL None (Some 10%Z) (Some 0%Z) true)) (from_arrow_field false) =
    Ok (mkCol [100%N] ty_DECIMAL None (Some 10%Z) (Some 0%Z) true) /\
  In ty_DATE (map fst c11_type_names) /\
  bind (arrow_field (mkCol [100%N] ty_DATE None None None true)) (from_arrow_field false) =
    Ok (mkCol [100%N] ty_DATE None None None true) /\
  In ty_INTEGER accepted_elems /\ In ty_DATE accepted_elems /\
  roundtrippable (mkCol [100%N] ty_DECIMAL None (Some 10%Z) (Some 0%Z) false) = true /\
  roundtrippable (mkCol [100%N] ty_ARRAY (Some ty_DATE) None None true) = true /\
  roundtrippable (mkCol [100%N] ty_STRUCT None None None true) = false.
Proof. vm_compute. repeat split; try reflexivity; tauto. Qed.
