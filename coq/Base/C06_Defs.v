(* C06 - types shared by the regenerated tables (coq/Gen/C06_*.v) and the model
   (coq/Model/C06.v).  Definitions only. *)
From Coq Require Import List NArith ZArith String Ascii.
Import ListNotations.

(* Python text = list of Unicode code points *)
Definition str := list N.

(* readable text literals: [txt "ARRAY<"] *)
Definition txt (s : string) : str := map N_of_ascii (list_ascii_of_string s).

(* exception classes distinguished by the property *)
Inductive exn := ValueError | OtherExn.

Inductive result (A : Type) :=
| Ok (a : A)
| Raise (e : exn).
Arguments Ok {A}. Arguments Raise {A}.

(* ---- from_name, branch "parsed_types is a str": the if/elif chain as data ----
   A rule is a disjunction of tests and what the branch does.  [VParsed] is the value
   returned by _parse_type, [VTypeName] the upper-cased argument handed to it. *)
Inductive svar := VParsed | VTypeName.

Inductive stest :=
| TEq (v : svar) (c : str)        (* v == "c" *)
| TIn (v : svar).             (* v in OrsoTypes.__members__ *)

Inductive sact :=
| ASet (ty : str) (elt : option str)   (* _type = OrsoTypes.ty [; _element_type = OrsoTypes.elt] *)
| AMember (v : svar)                   (* _type = OrsoTypes[v] *)
| AZero                                (* _type = 0 *)
| ARaise (e : exn).                    (* raise e(...) *)

Definition srule := (list stest * sact)%type.

(* ---- from_name, branch DECIMAL: the guards `if <cmp or cmp ...>: raise` as data ---- *)
Inductive dterm := DPrec | DScale | DConst (z : Z).
Inductive dop := OLt | OGt | OLe | OGe | OEq | ONe.
Definition dcmp := (dterm * dop * dterm)%type.
Definition dguard := (list dcmp * exn)%type.   (* disjunction, exception raised when true *)
