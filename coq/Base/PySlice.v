(* Python sequence indexing used by the DataFrame model (C03): l[a:b], l[a:], l[i] and
   range(0, stop, step) with CPython's clamping rules, plus the list facts the window
   proofs need.  Started from notes/spikes/window_arith.v. *)
From Coq Require Import ZArith List Bool Lia ZifyBool ZifyNat.
Import ListNotations.
Open Scope Z_scope.

Section PySlice.
Context {A : Type}.

(* PySlice_AdjustIndices, step 1: a negative bound counts from the end, then clamp to [0, n] *)
Definition norm (n i : Z) : Z := if i <? 0 then Z.max 0 (i + n) else Z.min i n.

(* l[a:b] *)
Definition py_slice (a b : Z) (l : list A) : list A :=
  let n := Z.of_nat (length l) in
  let a' := norm n a in let b' := norm n b in
  firstn (Z.to_nat (b' - a')) (skipn (Z.to_nat a') l).

(* l[a:] *)
Definition py_slice_from (a : Z) (l : list A) : list A :=
  let n := Z.of_nat (length l) in skipn (Z.to_nat (norm n a)) l.

(* l[i]: None stands for IndexError *)
Definition py_index (i : Z) (l : list A) : option A :=
  let n := Z.of_nat (length l) in
  if (i <? - n) || (n <=? i) then None
  else nth_error l (Z.to_nat (if i <? 0 then i + n else i)).

(* ---------- list facts ---------- *)
Lemma firstn_min_length (k : nat) (l : list A) :
  firstn (Nat.min k (length l)) l = firstn k l.
Proof.
  destruct (Nat.le_ge_cases k (length l)) as [H|H].
  - now rewrite Nat.min_l.
  - rewrite Nat.min_r by exact H. rewrite firstn_all. symmetry. now apply firstn_all2.
Qed.

Lemma skipn_skipn' (a b : nat) (l : list A) : skipn b (skipn a l) = skipn (a + b) l.
Proof.
  revert l; induction a as [|a IH]; intros l; cbn [skipn Nat.add]; [reflexivity|].
  destruct l as [|x l]; [now destruct b|apply IH].
Qed.

Lemma firstn_skipn_app (a b : nat) (l : list A) :
  firstn a l ++ firstn b (skipn a l) = firstn (a + b) l.
Proof.
  revert l; induction a as [|a IH]; intros l; cbn [firstn skipn Nat.add app]; [reflexivity|].
  destruct l as [|x l]; cbn [firstn skipn app].
  - now rewrite firstn_nil.
  - now rewrite IH.
Qed.

(* ---------- what the slices are for non-negative bounds ---------- *)
Lemma py_slice_from_nonneg (a : Z) (l : list A) :
  0 <= a -> py_slice_from a l = skipn (Z.to_nat a) l.
Proof.
  intros Ha. unfold py_slice_from, norm.
  destruct (a <? 0) eqn:E; [lia|].
  destruct (Z.le_gt_cases a (Z.of_nat (length l))) as [H|H].
  - now rewrite Z.min_l by exact H.
  - rewrite Z.min_r by lia. rewrite Nat2Z.id, skipn_all.
    symmetry. apply skipn_all2. lia.
Qed.

Lemma py_slice_nonneg (a k : Z) (l : list A) :
  0 <= a -> 0 <= k ->
  py_slice a (a + k) l = firstn (Z.to_nat k) (skipn (Z.to_nat a) l).
Proof.
  intros Ha Hk. unfold py_slice, norm.
  destruct (a <? 0) eqn:E1; [lia|]. destruct (a + k <? 0) eqn:E2; [lia|].
  set (n := Z.of_nat (length l)).
  destruct (Z.le_gt_cases n a) as [H|H].
  - (* the window starts at or after the end *)
    rewrite (skipn_all2 l (n := Z.to_nat a)) by lia.
    rewrite (skipn_all2 l (n := Z.to_nat (Z.min a n))) by lia.
    now rewrite !firstn_nil.
  - rewrite (Z.min_l a n) by lia.
    rewrite <- (firstn_min_length (Z.to_nat k)).
    f_equal. rewrite skipn_length. lia.
Qed.

Lemma py_slice_length_le (a b : Z) (l : list A) : (length (py_slice a b l) <= length l)%nat.
Proof.
  unfold py_slice. rewrite firstn_length, skipn_length. lia.
Qed.

Lemma py_index_nonneg (i : Z) (l : list A) :
  0 <= i -> py_index i l = nth_error l (Z.to_nat i).
Proof.
  intros Hi. unfold py_index.
  destruct (i <? - Z.of_nat (length l)) eqn:E1; [lia|].
  destruct (Z.of_nat (length l) <=? i) eqn:E2; cbn [orb].
  - symmetry. apply nth_error_None. lia.
  - destruct (i <? 0) eqn:E3; [lia|reflexivity].
Qed.

Lemma py_index_neg (i : Z) (l : list A) :
  i < 0 -> - Z.of_nat (length l) <= i ->
  py_index i l = nth_error l (length l - Z.to_nat (- i)).
Proof.
  intros Hi Hn. unfold py_index.
  destruct (i <? - Z.of_nat (length l)) eqn:E1; [lia|].
  destruct (Z.of_nat (length l) <=? i) eqn:E2; [lia|]. cbn [orb].
  destruct (i <? 0) eqn:E3; [|lia]. f_equal. lia.
Qed.

Lemma py_index_out (i : Z) (l : list A) :
  i < - Z.of_nat (length l) \/ Z.of_nat (length l) <= i -> py_index i l = None.
Proof.
  intros H. unfold py_index.
  destruct (i <? - Z.of_nat (length l)) eqn:E1; [reflexivity|].
  destruct (Z.of_nat (length l) <=? i) eqn:E2; [reflexivity|lia].
Qed.

End PySlice.

(* range(0, stop, step): empty for step <= 0 when stop >= 0 (step = 0 raises in Python and is
   handled by the caller); fuel = stop suffices because step >= 1 *)
Fixpoint range_loop (fuel : nat) (i stop step : Z) : list Z :=
  match fuel with
  | O => []
  | S f => if i <? stop then i :: range_loop f (i + step) stop step else []
  end.

Definition py_range0 (stop step : Z) : list Z :=
  if step <=? 0 then [] else range_loop (Z.to_nat stop) 0 stop step.
