(* C16 - types shared by the regenerated table (coq/Gen/C16_Fields.v) and the model
   (coq/Model/C16.v).  Definitions only. *)
From Coq Require Import List NArith ZArith String Ascii.
Import ListNotations.

(* Python text = list of Unicode code points (convertible with Base.C06_Defs.str) *)
Definition str := list N.

(* readable text literals: [txt "name"] *)
Definition txt (s : string) : str := map N_of_ascii (list_ascii_of_string s).

(* the declared default of a dataclass field, as dataclasses.fields() reports it *)
Inductive fdefault :=
| DRequired                 (* neither default nor default_factory: the constructor raises when it is absent *)
| DNone                     (* default None *)
| DBool (b : bool)          (* default True / False *)
| DInt (z : Z)              (* an int default *)
| DEmptyList                (* default_factory list *)
| DEmptyTuple               (* default_factory tuple *)
| DRandomString             (* default_factory orso.tools.random_string: a fresh identity *)
| DTypeMember (m : str)     (* an OrsoTypes member *)
| DCallable.                (* a function object (FunctionColumn.binding) *)
