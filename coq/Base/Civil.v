(* Proleptic Gregorian calendar: days since 1970-01-01 <-> civil date (Hinnant's
   algorithms), with the inverse law proved for every integer day number.
   One 146097-day era is swept by vm_compute with a [Pos.iter] counter (no unary nat),
   then lifted to all of Z by two periodicity lemmas.  From notes/spikes/civil_calendar.v. *)
From Coq Require Import ZArith List Bool Lia ZifyBool.
Import ListNotations.
Open Scope Z_scope.

Definition days_from_civil (y m d : Z) : Z :=
  let y := if m <=? 2 then y - 1 else y in
  let era := y / 400 in
  let yoe := y - era * 400 in
  let doy := (153 * (if m >? 2 then m - 3 else m + 9) + 2) / 5 + d - 1 in
  let doe := yoe * 365 + yoe / 4 - yoe / 100 + doy in
  era * 146097 + doe - 719468.

Definition civil_from_days (z : Z) : Z * Z * Z :=
  let z := z + 719468 in
  let era := z / 146097 in
  let doe := z - era * 146097 in
  let yoe := (doe - doe / 1460 + doe / 36524 - doe / 146096) / 365 in
  let y := yoe + era * 400 in
  let doy := doe - (365 * yoe + yoe / 4 - yoe / 100) in
  let mp := (5 * doy + 2) / 153 in
  let d := doy - (153 * mp + 2) / 5 + 1 in
  let m := if mp <? 10 then mp + 3 else mp - 9 in
  (if m <=? 2 then y + 1 else y, m, d).

Definition leap (y : Z) : bool :=
  ((y mod 4 =? 0) && negb (y mod 100 =? 0)) || (y mod 400 =? 0).

(* days in month, as CPython's datetime constructor checks it *)
Definition dim (y m : Z) : Z :=
  if m =? 2 then (if leap y then 29 else 28)
  else if (m =? 4) || (m =? 6) || (m =? 9) || (m =? 11) then 30 else 31.

Section InverseLaw.
Local Ltac Zify.zify_post_hook ::= Z.to_euclidean_division_equations.

Definition era_check (z0 : Z) : bool :=
  let z := z0 - 719468 in
  let '(y, m, d) := civil_from_days z in
  (days_from_civil y m d =? z) && (1 <=? m) && (m <=? 12) && (1 <=? d) && (d <=? dim y m).

Definition sweep_step (st : bool * Z) : bool * Z := (fst st && era_check (snd st), snd st + 1).
Definition sweep (n : positive) : bool * Z := Pos.iter sweep_step (true, 0) n.

Lemma sweep_spec n :
  snd (sweep n) = Z.pos n /\
  (fst (sweep n) = true -> forall z, 0 <= z < Z.pos n -> era_check z = true).
Proof.
  unfold sweep. induction n as [|n IH] using Pos.peano_ind.
  - unfold Pos.iter, sweep_step. cbn [fst snd]. split; [reflexivity|].
    intros H z Hz. assert (z = 0) as -> by lia. apply andb_true_iff in H. exact (proj2 H).
  - rewrite Pos.iter_succ. destruct IH as [IH1 IH2]. unfold sweep_step at 1. cbn [fst snd].
    rewrite IH1. split; [lia|].
    intros H z Hz. apply andb_true_iff in H. destruct H as [H1 H2].
    destruct (Z.eq_dec z (Z.pos n)) as [->|Hne]; [rewrite IH1 in H2; exact H2|].
    apply IH2; [exact H1|lia].
Qed.

Lemma era_ok_true : fst (sweep 146097) = true.
Proof. vm_compute. reflexivity. Qed.

Lemma era_ok z : 0 <= z < 146097 -> era_check z = true.
Proof. intros Hz. exact (proj2 (sweep_spec 146097) era_ok_true z Hz). Qed.

Lemma civil_shift z k :
  civil_from_days (z + 146097 * k) = let '(y, m, d) := civil_from_days z in (y + 400 * k, m, d).
Proof.
  unfold civil_from_days.
  replace ((z + 146097 * k + 719468) / 146097) with ((z + 719468) / 146097 + k)
    by (rewrite <- Z.div_add by lia; f_equal; lia).
  set (era := (z + 719468) / 146097).
  replace (z + 146097 * k + 719468 - (era + k) * 146097) with (z + 719468 - era * 146097) by lia.
  set (doe := z + 719468 - era * 146097).
  set (yoe := (doe - doe / 1460 + doe / 36524 - doe / 146096) / 365).
  cbv zeta.
  replace (yoe + (era + k) * 400) with (yoe + era * 400 + 400 * k) by lia.
  destruct (_ <=? 2); f_equal; f_equal; lia.
Qed.

Lemma days_shift y m d k : days_from_civil (y + 400 * k) m d = days_from_civil y m d + 146097 * k.
Proof.
  unfold days_from_civil.
  set (y' := if m <=? 2 then y - 1 else y).
  replace (if m <=? 2 then y + 400 * k - 1 else y + 400 * k) with (y' + 400 * k)
    by (unfold y'; destruct (m <=? 2); lia).
  replace ((y' + 400 * k) / 400) with (y' / 400 + k) by (rewrite <- Z.div_add by lia; f_equal; lia).
  cbv zeta. replace (y' + 400 * k - (y' / 400 + k) * 400) with (y' - y' / 400 * 400) by lia. lia.
Qed.

Lemma dim_shift y m k : dim (y + 400 * k) m = dim y m.
Proof.
  unfold dim, leap.
  replace ((y + 400 * k) mod 4) with (y mod 4) by lia.
  replace ((y + 400 * k) mod 100) with (y mod 100) by lia.
  replace ((y + 400 * k) mod 400) with (y mod 400) by lia. reflexivity.
Qed.

(* Every day number is the day number of the civil date computed for it, and that
   date is a valid calendar date. *)
Theorem days_civil_inverse z :
  let '(y, m, d) := civil_from_days z in
  days_from_civil y m d = z /\ 1 <= m <= 12 /\ 1 <= d <= dim y m.
Proof.
  set (k := (z + 719468) / 146097). set (r := (z + 719468) mod 146097).
  assert (Hz : z = (r - 719468) + 146097 * k) by (unfold k, r; lia).
  assert (Hr : 0 <= r < 146097) by (unfold r; lia).
  pose proof (civil_shift (r - 719468) k) as Hs. rewrite <- Hz in Hs. rewrite Hs. clear Hs.
  pose proof (era_ok r Hr) as H. unfold era_check in H.
  destruct (civil_from_days (r - 719468)) as [[y m] d].
  rewrite days_shift, dim_shift. lia.
Qed.
End InverseLaw.
