(* C15 - profile objects in the caller's hands and frames with more than one column (round 6):
   an addition or a copy creates a new object and leaves every existing object as it is; a column
   profile of a frame is the profile of the column that frame's own schema puts under the name. *)
From Coq Require Import List ZArith NArith Bool Lia.
From Orso Require Import Gen.C15_Profiler Model.C15.
Import ListNotations.

Section Objects.
Variable P : Type.
Variable addf : P -> P -> P.
Variable dflt : P.

Lemma pstep_grows store op : exists l, fst (pstep addf dflt store op) = store ++ l.
Proof. destruct op; cbn [pstep fst]; eauto. exists []. now rewrite app_nil_r. Qed.

Lemma pfinal_grows ops : forall store, exists l, pfinal addf dflt store ops = store ++ l.
Proof.
  induction ops as [|op r IH]; intro store.
  - exists []. cbn [pfinal]. now rewrite app_nil_r.
  - cbn [pfinal]. destruct (pstep_grows store op) as [l1 H1]. rewrite H1.
    destruct (IH (store ++ l1)) as [l2 H2]. exists (l1 ++ l2). now rewrite H2, app_assoc.
Qed.

Lemma prun_app ops1 : forall store ops2,
  prun addf dflt store (ops1 ++ ops2) = prun addf dflt store ops1 ++ prun addf dflt (pfinal addf dflt store ops1) ops2.
Proof.
  induction ops1 as [|op r IH]; intros store ops2; [reflexivity|].
  cbn [app prun pfinal]. rewrite IH. now rewrite app_assoc.
Qed.

(* whatever additions, copies and reads came before, reading one of the original objects returns it
   unchanged *)
Lemma prun_read_stable store ops1 ops2 i : (i < length store)%nat ->
  prun addf dflt store (ops1 ++ PRead i :: ops2) =
  prun addf dflt store ops1 ++ nth i store dflt :: prun addf dflt (pfinal addf dflt store ops1) ops2.
Proof.
  intro Hi. rewrite prun_app. cbn [prun pstep snd fst app].
  destruct (pfinal_grows ops1 store) as [l ->]. now rewrite app_nth1.
Qed.
End Objects.

(* ---------- two-column frames ---------- *)
Lemma map_fst_combine {X Y} (a : list X) : forall (b : list Y), length a = length b -> map fst (combine a b) = a.
Proof.
  induction a as [|x a IH]; intros [|y b] H; try reflexivity; try discriminate.
  cbn [combine map fst]. f_equal. apply IH. now injection H.
Qed.

Lemma map_snd_combine {X Y} (a : list X) : forall (b : list Y), length a = length b -> map snd (combine a b) = b.
Proof.
  induction a as [|x a IH]; intros [|y b] H; try reflexivity; try discriminate.
  cbn [combine map snd]. f_equal. apply IH. now injection H.
Qed.

Lemma tprofile2_spec {X P} (profile_of : list X -> P) (n1 n2 : N) (c d : list X) :
  n1 <> n2 -> length c = length d ->
  tprofile2 profile_of (n1, n2) (combine c d) n1 = Some (profile_of c) /\
  tprofile2 profile_of (n1, n2) (combine c d) n2 = Some (profile_of d) /\
  (forall nm, nm <> n1 -> nm <> n2 -> tprofile2 profile_of (n1, n2) (combine c d) nm = None).
Proof.
  intros Hne Hlen. unfold tprofile2, collect2. cbn [fst snd]. repeat split.
  - rewrite N.eqb_refl. cbn [option_map]. now rewrite map_fst_combine.
  - destruct (N.eqb_spec n2 n1) as [E|_]; [now subst|]. rewrite N.eqb_refl. cbn [option_map]. now rewrite map_snd_combine.
  - intros nm H1 H2. destruct (N.eqb_spec nm n1); [contradiction|]. destruct (N.eqb_spec nm n2); [contradiction|]. reflexivity.
Qed.
