(* C16 round 7: looking columns up by name (find_column / column(name) / DataFrame.description) on a schema that is
   edited in place, and on the schema restored from it. *)
From Coq Require Import List NArith ZArith Bool Lia Arith.
From Orso Require Import Base.C16_Defs Gen.C16_Fields Model.C16 Proofs.C16.
Import ListNotations.

(* a lookup is an observation: the objects stay as they are *)
Lemma lookup_keeps_state : forall st name live rest, step st (SFind name live rest) = Some st.
Proof. intros [[h refs] top] name live rest. reflexivity. Qed.

(* the names a column answers to are its name and aliases: the type attribute (the only one a round trip may change,
   for untyped columns) plays no part *)
Lemma answers_to_restored : forall name c, answers_to name (restored c) = answers_to name c.
Proof. intros name c. unfold restored. destruct (untyped c); reflexivity. Qed.

Lemma find_pos_restored : forall name cs i, find_pos name (map restored cs) i = find_pos name cs i.
Proof.
  intros name cs. induction cs as [|c cs IH]; intros i; cbn [map find_pos]; [reflexivity|].
  rewrite answers_to_restored. destruct (answers_to name c) as [[|]|e]; try reflexivity. apply IH.
Qed.

(* a lookup depends on the names and aliases of the columns as listed NOW, and on nothing else *)
Lemma find_pos_names_only : forall name cs cs' i,
  map c_name cs = map c_name cs' -> map c_aliases cs = map c_aliases cs' ->
  find_pos name cs i = find_pos name cs' i.
Proof.
  intros name cs. induction cs as [|c cs IH]; intros [|c' cs'] i Hn Ha; cbn [map] in Hn, Ha; try discriminate; [reflexivity|].
  injection Hn as Hn1 Hn2. injection Ha as Ha1 Ha2. cbn [find_pos].
  assert (E : answers_to name c = answers_to name c') by (unfold answers_to; rewrite Hn1, Ha1; reflexivity).
  rewrite E. destruct (answers_to name c') as [[|]|e]; try reflexivity. apply IH; assumption.
Qed.

(* what the position returned means: the first column of the list that answers to the name *)
Lemma find_pos_some : forall name cs i k,
  find_pos name cs i = Ok (Some k) ->
  exists j, k = (i + j)%nat /\ (j < List.length cs)%nat /\ answers_to name (nth j cs dummy_column) = Ok true /\
            forall j', (j' < j)%nat -> answers_to name (nth j' cs dummy_column) = Ok false.
Proof.
  intros name cs. induction cs as [|c cs IH]; intros i k H; cbn [find_pos] in H; [discriminate|].
  destruct (answers_to name c) as [[|]|e] eqn:E; try discriminate.
  - injection H as H. exists 0%nat. cbn [nth List.length]. repeat split; [lia | lia | exact E | intros j' Hj; lia].
  - destruct (IH _ _ H) as [j [H1 [H2 [H3 H4]]]]. exists (S j). cbn [nth List.length]. repeat split; [lia | lia | exact H3 |].
    intros [|j'] Hj; [exact E | apply H4; lia].
Qed.

Lemma find_pos_none : forall name cs i,
  find_pos name cs i = Ok None -> Forall (fun c => answers_to name c = Ok false) cs.
Proof.
  intros name cs. induction cs as [|c cs IH]; intros i H; cbn [find_pos] in H; [constructor|].
  destruct (answers_to name c) as [[|]|e] eqn:E; try discriminate. constructor; [exact E | exact (IH _ H)].
Qed.

(* schema.columns[i] = obj_o shows at position i of the columns list and nowhere else *)
Lemma map_upd_const : forall (A : Type) (g : nat -> A) refs i o,
  map g (upd i (fun _ => o) refs) = upd i (fun _ => g o) (map g refs).
Proof.
  intros A g refs. induction refs as [|r refs IH]; intros i o; [destruct i; reflexivity|].
  destruct i as [|i]; cbn [upd map]; [reflexivity | rewrite IH; reflexivity].
Qed.

Lemma list_set_view : forall h refs top i o st',
  step (h, refs, top) (SListSet i o) = Some st' ->
  (i < List.length (s_columns (view (h, refs, top))))%nat /\
  s_columns (view st') = upd i (fun _ => nth o h dummy_column) (s_columns (view (h, refs, top))).
Proof.
  intros h refs top i o st' H. cbn [step] in H. destruct (Nat.ltb i (List.length refs)) eqn:E; [|discriminate].
  injection H as H. subst st'. apply Nat.ltb_lt in E. cbn [view s_columns]. rewrite map_length. split; [exact E|].
  apply map_upd_const.
Qed.

Section Lookup.
Variable parse : str -> params -> pv -> result pv.

(* WHATEVER was done before - lookups, descriptions, aliases appended, columns renamed or redefined in place, a columns
   list that shrank and grew - the schema restored now finds, for every name, the column at the same position as the
   schema as it is now (or none, or raises the same error) *)
Lemma session_restored_finds_same : forall fresh st ops st',
  exec st ops = Some st' ->
  Forall (persistable parse) (s_columns (view st')) -> plain_top (view st') ->
  exists s', from_dict parse fresh (to_dict (view st')) = Ok s' /\
             forall name, find_col s' name = find_col (view st') name.
Proof.
  intros fresh st ops st' H H1 H2.
  destruct (session_round_trip parse fresh st ops st' H H1 H2) as [s' [E [_ [_ [_ [_ [_ [_ [_ [_ Hc]]]]]]]]]].
  exists s'. split; [exact E|]. intros name. unfold find_col. rewrite Hc. apply find_pos_restored.
Qed.
End Lookup.
