(* C13 - instances of the generic invariant proof and the operations built on update:
   (1) ANY arithmetic: order / capacity / counts / mass / bounds / completion;
   (2) exact arithmetic (the rational instance QA): conservation of the first moment, i.e.
       the weighted mean of the bins is exactly the mean of what was inserted;
   plus merge, __add__, bulkload, load. *)
From Coq Require Import QArith Lqa Psatz ZArith List Bool Lia Sorted Arith.
From Orso Require Import Model.C13 Model.C13_Q Proofs.C13_lists Proofs.C13.
Import ListNotations.
Open Scope Q_scope.

Notation bin := (Q * Z)%type.

(* ---------- measure 1: the total count ---------- *)
Definition mu_mass (l : list bin) : Q := inject_Z (mass l).

Lemma mu_mass_app l1 l2 : mu_mass (l1 ++ l2) == mu_mass l1 + mu_mass l2.
Proof. unfold mu_mass. rewrite mass_app, inject_Z_plus. reflexivity. Qed.
Lemma mu_mass_one v f : mu_mass [(v, f)] == inject_Z f.
Proof. unfold mu_mass, mass. cbn [fold_right snd]. rewrite Z.add_0_r. reflexivity. Qed.

(* ---------- measure 2: the first moment ---------- *)
Definition moment (l : list bin) : Q := fold_right (fun b a => fst b * inject_Z (snd b) + a) 0 l.

Lemma moment_app l1 l2 : moment (l1 ++ l2) == moment l1 + moment l2.
Proof.
  induction l1 as [|b l1 IH].
  - cbn [app]. unfold moment at 2. cbn [fold_right]. ring.
  - change (moment ((b :: l1) ++ l2)) with (fst b * inject_Z (snd b) + moment (l1 ++ l2)).
    change (moment (b :: l1)) with (fst b * inject_Z (snd b) + moment l1). rewrite IH. ring.
Qed.
Lemma moment_one v f : moment [(v, f)] == v * inject_Z f.
Proof. unfold moment. cbn [fold_right fst snd]. ring. Qed.

Lemma QA_is_AA : QA = AA Qplus Qminus Qmult Qdiv inject_Z Qtrunc.
Proof. reflexivity. Qed.

Lemma centroid_between (a b f1 f2 : Q) :
  a <= b -> 0 < f1 -> 0 < f2 ->
  a <= (a * f1 + b * f2) / (f1 + f2) /\ (a * f1 + b * f2) / (f1 + f2) <= b.
Proof.
  intros Hab H1 H2. assert (Hs : 0 < f1 + f2) by lra. split.
  - apply Qle_shift_div_l; [exact Hs|]. nra.
  - apply Qle_shift_div_r; [exact Hs|]. nra.
Qed.

Lemma pos_inject (f : Z) : (1 <= f)%Z -> 0 < inject_Z f.
Proof. intros H. change 0 with (inject_Z 0). rewrite <- Zlt_Qlt. lia. Qed.

Lemma centroid_QA v1 f1 v2 f2 :
  centroid QA v1 f1 v2 f2 == (v1 * inject_Z f1 + v2 * inject_Z f2) / (inject_Z f1 + inject_Z f2).
Proof. unfold centroid. cbn [add mul div ofZ QA]. rewrite inject_Z_plus. reflexivity. Qed.


(* the clamp is the identity on an exact centroid *)
Lemma clamp_id x lo hi : lo <= x <= hi -> pmin QA (pmax QA x lo) hi == x.
Proof.
  intros [H1 H2]. unfold pmin, pmax. cbn [ltb QA].
  destruct (Qltb_spec x lo); [lra|]. destruct (Qltb_spec hi x); [lra|reflexivity].
Qed.

Lemma moment_merge v1 f1 v2 f2 : v1 < v2 -> (1 <= f1)%Z -> (1 <= f2)%Z ->
  moment [(pmin QA (pmax QA (centroid QA v1 f1 v2 f2) v1) v2, (f1 + f2)%Z)] == moment [(v1, f1)] + moment [(v2, f2)].
Proof.
  intros Hv H1 H2. pose proof (pos_inject f1 H1) as P1. pose proof (pos_inject f2 H2) as P2.
  rewrite !moment_one. rewrite clamp_id.
  - rewrite centroid_QA, inject_Z_plus. field. lra.
  - rewrite centroid_QA. apply centroid_between; lra.
Qed.

Lemma moment_inplace cv cf v c : ~ cv == v -> (1 <= cf)%Z -> (1 <= c)%Z ->
  moment [(pmin QA (pmax QA (centroid QA cv cf v c) (pmin QA cv v)) (pmax QA cv v), (cf + c)%Z)] == moment [(cv, cf)] + moment [(v, c)].
Proof.
  intros Hne H1 H2. pose proof (pos_inject cf H1) as P1. pose proof (pos_inject c H2) as P2.
  rewrite !moment_one. rewrite clamp_id.
  - rewrite centroid_QA, inject_Z_plus. field. lra.
  - rewrite centroid_QA. unfold pmin, pmax. cbn [ltb QA].
    destruct (Qltb_spec v cv); destruct (Qltb_spec cv v); try lra.
    + (* v < cv *)
      assert (E : (cv * inject_Z cf + v * inject_Z c) / (inject_Z cf + inject_Z c) ==
                  (v * inject_Z c + cv * inject_Z cf) / (inject_Z c + inject_Z cf)) by (field; lra).
      rewrite E. apply centroid_between; lra.
    + apply centroid_between; lra.
Qed.

Lemma moment_hit vi fi v c : vi == v -> moment [(vi, (fi + c)%Z)] == moment [(vi, fi)] + moment [(v, c)].
Proof. intros E. rewrite !moment_one, inject_Z_plus, <- E. ring. Qed.

Section Any.
Variables (fadd fsub fmul fdiv : Q -> Q -> Q) (fofZ : Z -> Q) (ftrunc : Q -> Z).
Notation A := (AA fadd fsub fmul fdiv fofZ ftrunc).
Notation st := (@st Q).

(* what one update does to the observable quantities *)
Definition upd_facts (s s' : st) (v : Q) (c : Z) : Prop :=
  Inv s' /\ mass (bins s') = (mass (bins s) + c)%Z /\ cap s' = cap s /\
  hmin s' = Some (match hmin s with Some m => pmin A m v | None => v end) /\
  hmax s' = Some (match hmax s with Some m => pmax A m v | None => v end).

Theorem update_any (s : st) v c :
  Inv s -> (1 <= c)%Z -> exists s', update A s v c = Some s' /\ upd_facts s s' v c.
Proof.
  intros HI Hc.
  destruct (update_ok fadd fsub fmul fdiv fofZ ftrunc mu_mass) with (s := s) (v := v) (c := c)
    as (s' & U & I' & M & C & N & X & _); auto.
  - apply mu_mass_app.
  - intros. rewrite !mu_mass_one, inject_Z_plus. reflexivity.
  - intros. rewrite !mu_mass_one, inject_Z_plus. reflexivity.
  - intros. rewrite !mu_mass_one, inject_Z_plus. reflexivity.
  - exists s'. split; [exact U|]. unfold upd_facts. auto.
Qed.

Theorem feed_any (l : list bin) (s : st) :
  Inv s -> pos_counts l ->
  exists s', feed A s l = Some s' /\ Inv s' /\
    mass (bins s') = (mass (bins s) + mass l)%Z /\ cap s' = cap s /\
    hmin s' = ext_min fadd fsub fmul fdiv fofZ ftrunc (hmin s) l /\
    hmax s' = ext_max fadd fsub fmul fdiv fofZ ftrunc (hmax s) l.
Proof.
  intros HI Hp.
  destruct (feed_ok fadd fsub fmul fdiv fofZ ftrunc mu_mass) with (l := l) (s := s)
    as (s' & F & I' & M & C & N & X & _); auto.
  - apply mu_mass_app.
  - intros. rewrite !mu_mass_one, inject_Z_plus. reflexivity.
  - intros. rewrite !mu_mass_one, inject_Z_plus. reflexivity.
  - intros. rewrite !mu_mass_one, inject_Z_plus. reflexivity.
  - exists s'. auto 10.
Qed.

End Any.

(* ---------- exact arithmetic: the mean ---------- *)
Theorem update_moment (s : @st Q) v c :
  Inv s -> (1 <= c)%Z ->
  exists s', update QA s v c = Some s' /\ Inv s' /\
             moment (bins s') == moment (bins s) + v * inject_Z c /\
             mass (bins s') = (mass (bins s) + c)%Z.
Proof.
  intros HI Hc.
  destruct (update_ok Qplus Qminus Qmult Qdiv inject_Z Qtrunc moment) with (s := s) (v := v) (c := c)
    as (s' & U & I' & M & C & N & X & Mu); auto.
  - apply moment_app.
  - intros; now apply moment_hit.
  - intros; now apply moment_merge.
  - intros; now apply moment_inplace.
  - exists s'. split; [exact U|]. split; [exact I'|]. split; [|exact M]. rewrite Mu, moment_one. reflexivity.
Qed.

Theorem feed_moment (l : list bin) (s : @st Q) :
  Inv s -> pos_counts l ->
  exists s', feed QA s l = Some s' /\ Inv s' /\
             moment (bins s') == moment (bins s) + moment l /\
             mass (bins s') = (mass (bins s) + mass l)%Z.
Proof.
  intros HI Hp.
  destruct (feed_ok Qplus Qminus Qmult Qdiv inject_Z Qtrunc moment) with (l := l) (s := s)
    as (s' & F & I' & M & C & N & X & Mu); auto.
  - apply moment_app.
  - intros; now apply moment_hit.
  - intros; now apply moment_merge.
  - intros; now apply moment_inplace.
  - exists s'. split; [exact F|]. split; [exact I'|]. split; [|exact M]. rewrite Mu. apply Qplus_comp; [reflexivity|].
    clear. induction l as [|[v c] t IH]; [reflexivity|].
    change (mu_sum moment ((v, c) :: t)) with (moment [(v, c)] + mu_sum moment t).
    change (moment ((v, c) :: t)) with (v * inject_Z c + moment t).
    rewrite IH, moment_one. reflexivity.
Qed.

(* ---------- merge, __add__, bulkload, load (any arithmetic) ---------- *)
Section Ops.
Variables (fadd fsub fmul fdiv : Q -> Q -> Q) (fofZ : Z -> Q) (ftrunc : Q -> Z).
Notation A := (AA fadd fsub fmul fdiv fofZ ftrunc).
Notation st := (@st Q).
Notation emin := (ext_min fadd fsub fmul fdiv fofZ ftrunc).
Notation emax := (ext_max fadd fsub fmul fdiv fofZ ftrunc).

Lemma Inv_bins_pos (s : st) : Inv s -> pos_counts (bins s).
Proof. intros (_ & H & _). exact H. Qed.

Lemma Inv_empty c : (2 <= c)%nat -> Inv (empty c).
Proof.
  intros H. unfold Inv, empty; cbn [bins cap hmin hmax diffs min_diff].
  split; [constructor|]. split; [constructor|]. split; [cbn; lia|]. split; [exact H|].
  split; [unfold cache_ok; cbn [diffs]; exact I|]. unfold bounds_ok; cbn [bins hmin hmax]. auto.
Qed.

(* the running minimum / maximum really are the extremes *)
Lemma emin_spec (l : list bin) : forall o,
  (o <> None \/ l <> []) ->
  exists m, emin o l = Some m /\ (forall b, In b l -> m <= fst b) /\ (forall x, o = Some x -> m <= x) /\
            ((exists b, In b l /\ m = fst b) \/ o = Some m).
Proof.
  induction l as [|b t IH]; intros o Hne.
  - destruct o as [x|]; [|destruct Hne; congruence]. exists x. split; [reflexivity|]. split; [intros ? []|].
    split; [intros y E; inversion E; subst; lra|now right].
  - cbn [ext_min fold_left].
    set (o1 := Some (match o with Some m => pmin A m (fst b) | None => fst b end)).
    assert (Hn1 : o1 <> None) by (unfold o1; discriminate).
    destruct (IH o1 (or_introl Hn1)) as (m & E & Hl & Ho & Hw).
    exists m. split; [exact E|].
    assert (Hm1 : forall y, o1 = Some y -> y <= fst b /\ (forall x, o = Some x -> y <= x) /\ (y = fst b \/ o = Some y)).
    { intros y Ey. unfold o1 in Ey. inversion Ey as [Ey']. clear Ey. destruct o as [x|].
      - destruct (pmin_cases fadd fsub fmul fdiv fofZ ftrunc x (fst b)) as [[H1 H2]|[H1 H2]]; rewrite H2.
        + split; [lra|]. split; [intros z Ez; inversion Ez; subst; lra|now left].
        + split; [lra|]. split; [intros z Ez; inversion Ez; subst; lra|now right].
      - split; [lra|]. split; [intros ? ?; discriminate|now left]. }
    destruct (Hm1 _ eq_refl) as (Hb1 & Ho1 & Hw1).
    specialize (Ho _ eq_refl).
    split; [|split].
    + intros x [<-|Ix]; [lra|now apply Hl].
    + intros x Ex. specialize (Ho1 x Ex). lra.
    + destruct Hw as [(b' & Ib & Eb)|Eo].
      * left. exists b'. split; [now right|exact Eb].
      * destruct (Hm1 m Eo) as (_ & _ & [Hx|Hx]); [left; exists b; split; [now left|exact Hx]|right; exact Hx].
Qed.

Lemma emax_spec (l : list bin) : forall o,
  (o <> None \/ l <> []) ->
  exists m, emax o l = Some m /\ (forall b, In b l -> fst b <= m) /\ (forall x, o = Some x -> x <= m) /\
            ((exists b, In b l /\ m = fst b) \/ o = Some m).
Proof.
  induction l as [|b t IH]; intros o Hne.
  - destruct o as [x|]; [|destruct Hne; congruence]. exists x. split; [reflexivity|]. split; [intros ? []|].
    split; [intros y E; inversion E; subst; lra|now right].
  - cbn [ext_max fold_left].
    set (o1 := Some (match o with Some m => pmax A m (fst b) | None => fst b end)).
    assert (Hn1 : o1 <> None) by (unfold o1; discriminate).
    destruct (IH o1 (or_introl Hn1)) as (m & E & Hl & Ho & Hw).
    exists m. split; [exact E|].
    assert (Hm1 : forall y, o1 = Some y -> fst b <= y /\ (forall x, o = Some x -> x <= y) /\ (y = fst b \/ o = Some y)).
    { intros y Ey. unfold o1 in Ey. inversion Ey as [Ey']. clear Ey. destruct o as [x|].
      - destruct (pmax_cases fadd fsub fmul fdiv fofZ ftrunc x (fst b)) as [[H1 H2]|[H1 H2]]; rewrite H2.
        + split; [lra|]. split; [intros z Ez; inversion Ez; subst; lra|now left].
        + split; [lra|]. split; [intros z Ez; inversion Ez; subst; lra|now right].
      - split; [lra|]. split; [intros ? ?; discriminate|now left]. }
    destruct (Hm1 _ eq_refl) as (Hb1 & Ho1 & Hw1).
    specialize (Ho _ eq_refl).
    split; [|split].
    + intros x [<-|Ix]; [lra|now apply Hl].
    + intros x Ex. specialize (Ho1 x Ex). lra.
    + destruct Hw as [(b' & Ib & Eb)|Eo].
      * left. exists b'. split; [now right|exact Eb].
      * destruct (Hm1 m Eo) as (_ & _ & [Hx|Hx]); [left; exists b; split; [now left|exact Hx]|right; exact Hx].
Qed.

(* merge(h1, h2) *)
Theorem merge_any (s1 s2 : st) :
  Inv s1 -> Inv s2 ->
  exists s', merge A s1 s2 = Some s' /\ Inv s' /\
    mass (bins s') = (mass (bins s1) + mass (bins s2))%Z /\ cap s' = cap s1 /\
    hmin s' = emin (hmin s1) (bins s2) /\ hmax s' = emax (hmax s1) (bins s2).
Proof. intros H1 H2. unfold merge. apply feed_any; [exact H1|now apply Inv_bins_pos]. Qed.

Lemma within_widen mn mx mn' mx' (l : list bin) :
  mn' <= mn -> mx <= mx' -> within mn mx l -> within mn' mx' l.
Proof. intros H1 H2 H. unfold within in *. rewrite Forall_forall in *. intros b Ib. specialize (H b Ib). lra. Qed.

Lemma Inv_rebound (s : st) mn mx mn' mx' :
  Inv s -> bins s <> [] -> hmin s = Some mn -> hmax s = Some mx -> mn' <= mn -> mx <= mx' ->
  Inv (mkst (bins s) (Some mn') (Some mx') (diffs s) (min_diff s) (cap s)).
Proof.
  intros (Hs & Hp & Hl & Hc & Hk & Hb) Hne Hmn Hmx H1 H2.
  destruct (bounds_nonempty s Hne Hb) as (m1 & m2 & E1 & E2 & Hw).
  assert (m1 = mn) by congruence. assert (m2 = mx) by congruence. subst.
  unfold Inv. cbn [bins cap]. split; [exact Hs|]. split; [exact Hp|]. split; [exact Hl|]. split; [exact Hc|]. split.
  - exact Hk.
  - apply (bounds_intro _ mn' mx'); cbn [bins hmin hmax]; auto. eapply within_widen; eauto.
Qed.

(* Distogram.__add__ *)
Theorem hadd_any (s1 s2 : st) :
  Inv s1 -> Inv s2 -> bins s2 <> [] ->
  exists s' m x m2 x2,
    hadd A s1 s2 = Some s' /\ Inv s' /\
    mass (bins s') = (mass (bins s1) + mass (bins s2))%Z /\ cap s' = cap s1 /\
    emin (hmin s1) (bins s2) = Some m /\ emax (hmax s1) (bins s2) = Some x /\
    hmin s2 = Some m2 /\ hmax s2 = Some x2 /\
    hmin s' = Some (pmin A m m2) /\ hmax s' = Some (pmax A x x2).
Proof.
  intros H1 H2 Hne.
  destruct (merge_any s1 s2 H1 H2) as (s & M & I & Ms & C & N & X).
  destruct (emin_spec (bins s2) (hmin s1) (or_intror Hne)) as (m & Em & _).
  destruct (emax_spec (bins s2) (hmax s1) (or_intror Hne)) as (x & Ex & _).
  destruct H2 as (_ & _ & _ & _ & _ & Hb2). destruct (bounds_nonempty s2 Hne Hb2) as (m2 & x2 & E1 & E2 & _).
  assert (Hs_ne : bins s <> []).
  { intros E. rewrite E in Ms. destruct I as (_ & _ & _ & _ & _ & Hb). unfold bounds_ok in Hb. rewrite E in Hb.
    destruct Hb as [Hb _]. congruence. }
  exists (mkst (bins s) (Some (pmin A m m2)) (Some (pmax A x x2)) (diffs s) (min_diff s) (cap s)), m, x, m2, x2.
  unfold hadd. rewrite M. cbn [bind]. rewrite N, X, Em, Ex, E1, E2. cbn [omin omax bind].
  split; [reflexivity|]. split.
  - apply (Inv_rebound s m x); auto; try congruence.
    + destruct (pmin_cases fadd fsub fmul fdiv fofZ ftrunc m m2) as [[? ->]|[? ->]]; lra.
    + destruct (pmax_cases fadd fsub fmul fdiv fofZ ftrunc x x2) as [[? ->]|[? ->]]; lra.
  - cbn [bins cap hmin hmax]. repeat split; auto.
Qed.

Lemma mass_filter_pos (l : list bin) :
  Forall (fun p => (0 <= snd p)%Z) l -> mass (filter (fun p => Z.ltb 0 (snd p)) l) = mass l.
Proof.
  induction l as [|[v c] t IH]; intros H; [reflexivity|]. inversion H as [|? ? Hc Ht]; subst. cbn [snd] in Hc.
  cbn [filter snd]. destruct (Z.ltb_spec 0 c).
  - unfold mass in *. cbn [fold_right snd]. rewrite IH; auto.
  - unfold mass in *. cbn [fold_right snd]. rewrite IH; auto. lia.
Qed.

Lemma pos_filter (l : list bin) : pos_counts (filter (fun p => Z.ltb 0 (snd p)) l).
Proof.
  unfold pos_counts. rewrite Forall_forall. intros b Hb. apply filter_In in Hb as [_ Hb].
  apply Z.ltb_lt in Hb. lia.
Qed.

(* Distogram.bulkload, given what numpy.unique / numpy.histogram produced *)
Theorem bulkload_any (s : st) (pairs : list bin) (dmin dmax : Q) :
  Inv s -> Forall (fun p => (0 <= snd p)%Z) pairs ->
  (bins s <> [] \/ pairs = [] \/ exists p, In p pairs /\ (0 < snd p)%Z) ->
  exists s', bulkload A s pairs dmin dmax = Some s' /\ Inv s' /\
    mass (bins s') = (mass (bins s) + mass pairs)%Z /\ cap s' = cap s /\
    (pairs <> [] -> exists m x,
       emin (hmin s) (filter (fun p => Z.ltb 0 (snd p)) pairs) = Some m /\
       emax (hmax s) (filter (fun p => Z.ltb 0 (snd p)) pairs) = Some x /\
       hmin s' = Some (pmin A m dmin) /\ hmax s' = Some (pmax A x dmax)).
Proof.
  intros HI Hnn Hsome. unfold bulkload. destruct pairs as [|p0 pr] eqn:Ep.
  - exists s. split; [reflexivity|]. split; [exact HI|]. split; [unfold mass; cbn; lia|]. split; [reflexivity|]. congruence.
  - rewrite <- Ep in *. set (pos := filter (fun p => Z.ltb 0 (snd p)) pairs).
    destruct (feed_any fadd fsub fmul fdiv fofZ ftrunc pos s HI (pos_filter pairs)) as (s1 & F & I1 & M1 & C1 & N1 & X1).
    assert (Hne1 : bins s1 <> []).
    { destruct Hsome as [H|[H|(p & Ip & Hp)]].
      - intros E. rewrite E in M1. pose proof (Inv_bins_pos s HI) as Pp.
        assert (0 < mass (bins s))%Z.
        { destruct (bins s) as [|b t]; [congruence|]. inversion Pp as [|? ? Hb Ht]; subst. unfold mass; cbn [fold_right].
          assert (0 <= fold_right (fun b a => snd b + a) 0 t)%Z.
          { clear - Ht. induction t as [|x t IH]; cbn; [lia|]. inversion Ht; subst. specialize (IH H2). lia. }
          lia. }
        assert (0 <= mass pos)%Z.
        { pose proof (pos_filter pairs) as Pf. fold pos in Pf. clear - Pf. induction pos as [|x t IH]; unfold mass; cbn; [lia|].
          inversion Pf; subst. specialize (IH H2). unfold mass in IH. lia. }
        unfold mass in M1 at 1. cbn in M1. lia.
      - rewrite Ep in H. discriminate.
      - assert (Ipos : In p pos) by (apply filter_In; split; [exact Ip|now apply Z.ltb_lt]).
        intros E. destruct I1 as (_ & _ & _ & _ & _ & Hb). unfold bounds_ok in Hb. rewrite E in Hb. destruct Hb as [Hb _].
        assert (Hpn : pos <> []) by (intros Z0; rewrite Z0 in Ipos; destruct Ipos).
        destruct (emin_spec pos (hmin s) (or_intror Hpn)) as (m & Em & _).
        congruence. }
    rewrite F. cbn [bind].
    destruct I1 as (Hs1 & Hp1 & Hl1 & Hc1 & Hk1 & Hb1).
    destruct (bounds_nonempty s1 Hne1 Hb1) as (m & x & E1 & E2 & Hw).
    rewrite E1, E2.
    eexists. split; [reflexivity|]. split.
    + apply (Inv_rebound s1 m x); auto.
      * unfold Inv; auto 10.
      * destruct (pmin_cases fadd fsub fmul fdiv fofZ ftrunc m dmin) as [[? ->]|[? ->]]; lra.
      * destruct (pmax_cases fadd fsub fmul fdiv fofZ ftrunc x dmax) as [[? ->]|[? ->]]; lra.
    + cbn [bins cap hmin hmax]. split; [rewrite M1; unfold pos; now rewrite mass_filter_pos|]. split; [exact C1|].
      intros _. exists m, x. fold pos. repeat split; congruence.
Qed.

(* load(bins, min, max) of what a valid histogram holds: a valid histogram with the same bins
   and bounds (dump/load preserves bins and bounds), room for every bin, a fresh gap cache *)
Theorem load_any (s : st) (dc : nat) :
  Inv s -> bins s <> [] -> (2 <= dc)%nat ->
  let s' := load A dc (bins s) (hmin s) (hmax s) in
  Inv s' /\ bins s' = bins s /\ hmin s' = hmin s /\ hmax s' = hmax s.
Proof.
  intros (Hs & Hp & Hl & Hc & Hk & Hb) Hne Hdc s'. unfold s', load.
  split; [|repeat split]. unfold Inv. cbn [bins cap hmin hmax].
  split; [exact Hs|]. split; [exact Hp|]. split; [lia|]. split; [lia|]. split.
  - unfold cache_ok. cbn [diffs bins min_diff]. split; [exact Hne|]. split; [apply (gaps_length fadd fsub fmul fdiv fofZ ftrunc)|].
    destruct (lmin A (gaps A (bins s))) as [m|] eqn:E.
    + cbn. now apply (lmin_InE fadd fsub fmul fdiv fofZ ftrunc).
    + cbn. destruct (gaps A (bins s)); [reflexivity|discriminate].
  - unfold bounds_ok in *. cbn [bins hmin hmax]. exact Hb.
Qed.

End Ops.

(* ---------- whole histories of updates on a fresh histogram ---------- *)
Section Hist.
Variables (fadd fsub fmul fdiv : Q -> Q -> Q) (fofZ : Z -> Q) (ftrunc : Q -> Z).
Notation A := (AA fadd fsub fmul fdiv fofZ ftrunc).

Theorem history_any (c : nat) (l : list bin) :
  (2 <= c)%nat -> pos_counts l ->
  exists s, feed A (empty c) l = Some s /\ Inv s /\ mass (bins s) = mass l /\ cap s = c /\
    (l <> [] -> exists mn mx,
        hmin s = Some mn /\ hmax s = Some mx /\
        (forall b, In b l -> mn <= fst b <= mx) /\
        (exists b, In b l /\ mn = fst b) /\ (exists b, In b l /\ mx = fst b) /\
        within mn mx (bins s)).
Proof.
  intros Hc Hp.
  destruct (feed_any fadd fsub fmul fdiv fofZ ftrunc l (empty c) (Inv_empty c Hc) Hp) as (s & F & I & M & C & N & X).
  exists s. split; [exact F|]. split; [exact I|]. split; [exact M|]. split; [exact C|].
  intros Hne.
  destruct (emin_spec fadd fsub fmul fdiv fofZ ftrunc l None (or_intror Hne)) as (mn & Emn & Lmn & _ & Wmn).
  destruct (emax_spec fadd fsub fmul fdiv fofZ ftrunc l None (or_intror Hne)) as (mx & Emx & Lmx & _ & Wmx).
  cbn [hmin hmax empty] in N, X.
  exists mn, mx. split; [congruence|]. split; [congruence|]. split; [|split; [|split]].
  - intros b Ib. split; [now apply Lmn|now apply Lmx].
  - destruct Wmn as [W|W]; [exact W|discriminate].
  - destruct Wmx as [W|W]; [exact W|discriminate].
  - destruct I as (_ & _ & _ & _ & _ & Hb).
    assert (Hbn : bins s <> []).
    { intros E. unfold bounds_ok in Hb. rewrite E in Hb. destruct Hb as [Hb _]. congruence. }
    destruct (bounds_nonempty s Hbn Hb) as (m1 & m2 & E1 & E2 & Hw).
    assert (m1 = mn) by congruence. assert (m2 = mx) by congruence. subst. exact Hw.
Qed.

End Hist.

(* the mean of the bins is the mean of what was inserted - exact arithmetic *)
Theorem history_mean (c : nat) (l : list bin) :
  (2 <= c)%nat -> pos_counts l ->
  exists s, feed QA (empty c) l = Some s /\ Inv s /\
            moment (bins s) == moment l /\ mass (bins s) = mass l.
Proof.
  intros Hc Hp.
  destruct (feed_moment l (empty c) (Inv_empty c Hc) Hp) as (s & F & I & Mo & Ma).
  exists s. split; [exact F|]. split; [exact I|]. split.
  - rewrite Mo. cbn [bins empty]. unfold moment at 1. cbn [fold_right]. ring.
  - rewrite Ma. cbn [bins empty]. unfold mass at 1. cbn [fold_right]. lia.
Qed.

(* what the invariant says, spelled out *)
Lemma Inv_meaning (s : @st Q) :
  Inv s ->
  StronglySorted (fun a b : bin => fst a < fst b) (bins s) /\
  (length (bins s) <= cap s)%nat /\
  Forall (fun b : bin => (1 <= snd b)%Z) (bins s) /\
  (bins s <> [] -> exists mn mx, hmin s = Some mn /\ hmax s = Some mx /\
                                 Forall (fun b : bin => mn <= fst b <= mx) (bins s)).
Proof.
  intros (Hs & Hp & Hl & _ & _ & Hb). split; [exact Hs|]. split; [exact Hl|]. split; [exact Hp|].
  intros Hne. exact (bounds_nonempty s Hne Hb).
Qed.
