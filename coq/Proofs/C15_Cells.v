(* C15 - cells as Python holds them (wall-clock reading + UTC offset; values with a form such as
   negative zero): every statistic of [profile_x] is the statistic of the VALUES of the cells, and
   the sketch counts values, whatever their forms. *)
From Coq Require Import List ZArith NArith Bool Lia.
From Orso Require Import Gen.C15_Profiler Model.C15 Proofs.C15 Proofs.C15_Text Proofs.C15_Inst.
Import ListNotations.
Open Scope Z_scope.

(* ---------- counting by an equality that only looks at f(x) ---------- *)
Section MapEq.
Variables (F A : Type) (f : F -> A) (eqb : A -> A -> bool).
Let eqbF (a b : F) : bool := eqb (f a) (f b).
Let g (p : F * Z) : A * Z := (f (fst p), snd p).

Lemma bump_map x l : map g (bump eqbF x l) = bump eqb (f x) (map g l).
Proof.
  induction l as [|[y n] l IH]; [reflexivity|].
  cbn [bump map]. unfold g at 2. cbn [fst snd]. unfold eqbF at 1.
  destruct (eqb (f x) (f y)); cbn [map]; unfold g at 1; cbn [fst snd]; [reflexivity|].
  f_equal. exact IH.
Qed.

Lemma counter_map_acc d : forall acc,
  map g (fold_left (fun a x => bump eqbF x a) d acc) = fold_left (fun a x => bump eqb x a) (map f d) (map g acc).
Proof.
  induction d as [|x d IH]; intro acc; [reflexivity|].
  cbn [fold_left map]. rewrite IH, bump_map. reflexivity.
Qed.

Lemma distinct_map d : map f (distinct eqbF d) = distinct eqb (map f d).
Proof.
  unfold distinct, counter. pose proof (counter_map_acc d []) as H. cbn [map] in H.
  rewrite <- H. rewrite !map_map. reflexivity.
Qed.

Lemma insert_desc_map (q : F * Z) l : map g (insert_desc q l) = insert_desc (g q) (map g l).
Proof.
  induction l as [|r l IH]; [reflexivity|].
  cbn [insert_desc map]. unfold g at 2 3. cbn [snd].
  destruct (snd q <? snd r); cbn [map]; [|reflexivity]. f_equal. exact IH.
Qed.

Lemma sort_desc_map l : map g (sort_desc l) = sort_desc (map g l).
Proof.
  induction l as [|q l IH]; [reflexivity|].
  cbn [sort_desc fold_right map]. fold (sort_desc l). fold (sort_desc (map g l)).
  rewrite insert_desc_map, IH. reflexivity.
Qed.

Lemma most_common_map n d : map g (most_common eqbF n d) = most_common eqb n (map f d).
Proof.
  unfold most_common, counter. rewrite <- firstn_map, sort_desc_map.
  pose proof (counter_map_acc d []) as H. cbn [map] in H. rewrite H. reflexivity.
Qed.

Lemma distinct_map_length d : length (distinct eqbF d) = length (distinct eqb (map f d)).
Proof. rewrite <- distinct_map. now rewrite map_length. Qed.
End MapEq.

Lemma nonnull_option_map {B C} (f : B -> C) (c : list (option B)) :
  nonnull (map (option_map f) c) = map f (nonnull c).
Proof.
  induction c as [|[x|] c IH]; [reflexivity| |]; cbn [map option_map nonnull flat_map app].
  - fold (nonnull (map (option_map f) c)). fold (nonnull c). now rewrite IH.
  - fold (nonnull (map (option_map f) c)). fold (nonnull c). exact IH.
Qed.

Lemma xkeys_values unit c : map (option_map fst) (xkeys unit c) = xvalues unit c.
Proof.
  unfold xkeys, xvalues. rewrite map_map. apply map_ext. intros [x|]; reflexivity.
Qed.

Lemma xkeys_nonnull_values unit c : map fst (nonnull (xkeys unit c)) = nonnull (xvalues unit c).
Proof.
  unfold xkeys, xvalues. rewrite !nonnull_option_map, map_map. apply map_ext. intro x. reflexivity.
Qed.

Section Cells.
Variable E : Type.
Variables scale unit : Z.
Variable hashF : Z * N -> N.
Variable np_hist : list Z -> list (E * Z).

Notation px := (profile_x scale unit hashF np_hist).
Notation pv := (fun wo c => profile_num scale (fun _ => 0%N) np_hist wo (xvalues unit c)).

(* everything but the sketch is the profile of the values; the listed frequent values are the
   frequent values, each tagged with the form of its first occurrence *)
Lemma profile_x_fields wo c :
  p_count (px wo c) = p_count (pv wo c) /\ p_missing (px wo c) = p_missing (pv wo c) /\
  p_minimum (px wo c) = p_minimum (pv wo c) /\ p_maximum (px wo c) = p_maximum (pv wo c) /\
  p_order (px wo c) = p_order (pv wo c) /\ p_transitions (px wo c) = p_transitions (pv wo c) /\
  map (fun e => (fst (fst e), snd e)) (p_mfv (px wo c)) = p_mfv (pv wo c) /\
  p_histogram (px wo c) = p_histogram (pv wo c).
Proof.
  unfold profile_x. cbn zeta. cbn [p_count p_missing p_minimum p_maximum p_order p_transitions p_mfv p_histogram].
  rewrite xkeys_values. repeat split; try reflexivity.
  pose proof (most_common_map (Z * N) Z fst Z.eqb MOST_FREQUENT_VALUE_SIZE (nonnull (xkeys unit c))) as H.
  cbn zeta in H. change (fun a b : Z * N => fst a =? fst b) with keqb in H.
  rewrite H, xkeys_nonnull_values. unfold profile_num, profile_ord, profile_core.
  destruct (nonnull (xvalues unit c)) as [|x xs]; reflexivity.
Qed.

Lemma profile_x_quad wo c : quad (px wo c) = quad (pv wo c).
Proof. unfold quad, profile_x. cbn zeta. cbn [p_count p_missing p_minimum p_maximum]. now rewrite xkeys_values. Qed.

(* the sketch holds one hash per VALUE: its size, hence the estimate below the sketch size, is the
   number of distinct values - forms (0.0 / -0.0, +05:30 / Z) do not count *)
Lemma profile_x_estimate wo c :
  let vals := nonnull (xvalues unit c) in
  (length (distinct Z.eqb vals) < KVM_SIZE)%nat ->
  estimate_cardinality (px wo c) = Some (zlen (distinct Z.eqb vals)).
Proof.
  cbn zeta. rewrite <- xkeys_nonnull_values. intro Hlt.
  unfold estimate_cardinality, profile_x. cbn zeta. cbn [p_kmv].
  pose proof (kmv_length (Z * N) keqb hashF KVM_SIZE (nonnull (xkeys unit c))) as Hlen.
  pose proof (distinct_map_length (Z * N) Z fst Z.eqb (nonnull (xkeys unit c))) as Hd.
  cbn zeta in Hd. change (fun a b : Z * N => fst a =? fst b) with keqb in Hd.
  rewrite Hd in Hlen. rewrite Nat.min_r in Hlen by lia.
  destruct (kmv_of keqb hashF KVM_SIZE (nonnull (xkeys unit c))) as [|h hs] eqn:Hk.
  - cbn [length] in Hlen. unfold zlen. now rewrite <- Hlen.
  - replace (Nat.ltb (length (h :: hs)) KVM_SIZE) with true by (symmetry; apply Nat.ltb_lt; lia).
    unfold zlen. now rewrite Hlen.
Qed.

Hypothesis scale_pos : 0 < scale.

(* extremes: the least / greatest VALUE of the cells (for instants: the earliest / latest UTC
   instant, whatever offsets the datetimes carry) *)
Lemma profile_x_minimum wo c :
  match p_minimum (px wo c) with
  | None => forall o, In o c -> o = None
  | Some z => exists m, In (Some m) c /\ (forall y, In (Some y) c -> xvalue unit m <= xvalue unit y) /\
                        z = Z.quot (xvalue unit m) scale
  end.
Proof.
  destruct (profile_x_fields wo c) as (_ & _ & -> & _).
  pose proof (num_minimum E scale (fun _ => 0%N) np_hist wo (xvalues unit c)) as H.
  destruct (p_minimum _) as [z|].
  - destruct H as (v & Hin & Hall & ->). unfold xvalues in Hin. apply in_map_iff in Hin.
    destruct Hin as ([m|] & Hm & Hin); [|discriminate]. cbn [option_map] in Hm. injection Hm as <-.
    exists m. split; [exact Hin|]. split; [|reflexivity].
    intros y Hy. apply Hall. unfold xvalues. apply in_map_iff. exists (Some y). split; [reflexivity|exact Hy].
  - intros o Ho. destruct o as [y|]; [|reflexivity].
    assert (Hy : In (Some (xvalue unit y)) (xvalues unit c)).
    { unfold xvalues. apply in_map_iff. exists (Some y). split; [reflexivity|exact Ho]. }
    specialize (H _ Hy). discriminate.
Qed.

Lemma profile_x_maximum wo c :
  match p_maximum (px wo c) with
  | None => forall o, In o c -> o = None
  | Some z => exists m, In (Some m) c /\ (forall y, In (Some y) c -> xvalue unit y <= xvalue unit m) /\
                        z = Z.quot (xvalue unit m) scale
  end.
Proof.
  destruct (profile_x_fields wo c) as (_ & _ & _ & -> & _).
  pose proof (num_maximum E scale (fun _ => 0%N) np_hist wo (xvalues unit c)) as H.
  destruct (p_maximum _) as [z|].
  - destruct H as (v & Hin & Hall & ->). unfold xvalues in Hin. apply in_map_iff in Hin.
    destruct Hin as ([m|] & Hm & Hin); [|discriminate]. cbn [option_map] in Hm. injection Hm as <-.
    exists m. split; [exact Hin|]. split; [|reflexivity].
    intros y Hy. apply Hall. unfold xvalues. apply in_map_iff. exists (Some y). split; [reflexivity|exact Hy].
  - intros o Ho. destruct o as [y|]; [|reflexivity].
    assert (Hy : In (Some (xvalue unit y)) (xvalues unit c)).
    { unfold xvalues. apply in_map_iff. exists (Some y). split; [reflexivity|exact Ho]. }
    specialize (H _ Hy). discriminate.
Qed.

(* additivity carries over: the four additive fields of a sum of cell profiles *)
Lemma profile_x_additive hist_merge wo c1 c2 :
  quad (add zn_eqb E hist_merge (px wo c1) (px wo c2)) = quad (px wo (c1 ++ c2)).
Proof.
  rewrite quad_add_spec, !profile_x_quad. unfold xvalues. rewrite map_app.
  rewrite <- (num_additive E scale (fun _ => 0%N) np_hist scale_pos hist_merge wo).
  now rewrite quad_add_spec.
Qed.
End Cells.

(* what the value of a cell is: the UTC instant (raw - shift) floored to a multiple of [unit] *)
Lemma xvalue_floor unit raw shift form : 0 < unit ->
  xvalue unit (raw, shift, form) * unit <= raw - shift < (xvalue unit (raw, shift, form) + 1) * unit.
Proof.
  intro Hu. cbn [xvalue]. pose proof (Z.div_mod (raw - shift) unit ltac:(lia)) as H1.
  pose proof (Z.mod_pos_bound (raw - shift) unit Hu) as H2. nia.
Qed.

Lemma xvalue_offset unit raw shift form : xvalue unit (raw, shift, form) = xvalue unit (raw - shift, 0, 0%N).
Proof. cbn [xvalue]. now rewrite Z.sub_0_r. Qed.
