(* C12 - generic facts: boolean equalities, first-occurrence dedup, insertion-ordered
   dictionaries, and the grouping lemma (a fold of "d[k] = u(d.get(k, b0))" updates is
   the map, over the distinct keys in first-seen order, of the fold of the updates
   that carry that key). *)
From Coq Require Import List Bool Lia Permutation.
From Orso Require Import Model.C12.
Import ListNotations.

Section ListEq.
Variables (A : Type) (eqb : A -> A -> bool).
Hypothesis eqb_spec : forall a b, eqb a b = true <-> a = b.

Lemma list_eqb_spec (a b : list A) : list_eqb eqb a b = true <-> a = b.
Proof.
  revert b; induction a as [|x r IH]; intros [|y s]; cbn [list_eqb]; split; intros H;
    try reflexivity; try discriminate.
  - apply andb_true_iff in H as [H1 H2]. apply eqb_spec in H1. apply IH in H2. now subst.
  - inversion H; subst. apply andb_true_iff; split; [now apply eqb_spec|now apply IH].
Qed.
End ListEq.

Section Eq.
Variables (A : Type) (eqb : A -> A -> bool).
Hypothesis eqb_spec : forall a b, eqb a b = true <-> a = b.

Lemma eqb_refl a : eqb a a = true.
Proof. now apply eqb_spec. Qed.
Lemma eqb_neq a b : a <> b -> eqb a b = false.
Proof. intros H. destruct (eqb a b) eqn:E; [|reflexivity]. apply eqb_spec in E. contradiction. Qed.
Lemma eqb_false a b : eqb a b = false -> a <> b.
Proof. intros H E. subst. rewrite eqb_refl in H. discriminate. Qed.
Lemma eqb_sym a b : eqb a b = eqb b a.
Proof.
  destruct (eqb a b) eqn:E.
  - apply eqb_spec in E. subst. symmetry. apply eqb_refl.
  - symmetry. apply eqb_neq. intros ->. rewrite eqb_refl in E. discriminate.
Qed.

Lemma memb_In x l : memb eqb x l = true <-> In x l.
Proof.
  induction l as [|y r IH]; cbn [memb In]; [split; [discriminate|tauto]|].
  rewrite orb_true_iff, IH, eqb_spec. split; intros [H|H]; auto.
Qed.
Lemma memb_notIn x l : memb eqb x l = false <-> ~ In x l.
Proof. rewrite <- memb_In. destruct (memb eqb x l); split; intros; congruence. Qed.

(* ---------- dedup ---------- *)
Lemma dedup_In x l : In x (dedup eqb l) <-> In x l.
Proof.
  induction l as [|y r IH]; cbn [dedup In]; [tauto|].
  rewrite filter_In, IH. split.
  - intros [H|[H _]]; auto.
  - intros [H|H]; auto. destruct (eqb y x) eqn:E.
    + left. now apply eqb_spec.
    + right. split; auto.
Qed.

Lemma NoDup_dedup l : NoDup (dedup eqb l).
Proof.
  induction l as [|y r IH]; cbn [dedup]; constructor.
  - rewrite filter_In. intros [_ H]. rewrite eqb_refl in H. discriminate.
  - now apply NoDup_filter.
Qed.

Lemma filter_id (p : A -> bool) l : (forall x, In x l -> p x = true) -> filter p l = l.
Proof.
  induction l as [|y r IH]; intros H; cbn [filter]; [reflexivity|].
  rewrite (H y (or_introl eq_refl)). f_equal. apply IH. intros x Hx. apply H. now right.
Qed.
Lemma filter_nil (p : A -> bool) l : (forall x, In x l -> p x = false) -> filter p l = [].
Proof.
  induction l as [|y r IH]; intros H; cbn [filter]; [reflexivity|].
  rewrite (H y (or_introl eq_refl)). apply IH. intros x Hx. apply H. now right.
Qed.
Lemma filter_comm (p q : A -> bool) l : filter p (filter q l) = filter q (filter p l).
Proof.
  induction l as [|y r IH]; cbn [filter]; [reflexivity|].
  destruct (q y) eqn:Q, (p y) eqn:P; cbn [filter]; rewrite ?Q, ?P, IH; reflexivity.
Qed.

Lemma filter_dedup (p : A -> bool) l : filter p (dedup eqb l) = dedup eqb (filter p l).
Proof.
  induction l as [|y r IH]; cbn [dedup filter]; [reflexivity|].
  destruct (p y) eqn:P; cbn [dedup].
  - f_equal. rewrite filter_comm, IH. reflexivity.
  - rewrite filter_comm, IH. apply filter_id. intros x Hx.
    apply dedup_In, filter_In in Hx as [_ Hx].
    destruct (eqb y x) eqn:E; [|reflexivity]. apply eqb_spec in E. subst. congruence.
Qed.

Lemma dedup_nodup_id l : NoDup l -> dedup eqb l = l.
Proof.
  induction 1 as [|y r Hy Hr IH]; cbn [dedup]; [reflexivity|].
  f_equal. rewrite IH. apply filter_id. intros x Hx.
  destruct (eqb y x) eqn:E; [|reflexivity]. apply eqb_spec in E. subst. contradiction.
Qed.

Lemma dedup_snoc l x :
  dedup eqb (l ++ [x]) = if memb eqb x l then dedup eqb l else dedup eqb l ++ [x].
Proof.
  induction l as [|y r IH]; cbn [dedup app memb filter]; [reflexivity|].
  rewrite IH. destruct (eqb x y) eqn:E; cbn [orb].
  - apply eqb_spec in E. subst y. destruct (memb eqb x r); [reflexivity|].
    rewrite filter_app. cbn [filter]. rewrite eqb_refl. cbn [negb]. now rewrite app_nil_r.
  - destruct (memb eqb x r); [reflexivity|].
    rewrite filter_app. cbn [filter]. rewrite eqb_sym, E. reflexivity.
Qed.

(* a NoDup list followed by elements it already has *)
Lemma dedup_app_incl l m : NoDup l -> incl m l -> dedup eqb (l ++ m) = l.
Proof.
  intros Hl; revert m; induction Hl as [|y r Hy Hr IH]; intros m Hm.
  - destruct m as [|z m]; [reflexivity|]. exfalso. apply (Hm z). now left.
  - cbn [app dedup]. f_equal. rewrite filter_dedup, filter_app.
    rewrite (filter_id _ r).
    + apply IH. intros z Hz. apply filter_In in Hz as [Hz Hne].
      destruct (Hm z Hz) as [->|H]; [|exact H]. rewrite eqb_refl in Hne. discriminate.
    + intros z Hz. destruct (eqb y z) eqn:E; [|reflexivity]. apply eqb_spec in E. subst. contradiction.
Qed.

(* ---------- dictionaries ---------- *)
Variable B : Type.

Lemma dget_dset k k' (v : B) d :
  dget eqb k (dset eqb k' v d) = if eqb k k' then Some v else dget eqb k d.
Proof.
  induction d as [|[k0 v0] r IH]; cbn [dset dget]; [reflexivity|].
  destruct (eqb k' k0) eqn:E0; cbn [dget].
  - apply eqb_spec in E0. subst k0. destruct (eqb k k'); reflexivity.
  - rewrite IH. destruct (eqb k k0) eqn:E1; [|reflexivity].
    apply eqb_spec in E1. subst k0. now rewrite eqb_sym, E0.
Qed.

Lemma map_fst_dset k (v : B) d :
  map fst (dset eqb k v d) = if memb eqb k (map fst d) then map fst d else map fst d ++ [k].
Proof.
  induction d as [|[k0 v0] r IH]; cbn [dset map fst memb app]; [reflexivity|].
  destruct (eqb k k0) eqn:E; cbn [orb map fst]; [reflexivity|].
  rewrite IH. destruct (memb eqb k (map fst r)); reflexivity.
Qed.

Lemma dget_keyed (F : A -> B) k D :
  dget eqb k (map (fun a => (a, F a)) D) = if memb eqb k D then Some (F k) else None.
Proof.
  induction D as [|a r IH]; cbn [map dget memb]; [reflexivity|].
  destruct (eqb k a) eqn:E; cbn [orb]; [|exact IH].
  apply eqb_spec in E. now subst.
Qed.

Lemma dset_keyed_notin (F : A -> B) k v D :
  ~ In k D -> dset eqb k v (map (fun a => (a, F a)) D) = map (fun a => (a, F a)) D ++ [(k, v)].
Proof.
  induction D as [|a r IH]; intros H; cbn [map dset app]; [reflexivity|].
  rewrite eqb_neq by (intros ->; apply H; now left).
  f_equal. apply IH. intros H'. apply H. now right.
Qed.

Lemma dset_keyed_in (F : A -> B) k v D :
  NoDup D -> In k D ->
  dset eqb k v (map (fun a => (a, F a)) D) = map (fun a => (a, if eqb a k then v else F a)) D.
Proof.
  induction 1 as [|a r Ha Hr IH]; intros Hk; [destruct Hk|].
  cbn [map dset]. destruct (eqb k a) eqn:E.
  - apply eqb_spec in E. subst a. rewrite eqb_refl. f_equal.
    apply map_ext_in. intros a Hin. rewrite eqb_neq; [reflexivity|]. intros ->. contradiction.
  - rewrite (eqb_sym a k), E. f_equal. apply IH. destruct Hk as [->|Hk]; [|exact Hk].
    rewrite eqb_refl in E. discriminate.
Qed.

(* dict_of: lookups in a dictionary built from pairs whose value is a function of the key *)
Lemma dget_fold_functional (F : A -> B) ps d k :
  (forall p, In p ps -> snd p = F (fst p)) ->
  (forall v, dget eqb k d = Some v -> v = F k) ->
  (In k (map fst ps) \/ dget eqb k d <> None) ->
  dget eqb k (fold_left (fun d p => dset eqb (fst p) (snd p) d) ps d) = Some (F k).
Proof.
  revert d; induction ps as [|[a b] r IH]; intros d Hps Hd Hin; cbn [fold_left].
  - destruct Hin as [[]|Hin]. destruct (dget eqb k d) as [v|] eqn:E; [|congruence].
    now rewrite (Hd v eq_refl).
  - apply IH.
    + intros p Hp. apply Hps. now right.
    + intros v. cbn [fst snd]. rewrite dget_dset. destruct (eqb k a) eqn:E.
      * intros [= <-]. apply eqb_spec in E. subst a. exact (Hps (k, b) (or_introl eq_refl)).
      * apply Hd.
    + cbn [fst snd]. rewrite dget_dset. destruct (eqb k a) eqn:E; [right; discriminate|].
      destruct Hin as [[H|H]|H]; auto. cbn in H. subst a. rewrite eqb_refl in E. discriminate.
Qed.

Lemma dget_dict_of_functional (F : A -> B) ps k :
  (forall p, In p ps -> snd p = F (fst p)) -> In k (map fst ps) ->
  dget eqb k (dict_of eqb ps) = Some (F k).
Proof.
  intros Hps Hin. unfold dict_of. apply dget_fold_functional; auto. cbn. discriminate.
Qed.

(* the key list of a dictionary depends only on the keys assigned *)
Lemma map_fst_fold_dset (ps qs : list (A * B)) d e :
  map fst ps = map fst qs -> map fst d = map fst e ->
  map fst (fold_left (fun d p => dset eqb (fst p) (snd p) d) ps d) =
  map fst (fold_left (fun d p => dset eqb (fst p) (snd p) d) qs e).
Proof.
  revert qs d e; induction ps as [|p r IH]; intros [|q s] d e H1 H2; try discriminate; cbn [fold_left]; [exact H2|].
  cbn [map] in H1. inversion H1 as [[Hf Hr]]. apply IH; [exact Hr|].
  rewrite !map_fst_dset, Hf, H2. reflexivity.
Qed.

End Eq.

(* ---------- the grouping lemma ---------- *)
Section Grouping.
Variables (X A B : Type) (eqb : A -> A -> bool).
Hypothesis eqb_spec : forall a b, eqb a b = true <-> a = b.
Variables (kf : X -> A) (b0 : B) (uf : B -> X -> B).

Definition gstep (d : list (A * B)) (x : X) : list (A * B) :=
  dset eqb (kf x) (uf (dgetd eqb b0 (kf x) d) x) d.

Definition gval (l : list X) (k : A) : B :=
  fold_left uf (filter (fun x => eqb (kf x) k) l) b0.

Lemma grouping l :
  fold_left gstep l [] = map (fun k => (k, gval l k)) (dedup eqb (map kf l)).
Proof.
  induction l as [|x l IH] using rev_ind; [reflexivity|].
  rewrite fold_left_app. cbn [fold_left]. rewrite IH. unfold gstep at 1.
  rewrite map_app. cbn [map]. rewrite (dedup_snoc A eqb eqb_spec).
  unfold dgetd. rewrite (dget_keyed A eqb eqb_spec).
  assert (Hg : forall k, gval (l ++ [x]) k = if eqb (kf x) k then uf (gval l k) x else gval l k).
  { intros k. unfold gval. rewrite filter_app. cbn [filter].
    destruct (eqb (kf x) k); [|now rewrite app_nil_r].
    rewrite fold_left_app. reflexivity. }
  destruct (memb eqb (kf x) (map kf l)) eqn:M.
  - assert (M' : memb eqb (kf x) (dedup eqb (map kf l)) = true).
    { apply (memb_In A eqb eqb_spec), (dedup_In A eqb eqb_spec), (memb_In A eqb eqb_spec), M. }
    rewrite M'. rewrite (dset_keyed_in A eqb eqb_spec).
    + apply map_ext. intros k. rewrite Hg, (eqb_sym A eqb eqb_spec k (kf x)).
      destruct (eqb (kf x) k) eqn:E; [|reflexivity]. apply eqb_spec in E. now subst k.
    + apply (NoDup_dedup A eqb eqb_spec).
    + apply (memb_In A eqb eqb_spec), M'.
  - assert (M' : memb eqb (kf x) (dedup eqb (map kf l)) = false).
    { apply (memb_notIn A eqb eqb_spec). intros H. apply (proj1 (dedup_In A eqb eqb_spec _ _)) in H.
      apply (proj2 (memb_In A eqb eqb_spec _ _)) in H. congruence. }
    rewrite M'. rewrite (dset_keyed_notin A eqb eqb_spec).
    + rewrite map_app. cbn [map]. f_equal.
      * apply map_ext_in. intros k Hk. rewrite Hg.
        destruct (eqb (kf x) k) eqn:E; [|reflexivity]. apply eqb_spec in E. subst k.
        apply (proj1 (dedup_In A eqb eqb_spec _ _)) in Hk.
        apply (proj2 (memb_In A eqb eqb_spec _ _)) in Hk. congruence.
      * rewrite Hg, (eqb_refl A eqb eqb_spec). f_equal. f_equal. unfold gval.
        rewrite filter_nil; [reflexivity|]. intros y Hy.
        destruct (eqb (kf y) (kf x)) eqn:E; [|reflexivity]. apply eqb_spec in E.
        apply (memb_notIn A eqb eqb_spec) in M. exfalso. apply M. rewrite <- E. now apply in_map.
    + apply (memb_notIn A eqb eqb_spec), M'.
Qed.
End Grouping.
