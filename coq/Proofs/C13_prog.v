(* C13 - whole programs over several histograms: every operation of a well-formed program
   completes (no Python exception is reachable) and leaves every histogram valid, for any
   arithmetic.  This is the "any sequence of weighted updates, additions of histograms,
   bulk loads and dump/load" quantifier of the property. *)
From Coq Require Import QArith Lqa ZArith List Bool Lia Sorted Arith.
From Orso Require Import Model.C13 Model.C13_Q Proofs.C13_lists Proofs.C13 Proofs.C13_hist.
Import ListNotations.
Open Scope Q_scope.

Section Prog.
Variables (fadd fsub fmul fdiv : Q -> Q -> Q) (fofZ : Z -> Q) (ftrunc : Q -> Z).
Notation A := (AA fadd fsub fmul fdiv fofZ ftrunc).
Notation st := (@st Q).
Notation env := (@env Q).

Lemma get_put_same (e : env) k (s : st) : get (put e k s) k = Some s.
Proof.
  unfold get. revert e; induction k as [|k IH]; intros [|h t]; cbn [put nth_error]; auto.
Qed.

Lemma nth_error_put_other (e : env) k j (s : st) :
  k <> j -> match nth_error (put e k s) j with Some (Some x) => Some x | _ => None end =
            match nth_error e j with Some (Some x) => Some x | _ => None end.
Proof.
  revert e j; induction k as [|k IH]; intros e j H.
  - destruct j as [|j]; [congruence|]. destruct e as [|h t]; cbn [put nth_error]; [now destruct j|reflexivity].
  - destruct j as [|j].
    + destruct e as [|h t]; cbn [put nth_error]; reflexivity.
    + destruct e as [|h t]; cbn [put nth_error].
      * rewrite (IH [] j ltac:(congruence)). now destruct j.
      * apply IH. congruence.
Qed.

Lemma get_put_other (e : env) k j (s : st) : k <> j -> get (put e k s) j = get e j.
Proof. intros H. unfold get. now apply nth_error_put_other. Qed.

Definition env_inv (e : env) : Prop := forall k s, get e k = Some s -> Inv s.

Lemma env_inv_put (e : env) k s : env_inv e -> Inv s -> env_inv (put e k s).
Proof.
  intros He Hs j s' Hj. destruct (Nat.eq_dec k j) as [->|Hne].
  - rewrite get_put_same in Hj. inversion Hj; subst. exact Hs.
  - rewrite get_put_other in Hj by exact Hne. now apply (He j).
Qed.

(* a histogram given directly (load of arbitrary valid bins) *)
Lemma load_raw_any (dc : nat) (b : list (Q * Z)) mn mx :
  sorted b -> pos_counts b -> b <> [] -> within mn mx b -> (2 <= dc)%nat ->
  Inv (load A dc b (Some mn) (Some mx)).
Proof.
  intros Hs Hp Hne Hw Hdc. unfold load, Inv. cbn [bins cap hmin hmax].
  split; [exact Hs|]. split; [exact Hp|]. split; [lia|]. split; [lia|]. split.
  - unfold cache_ok. cbn [diffs bins min_diff]. split; [exact Hne|]. split; [apply (gaps_length fadd fsub fmul fdiv fofZ ftrunc)|].
    destruct (lmin A (gaps A b)) as [m|] eqn:E.
    + cbn. now apply (lmin_InE fadd fsub fmul fdiv fofZ ftrunc).
    + cbn. destruct (gaps A b); [reflexivity|discriminate].
  - apply (bounds_intro _ mn mx); cbn [bins hmin hmax]; auto.
Qed.

(* what a well-formed operation is *)
Definition op_ok (e : env) (o : @op Q) : Prop :=
  match o with
  | ONew _ c => (2 <= c)%nat
  | OUpd k _ c => get e k <> None /\ (1 <= c)%Z
  | OMerge k j => get e k <> None /\ get e j <> None
  | OAdd k j => get e k <> None /\ exists s2, get e j = Some s2 /\ bins s2 <> []
  | OBulk k p _ _ => exists s, get e k = Some s /\ Forall (fun q => (0 <= snd q)%Z) p /\
                               (bins s <> [] \/ p = [] \/ exists q, In q p /\ (0 < snd q)%Z)
  | OLoad k dc => (exists s, get e k = Some s /\ bins s <> []) /\ (2 <= dc)%nat
  | OLoadB _ dc b (Some mn) (Some mx) => sorted b /\ pos_counts b /\ b <> [] /\ within mn mx b /\ (2 <= dc)%nat
  | OLoadB _ _ _ _ _ => False
  | OCountAt k _ | OQuantile k _ => get e k <> None
  end.

Definition is_state_op (o : @op Q) : bool :=
  match o with OCountAt _ _ | OQuantile _ _ => false | _ => true end.

Theorem exec_ok (e : env) (o : @op Q) :
  env_inv e -> op_ok e o ->
  env_inv (fst (exec A e o)) /\
  (is_state_op o = true -> exists s, snd (exec A e o) = BState s /\ Inv s).
Proof.
  intros He Ho. destruct o as [k c|k v c|k j|k j|k p mn mx|k dc|k dc b mn mx|k x|k q]; cbn [op_ok is_state_op] in *.
  - (* new *)
    cbn [exec]. pose proof (Inv_empty c Ho) as Hi. split; [now apply env_inv_put|]. intros _. cbn [snd]. eexists. split; [reflexivity|assumption].
  - (* update *)
    destruct Ho as [Hk Hc]. destruct (get e k) as [s|] eqn:Ek; [|congruence].
    destruct (update_any fadd fsub fmul fdiv fofZ ftrunc s v c (He k s Ek) Hc) as (s' & U & I' & _).
    cbn [exec]. rewrite Ek. cbn [bind]. rewrite U. cbn [fst snd]. split; [now apply env_inv_put|]. intros _. cbn [snd]. eexists. split; [reflexivity|assumption].
  - (* merge *)
    destruct Ho as [Hk Hj]. destruct (get e k) as [s1|] eqn:Ek; [|congruence]. destruct (get e j) as [s2|] eqn:Ej; [|congruence].
    destruct (merge_any fadd fsub fmul fdiv fofZ ftrunc s1 s2 (He k s1 Ek) (He j s2 Ej)) as (s' & M & I' & _).
    cbn [exec]. rewrite Ek, Ej. cbn [bind]. rewrite M. cbn [fst snd]. split; [now apply env_inv_put|]. intros _. cbn [snd]. eexists. split; [reflexivity|assumption].
  - (* add *)
    destruct Ho as [Hk (s2 & Ej & Hne)]. destruct (get e k) as [s1|] eqn:Ek; [|congruence].
    destruct (hadd_any fadd fsub fmul fdiv fofZ ftrunc s1 s2 (He k s1 Ek) (He j s2 Ej) Hne) as (s' & ? & ? & ? & ? & M & I' & _).
    cbn [exec]. rewrite Ek, Ej. cbn [bind]. rewrite M. cbn [fst snd]. split; [now apply env_inv_put|]. intros _. cbn [snd]. eexists. split; [reflexivity|assumption].
  - (* bulk load *)
    destruct Ho as (s & Ek & Hnn & Hsome).
    destruct (bulkload_any fadd fsub fmul fdiv fofZ ftrunc s p mn mx (He k s Ek) Hnn Hsome) as (s' & B & I' & _).
    cbn [exec]. rewrite Ek. cbn [bind]. rewrite B. cbn [fst snd]. split; [now apply env_inv_put|]. intros _. cbn [snd]. eexists. split; [reflexivity|assumption].
  - (* dump / load *)
    destruct Ho as [(s & Ek & Hne) Hdc].
    destruct (load_any fadd fsub fmul fdiv fofZ ftrunc s dc (He k s Ek) Hne Hdc) as (I' & _).
    cbn [exec]. rewrite Ek. cbn [bind]. destruct (bins s) eqn:Eb; [congruence|]. rewrite <- Eb in *. cbn [fst snd].
    split; [now apply env_inv_put|]. intros _. cbn [snd]. eexists. split; [reflexivity|assumption].
  - (* load of given bins *)
    destruct mn as [mn|]; [|contradiction]. destruct mx as [mx|]; [|contradiction].
    destruct Ho as (Hs & Hp & Hne & Hw & Hdc). pose proof (load_raw_any dc b mn mx Hs Hp Hne Hw Hdc) as I'.
    cbn [exec fst snd]. split; [now apply env_inv_put|]. intros _. cbn [snd]. eexists. split; [reflexivity|assumption].
  - cbn [exec fst]. split; [exact He|discriminate].
  - cbn [exec fst]. split; [exact He|discriminate].
Qed.

Fixpoint prog_ok (e : env) (p : list (@op Q)) : Prop :=
  match p with
  | [] => True
  | o :: r => op_ok e o /\ prog_ok (fst (exec A e o)) r
  end.

Definition obs_ok (x : @obs Q) : Prop :=
  match x with BState s => Inv s | BAns _ => True | BRaise => False end.

Theorem run_prog_ok (p : list (@op Q)) : forall (e : env),
  env_inv e -> prog_ok e p -> Forall obs_ok (run_prog A e p).
Proof.
  induction p as [|o r IH]; intros e He Hp; cbn [run_prog]; [constructor|].
  destruct Hp as [Ho Hr]. destruct (exec_ok e o He Ho) as [He' Hs].
  destruct (exec A e o) as [e' x] eqn:E. cbn [fst snd] in *.
  specialize (IH e' He' Hr). constructor; [|exact IH].
  destruct (is_state_op o) eqn:Es.
  - destruct (Hs eq_refl) as (s & -> & Hi). exact Hi.
  - destruct o; try discriminate; cbn [exec op_ok] in E, Ho; inversion E; subst;
      (destruct (get e' k); [exact I|congruence]).
Qed.
End Prog.
