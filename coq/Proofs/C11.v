(* C11 - lemmas about the Arrow interchange model. *)
From Coq Require Import List NArith ZArith Bool Lia Arith ZifyBool.
From Orso Require Import Gen.C11_ArrowMap Model.C11.
Import ListNotations.

(* ====================================================================================== *)
(* (a) the rows iterator                                                                    *)
(* ====================================================================================== *)
Section StreamProofs.
Variables (R T : Type).
Variable process_table : T -> N -> list R.
Variable rows_of : T -> list R.                 (* the rows an Arrow table holds *)
Hypothesis process_ok : forall t b, (1 <= b)%N -> process_table t b = rows_of t.

Notation iter := (@iter R T).

(* rows not yet delivered, ignoring the cap *)
Definition pending (s : iter) : list R := cur s ++ concat (map rows_of (tabs s)).

(* rows the iterator will still deliver *)
Definition ahead (s : iter) : list R :=
  match cap s with
  | Some c => firstn (N.to_nat c - done s) (pending s)
  | None => pending s
  end.

Lemma fetch_spec ts b : (1 <= b)%N ->
  match fetch process_table ts b with
  | None => concat (map rows_of ts) = []
  | Some (r, rs, rest) => concat (map rows_of ts) = r :: rs ++ concat (map rows_of rest)
  end.
Proof.
  intros Hb. induction ts as [|t ts IH]; cbn [fetch map concat]; [reflexivity|].
  rewrite (process_ok t b Hb). destruct (rows_of t) as [|r rs] eqn:E.
  - cbn [app]. exact IH.
  - reflexivity.
Qed.

(* one call of next() without the cap: delivers the head of [pending] *)
Lemma next_uncapped s : (1 <= bsz s)%N -> capped s = false ->
  match pending s with
  | [] => fst (next process_table s) = None /\ pending (snd (next process_table s)) = [] /\
          done (snd (next process_table s)) = done s
  | r :: rest => fst (next process_table s) = Some r /\ pending (snd (next process_table s)) = rest /\
                 done (snd (next process_table s)) = S (done s)
  end /\ bsz (snd (next process_table s)) = bsz s /\ cap (snd (next process_table s)) = cap s.
Proof.
  intros Hb Hc. unfold next. rewrite Hc. unfold pending.
  destruct (cur s) as [|r rs] eqn:Ecur.
  - pose proof (fetch_spec (tabs s) (bsz s) Hb) as F.
    destruct (fetch process_table (tabs s) (bsz s)) as [[[r rs] rest]|] eqn:Ef; cbn [app].
    + rewrite F. cbn [fst snd tabs cur done bsz cap]. repeat split; reflexivity.
    + rewrite F. cbn [fst snd tabs cur done bsz cap map concat app]. repeat split; reflexivity.
  - cbn [app fst snd tabs cur done bsz cap]. repeat split; reflexivity.
Qed.

Lemma next_spec s : (1 <= bsz s)%N ->
  match ahead s with
  | [] => fst (next process_table s) = None /\ ahead (snd (next process_table s)) = []
  | r :: rest => fst (next process_table s) = Some r /\ ahead (snd (next process_table s)) = rest
  end /\ bsz (snd (next process_table s)) = bsz s.
Proof.
  intros Hb. destruct (capped s) eqn:Hc.
  - (* the cap is reached: StopIteration, state unchanged *)
    assert (E : ahead s = []).
    { unfold ahead. unfold capped in Hc. destruct (cap s) as [c|]; [|discriminate].
      replace (N.to_nat c - done s) with 0 by lia. reflexivity. }
    unfold next. rewrite Hc, E. cbn [fst snd]. rewrite E. repeat split; reflexivity.
  - pose proof (next_uncapped s Hb Hc) as [H [Hbs Hcap]].
    split; [|exact Hbs].
    unfold ahead. rewrite Hcap. unfold capped in Hc.
    destruct (cap s) as [c|] eqn:Ec.
    + assert (Hlt : done s < N.to_nat c) by lia.
      destruct (pending s) as [|r rest] eqn:Ep.
      * destruct H as [H1 [H2 H3]]. rewrite H2. rewrite !firstn_nil. split; [exact H1|reflexivity].
      * destruct H as [H1 [H2 H3]]. rewrite H2, H3.
        replace (N.to_nat c - done s) with (S (N.to_nat c - S (done s))) by lia.
        cbn [firstn]. split; [exact H1|reflexivity].
    + destruct (pending s) as [|r rest] eqn:Ep.
      * destruct H as [H1 [H2 H3]]. rewrite H2. split; [exact H1|reflexivity].
      * destruct H as [H1 [H2 H3]]. rewrite H2. split; [exact H1|reflexivity].
Qed.

(* k calls of next(): the rows still ahead, then StopIteration for ever *)
Lemma nexts_spec k : forall s, (1 <= bsz s)%N ->
  nexts process_table k s = map Some (firstn k (ahead s)) ++ repeat None (k - length (ahead s)).
Proof.
  induction k as [|k IH]; intros s Hb; [reflexivity|].
  cbn [nexts]. pose proof (next_spec s Hb) as [H Hbs].
  destruct (next process_table s) as [o s'] eqn:En. cbn [fst snd] in H, Hbs.
  assert (Hb' : (1 <= bsz s')%N) by (rewrite Hbs; exact Hb).
  rewrite (IH s' Hb').
  destruct (ahead s) as [|r rest] eqn:Ea.
  - destruct H as [H1 H2]. rewrite H1, H2. rewrite !firstn_nil. cbn [map app length].
    rewrite !Nat.sub_0_r. reflexivity.
  - destruct H as [H1 H2]. rewrite H1, H2. cbn [firstn map app length Nat.sub]. reflexivity.
Qed.

Lemma drain_spec fuel : forall s, (1 <= bsz s)%N -> drain process_table fuel s = firstn fuel (ahead s).
Proof.
  induction fuel as [|f IH]; intros s Hb; [reflexivity|].
  cbn [drain]. pose proof (next_spec s Hb) as [H Hbs].
  destruct (next process_table s) as [o s'] eqn:En. cbn [fst snd] in H, Hbs.
  destruct (ahead s) as [|r rest] eqn:Ea.
  - destruct H as [H1 _]. rewrite H1. reflexivity.
  - destruct H as [H1 H2]. rewrite H1. cbn [firstn]. rewrite IH by (rewrite Hbs; exact Hb). rewrite H2. reflexivity.
Qed.

Lemma batch_pos : (1 <= c11_batch_size)%N.
Proof. vm_compute. discriminate. Qed.

Lemma from_arrow_iter_bsz tables size : (1 <= bsz (@from_arrow_iter R T tables size))%N.
Proof.
  pose proof batch_pos as B. unfold from_arrow_iter. destruct size as [n|]; [|exact B].
  destruct (n =? 0)%N eqn:E; cbn [bsz]; [exact B|]. apply N.eqb_neq in E. lia.
Qed.

Lemma from_arrow_iter_ahead tables size :
  ahead (from_arrow_iter tables size) = limit size (concat (map rows_of tables)).
Proof.
  unfold from_arrow_iter, limit. destruct size as [n|]; [|reflexivity].
  destruct (n =? 0)%N; [reflexivity|].
  unfold ahead, pending. cbn [cap done cur tabs app]. rewrite Nat.sub_0_r. reflexivity.
Qed.

Lemma from_arrow_nexts tables size k :
  nexts process_table k (from_arrow_iter tables size) =
  map Some (firstn k (limit size (concat (map rows_of tables)))) ++
  repeat None (k - length (limit size (concat (map rows_of tables)))).
Proof.
  rewrite nexts_spec by apply from_arrow_iter_bsz. rewrite from_arrow_iter_ahead. reflexivity.
Qed.

Lemma from_arrow_drain tables size fuel :
  drain process_table fuel (from_arrow_iter tables size) = firstn fuel (limit size (concat (map rows_of tables))).
Proof.
  rewrite drain_spec by apply from_arrow_iter_bsz. rewrite from_arrow_iter_ahead. reflexivity.
Qed.

(* zero-row tables are invisible *)
Lemma concat_skip_empty (ts : list T) :
  concat (map rows_of ts) =
  concat (map rows_of (filter (fun t => match rows_of t with [] => false | _ => true end) ts)).
Proof.
  induction ts as [|t ts IH]; [reflexivity|]. cbn [map concat filter].
  destruct (rows_of t) as [|r rs] eqn:E.
  - cbn [app]. exact IH.
  - cbn [map concat]. rewrite E, IH. reflexivity.
Qed.

End StreamProofs.

Arguments limit_length_helper : clear implicits.
