(* C11 - lemmas about the Arrow interchange model. *)
From Coq Require Import List NArith ZArith Bool Lia Arith ZifyBool.
From Orso Require Import Gen.C11_ArrowMap Model.C11.
Import ListNotations.

(* ====================================================================================== *)
(* (a) the rows iterator                                                                    *)
(* ====================================================================================== *)
Section StreamProofs.
Variables (R T : Type).
Variable process_table : T -> N -> list R.
Variable rows_of : T -> list R.                 (* the rows an Arrow table holds *)
Hypothesis process_ok : forall t b, (1 <= b)%N -> process_table t b = rows_of t.

Notation iter := (@iter R T).

(* rows not yet delivered, ignoring the cap *)
Definition pending (s : iter) : list R := cur s ++ concat (map rows_of (tabs s)).

(* rows the iterator will still deliver *)
Definition ahead (s : iter) : list R :=
  match cap s with
  | Some c => firstn (N.to_nat c - done s) (pending s)
  | None => pending s
  end.

Lemma fetch_spec ts b : (1 <= b)%N ->
  match fetch process_table ts b with
  | None => concat (map rows_of ts) = []
  | Some (r, rs, rest) => concat (map rows_of ts) = r :: rs ++ concat (map rows_of rest)
  end.
Proof.
  intros Hb. induction ts as [|t ts IH]; cbn [fetch map concat]; [reflexivity|].
  rewrite (process_ok t b Hb). destruct (rows_of t) as [|r rs] eqn:E.
  - cbn [app]. exact IH.
  - reflexivity.
Qed.

(* one call of next() without the cap: delivers the head of [pending] *)
Lemma next_uncapped s : (1 <= bsz s)%N -> capped s = false ->
  match pending s with
  | [] => fst (next process_table s) = None /\ pending (snd (next process_table s)) = [] /\
          done (snd (next process_table s)) = done s
  | r :: rest => fst (next process_table s) = Some r /\ pending (snd (next process_table s)) = rest /\
                 done (snd (next process_table s)) = S (done s)
  end /\ bsz (snd (next process_table s)) = bsz s /\ cap (snd (next process_table s)) = cap s.
Proof.
  intros Hb Hc. unfold next. rewrite Hc. unfold pending.
  destruct (cur s) as [|r rs] eqn:Ecur.
  - pose proof (fetch_spec (tabs s) (bsz s) Hb) as F.
    destruct (fetch process_table (tabs s) (bsz s)) as [[[r rs] rest]|] eqn:Ef; cbn [app].
    + rewrite F. cbn [fst snd tabs cur done bsz cap]. repeat split; reflexivity.
    + rewrite F. cbn [fst snd tabs cur done bsz cap map concat app]. repeat split; reflexivity.
  - cbn [app fst snd tabs cur done bsz cap]. repeat split; reflexivity.
Qed.

Lemma next_spec s : (1 <= bsz s)%N ->
  match ahead s with
  | [] => fst (next process_table s) = None /\ ahead (snd (next process_table s)) = []
  | r :: rest => fst (next process_table s) = Some r /\ ahead (snd (next process_table s)) = rest
  end /\ bsz (snd (next process_table s)) = bsz s.
Proof.
  intros Hb. destruct (capped s) eqn:Hc.
  - (* the cap is reached: StopIteration, state unchanged *)
    assert (E : ahead s = []).
    { unfold ahead. unfold capped in Hc. destruct (cap s) as [c|]; [|discriminate].
      replace (N.to_nat c - done s) with 0 by lia. reflexivity. }
    unfold next. rewrite Hc, E. cbn [fst snd]. rewrite E. repeat split; reflexivity.
  - pose proof (next_uncapped s Hb Hc) as [H [Hbs Hcap]].
    split; [|exact Hbs].
    unfold ahead. rewrite Hcap. unfold capped in Hc.
    destruct (cap s) as [c|] eqn:Ec.
    + assert (Hlt : done s < N.to_nat c) by lia.
      destruct (pending s) as [|r rest] eqn:Ep.
      * destruct H as [H1 [H2 H3]]. rewrite H2. rewrite !firstn_nil. split; [exact H1|reflexivity].
      * destruct H as [H1 [H2 H3]]. rewrite H2, H3.
        replace (N.to_nat c - done s) with (S (N.to_nat c - S (done s))) by lia.
        cbn [firstn]. split; [exact H1|reflexivity].
    + destruct (pending s) as [|r rest] eqn:Ep.
      * destruct H as [H1 [H2 H3]]. rewrite H2. split; [exact H1|reflexivity].
      * destruct H as [H1 [H2 H3]]. rewrite H2. split; [exact H1|reflexivity].
Qed.

(* k calls of next(): the rows still ahead, then StopIteration for ever *)
Lemma nexts_spec k : forall s, (1 <= bsz s)%N ->
  nexts process_table k s = map Some (firstn k (ahead s)) ++ repeat None (k - length (ahead s)).
Proof.
  induction k as [|k IH]; intros s Hb; [reflexivity|].
  cbn [nexts]. pose proof (next_spec s Hb) as [H Hbs].
  destruct (next process_table s) as [o s'] eqn:En. cbn [fst snd] in H, Hbs.
  assert (Hb' : (1 <= bsz s')%N) by (rewrite Hbs; exact Hb).
  rewrite (IH s' Hb').
  destruct (ahead s) as [|r rest] eqn:Ea.
  - destruct H as [H1 H2]. rewrite H1, H2. rewrite !firstn_nil. cbn [map app length].
    rewrite !Nat.sub_0_r. reflexivity.
  - destruct H as [H1 H2]. rewrite H1, H2. cbn [firstn map app length Nat.sub]. reflexivity.
Qed.

Lemma drain_spec fuel : forall s, (1 <= bsz s)%N -> drain process_table fuel s = firstn fuel (ahead s).
Proof.
  induction fuel as [|f IH]; intros s Hb; [reflexivity|].
  cbn [drain]. pose proof (next_spec s Hb) as [H Hbs].
  destruct (next process_table s) as [o s'] eqn:En. cbn [fst snd] in H, Hbs.
  destruct (ahead s) as [|r rest] eqn:Ea.
  - destruct H as [H1 _]. rewrite H1. reflexivity.
  - destruct H as [H1 H2]. rewrite H1. cbn [firstn]. rewrite IH by (rewrite Hbs; exact Hb). rewrite H2. reflexivity.
Qed.

Lemma batch_pos : (1 <= c11_batch_size)%N.
Proof. vm_compute. discriminate. Qed.

Lemma from_arrow_iter_bsz tables size : (1 <= bsz (@from_arrow_iter R T tables size))%N.
Proof.
  pose proof batch_pos as B. unfold from_arrow_iter. destruct size as [n|]; [|exact B].
  destruct (n =? 0)%N eqn:E; cbn [bsz]; [exact B|]. apply N.eqb_neq in E. lia.
Qed.

Lemma from_arrow_iter_ahead tables size :
  ahead (from_arrow_iter tables size) = limit size (concat (map rows_of tables)).
Proof.
  unfold from_arrow_iter, limit. destruct size as [n|]; [|reflexivity].
  destruct (n =? 0)%N; [reflexivity|].
  unfold ahead, pending. cbn [cap done cur tabs app]. rewrite Nat.sub_0_r. reflexivity.
Qed.

Lemma from_arrow_nexts tables size k :
  nexts process_table k (from_arrow_iter tables size) =
  map Some (firstn k (limit size (concat (map rows_of tables)))) ++
  repeat None (k - length (limit size (concat (map rows_of tables)))).
Proof.
  rewrite nexts_spec by apply from_arrow_iter_bsz. rewrite from_arrow_iter_ahead. reflexivity.
Qed.

Lemma from_arrow_drain tables size fuel :
  drain process_table fuel (from_arrow_iter tables size) = firstn fuel (limit size (concat (map rows_of tables))).
Proof.
  rewrite drain_spec by apply from_arrow_iter_bsz. rewrite from_arrow_iter_ahead. reflexivity.
Qed.

(* ---------- the iterator consumed in several steps ---------- *)
Lemma take_n_spec k : forall s, (1 <= bsz s)%N ->
  fst (take_n process_table k s) = firstn k (ahead s) /\
  ahead (snd (take_n process_table k s)) = skipn k (ahead s) /\
  bsz (snd (take_n process_table k s)) = bsz s.
Proof.
  induction k as [|k IH]; intros s Hb; [cbn [take_n fst snd firstn skipn]; repeat split; reflexivity|].
  cbn [take_n]. pose proof (next_spec s Hb) as [H Hbs].
  destruct (next process_table s) as [o s'] eqn:En. cbn [fst snd] in H, Hbs.
  destruct (ahead s) as [|r rest] eqn:Ea.
  - destruct H as [H1 H2]. rewrite H1. cbn [fst snd firstn skipn]. rewrite H2. repeat split; try reflexivity; exact Hbs.
  - destruct H as [H1 H2]. rewrite H1.
    assert (Hb' : (1 <= bsz s')%N) by (rewrite Hbs; exact Hb).
    destruct (IH s' Hb') as [I1 [I2 I3]]. destruct (take_n process_table k s') as [l s''].
    cbn [fst snd] in *. cbn [firstn skipn]. rewrite I1, I2, I3, H2, Hbs. repeat split; reflexivity.
Qed.

Lemma ahead_length s : (1 <= bsz s)%N -> length (ahead s) <= ifuel process_table s.
Proof.
  intros Hb. unfold ifuel.
  assert (Hm : map (fun t => process_table t (bsz s)) (tabs s) = map rows_of (tabs s))
    by (apply map_ext; intros t; apply process_ok; exact Hb).
  rewrite Hm.
  assert (Hp : length (pending s) = length (cur s) + length (concat (map rows_of (tabs s))))
    by (unfold pending; apply app_length).
  unfold ahead. destruct (cap s); [rewrite firstn_length|]; lia.
Qed.

Lemma istep_spec s op : (1 <= bsz s)%N ->
  fst (istep process_table s op) = fst (ispec_step (ahead s) op) /\
  ahead (snd (istep process_table s op)) = snd (ispec_step (ahead s) op) /\
  bsz (snd (istep process_table s op)) = bsz s.
Proof.
  intros Hb. destruct op; cbn [istep ispec_step fst snd].
  - apply take_n_spec; exact Hb.
  - apply take_n_spec; exact Hb.
  - destruct (take_n_spec (ifuel process_table s) s Hb) as [H1 [H2 H3]].
    pose proof (ahead_length s Hb) as Hl.
    rewrite H1, H2, H3. rewrite firstn_all2 by exact Hl. rewrite skipn_all2 by exact Hl. repeat split; reflexivity.
Qed.

Lemma irun_spec ops : forall s, (1 <= bsz s)%N -> irun process_table s ops = ispec (ahead s) ops.
Proof.
  induction ops as [|op ops IH]; intros s Hb; [reflexivity|].
  cbn [irun ispec]. destruct (istep_spec s op Hb) as [H1 [H2 H3]].
  destruct (istep process_table s op) as [l s']. destruct (ispec_step (ahead s) op) as [l' rest'].
  cbn [fst snd] in H1, H2, H3. subst l'. rewrite IH by (rewrite H3; exact Hb). rewrite H2. reflexivity.
Qed.

Lemma from_arrow_irun tables size ops :
  irun process_table (from_arrow_iter tables size) ops = ispec (limit size (concat (map rows_of tables))) ops.
Proof. rewrite irun_spec by apply from_arrow_iter_bsz. rewrite from_arrow_iter_ahead. reflexivity. Qed.

(* zero-row tables are invisible *)
Lemma concat_skip_empty (ts : list T) :
  concat (map rows_of ts) =
  concat (map rows_of (filter (fun t => match rows_of t with [] => false | _ => true end) ts)).
Proof.
  induction ts as [|t ts IH]; [reflexivity|]. cbn [map concat filter].
  destruct (rows_of t) as [|r rs] eqn:E.
  - cbn [app]. exact IH.
  - cbn [map concat]. rewrite E, IH. reflexivity.
Qed.

End StreamProofs.


(* ====================================================================================== *)
(* to_arrow: transposition                                                                  *)
(* ====================================================================================== *)
Section TransposeProofs.
Variable C : Type.

Lemma zip_cons_length (r : list C) : forall cols, length (zip_cons r cols) = Nat.min (length r) (length cols).
Proof.
  induction r as [|x r IH]; intros [|c cs]; cbn [zip_cons length Nat.min]; try reflexivity.
  rewrite IH. reflexivity.
Qed.

Lemma zip_cons_col_length n (r : list C) : forall X,
  Forall (fun c => length c = n) X -> Forall (fun c => length c = S n) (zip_cons r X).
Proof.
  induction r as [|x r IH]; intros [|c cs] H; cbn [zip_cons]; try constructor.
  - inversion H; subst. cbn [length]. reflexivity.
  - inversion H; subst. apply IH. assumption.
Qed.

Lemma fold_zip_nil (l : list (list C)) : fold_right zip_cons [] l = [].
Proof.
  induction l as [|c l IH]; [reflexivity|]. cbn [fold_right]. rewrite IH. destruct c; reflexivity.
Qed.

Lemma zip_from_length w (rows : list (list C)) :
  Forall (fun r => length r = w) rows -> length (zip_from w rows) = w.
Proof.
  unfold zip_from. induction rows as [|r rs IH]; intros H; cbn [fold_right].
  - apply repeat_length.
  - inversion H; subst. rewrite zip_cons_length, IH by assumption. apply Nat.min_id.
Qed.

Lemma zip_from_col_length w (rows : list (list C)) :
  Forall (fun c => length c = length rows) (zip_from w rows).
Proof.
  unfold zip_from. induction rows as [|r rs IH]; cbn [fold_right length].
  - induction w as [|w IHw]; cbn [repeat]; constructor; [reflexivity|exact IHw].
  - apply zip_cons_col_length. exact IH.
Qed.

(* reading one more row across columns that each got one more cell *)
Lemma zip_from_step m : forall (r : list C) (X : list (list C)), length r = length X ->
  zip_from (S m) (zip_cons r X) = r :: zip_from m X.
Proof.
  unfold zip_from. induction r as [|x r IH]; intros [|c X] H; cbn [length] in H; try discriminate.
  - reflexivity.
  - cbn [zip_cons fold_right]. rewrite IH by lia. reflexivity.
Qed.

Lemma zip_from_involutive w (rows : list (list C)) :
  Forall (fun r => length r = w) rows -> zip_from (length rows) (zip_from w rows) = rows.
Proof.
  induction rows as [|r rs IH]; intros H.
  - cbn [length]. unfold zip_from at 1. apply fold_zip_nil.
  - inversion H as [|? ? Hr Hrs]; subst. cbn [length].
    change (zip_from (length r) (r :: rs)) with (zip_cons r (zip_from (length r) rs)).
    rewrite zip_from_step by (rewrite zip_from_length by assumption; reflexivity).
    rewrite IH by assumption. reflexivity.
Qed.

(* zip( *zip( *rows)) = rows for rectangular rows with at least one column *)
Lemma zip_star_involutive (rows : list (list C)) w :
  1 <= w -> rows <> [] -> Forall (fun r => length r = w) rows -> zip_star (zip_star rows) = rows.
Proof.
  intros Hw Hne H. destruct rows as [|r rs]; [congruence|].
  assert (Hr : length r = w) by (inversion H; assumption).
  unfold zip_star at 2. rewrite Hr.
  pose proof (zip_from_length w (r :: rs) H) as HL.
  pose proof (zip_from_col_length w (r :: rs)) as HC.
  destruct (zip_from w (r :: rs)) as [|c cs] eqn:E; [cbn [length] in HL; lia|].
  unfold zip_star. inversion HC as [|? ? Hc _]; subst. rewrite Hc, <- E.
  apply zip_from_involutive. exact H.
Qed.

Lemma zip_star_repeat_nil n : zip_star (repeat (@nil C) n) = [].
Proof.
  destruct n as [|n]; [reflexivity|]. cbn [repeat zip_star length]. unfold zip_from. apply fold_zip_nil.
Qed.

Lemma Forall_firstn {A} (P : A -> Prop) n (l : list A) : Forall P l -> Forall P (firstn n l).
Proof.
  revert l; induction n as [|n IH]; intros [|x l] H; cbn [firstn]; try constructor.
  - inversion H; assumption.
  - apply IH. inversion H; assumption.
Qed.

Lemma head_Forall (P : list C -> Prop) size (rows : list (list C)) : Forall P rows -> Forall P (head size rows).
Proof.
  intros H. unfold head. destruct size as [z|]; [|exact H]. destruct (0 <=? z)%Z; [|exact H].
  apply Forall_firstn. exact H.
Qed.

(* the arrays to_arrow builds: as many as there are column names, all of one length, and reading rows
   across them gives back the first [size] rows *)
Lemma to_arrow_cols_spec (rows : list (list C)) ncols size :
  1 <= ncols -> Forall (fun r => length r = ncols) rows ->
  length (to_arrow_cols rows ncols size) = ncols /\
  (exists n, Forall (fun c => length c = n) (to_arrow_cols rows ncols size)) /\
  zip_star (to_arrow_cols rows ncols size) = head size rows.
Proof.
  intros Hw H. pose proof (head_Forall _ size rows H) as Hh.
  unfold to_arrow_cols. destruct (head size rows) as [|r rs] eqn:E.
  - split; [apply repeat_length|]. split.
    + exists 0. clear. induction ncols as [|n IH]; cbn [repeat]; constructor; [reflexivity|exact IH].
    + apply zip_star_repeat_nil.
  - assert (Hr : length r = ncols) by (inversion Hh; assumption).
    split; [|split].
    + unfold zip_star. rewrite Hr. apply zip_from_length. exact Hh.
    + exists (length (r :: rs)). unfold zip_star. apply zip_from_col_length.
    + apply (zip_star_involutive (r :: rs) ncols); [exact Hw|discriminate|exact Hh].
Qed.

End TransposeProofs.

(* DataFrame -> arrow(size) -> DataFrame, rows *)
Section RoundTripProofs.
Variables (C T Nm : Type).
Variable process_table : T -> N -> list (list C).
Variable rows_of : T -> list (list C).
Variable from_arrays : list (list C) -> list Nm -> T.     (* pyarrow.Table.from_arrays(arrays, names) *)
Hypothesis process_ok : forall t b, (1 <= b)%N -> process_table t b = rows_of t.
(* a table built from equally long arrays, one per name, holds those columns: its rows are read across them *)
Hypothesis from_arrays_ok : forall cols names n,
  length cols = length names -> Forall (fun c => length c = n) cols -> rows_of (from_arrays cols names) = zip_star cols.

Lemma round_trip_nexts rows names size k :
  1 <= length names -> Forall (fun r => length r = length names) rows ->
  nexts process_table k (from_arrow_iter [from_arrays (to_arrow_cols rows (length names) size) names] None) =
  map Some (firstn k (head size rows)) ++ repeat None (k - length (head size rows)).
Proof.
  intros Hw H.
  destruct (to_arrow_cols_spec C rows (length names) size Hw H) as [HL [[n Hn] HZ]].
  rewrite (from_arrow_nexts (list C) T process_table rows_of process_ok).
  cbn [limit map concat]. rewrite app_nil_r.
  rewrite (from_arrays_ok _ names n HL Hn), HZ. reflexivity.
Qed.

Lemma round_trip_drain rows names size fuel :
  1 <= length names -> Forall (fun r => length r = length names) rows ->
  drain process_table fuel (from_arrow_iter [from_arrays (to_arrow_cols rows (length names) size) names] None) =
  firstn fuel (head size rows).
Proof.
  intros Hw H.
  destruct (to_arrow_cols_spec C rows (length names) size Hw H) as [HL [[n Hn] HZ]].
  rewrite (from_arrow_drain (list C) T process_table rows_of process_ok).
  cbn [limit map concat]. rewrite app_nil_r.
  rewrite (from_arrays_ok _ names n HL Hn), HZ. reflexivity.
Qed.

End RoundTripProofs.

(* ====================================================================================== *)
(* repeated use of one frame object                                                         *)
(* ====================================================================================== *)
Section FrameProofs.
Variables (C T : Type).
Variable process_table : T -> N -> list (list C).

Lemma arrays_head (rows : list (list C)) ncols size :
  to_arrow_cols rows ncols size = arrays (head size rows) ncols.
Proof. unfold to_arrow_cols, arrays. destruct (head size rows); reflexivity. Qed.

Lemma frame_rows_materialize (f : frame C T) :
  frame_rows process_table (materialize process_table f) = frame_rows process_table f.
Proof. destruct f; reflexivity. Qed.

Lemma to_arrow_frame_spec (f : frame C T) ncols size :
  to_arrow_frame process_table f ncols size =
  (materialize process_table f, to_arrow_cols (frame_rows process_table f) ncols size).
Proof.
  unfold to_arrow_frame. rewrite arrays_head. unfold head. destruct size as [z|].
  - destruct (0 <=? z)%Z.
    + cbn [materialize frame_rows]. rewrite frame_rows_materialize. reflexivity.
    + rewrite frame_rows_materialize. reflexivity.
  - rewrite frame_rows_materialize. reflexivity.
Qed.

(* every call leaves the frame materialized and answers from the rows the frame holds *)
Lemma fstep_spec ncols (f : frame C T) op :
  fstep process_table ncols f op =
  (materialize process_table f, expected_out (frame_rows process_table f) ncols op).
Proof.
  destruct op; cbn [fstep expected_out].
  - rewrite to_arrow_frame_spec. reflexivity.
  - rewrite frame_rows_materialize. reflexivity.
  - reflexivity.
Qed.

Lemma frun_spec ncols ops : forall f : frame C T,
  frun process_table ncols f ops = map (expected_out (frame_rows process_table f) ncols) ops.
Proof.
  induction ops as [|op ops IH]; intros f; cbn [frun map]; [reflexivity|].
  rewrite fstep_spec. rewrite IH, frame_rows_materialize. reflexivity.
Qed.

Lemma srun_spec (Nm : Type) ops : forall (f : frame C T) (names : list Nm),
  srun process_table f names ops = sspec (frame_rows process_table f) names ops.
Proof.
  induction ops as [|[op|j nm] ops IH]; intros f names; cbn [srun sspec]; [reflexivity| |].
  - rewrite fstep_spec. rewrite IH, frame_rows_materialize. reflexivity.
  - rewrite IH. reflexivity.
Qed.

Variable rows_of : T -> list (list C).
Hypothesis process_ok : forall t b, (1 <= b)%N -> process_table t b = rows_of t.

Lemma from_arrow_iter_parts (tables : list T) size :
  tabs (@from_arrow_iter (list C) T tables size) = tables /\ cur (@from_arrow_iter (list C) T tables size) = [].
Proof.
  unfold from_arrow_iter. destruct size as [n|]; [destruct (n =? 0)%N|]; split; reflexivity.
Qed.

Lemma limit_length {A} size (l : list A) : length (limit size l) <= length l.
Proof.
  unfold limit. destruct size as [n|]; [|lia]. destruct (n =? 0)%N; [lia|]. rewrite firstn_length. lia.
Qed.

(* list(iterator) on the iterator from_arrow returns: all the rows, cut to the size *)
Lemma collect_from_arrow (tables : list T) size :
  collect process_table (from_arrow_iter tables size) = limit size (concat (map rows_of tables)).
Proof.
  unfold collect. rewrite (from_arrow_drain (list C) T process_table rows_of process_ok).
  apply firstn_all2. unfold fuel_of.
  destruct (from_arrow_iter_parts tables size) as [Ht Hc]. rewrite Ht, Hc.
  pose proof (from_arrow_iter_bsz (list C) T tables size) as Hb.
  assert (Hm : forall b, (1 <= b)%N -> map (fun t => process_table t b) tables = map rows_of tables)
    by (intros b Hb1; apply map_ext; intros t; apply process_ok; exact Hb1).
  rewrite (Hm _ Hb).
  pose proof (limit_length size (concat (map rows_of tables))). cbn [length]. lia.
Qed.

Lemma frun_lazy (tables : list T) size ncols ops :
  frun process_table ncols (FLazy (from_arrow_iter tables size)) ops =
  map (expected_out (limit size (concat (map rows_of tables))) ncols) ops.
Proof. rewrite frun_spec. cbn [frame_rows]. rewrite collect_from_arrow. reflexivity. Qed.

Lemma srun_lazy (Nm : Type) (tables : list T) size (names : list Nm) ops :
  srun process_table (FLazy (from_arrow_iter tables size)) names ops =
  sspec (limit size (concat (map rows_of tables))) names ops.
Proof. rewrite srun_spec. cbn [frame_rows]. rewrite collect_from_arrow. reflexivity. Qed.

End FrameProofs.

(* ====================================================================================== *)
(* (b) column typing                                                                        *)
(* ====================================================================================== *)

Lemma optN_eqb_eq a b : optN_eqb a b = true -> a = b.
Proof. destruct a, b; cbn; intros H; try discriminate; [apply N.eqb_eq in H; congruence|reflexivity]. Qed.

Lemma optZ_eqb_eq a b : optZ_eqb a b = true -> a = b.
Proof. destruct a, b; cbn; intros H; try discriminate; [apply Z.eqb_eq in H; congruence|reflexivity]. Qed.

Definition quad : Type := N * option N * option Z * option Z.   (* type, element type, precision, scale *)

Definition quad_eqb (a b : quad) : bool :=
  let '(t, e, p, s) := a in let '(t', e', p', s') := b in
  (t =? t')%N && optN_eqb e e' && optZ_eqb p p' && optZ_eqb s s'.

Lemma quad_eqb_eq a b : quad_eqb a b = true -> a = b.
Proof.
  destruct a as [[[t e] p] s], b as [[[t' e'] p'] s']. cbn [quad_eqb]. intros H.
  apply andb_prop in H as [H Hs]. apply andb_prop in H as [H Hp]. apply andb_prop in H as [Ht He].
  apply N.eqb_eq in Ht. apply optN_eqb_eq in He. apply optZ_eqb_eq in Hp. apply optZ_eqb_eq in Hs. congruence.
Qed.

(* the typing part of column -> Arrow field -> column *)
Definition type_trip (t : N) (e : option N) (p s : option Z) : result quad :=
  bind (arrow_type_of t e p s) (from_arrow_type false).

Definition trip_ok (t : N) (e : option N) (p s : option Z) (q : quad) : bool :=
  match type_trip t e p s with Ok q' => quad_eqb q' q | Raise _ => false end.

Lemma trip_ok_eq t e p s q : trip_ok t e p s q = true -> type_trip t e p s = Ok q.
Proof.
  unfold trip_ok. destruct (type_trip t e p s) as [q'|]; [|discriminate].
  intros H. apply quad_eqb_eq in H. congruence.
Qed.

(* from the typing part to whole columns: name carried both ways, nullability carried from the field *)
(* the constructor leaves these attributes as they are: not DECIMAL, or precision and scale both given *)
Definition ctor_fixed (t : N) (p s : option Z) : bool :=
  negb (t =? ty_DECIMAL)%N || (negb (is_none p) && negb (is_none s)).

Lemma flat_column_fixed nm t e p s nl :
  ctor_fixed t p s = true -> flat_column nm t e p s nl = mkCol nm t e p s nl.
Proof.
  unfold ctor_fixed, flat_column. destruct (t =? ty_DECIMAL)%N; [|reflexivity].
  destruct p, s; cbn; intros H; try discriminate H; reflexivity.
Qed.

Lemma trip_column nm nl t e p s t' e' p' s' :
  type_trip t e p s = Ok (t', e', p', s') -> ctor_fixed t' p' s' = true ->
  exists f, arrow_field (mkCol nm t e p s nl) = Ok f /\ fname f = nm /\
            from_arrow_field false f = Ok (mkCol nm t' e' p' s' (fnullable f)).
Proof.
  unfold type_trip, arrow_field, arrow_field_named. cbn [ctype celem cprec cscale cname].
  destruct (arrow_type_of t e p s) as [a|]; cbn [bind]; [|discriminate].
  intros H K. eexists. split; [reflexivity|]. split; [reflexivity|].
  unfold from_arrow_field. cbn [ftype fname fnullable]. rewrite H. cbn [bind].
  rewrite (flat_column_fixed _ _ _ _ _ _ K). reflexivity.
Qed.

Lemma from_arrow_field_carry mab f c :
  from_arrow_field mab f = Ok c -> cname c = fname f /\ cnullable c = fnullable f.
Proof.
  unfold from_arrow_field. destruct (from_arrow_type mab (ftype f)) as [[[[t e] p] s]|]; cbn [bind]; [|discriminate].
  intros H. inversion H. unfold flat_column. destruct (t =? ty_DECIMAL)%N; split; reflexivity.
Qed.

Lemma arrow_field_named_carry nm c f :
  arrow_field_named nm c = Ok f -> fname f = nm /\ fnullable f = arrow_field_nullable.
Proof.
  unfold arrow_field_named. destruct (arrow_type_of _ _ _ _); cbn [bind]; [|discriminate].
  intros H. inversion H. split; reflexivity.
Qed.

Lemma mapM_from_arrow_names fs : forall cs,
  arrow_to_orso_schema fs = Ok cs ->
  map cname cs = map fname fs /\ map cnullable cs = map fnullable fs /\ length cs = length fs.
Proof.
  unfold arrow_to_orso_schema. induction fs as [|f fs IH]; intros cs; cbn [mapM].
  - intros H. inversion H. repeat split; reflexivity.
  - destruct (from_arrow_field false f) as [c|] eqn:Ef; cbn [bind]; [|discriminate].
    destruct (mapM (from_arrow_field false) fs) as [cs'|]; cbn [bind]; [|discriminate].
    intros H. inversion H; subst. destruct (IH cs' eq_refl) as [H1 [H2 H3]].
    destruct (from_arrow_field_carry _ _ _ Ef) as [Hn Hl].
    cbn [map length]. rewrite H1, H2, H3, Hn, Hl. repeat split; reflexivity.
Qed.

Lemma mapM_arrow_names use_ids cols : forall fs,
  orso_to_arrow_schema use_ids cols = Ok fs ->
  map fname fs = map (fun ic => if use_ids then fst ic else cname (snd ic)) cols.
Proof.
  unfold orso_to_arrow_schema. induction cols as [|ic cols IH]; intros fs; cbn [mapM].
  - intros H. inversion H. reflexivity.
  - destruct (arrow_field_named _ (snd ic)) as [f|] eqn:Ef; cbn [bind]; [|discriminate].
    destruct (mapM _ cols) as [fs'|]; cbn [bind]; [|discriminate].
    intros H. inversion H; subst. cbn [map]. rewrite (IH fs' eq_refl).
    destruct (arrow_field_named_carry _ _ _ Ef) as [Hn _]. rewrite Hn. reflexivity.
Qed.

(* ---------- finite part: every type / element type, evaluated on the regenerated tables ---------- *)
Definition plain_types : list N :=
  filter (fun t => negb (excluded t || (t =? ty_ARRAY) || (t =? ty_DECIMAL))%N) all_types.

Definition elem_types : list N := filter (fun e => negb (excluded e)) accepted_elems.

Lemma plain_types_trip : forallb (fun t => trip_ok t None None None (t, None, None, None)) plain_types = true.
Proof. vm_compute. reflexivity. Qed.

Lemma elem_types_trip :
  forallb (fun e => trip_ok ty_ARRAY (Some e) None None (ty_ARRAY, Some e, None, None)) elem_types = true.
Proof. vm_compute. reflexivity. Qed.

Lemma plain_trip t :
  In t all_types -> excluded t = false -> t <> ty_ARRAY -> t <> ty_DECIMAL ->
  type_trip t None None None = Ok (t, None, None, None).
Proof.
  intros Hin Hex Ha Hd. apply trip_ok_eq.
  pose proof plain_types_trip as H. rewrite forallb_forall in H. apply H.
  unfold plain_types. apply filter_In. split; [exact Hin|].
  rewrite Hex. apply N.eqb_neq in Ha. apply N.eqb_neq in Hd. rewrite Ha, Hd. reflexivity.
Qed.

Lemma elem_trip e :
  In e accepted_elems -> excluded e = false ->
  type_trip ty_ARRAY (Some e) None None = Ok (ty_ARRAY, Some e, None, None).
Proof.
  intros Hin Hex. apply trip_ok_eq.
  pose proof elem_types_trip as H. rewrite forallb_forall in H. apply H.
  unfold elem_types. apply filter_In. split; [exact Hin|]. rewrite Hex. reflexivity.
Qed.

(* the carve-out: what the excluded types come back as *)
Lemma struct_trip : type_trip ty_STRUCT None None None = Ok (ty_BLOB, None, None, None).
Proof. vm_compute. reflexivity. Qed.
Lemma jsonb_trip : type_trip ty_JSONB None None None = Ok (ty_BLOB, None, None, None).
Proof. vm_compute. reflexivity. Qed.
Lemma missing_trip : type_trip ty_MISSING_TYPE None None None = Ok (ty_VARCHAR, None, None, None).
Proof. vm_compute. reflexivity. Qed.
Lemma array_struct_trip : type_trip ty_ARRAY (Some ty_STRUCT) None None = Ok (ty_ARRAY, Some ty_BLOB, None, None).
Proof. vm_compute. reflexivity. Qed.
Lemma array_jsonb_trip : type_trip ty_ARRAY (Some ty_JSONB) None None = Ok (ty_ARRAY, Some ty_BLOB, None, None).
Proof. vm_compute. reflexivity. Qed.
Lemma array_missing_trip : type_trip ty_ARRAY (Some ty_MISSING_TYPE) None None = Ok (ty_ARRAY, Some ty_VARCHAR, None, None).
Proof. vm_compute. reflexivity. Qed.

(* ---------- DECIMAL(p, s): all p, s ---------- *)
Definition rule_exact (r : prule) : bool := match r with ROr _ => false | _ => true end.
Definition is_prec (s : sel) : bool := match s with SelPrecision => true | SelScale => false end.

(* what the symbolic proof needs from the regenerated tables *)
Definition dec_tables_ok : bool :=
  match assoc ty_DECIMAL top_table with
  | Some (TmDecimal i) =>
      match assoc i atm_table with
      | Some (AtmDecimal SelPrecision SelScale) => true
      | _ => false
      end
  | _ => false
  end
  && negb (ty_DECIMAL =? ty_ARRAY)%N
  && is_prec (fst dec_arg0) && negb (is_prec (fst dec_arg1)) && rule_exact (snd dec_arg1).

Lemma dec_tables_ok_true : dec_tables_ok = true.
Proof. vm_compute. reflexivity. Qed.

Lemma apply_arg_prec r p s : p <> 0%Z -> apply_arg (SelPrecision, r) (Some p) s = Ok p.
Proof.
  intros Hp. unfold apply_arg. cbn [fst snd]. destruct r; try reflexivity.
  destruct (p =? 0)%Z eqn:E; [apply Z.eqb_eq in E; contradiction|reflexivity].
Qed.

Lemma apply_arg_scale r p s : rule_exact r = true -> apply_arg (SelScale, r) p (Some s) = Ok s.
Proof. intros Hr. unfold apply_arg. cbn [fst snd]. destruct r; try reflexivity. discriminate. Qed.

Lemma decimal_trip p s :
  (1 <= p <= 38)%Z -> (0 <= s <= p)%Z ->
  type_trip ty_DECIMAL None (Some p) (Some s) = Ok (ty_DECIMAL, None, Some p, Some s).
Proof.
  intros Hp Hs. pose proof dec_tables_ok_true as K. unfold dec_tables_ok in K.
  destruct (assoc ty_DECIMAL top_table) as [[| |i]|] eqn:E1; try discriminate K.
  destruct (assoc i atm_table) as [[| |[|] [|]]|] eqn:E2; try discriminate K.
  destruct dec_arg0 as [s0 r0] eqn:E3. destruct dec_arg1 as [s1 r1] eqn:E4. cbn [fst snd] in K.
  destruct s0; [|discriminate K]. destruct s1; [discriminate K|].
  destruct (ty_DECIMAL =? ty_ARRAY)%N eqn:E5; [discriminate K|].
  assert (Hr1 : rule_exact r1 = true) by (destruct (rule_exact r1); [reflexivity|discriminate K]).
  assert (Hd : dec_entry i (Some p) (Some s) = Ok (ADec i p s)).
  { unfold dec_entry. rewrite E3, E4.
    rewrite apply_arg_prec by lia. rewrite apply_arg_scale by exact Hr1. cbn [bind].
    unfold decimal128. replace ((1 <=? p)%Z && (p <=? 38)%Z) with true by lia. reflexivity. }
  unfold type_trip, arrow_type_of, eager_decimal. rewrite E1, E5.
  cbn [tm_atype]. rewrite Hd.
  assert (He : (if dec_eager then bind (Ok (ADec i p s)) (fun _ : atype => Ok tt) else Ok tt) = Ok tt)
    by (destruct dec_eager; reflexivity).
  rewrite He. cbn [bind].
  unfold from_arrow_type, arrow_type_map. cbn [atype_id]. rewrite E2. cbn [pick bind]. reflexivity.
Qed.

(* ---------- statements as used in Props/C11.v ---------- *)
Lemma excluded_false t : t <> ty_STRUCT -> t <> ty_JSONB -> t <> ty_MISSING_TYPE -> excluded t = false.
Proof.
  intros H1 H2 H3. unfold excluded.
  apply N.eqb_neq in H1. apply N.eqb_neq in H2. apply N.eqb_neq in H3. rewrite H1, H2, H3. reflexivity.
Qed.

Lemma type_round_trip_plain t nm nl :
  In t (map fst c11_type_names) ->
  t <> ty_STRUCT -> t <> ty_JSONB -> t <> ty_MISSING_TYPE -> t <> ty_ARRAY -> t <> ty_DECIMAL ->
  exists f, arrow_field (mkCol nm t None None None nl) = Ok f /\ fname f = nm /\
            from_arrow_field false f = Ok (mkCol nm t None None None (fnullable f)).
Proof.
  intros Hin H1 H2 H3 Ha Hd. apply trip_column.
  - fold all_types in Hin. apply plain_trip; [exact Hin|apply excluded_false; assumption|exact Ha|exact Hd].
  - unfold ctor_fixed. apply N.eqb_neq in Hd. rewrite Hd. reflexivity.
Qed.

Lemma type_round_trip_array e nm nl :
  In e accepted_elems -> e <> ty_STRUCT -> e <> ty_JSONB -> e <> ty_MISSING_TYPE ->
  exists f, arrow_field (mkCol nm ty_ARRAY (Some e) None None nl) = Ok f /\ fname f = nm /\
            from_arrow_field false f = Ok (mkCol nm ty_ARRAY (Some e) None None (fnullable f)).
Proof.
  intros Hin H1 H2 H3. apply trip_column; [|vm_compute; reflexivity].
  apply elem_trip; [exact Hin|apply excluded_false; assumption].
Qed.

Lemma type_round_trip_decimal p s nm nl :
  (1 <= p <= 38)%Z -> (0 <= s <= p)%Z ->
  exists f, arrow_field (mkCol nm ty_DECIMAL None (Some p) (Some s) nl) = Ok f /\ fname f = nm /\
            from_arrow_field false f = Ok (mkCol nm ty_DECIMAL None (Some p) (Some s) (fnullable f)).
Proof.
  intros Hp Hs. apply trip_column; [apply decimal_trip; assumption|].
  unfold ctor_fixed. cbn [is_none negb andb]. apply orb_true_r.
Qed.

(* all three in one statement, with the guard the correspondence evaluates on every observed column *)
Lemma excluded_neq t : excluded t = false -> t <> ty_STRUCT /\ t <> ty_JSONB /\ t <> ty_MISSING_TYPE.
Proof.
  unfold excluded. intros H. apply orb_false_elim in H as [H H3]. apply orb_false_elim in H as [H1 H2].
  apply N.eqb_neq in H1. apply N.eqb_neq in H2. apply N.eqb_neq in H3. repeat split; assumption.
Qed.

Lemma existsb_eqb_In t l : existsb (N.eqb t) l = true -> In t l.
Proof.
  intros H. apply existsb_exists in H as [x [Hin Hx]]. apply N.eqb_eq in Hx. subst. exact Hin.
Qed.

Lemma type_round_trip (c : column) :
  roundtrippable c = true ->
  exists f, arrow_field c = Ok f /\ fname f = cname c /\
            from_arrow_field false f = Ok (mkCol (cname c) (ctype c) (celem c) (cprec c) (cscale c) (fnullable f)).
Proof.
  destruct c as [nm t e p s nl]. unfold roundtrippable. cbn [cname ctype celem cprec cscale].
  intros H. apply andb_prop in H as [H Hk]. apply andb_prop in H as [Hin Hex].
  apply existsb_eqb_In in Hin. apply negb_true_iff in Hex.
  destruct (excluded_neq t Hex) as [N1 [N2 N3]].
  destruct (t =? ty_ARRAY)%N eqn:Ea.
  - apply N.eqb_eq in Ea. subst t.
    apply andb_prop in Hk as [Hk Hs]. apply andb_prop in Hk as [Hk Hp].
    destruct e as [e|]; [|discriminate Hk]. destruct p; [discriminate Hp|]. destruct s; [discriminate Hs|].
    apply andb_prop in Hk as [He Hxe]. apply existsb_eqb_In in He. apply negb_true_iff in Hxe.
    destruct (excluded_neq e Hxe) as [M1 [M2 M3]].
    apply type_round_trip_array; assumption.
  - apply N.eqb_neq in Ea. destruct (t =? ty_DECIMAL)%N eqn:Ed.
    + apply N.eqb_eq in Ed. subst t. apply andb_prop in Hk as [He Hk].
      destruct e; [discriminate He|]. destruct p as [p|]; [|discriminate Hk]. destruct s as [s|]; [|discriminate Hk].
      apply type_round_trip_decimal; lia.
    + apply N.eqb_neq in Ed. apply andb_prop in Hk as [Hk Hs]. apply andb_prop in Hk as [He Hp].
      destruct e; [discriminate He|]. destruct p; [discriminate Hp|]. destruct s; [discriminate Hs|].
      apply type_round_trip_plain; assumption.
Qed.

(* hence the run-time check of the typing clause can only fail where the implementation leaves the model *)
Lemma came_back_named_model nm (c : column) :
  came_back_named nm c (arrow_field_named nm c) (bind (arrow_field_named nm c) (from_arrow_field false)) = true.
Proof.
  unfold came_back_named. destruct (roundtrippable c) eqn:R; [|reflexivity].
  assert (R' : roundtrippable (mkCol nm (ctype c) (celem c) (cprec c) (cscale c) (cnullable c)) = true) by exact R.
  destruct (type_round_trip _ R') as [f [H1 [H2 H3]]].
  change (arrow_field (mkCol nm (ctype c) (celem c) (cprec c) (cscale c) (cnullable c))) with (arrow_field_named nm c) in H1.
  cbn [cname ctype celem cprec cscale] in H2, H3.
  rewrite H1. cbn [bind]. rewrite H3, H2.
  assert (L : forall l, listN_eqb l l = true) by (induction l as [|x l IH]; cbn; [reflexivity|rewrite N.eqb_refl, IH; reflexivity]).
  assert (ON : forall o, optN_eqb o o = true) by (intros [x|]; cbn; [apply N.eqb_refl|reflexivity]).
  assert (OZ : forall o, optZ_eqb o o = true) by (intros [x|]; cbn; [apply Z.eqb_refl|reflexivity]).
  unfold column_eqb. cbn [cname ctype celem cprec cscale cnullable].
  rewrite !L, N.eqb_refl, ON, !OZ, eqb_reflx. reflexivity.
Qed.

Lemma came_back_model (c : column) :
  came_back c (arrow_field c) (bind (arrow_field c) (from_arrow_field false)) = true.
Proof. apply came_back_named_model. Qed.

(* STRUCT / JSONB travel as binary, the untyped placeholder as string - as types and as element types *)
Lemma binary_carried nm nl :
  (exists f, arrow_field (mkCol nm ty_STRUCT None None None nl) = Ok f /\
             from_arrow_field false f = Ok (mkCol nm ty_BLOB None None None (fnullable f))) /\
  (exists f, arrow_field (mkCol nm ty_JSONB None None None nl) = Ok f /\
             from_arrow_field false f = Ok (mkCol nm ty_BLOB None None None (fnullable f))) /\
  (exists f, arrow_field (mkCol nm ty_MISSING_TYPE None None None nl) = Ok f /\
             from_arrow_field false f = Ok (mkCol nm ty_VARCHAR None None None (fnullable f))) /\
  (exists f, arrow_field (mkCol nm ty_ARRAY (Some ty_STRUCT) None None nl) = Ok f /\
             from_arrow_field false f = Ok (mkCol nm ty_ARRAY (Some ty_BLOB) None None (fnullable f))) /\
  (exists f, arrow_field (mkCol nm ty_ARRAY (Some ty_JSONB) None None nl) = Ok f /\
             from_arrow_field false f = Ok (mkCol nm ty_ARRAY (Some ty_BLOB) None None (fnullable f))) /\
  (exists f, arrow_field (mkCol nm ty_ARRAY (Some ty_MISSING_TYPE) None None nl) = Ok f /\
             from_arrow_field false f = Ok (mkCol nm ty_ARRAY (Some ty_VARCHAR) None None (fnullable f))).
Proof.
  repeat split.
  - destruct (trip_column nm nl _ _ _ _ _ _ _ _ struct_trip eq_refl) as [f [H1 [_ H2]]]. exists f. split; assumption.
  - destruct (trip_column nm nl _ _ _ _ _ _ _ _ jsonb_trip eq_refl) as [f [H1 [_ H2]]]. exists f. split; assumption.
  - destruct (trip_column nm nl _ _ _ _ _ _ _ _ missing_trip eq_refl) as [f [H1 [_ H2]]]. exists f. split; assumption.
  - destruct (trip_column nm nl _ _ _ _ _ _ _ _ array_struct_trip eq_refl) as [f [H1 [_ H2]]]. exists f. split; assumption.
  - destruct (trip_column nm nl _ _ _ _ _ _ _ _ array_jsonb_trip eq_refl) as [f [H1 [_ H2]]]. exists f. split; assumption.
  - destruct (trip_column nm nl _ _ _ _ _ _ _ _ array_missing_trip eq_refl) as [f [H1 [_ H2]]]. exists f. split; assumption.
Qed.

Lemma stream_next_calls (R T : Type) (process_table : T -> N -> list R) (rows_of : T -> list R) :
  (forall t b, (1 <= b)%N -> process_table t b = rows_of t) ->
  forall (tables : list T) (size : option N) (k : nat),
  nexts process_table k (from_arrow_iter tables size) =
  map Some (firstn k (limit size (concat (map rows_of tables)))) ++
  repeat None (k - length (limit size (concat (map rows_of tables)))).
Proof. intros H tables size k. apply from_arrow_nexts. exact H. Qed.

Lemma stream_collected (R T : Type) (process_table : T -> N -> list R) (rows_of : T -> list R) :
  (forall t b, (1 <= b)%N -> process_table t b = rows_of t) ->
  forall (tables : list T) (size : option N) (fuel : nat),
  drain process_table fuel (from_arrow_iter tables size) = firstn fuel (limit size (concat (map rows_of tables))) /\
  (length (limit size (concat (map rows_of tables))) <= fuel ->
   drain process_table fuel (from_arrow_iter tables size) = limit size (concat (map rows_of tables))).
Proof.
  intros H tables size fuel. rewrite (from_arrow_drain R T process_table rows_of H). split; [reflexivity|].
  intros Hl. apply firstn_all2. exact Hl.
Qed.

Lemma limit_meaning (A : Type) (l : list A) :
  limit None l = l /\ limit (Some 0%N) l = l /\
  forall n, (1 <= n)%N -> limit (Some n) l = firstn (N.to_nat n) l /\
                          length (limit (Some n) l) = Nat.min (N.to_nat n) (length l).
Proof.
  split; [reflexivity|]. split; [reflexivity|]. intros n Hn. unfold limit.
  destruct (n =? 0)%N eqn:E; [apply N.eqb_eq in E; lia|]. split; [reflexivity|apply firstn_length].
Qed.

Lemma zero_row_tables_invisible (R T : Type) (process_table : T -> N -> list R) (rows_of : T -> list R) :
  (forall t b, (1 <= b)%N -> process_table t b = rows_of t) ->
  forall (tables : list T) (size : option N) (k : nat),
  nexts process_table k (from_arrow_iter tables size) =
  nexts process_table k
    (from_arrow_iter (filter (fun t => match rows_of t with [] => false | _ => true end) tables) size).
Proof.
  intros H tables size k. rewrite !(from_arrow_nexts R T process_table rows_of H).
  rewrite <- (concat_skip_empty R T rows_of tables). reflexivity.
Qed.

Lemma round_trip_rows (C T Nm : Type) (process_table : T -> N -> list (list C)) (rows_of : T -> list (list C))
      (from_arrays : list (list C) -> list Nm -> T) :
  (forall t b, (1 <= b)%N -> process_table t b = rows_of t) ->
  (forall cols names n, length cols = length names -> Forall (fun c => length c = n) cols ->
                        rows_of (from_arrays cols names) = zip_star cols) ->
  forall (rows : list (list C)) (names : list Nm) (size : option Z) (k : nat),
  1 <= length names -> Forall (fun r => length r = length names) rows ->
  nexts process_table k (from_arrow_iter [from_arrays (to_arrow_cols rows (length names) size) names] None) =
    map Some (firstn k (head size rows)) ++ repeat None (k - length (head size rows)) /\
  drain process_table k (from_arrow_iter [from_arrays (to_arrow_cols rows (length names) size) names] None) =
    firstn k (head size rows).
Proof.
  intros H1 H2 rows names size k Hw Hr. split.
  - apply (round_trip_nexts C T Nm process_table rows_of from_arrays H1 H2); assumption.
  - apply (round_trip_drain C T Nm process_table rows_of from_arrays H1 H2); assumption.
Qed.

Lemma head_meaning (C : Type) (rows : list (list C)) :
  head None rows = rows /\
  (forall z, (0 <= z)%Z -> head (Some z) rows = firstn (Z.to_nat z) rows) /\
  (forall z, (z < 0)%Z -> head (Some z) rows = rows).
Proof.
  split; [reflexivity|]. split; intros z Hz; unfold head.
  - replace (0 <=? z)%Z with true by lia. reflexivity.
  - replace (0 <=? z)%Z with false by lia. reflexivity.
Qed.

Lemma schema_names_carry fs cs :
  arrow_to_orso_schema fs = Ok cs ->
  map cname cs = map fname fs /\ map cnullable cs = map fnullable fs /\ length cs = length fs.
Proof. apply mapM_from_arrow_names. Qed.

Lemma arrow_schema_names use_ids cols fs :
  orso_to_arrow_schema use_ids cols = Ok fs ->
  map fname fs = map (fun ic => if use_ids then fst ic else cname (snd ic)) cols.
Proof. apply mapM_arrow_names. Qed.

(* ---------- repeated use of one frame ---------- *)
Lemma repeated_export_lazy (C T : Type) (process_table : T -> N -> list (list C)) (rows_of : T -> list (list C)) :
  (forall t b, (1 <= b)%N -> process_table t b = rows_of t) ->
  forall (tables : list T) (size : option N) (ncols : nat) (ops : list fop),
  frun process_table ncols (FLazy (from_arrow_iter tables size)) ops =
  map (expected_out (limit size (concat (map rows_of tables))) ncols) ops.
Proof. intros H tables size ncols ops. apply (frun_lazy C T process_table rows_of H). Qed.

Lemma repeated_export_list (C T : Type) (process_table : T -> N -> list (list C)) :
  forall (rows : list (list C)) (ncols : nat) (ops : list fop),
  frun process_table ncols (FList rows) ops = map (expected_out rows ncols) ops.
Proof. intros rows ncols ops. rewrite frun_spec. reflexivity. Qed.

(* ---------- the constructor keeps the decimal parameters it is given ---------- *)
Definition ps_eqb (a b : option Z * option Z) : bool := optZ_eqb (fst a) (fst b) && optZ_eqb (snd a) (snd b).

Lemma ps_eqb_eq a b : ps_eqb a b = true -> a = b.
Proof.
  destruct a, b. unfold ps_eqb. cbn [fst snd]. intros H. apply andb_prop in H as [H1 H2].
  apply optZ_eqb_eq in H1. apply optZ_eqb_eq in H2. congruence.
Qed.

Definition got_eqb (a b : option (option Z * option Z)) : bool :=
  match a, b with Some x, Some y => ps_eqb x y | None, None => true | _, _ => false end.

Lemma got_eqb_eq a b : got_eqb a b = true -> a = b.
Proof.
  destruct a, b; cbn; intros H; try discriminate H; [apply ps_eqb_eq in H; congruence|reflexivity].
Qed.

(* the closed form [ctor_decimal] explains every probe of the live constructor *)
Lemma ctor_probes_explained :
  forallb (fun pr => got_eqb (snd pr) (Some (ctor_decimal (fst (fst pr)) (snd (fst pr))))) ctor_dec_probes = true.
Proof. vm_compute. reflexivity. Qed.

Lemma ctor_model_matches_probes p s got :
  In ((p, s), got) ctor_dec_probes -> got = Some (ctor_decimal p s).
Proof.
  intros Hin. pose proof ctor_probes_explained as H. rewrite forallb_forall in H.
  specialize (H _ Hin). cbn [fst snd] in H. apply got_eqb_eq in H. exact H.
Qed.

Definition zrange (lo : Z) (n : nat) : list Z := map (fun i => (lo + Z.of_nat i)%Z) (seq 0 n).

Lemma In_zrange lo n z : (lo <= z < lo + Z.of_nat n)%Z -> In z (zrange lo n).
Proof.
  intros H. unfold zrange. apply in_map_iff. exists (Z.to_nat (z - lo)). split; [lia|].
  apply in_seq. lia.
Qed.

Definition probe_eqb (a b : (option Z * option Z) * option (option Z * option Z)) : bool :=
  ps_eqb (fst a) (fst b) && got_eqb (snd a) (snd b).

Definition byname_eqb (a b : (Z * Z) * option (option Z * option Z)) : bool :=
  (fst (fst a) =? fst (fst b))%Z && (snd (fst a) =? snd (fst b))%Z && got_eqb (snd a) (snd b).

(* on the whole grid the live constructor was seen to keep (p, s): by attribute and by type name *)
Definition grid_cell (p s : Z) : bool :=
  existsb (probe_eqb ((Some p, Some s), Some (Some p, Some s))) ctor_dec_probes
  && existsb (byname_eqb ((p, s), Some (Some p, Some s))) ctor_dec_byname_probes.

Definition grid_row (p : Z) : bool := forallb (grid_cell p) (zrange 0 (S (Z.to_nat p))).

Lemma grid_kept_true : forallb grid_row (zrange 1 38) = true.
Proof. vm_compute. reflexivity. Qed.

Lemma ctor_grid_probed p s :
  (1 <= p <= 38)%Z -> (0 <= s <= p)%Z ->
  In ((Some p, Some s), Some (Some p, Some s)) ctor_dec_probes /\
  In ((p, s), Some (Some p, Some s)) ctor_dec_byname_probes.
Proof.
  intros Hp Hs. pose proof grid_kept_true as G.
  rewrite forallb_forall in G. specialize (G p (In_zrange 1 38 p ltac:(lia))). unfold grid_row in G.
  rewrite forallb_forall in G. specialize (G s (In_zrange 0 (S (Z.to_nat p)) s ltac:(lia))). unfold grid_cell in G.
  apply andb_prop in G as [G1 G2]. split.
  - apply existsb_exists in G1 as [[[xp xs] xg] [Hin Hx]]. unfold probe_eqb in Hx. cbn [fst snd] in Hx.
    apply andb_prop in Hx as [Ha Hb]. apply ps_eqb_eq in Ha. apply got_eqb_eq in Hb.
    inversion Ha; subst. exact Hin.
  - apply existsb_exists in G2 as [[[xp xs] xg] [Hin Hx]]. unfold byname_eqb in Hx. cbn [fst snd] in Hx.
    apply andb_prop in Hx as [Ha Hb]. apply andb_prop in Ha as [Ha1 Ha2].
    apply Z.eqb_eq in Ha1. apply Z.eqb_eq in Ha2. apply got_eqb_eq in Hb. subst. exact Hin.
Qed.

(* DECIMAL(p, s) as ASKED FOR: construct, map to Arrow, map back (through the constructor again): same p, s *)
Lemma requested_decimal_round_trip p s nm nl :
  (1 <= p <= 38)%Z -> (0 <= s <= p)%Z ->
  construct (mkCol nm ty_DECIMAL None (Some p) (Some s) nl) = mkCol nm ty_DECIMAL None (Some p) (Some s) nl /\
  exists f, arrow_field (construct (mkCol nm ty_DECIMAL None (Some p) (Some s) nl)) = Ok f /\ fname f = nm /\
            from_arrow_field false f = Ok (mkCol nm ty_DECIMAL None (Some p) (Some s) (fnullable f)).
Proof.
  intros Hp Hs.
  assert (E : construct (mkCol nm ty_DECIMAL None (Some p) (Some s) nl) = mkCol nm ty_DECIMAL None (Some p) (Some s) nl).
  { unfold construct. cbn [cname ctype celem cprec cscale cnullable]. apply flat_column_fixed.
    unfold ctor_fixed. cbn [is_none negb andb]. apply orb_true_r. }
  split; [exact E|]. rewrite E. apply type_round_trip_decimal; assumption.
Qed.

(* a column built from an Arrow decimal128(p, s) field describes it as DECIMAL(p, s) *)
Lemma arrow_decimal_described p s nm nl i :
  assoc ty_DECIMAL top_table = Some (TmDecimal i) ->
  from_arrow_field false (mkField nm (ADec i p s) nl) = Ok (mkCol nm ty_DECIMAL None (Some p) (Some s) nl).
Proof.
  intros E1. pose proof dec_tables_ok_true as K. unfold dec_tables_ok in K. rewrite E1 in K.
  destruct (assoc i atm_table) as [[| |[|] [|]]|] eqn:E2; try discriminate K.
  unfold from_arrow_field, from_arrow_type, arrow_type_map. cbn [ftype fname fnullable atype_id]. rewrite E2.
  cbn [pick bind]. rewrite flat_column_fixed; [reflexivity|].
  unfold ctor_fixed. cbn [is_none negb andb]. apply orb_true_r.
Qed.

(* ---------- Round 3: sessions ---------- *)
Lemma stream_any_consumption (R T : Type) (process_table : T -> N -> list R) (rows_of : T -> list R) :
  (forall t b, (1 <= b)%N -> process_table t b = rows_of t) ->
  forall (tables : list T) (size : option N) (ops : list iop),
  irun process_table (from_arrow_iter tables size) ops = ispec (limit size (concat (map rows_of tables))) ops.
Proof. intros H tables size ops. apply (from_arrow_irun R T process_table rows_of H). Qed.

Lemma ispec_step_app (R : Type) (E : list R) op : fst (ispec_step E op) ++ snd (ispec_step E op) = E.
Proof.
  destruct op as [|k|]; unfold ispec_step; unfold fst, snd.
  - exact (firstn_skipn 1 E).
  - exact (firstn_skipn k E).
  - apply app_nil_r.
Qed.

(* the steps of a session partition a prefix of the rows; a session ending in list(it) partitions all of them *)
Lemma ispec_concat (R : Type) ops : forall E : list R,
  exists rest, concat (ispec E ops) ++ rest = E.
Proof.
  induction ops as [|op ops IH]; intros E; cbn [ispec concat]; [exists E; reflexivity|].
  destruct (ispec_step E op) as [l rest'] eqn:Es.
  assert (Hs : l ++ rest' = E).
  { pose proof (ispec_step_app R E op) as A. rewrite Es in A. exact A. }
  destruct (IH rest') as [rest Hr]. exists rest. cbn [concat]. rewrite <- app_assoc, Hr. exact Hs.
Qed.

Lemma ispec_all_nil (R : Type) ops : concat (ispec (@nil R) ops) = [].
Proof.
  induction ops as [|op ops IH]; [reflexivity|]. cbn [ispec].
  destruct op as [|k|]; cbn [ispec_step firstn skipn concat app].
  - exact IH.
  - rewrite firstn_nil, skipn_nil. exact IH.
  - exact IH.
Qed.

Lemma ispec_drained (R : Type) pre post : forall E : list R,
  concat (ispec E (pre ++ IDrain :: post)) = E.
Proof.
  induction pre as [|op pre IH]; intros E.
  - cbn [app ispec ispec_step concat]. rewrite ispec_all_nil. apply app_nil_r.
  - cbn [app ispec]. destruct (ispec_step E op) as [l rest'] eqn:Es.
    assert (Hs : l ++ rest' = E).
    { pose proof (ispec_step_app R E op) as A. rewrite Es in A. exact A. }
    cbn [concat]. rewrite IH. exact Hs.
Qed.

Lemma frame_session_lazy (C T Nm : Type) (process_table : T -> N -> list (list C)) (rows_of : T -> list (list C)) :
  (forall t b, (1 <= b)%N -> process_table t b = rows_of t) ->
  forall (tables : list T) (size : option N) (names : list Nm) (ops : list (sop Nm)),
  srun process_table (FLazy (from_arrow_iter tables size)) names ops =
  sspec (limit size (concat (map rows_of tables))) names ops.
Proof. intros H tables size names ops. apply (srun_lazy C T process_table rows_of H). Qed.

Lemma frame_session_list (C T Nm : Type) (process_table : T -> N -> list (list C)) :
  forall (rows : list (list C)) (names : list Nm) (ops : list (sop Nm)),
  srun process_table (FList rows) names ops = sspec rows names ops.
Proof. intros rows names ops. rewrite srun_spec. reflexivity. Qed.

(* one column object: the read after any prefix of steps sees exactly the attributes the assignments left *)
Lemma column_session_current ident pre : forall c op post,
  nth (length pre) (crun ident c (pre ++ op :: post)) None = cout ident (fold_left capply pre c) op.
Proof.
  induction pre as [|x pre IH]; intros c op post; [reflexivity|].
  cbn [app crun length nth fold_left]. apply IH.
Qed.

Lemma mapM_one_named use_ids ident (c : column) :
  orso_to_arrow_schema use_ids [(ident, c)] =
  bind (arrow_field_named (if use_ids then ident else cname c) c) (fun f => Ok [f]).
Proof.
  unfold orso_to_arrow_schema. cbn [mapM fst snd]. destruct (arrow_field_named _ c); reflexivity.
Qed.

(* ... and when those attributes are in the class the typing clause speaks about, the field read maps back to them *)
Lemma column_session_round_trip ident (c : column) op cur nm fs :
  cout ident c op = Some (cur, nm, fs) -> roundtrippable c = true ->
  cur = c /\ exists f, fs = Ok [f] /\ fname f = nm /\
    from_arrow_field false f = Ok (mkCol nm (ctype c) (celem c) (cprec c) (cscale c) (fnullable f)).
Proof.
  intros Ho Hr.
  assert (K : forall n, exists f, arrow_field_named n c = Ok f /\ fname f = n /\
              from_arrow_field false f = Ok (mkCol n (ctype c) (celem c) (cprec c) (cscale c) (fnullable f))).
  { intros n.
    assert (R' : roundtrippable (mkCol n (ctype c) (celem c) (cprec c) (cscale c) (cnullable c)) = true) by exact Hr.
    destruct (type_round_trip _ R') as [f [H1 [H2 H3]]]. exists f.
    change (arrow_field (mkCol n (ctype c) (celem c) (cprec c) (cscale c) (cnullable c))) with (arrow_field_named n c) in H1.
    cbn [cname ctype celem cprec cscale] in H2, H3. repeat split; assumption. }
  destruct op; cbn [cout] in Ho; try discriminate Ho.
  - injection Ho as Hc Hn Hf. subst cur nm fs. split; [reflexivity|]. destruct (K (cname c)) as [f [H1 [H2 H3]]].
    exists f. unfold arrow_field. rewrite H1. cbn [bind]. repeat split; assumption.
  - injection Ho as Hc Hn Hf. subst cur nm fs. split; [reflexivity|].
    destruct (K (if use_ids then ident else cname c)) as [f [H1 [H2 H3]]].
    exists f. rewrite mapM_one_named, H1. cbn [bind]. repeat split; assumption.
Qed.

Lemma session_partitions_rows (R : Type) (E : list R) (ops : list iop) :
  (exists rest, concat (ispec E ops) ++ rest = E) /\
  (forall pre post, ops = pre ++ IDrain :: post -> concat (ispec E ops) = E).
Proof. split; [apply ispec_concat|]. intros pre post ->. apply ispec_drained. Qed.

Lemma column_session_current_values (ident : list N) (c : column) (pre : list cop) (op : cop) (post : list cop) :
  nth (length pre) (crun ident c (pre ++ op :: post)) None = cout ident (fold_left capply pre c) op.
Proof. apply column_session_current. Qed.

(* ---------- Round 6: the caller's list converted several times ---------- *)
Lemma caller_list_sessions (R T : Type) (process_table : T -> N -> list R) (rows_of : T -> list R) :
  (forall t b, (1 <= b)%N -> process_table t b = rows_of t) ->
  forall (tables : list T) (ops : list (option N * list iop)),
  lrun process_table tables ops =
  map (fun op => (ispec (limit (fst op) (concat (map rows_of tables))) (snd op), length tables)) ops.
Proof.
  intros H tables ops. induction ops as [|op ops IH]; [reflexivity|].
  cbn [lrun lstep map]. rewrite IH. rewrite (from_arrow_irun R T process_table rows_of H). reflexivity.
Qed.

(* the concrete instances used by the correspondence satisfy the oracle premises *)
Lemma pt_rows_ok : forall (t : list (list cell)) (b : N), (1 <= b)%N -> pt_rows t b = (fun x => x) t.
Proof. reflexivity. Qed.

Lemma pt_cols_ok :
  (forall (t : list (list cell)) (b : N), (1 <= b)%N -> pt_cols t b = zip_star t) /\
  (forall (cols : list (list cell)) (names : list (list N)) (n : nat),
     length cols = length names -> Forall (fun c => length c = n) cols ->
     zip_star ((fun c (_ : list (list N)) => c) cols names) = zip_star cols).
Proof. split; reflexivity. Qed.
