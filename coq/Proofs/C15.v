From Coq Require Import List ZArith NArith Bool Lia.
From Orso Require Import Gen.C15_Profiler Model.C15.
Import ListNotations.
Open Scope Z_scope.

Lemma zlen_app {B} (a b : list B) : zlen (a ++ b) = zlen a + zlen b.
Proof. unfold zlen. rewrite app_length. lia. Qed.
