(* C15 - lemmas about the profiler model (Model/C15.v), generic in the value type. *)
From Coq Require Import List ZArith NArith Bool Lia Permutation Sorted.
From Orso Require Import Gen.C15_Profiler Model.C15.
Import ListNotations.
Open Scope Z_scope.

(* ---------- specifications the theorems are stated against ---------- *)

(* the value order is a total order whose == is equality *)
Definition total_order {A : Type} (leb eqb : A -> A -> bool) : Prop :=
  (forall a b, eqb a b = true <-> a = b) /\
  (forall a b, leb a b = true \/ leb b a = true) /\
  (forall a b c, leb a b = true -> leb b c = true -> leb a c = true) /\
  (forall a b, leb a b = true -> leb b a = true -> a = b).

(* occurrences of v in d *)
Definition occ {A : Type} (eqb : A -> A -> bool) (v : A) (d : list A) : Z := zlen (filter (eqb v) d).

Definition sumz (l : list Z) : Z := fold_right Z.add 0 l.

(* order / transitions, read off the data: adjacent pairs that differ, rise, fall *)
Fixpoint trans_count {A : Type} (eqb : A -> A -> bool) (x : A) (xs : list A) : Z :=
  match xs with
  | [] => 0
  | y :: r => (if eqb y x then 0 else 1) + trans_count eqb y r
  end.
Fixpoint has_up {A : Type} (leb : A -> A -> bool) (x : A) (xs : list A) : bool :=
  match xs with
  | [] => false
  | y :: r => ltb leb x y || has_up leb y r
  end.
Fixpoint has_down {A : Type} (leb : A -> A -> bool) (x : A) (xs : list A) : bool :=
  match xs with
  | [] => false
  | y :: r => ltb leb y x || has_down leb y r
  end.
Definition order_spec {A : Type} (leb : A -> A -> bool) (x : A) (xs : list A) : option Z :=
  match has_up leb x xs, has_down leb x xs with
  | false, false => None          (* all values equal *)
  | true, false => Some 1         (* never falls *)
  | false, true => Some (-1)      (* never rises *)
  | true, true => Some 0
  end.

(* the additive fields of a sum, from the additive fields of its operands *)
Definition quad_add (a b : Z * Z * option Z * option Z) : Z * Z * option Z * option Z :=
  let '(c1, m1, lo1, hi1) := a in
  let '(c2, m2, lo2, hi2) := b in
  (c1 + c2, m1 + m2, opt_min lo1 lo2, opt_max hi1 hi2).

(* ---------- lists ---------- *)
Lemma zlen_app {B} (a b : list B) : zlen (a ++ b) = zlen a + zlen b.
Proof. unfold zlen. rewrite app_length. lia. Qed.

Lemma zlen_nonneg {B} (a : list B) : 0 <= zlen a.
Proof. unfold zlen. lia. Qed.

Lemma zlen_cons {B} (x : B) (a : list B) : zlen (x :: a) = 1 + zlen a.
Proof. unfold zlen. cbn [length]. lia. Qed.

Lemma nonnull_app {B} (a b : list (option B)) : nonnull (a ++ b) = nonnull a ++ nonnull b.
Proof. unfold nonnull. apply flat_map_app. Qed.

Lemma nonnull_missing {B} (c : list (option B)) :
  zlen c - zlen (nonnull c) = zlen (filter is_none c).
Proof.
  induction c as [|o c IH]; [reflexivity|].
  destruct o as [x|]; cbn [nonnull flat_map filter is_none app] in *;
    fold (nonnull c); rewrite ?zlen_cons; lia.
Qed.

Lemma nonnull_all_none {B} (c : list (option B)) :
  nonnull c = [] <-> forall o, In o c -> o = None.
Proof.
  induction c as [|o c IH]; cbn [nonnull flat_map].
  - split; [intros _ o []|reflexivity].
  - fold (nonnull c). destruct o as [x|]; cbn [app].
    + split; [discriminate|]. intro H. specialize (H (Some x) (or_introl eq_refl)). discriminate.
    + rewrite IH. split.
      * intros H o [<-|Ho]; auto.
      * intros H o Ho. apply H. now right.
Qed.

Lemma In_nonnull {B} (c : list (option B)) (x : B) : In x (nonnull c) <-> In (Some x) c.
Proof.
  induction c as [|o c IH]; cbn [nonnull flat_map]; [tauto|].
  fold (nonnull c). rewrite in_app_iff, IH. destruct o as [y|]; cbn [In].
  - split; [intros [[->|[]]|H]; auto|intros [H|H]; [left; left; congruence|auto]].
  - split; [intros [[]|H]; auto|intros [H|H]; [discriminate|auto]].
Qed.

Lemma In_skipn {B} n (l : list B) x : In x (skipn n l) -> In x l.
Proof.
  revert l. induction n as [|n IH]; intros l H; [exact H|].
  destruct l as [|y l]; [destruct H|]. right. now apply IH.
Qed.

Lemma In_firstn {B} n (l : list B) x : In x (firstn n l) -> In x l.
Proof.
  revert l. induction n as [|n IH]; intros l H; [destruct H|].
  destruct l as [|y l]; [destruct H|]. destruct H as [->|H]; [now left|right; now apply IH].
Qed.

Section Generic.
Variable A : Type.
Variable leb : A -> A -> bool.
Variable eqb : A -> A -> bool.
Variable enc : A -> Z.
Variable hash : A -> N.
Variable E : Type.
Variable np_hist : list A -> list (E * Z).
Variable hist_merge : list (E * Z) -> list (E * Z) -> list (E * Z).

Variable good : A -> Prop.              (* the values the encoding is monotone on (text: valid code points) *)

Hypothesis ord : total_order leb eqb.
Hypothesis enc_mono : forall a b, good a -> good b -> leb a b = true -> enc a <= enc b.

Let eqb_eq : forall a b, eqb a b = true <-> a = b := proj1 ord.
Let leb_total : forall a b, leb a b = true \/ leb b a = true := proj1 (proj2 ord).
Let leb_trans : forall a b c, leb a b = true -> leb b c = true -> leb a c = true := proj1 (proj2 (proj2 ord)).
Let leb_antisym : forall a b, leb a b = true -> leb b a = true -> a = b := proj2 (proj2 (proj2 ord)).

Lemma leb_refl a : leb a a = true.
Proof. destruct (leb_total a a); assumption. Qed.

Lemma eqb_refl a : eqb a a = true.
Proof. now apply eqb_eq. Qed.

Lemma eqb_neq a b : eqb a b = false <-> a <> b.
Proof.
  split.
  - intros H Heq. apply eqb_eq in Heq. congruence.
  - intro H. destruct (eqb a b) eqn:Hab; [apply eqb_eq in Hab; contradiction|reflexivity].
Qed.

Lemma eqb_sym a b : eqb a b = eqb b a.
Proof.
  destruct (eqb a b) eqn:H1, (eqb b a) eqn:H2; try reflexivity.
  - apply eqb_eq in H1. subst. rewrite eqb_refl in H2. discriminate.
  - apply eqb_eq in H2. subst. rewrite eqb_refl in H1. discriminate.
Qed.

Lemma ltb_true a b : ltb leb a b = true -> leb a b = true.
Proof.
  unfold ltb. intro H. apply negb_true_iff in H.
  destruct (leb_total a b) as [H1|H1]; [assumption|congruence].
Qed.

Lemma ltb_false a b : ltb leb a b = false -> leb b a = true.
Proof. unfold ltb. intro H. now apply negb_false_iff in H. Qed.

(* ---------- extremes ---------- *)
Definition least (m : A) (d : list A) : Prop := In m d /\ forall y, In y d -> leb m y = true.
Definition greatest (m : A) (d : list A) : Prop := In m d /\ forall y, In y d -> leb y m = true.

Lemma min_fold xs : forall m,
  let r := fold_left (fun m y => if ltb leb y m then y else m) xs m in
  (r = m \/ In r xs) /\ leb r m = true /\ forall y, In y xs -> leb r y = true.
Proof.
  induction xs as [|y xs IH]; intro m; cbn [fold_left].
  - split; [now left|]. split; [apply leb_refl|intros y []].
  - destruct (ltb leb y m) eqn:Hlt.
    + destruct (IH y) as (Hin & Hle & Hall). split; [|split].
      * right. destruct Hin as [->|Hin]; [now left|now right].
      * apply leb_trans with y; [assumption|now apply ltb_true].
      * intros z [<-|Hz]; auto.
    + destruct (IH m) as (Hin & Hle & Hall). split; [|split].
      * destruct Hin as [->|Hin]; [now left|right; now right].
      * assumption.
      * intros z [<-|Hz]; auto. apply leb_trans with m; [assumption|now apply ltb_false].
Qed.

Lemma min_of_least x xs : least (min_of leb x xs) (x :: xs).
Proof.
  unfold min_of. destruct (min_fold xs x) as (Hin & Hle & Hall). split.
  - destruct Hin as [->|Hin]; [now left|now right].
  - intros y [<-|Hy]; auto.
Qed.

Lemma max_fold xs : forall m,
  let r := fold_left (fun m y => if ltb leb m y then y else m) xs m in
  (r = m \/ In r xs) /\ leb m r = true /\ forall y, In y xs -> leb y r = true.
Proof.
  induction xs as [|y xs IH]; intro m; cbn [fold_left].
  - split; [now left|]. split; [apply leb_refl|intros y []].
  - destruct (ltb leb m y) eqn:Hlt.
    + destruct (IH y) as (Hin & Hle & Hall). split; [|split].
      * right. destruct Hin as [->|Hin]; [now left|now right].
      * apply leb_trans with y; [now apply ltb_true|assumption].
      * intros z [<-|Hz]; auto.
    + destruct (IH m) as (Hin & Hle & Hall). split; [|split].
      * destruct Hin as [->|Hin]; [now left|right; now right].
      * assumption.
      * intros z [<-|Hz]; auto. apply leb_trans with m; [now apply ltb_false|assumption].
Qed.

Lemma max_of_greatest x xs : greatest (max_of leb x xs) (x :: xs).
Proof.
  unfold max_of. destruct (max_fold xs x) as (Hin & Hle & Hall). split.
  - destruct Hin as [->|Hin]; [now left|now right].
  - intros y [<-|Hy]; auto.
Qed.

(* the encoded least element of a union is the smaller of the encoded least elements *)
Lemma least_app_enc m m1 m2 d1 d2 :
  Forall good d1 -> Forall good d2 ->
  least m (d1 ++ d2) -> least m1 d1 -> least m2 d2 -> enc m = Z.min (enc m1) (enc m2).
Proof.
  intros G1 G2 [Hin Hall] [Hin1 Hall1] [Hin2 Hall2].
  rewrite Forall_forall in G1, G2.
  assert (Gm : good m) by (apply in_app_or in Hin; destruct Hin; auto).
  assert (H1 : enc m <= enc m1) by (apply enc_mono; auto; apply Hall, in_or_app; now left).
  assert (H2 : enc m <= enc m2) by (apply enc_mono; auto; apply Hall, in_or_app; now right).
  apply in_app_or in Hin. destruct Hin as [Hin|Hin].
  - assert (enc m1 <= enc m) by (apply enc_mono; auto). lia.
  - assert (enc m2 <= enc m) by (apply enc_mono; auto). lia.
Qed.

Lemma greatest_app_enc m m1 m2 d1 d2 :
  Forall good d1 -> Forall good d2 ->
  greatest m (d1 ++ d2) -> greatest m1 d1 -> greatest m2 d2 -> enc m = Z.max (enc m1) (enc m2).
Proof.
  intros G1 G2 [Hin Hall] [Hin1 Hall1] [Hin2 Hall2].
  rewrite Forall_forall in G1, G2.
  assert (Gm : good m) by (apply in_app_or in Hin; destruct Hin; auto).
  assert (H1 : enc m1 <= enc m) by (apply enc_mono; auto; apply Hall, in_or_app; now left).
  assert (H2 : enc m2 <= enc m) by (apply enc_mono; auto; apply Hall, in_or_app; now right).
  apply in_app_or in Hin. destruct Hin as [Hin|Hin].
  - assert (enc m <= enc m1) by (apply enc_mono; auto). lia.
  - assert (enc m <= enc m2) by (apply enc_mono; auto). lia.
Qed.

(* ---------- profile_core: count, missing, extremes ---------- *)
Notation core := (profile_core leb eqb enc hash E np_hist).

Lemma core_count wh wo cnt dk d : p_count (core wh wo cnt dk d) = cnt.
Proof. unfold profile_core. destruct d; reflexivity. Qed.

Lemma core_missing wh wo cnt dk d : p_missing (core wh wo cnt dk d) = cnt - zlen d.
Proof. unfold profile_core. destruct d; reflexivity. Qed.

Lemma core_minimum wh wo cnt dk d :
  match p_minimum (core wh wo cnt dk d) with
  | None => d = []
  | Some z => exists m, least m d /\ z = enc m
  end.
Proof.
  unfold profile_core. destruct d as [|x xs]; cbn [p_minimum empty_profile]; [reflexivity|].
  exists (min_of leb x xs). split; [apply min_of_least|reflexivity].
Qed.

Lemma core_maximum wh wo cnt dk d :
  match p_maximum (core wh wo cnt dk d) with
  | None => d = []
  | Some z => exists m, greatest m d /\ z = enc m
  end.
Proof.
  unfold profile_core. destruct d as [|x xs]; cbn [p_maximum empty_profile]; [reflexivity|].
  exists (max_of leb x xs). split; [apply max_of_greatest|reflexivity].
Qed.

(* the minimum is below the encoding of every value, and is the encoding of one of them *)
Lemma core_minimum_bound wh wo cnt dk d z :
  Forall good d ->
  p_minimum (core wh wo cnt dk d) = Some z ->
  (exists m, In m d /\ enc m = z) /\ forall y, In y d -> z <= enc y.
Proof.
  intros G H. pose proof (core_minimum wh wo cnt dk d) as Hm. rewrite H in Hm.
  rewrite Forall_forall in G.
  destruct Hm as (m & [Hin Hall] & ->). split; [now exists m|]. intros y Hy. apply enc_mono; auto.
Qed.

Lemma core_maximum_bound wh wo cnt dk d z :
  Forall good d ->
  p_maximum (core wh wo cnt dk d) = Some z ->
  (exists m, In m d /\ enc m = z) /\ forall y, In y d -> enc y <= z.
Proof.
  intros G H. pose proof (core_maximum wh wo cnt dk d) as Hm. rewrite H in Hm.
  rewrite Forall_forall in G.
  destruct Hm as (m & [Hin Hall] & ->). split; [now exists m|]. intros y Hy. apply enc_mono; auto.
Qed.

(* ---------- additivity ---------- *)
Lemma quad_add_spec (p q : profile A E) :
  quad (add eqb E hist_merge p q) = quad_add (quad p) (quad q).
Proof. reflexivity. Qed.

Lemma core_quad_app wh wo c1 c2 dk1 dk2 d1 d2 :
  Forall good d1 -> Forall good d2 ->
  quad (core wh wo (c1 + c2) (dk1 ++ dk2) (d1 ++ d2)) =
  quad_add (quad (core wh wo c1 dk1 d1)) (quad (core wh wo c2 dk2 d2)).
Proof.
  intros G1 G2. unfold quad, quad_add. rewrite !core_count, !core_missing, zlen_app.
  assert (Hmin : p_minimum (core wh wo (c1 + c2) (dk1 ++ dk2) (d1 ++ d2)) =
                 opt_min (p_minimum (core wh wo c1 dk1 d1)) (p_minimum (core wh wo c2 dk2 d2))).
  { destruct d1 as [|x1 r1]; [destruct d2 as [|x2 r2]; reflexivity|].
    destruct d2 as [|x2 r2].
    - rewrite app_nil_r. reflexivity.
    - cbn [app profile_core p_minimum opt_min]. f_equal.
      change (x1 :: r1 ++ x2 :: r2) with ((x1 :: r1) ++ x2 :: r2).
      apply least_app_enc with (d1 := x1 :: r1) (d2 := x2 :: r2); auto; apply min_of_least. }
  assert (Hmax : p_maximum (core wh wo (c1 + c2) (dk1 ++ dk2) (d1 ++ d2)) =
                 opt_max (p_maximum (core wh wo c1 dk1 d1)) (p_maximum (core wh wo c2 dk2 d2))).
  { destruct d1 as [|x1 r1]; [destruct d2 as [|x2 r2]; reflexivity|].
    destruct d2 as [|x2 r2].
    - rewrite app_nil_r. reflexivity.
    - cbn [app profile_core p_maximum opt_max]. f_equal.
      apply greatest_app_enc with (d1 := x1 :: r1) (d2 := x2 :: r2); auto; apply max_of_greatest. }
  rewrite Hmin, Hmax. f_equal. f_equal. f_equal. lia.
Qed.

(* ---------- histogram mass ---------- *)
Lemma filter_pos_sum (l : list (E * Z)) :
  Forall (fun b => 0 <= snd b) l ->
  sumz (map snd (filter (fun b => 0 <? snd b) l)) = sumz (map snd l).
Proof.
  induction 1 as [|b l Hb Hl IH]; [reflexivity|].
  cbn [filter]. destruct (0 <? snd b) eqn:Hpos; cbn [map sumz fold_right]; fold (sumz (map snd l)).
  - fold (sumz (map snd (filter (fun b => 0 <? snd b) l))). lia.
  - lia.
Qed.

Lemma core_histogram_mass wo cnt dk d :
  Forall (fun b => 0 <= snd b) (np_hist d) ->
  sumz (map snd (np_hist d)) = zlen d ->
  sumz (map snd (p_histogram (core true wo cnt dk d))) = zlen d.
Proof.
  intros Hpos Hsum. unfold profile_core. destruct d as [|x xs]; [reflexivity|].
  cbn [p_histogram]. now rewrite filter_pos_sum.
Qed.

(* ---------- Counter ---------- *)
Definition cnt_of (v : A) (l : list (A * Z)) : Z :=
  match find (fun q => eqb v (fst q)) l with Some q => snd q | None => 0 end.

Lemma bump_cnt x v l : cnt_of v (bump eqb x l) = cnt_of v l + (if eqb v x then 1 else 0).
Proof.
  induction l as [|[y n] l IH]; cbn [bump].
  - unfold cnt_of. cbn [find fst snd]. destruct (eqb v x); reflexivity.
  - destruct (eqb x y) eqn:Hxy.
    + apply eqb_eq in Hxy. subst y. unfold cnt_of. cbn [find fst snd].
      destruct (eqb v x); cbn [snd]; lia.
    + unfold cnt_of in *. cbn [find fst snd]. destruct (eqb v y) eqn:Hvy.
      * apply eqb_eq in Hvy. subst y. rewrite (eqb_sym v x), Hxy. cbn [snd]. lia.
      * exact IH.
Qed.

Lemma bump_keys x l :
  map fst (bump eqb x l) = if existsb (eqb x) (map fst l) then map fst l else map fst l ++ [x].
Proof.
  induction l as [|[y n] l IH]; cbn [bump map fst existsb]; [reflexivity|].
  destruct (eqb x y) eqn:Hxy; cbn [orb map fst]; [reflexivity|].
  rewrite IH. destruct (existsb (eqb x) (map fst l)); reflexivity.
Qed.

Lemma counter_snoc d x : counter eqb (d ++ [x]) = bump eqb x (counter eqb d).
Proof. unfold counter. now rewrite fold_left_app. Qed.

Lemma occ_snoc v d x : occ eqb v (d ++ [x]) = occ eqb v d + (if eqb v x then 1 else 0).
Proof.
  unfold occ. rewrite filter_app, zlen_app. cbn [filter]. destruct (eqb v x); reflexivity.
Qed.

Lemma counter_cnt d v : cnt_of v (counter eqb d) = occ eqb v d.
Proof.
  induction d as [|x d IH] using rev_ind; [reflexivity|].
  now rewrite counter_snoc, bump_cnt, occ_snoc, IH.
Qed.

Lemma existsb_eqb_In x l : existsb (eqb x) l = true <-> In x l.
Proof.
  rewrite existsb_exists. split.
  - intros (y & Hy & He). apply eqb_eq in He. now subst.
  - intro H. exists x. split; [assumption|apply eqb_refl].
Qed.

Lemma NoDup_rev_snoc (l : list A) x : NoDup l -> ~ In x l -> NoDup (l ++ [x]).
Proof.
  intros Hn Hx. induction Hn as [|y l Hy Hn IH]; cbn [app].
  - constructor; [intros []|constructor].
  - constructor.
    + rewrite in_app_iff. intros [H|[<-|[]]]; [contradiction|]. apply Hx. now left.
    + apply IH. intro H. apply Hx. now right.
Qed.

Lemma counter_keys d :
  NoDup (distinct eqb d) /\ forall v, In v (distinct eqb d) <-> In v d.
Proof.
  unfold distinct. induction d as [|x d [IHn IHi]] using rev_ind.
  - split; [constructor|]. intro v. reflexivity.
  - rewrite counter_snoc, bump_keys.
    destruct (existsb (eqb x) (map fst (counter eqb d))) eqn:Hex.
    + apply existsb_eqb_In in Hex. split; [assumption|].
      intro v. rewrite in_app_iff, IHi. cbn [In]. split; [auto|].
      intros [H|[<-|[]]]; [assumption|]. now apply IHi.
    + assert (Hnot : ~ In x (map fst (counter eqb d))).
      { intro H. apply existsb_eqb_In in H. congruence. }
      split.
      * apply NoDup_rev_snoc; assumption.
      * intro v. rewrite !in_app_iff, IHi. reflexivity.
Qed.

(* every counter entry carries the exact number of occurrences, which is positive *)
Lemma cnt_of_In l v n : NoDup (map fst l) -> In (v, n) l -> cnt_of v l = n.
Proof.
  induction l as [|[y k] l IH]; intros Hn Hin; [destruct Hin|].
  cbn [map fst] in Hn. inversion Hn as [|? ? Hy Hn']; subst.
  unfold cnt_of. cbn [find fst]. destruct Hin as [Heq|Hin].
  - inversion Heq; subst. now rewrite eqb_refl.
  - destruct (eqb v y) eqn:Hvy.
    + apply eqb_eq in Hvy. subst y. exfalso. apply Hy. apply in_map_iff. now exists (v, n).
    + apply IH; assumption.
Qed.

Lemma counter_entry d v n : In (v, n) (counter eqb d) -> n = occ eqb v d /\ In v d.
Proof.
  intro Hin. destruct (counter_keys d) as [Hn Hi]. split.
  - rewrite <- counter_cnt. symmetry. now apply cnt_of_In.
  - apply Hi. unfold distinct. apply in_map_iff. now exists (v, n).
Qed.

Lemma occ_pos v d : In v d -> 1 <= occ eqb v d.
Proof.
  unfold occ. induction d as [|x d IH]; [intros []|].
  intros [->|Hin]; cbn [filter].
  - rewrite eqb_refl, zlen_cons. pose proof (zlen_nonneg (filter (eqb v) d)). lia.
  - destruct (eqb v x); [rewrite zlen_cons|]; specialize (IH Hin); lia.
Qed.

(* ---------- the stable descending sort ---------- *)
Definition desc (p q : A * Z) : Prop := snd q <= snd p.

Lemma insert_desc_perm (p : A * Z) l : Permutation (insert_desc p l) (p :: l).
Proof.
  induction l as [|q l IH]; cbn [insert_desc]; [reflexivity|].
  destruct (snd p <? snd q); [|reflexivity].
  rewrite IH. apply perm_swap.
Qed.

Lemma sort_desc_perm (l : list (A * Z)) : Permutation (sort_desc l) l.
Proof.
  induction l as [|p l IH]; [reflexivity|].
  cbn [sort_desc fold_right]. fold (sort_desc l). now rewrite insert_desc_perm, IH.
Qed.

Lemma insert_desc_sorted (p : A * Z) l : StronglySorted desc l -> StronglySorted desc (insert_desc p l).
Proof.
  induction 1 as [|q l Hs IH Hq]; cbn [insert_desc].
  - constructor; constructor.
  - destruct (snd p <? snd q) eqn:Hlt.
    + constructor; [assumption|].
      apply Forall_forall. intros r Hr.
      apply (Permutation_in _ (insert_desc_perm p l)) in Hr. destruct Hr as [<-|Hr].
      * unfold desc. lia.
      * rewrite Forall_forall in Hq. now apply Hq.
    + constructor; [constructor; assumption|].
      constructor; [unfold desc; lia|].
      rewrite Forall_forall in Hq |- *. intros r Hr. specialize (Hq r Hr). unfold desc in *. lia.
Qed.

Lemma sort_desc_sorted (l : list (A * Z)) : StronglySorted desc (sort_desc l).
Proof.
  induction l as [|p l IH]; [constructor|].
  cbn [sort_desc fold_right]. now apply insert_desc_sorted.
Qed.

Lemma sorted_firstn_skipn n (l : list (A * Z)) :
  StronglySorted desc l -> forall p q, In p (firstn n l) -> In q (skipn n l) -> snd q <= snd p.
Proof.
  intro Hs. revert n. induction Hs as [|r l Hs IH Hr]; intros n p q Hp Hq.
  - destruct n; destruct Hp.
  - destruct n as [|n]; [destruct Hp|].
    cbn [firstn skipn] in *. destruct Hp as [<-|Hp].
    + rewrite Forall_forall in Hr. apply Hr. eapply (In_skipn n). exact Hq.
    + eapply IH; eassumption.
Qed.

Lemma NoDup_firstn {B} n (l : list B) : NoDup l -> NoDup (firstn n l).
Proof.
  intro H. revert n. induction H as [|x l Hx Hn IH]; intro n; destruct n; cbn [firstn]; try constructor.
  - intro Hin. apply Hx. now apply In_firstn in Hin.
  - apply IH.
Qed.

(* ---------- most frequent values ---------- *)
Lemma most_common_spec n d :
  let m := most_common eqb n d in
  NoDup (map fst m) /\
  (forall v k, In (v, k) m -> k = occ eqb v d /\ In v d) /\
  (forall v, In v d -> ~ In v (map fst m) -> forall w k, In (w, k) m -> occ eqb v d <= k) /\
  length m = Nat.min n (length (distinct eqb d)).
Proof.
  unfold most_common. set (srt := sort_desc (counter eqb d)).
  assert (Hperm : Permutation srt (counter eqb d)) by apply sort_desc_perm.
  destruct (counter_keys d) as [Hnd Hkeys]. unfold distinct in Hnd, Hkeys.
  assert (Hnd' : NoDup (map fst srt)).
  { eapply Permutation_NoDup; [|exact Hnd]. apply Permutation_map. now symmetry. }
  split; [|split; [|split]].
  - rewrite <- firstn_map. now apply NoDup_firstn.
  - intros v k Hin. apply In_firstn in Hin. apply (Permutation_in _ Hperm) in Hin.
    now apply counter_entry.
  - intros v Hv Hnot w k Hw.
    apply Hkeys in Hv. apply in_map_iff in Hv. destruct Hv as ([v' n'] & Hfst & Hin). cbn [fst] in Hfst. subst v'.
    destruct (counter_entry d v n' Hin) as [-> _].
    apply (Permutation_in _ (Permutation_sym Hperm)) in Hin.
    rewrite <- (firstn_skipn n srt) in Hin. apply in_app_or in Hin. destruct Hin as [Hin|Hin].
    + exfalso. apply Hnot. apply in_map_iff. now exists (v, occ eqb v d).
    + apply (sorted_firstn_skipn n srt (sort_desc_sorted _) (w, k) (v, occ eqb v d) Hw Hin).
  - rewrite firstn_length. f_equal. unfold distinct. rewrite map_length.
    now apply Permutation_length.
Qed.

(* ---------- the sketch ---------- *)
Lemma insertN_length x l : length (insertN x l) = S (length l).
Proof.
  induction l as [|y l IH]; [reflexivity|]. cbn [insertN]. destruct (x <=? y)%N; cbn [length]; [reflexivity|].
  now rewrite IH.
Qed.

Lemma sortN_length l : length (sortN l) = length l.
Proof.
  induction l as [|x l IH]; [reflexivity|]. cbn [sortN fold_right]. fold (sortN l).
  now rewrite insertN_length, IH.
Qed.

Lemma kmv_length size d : length (kmv_of eqb hash size d) = Nat.min size (length (distinct eqb d)).
Proof. unfold kmv_of. now rewrite firstn_length, sortN_length, map_length. Qed.

Lemma core_estimate wh wo cnt dk d :
  (d = [] <-> dk = []) ->
  (length (distinct eqb dk) < KVM_SIZE)%nat ->
  estimate_cardinality (profile_core leb eqb enc hash E np_hist wh wo cnt dk d) = Some (zlen (distinct eqb dk)).
Proof.
  intros Hnil Hlt. unfold estimate_cardinality, profile_core. destruct d as [|x xs].
  - cbn [p_kmv empty_profile]. rewrite (proj1 Hnil eq_refl). reflexivity.
  - cbn [p_kmv]. pose proof (kmv_length KVM_SIZE dk) as Hlen.
    rewrite Nat.min_r in Hlen by lia.
    destruct (kmv_of eqb hash KVM_SIZE dk) as [|h hs] eqn:Hk.
    + cbn [length] in Hlen. unfold zlen. now rewrite <- Hlen.
    + replace (Nat.ltb (length (h :: hs)) KVM_SIZE) with true
        by (symmetry; apply Nat.ltb_lt; lia).
      unfold zlen. now rewrite Hlen.
Qed.

(* ---------- order and transitions ---------- *)
Definition enc_flags (u dn : bool) : option Z :=
  match u, dn with
  | false, false => None
  | true, false => Some 1
  | false, true => Some (-1)
  | true, true => Some 0
  end.

Lemma ot_step_spec u dn tr last v :
  ot_step leb eqb (enc_flags u dn, tr, last) v =
  (enc_flags (u || ltb leb last v) (dn || ltb leb v last), tr + (if eqb v last then 0 else 1), v).
Proof.
  unfold ot_step. destruct (eqb v last) eqn:Heq; cbn [negb].
  - apply eqb_eq in Heq. subst v. unfold ltb. rewrite leb_refl. cbn [negb].
    rewrite !orb_false_r, Z.add_0_r. reflexivity.
  - apply eqb_neq in Heq. unfold ltb.
    destruct (leb last v) eqn:H1, (leb v last) eqn:H2.
    + exfalso. apply Heq. now apply leb_antisym.
    + destruct u, dn; reflexivity.
    + destruct u, dn; reflexivity.
    + destruct (leb_total last v); congruence.
Qed.

Lemma ot_fold xs : forall u dn tr last,
  fst (fold_left (ot_step leb eqb) xs (enc_flags u dn, tr, last)) =
  (enc_flags (u || has_up leb last xs) (dn || has_down leb last xs), tr + trans_count eqb last xs).
Proof.
  induction xs as [|v xs IH]; intros u dn tr last; cbn [fold_left has_up has_down trans_count].
  - now rewrite !orb_false_r, Z.add_0_r.
  - rewrite ot_step_spec, IH. rewrite !orb_assoc. f_equal. lia.
Qed.

Lemma order_transitions_spec x xs :
  order_transitions leb eqb x xs = (order_spec leb x xs, trans_count eqb x xs).
Proof.
  unfold order_transitions. change (@None Z) with (enc_flags false false).
  rewrite ot_fold. cbn [orb]. unfold order_spec, enc_flags. rewrite Z.add_0_l.
  destruct (has_up leb x xs), (has_down leb x xs); reflexivity.
Qed.

(* transitions counts the adjacent pairs that differ; a rise / fall is such a pair *)
Lemma core_order_transitions wh cnt dk x xs :
  let p := profile_core leb eqb enc hash E np_hist wh true cnt dk (x :: xs) in
  p_order p = order_spec leb x xs /\ p_transitions p = trans_count eqb x xs.
Proof. cbn [profile_core p_order p_transitions]. rewrite order_transitions_spec. now split. Qed.
End Generic.

(* ---------- batching (TableProfile.from_dataframe) ---------- *)
Lemma chunks_concat {X} n : (0 < n)%nat ->
  forall fuel (l : list X), (length l <= fuel)%nat -> concat (chunks fuel n l) = l.
Proof.
  intros Hn fuel. induction fuel as [|f IH]; intros l Hl.
  - destruct l; [reflexivity|cbn [length] in Hl; lia].
  - destruct l as [|x l]; [reflexivity|].
    cbn [chunks concat]. rewrite IH.
    + apply firstn_skipn.
    + rewrite skipn_length. cbn [length] in *. lia.
Qed.

Lemma chunks_nil_iff {X} fuel n (l : list X) : (length l <= fuel)%nat -> (chunks fuel n l = [] <-> l = []).
Proof.
  intro Hl. destruct fuel as [|f].
  - destruct l; [split; reflexivity|cbn [length] in Hl; lia].
  - destruct l; cbn [chunks]; split; try reflexivity; discriminate.
Qed.

Section Frame.
Variables (A E X : Type) (eqb : A -> A -> bool) (hist_merge : list (E * Z) -> list (E * Z) -> list (E * Z)).
Variable prof : list X -> profile A E.
(* the profiler is additive on the four fields *)
Hypothesis prof_additive :
  forall c1 c2, quad (prof (c1 ++ c2)) = quad_add (quad (prof c1)) (quad (prof c2)).

Lemma fold_add_quad bs : forall p c0,
  quad p = quad (prof c0) ->
  quad (fold_left (add eqb E hist_merge) (map prof bs) p) = quad (prof (c0 ++ concat bs)).
Proof.
  induction bs as [|b bs IH]; intros p c0 Hp; cbn [map fold_left concat].
  - now rewrite app_nil_r.
  - rewrite app_assoc. apply IH.
    rewrite quad_add_spec, Hp. symmetry. apply prof_additive.
Qed.

Lemma profile_frame_quad c :
  (0 < BATCH_SIZE) ->
  match profile_frame eqb E hist_merge prof c with
  | None => c = []
  | Some p => c <> [] /\ quad p = quad (prof c)
  end.
Proof.
  intro Hb. unfold profile_frame.
  assert (Hn : (0 < Z.to_nat BATCH_SIZE)%nat) by lia.
  pose proof (chunks_concat _ Hn (length c) c (le_n _)) as Hcat.
  pose proof (chunks_nil_iff (length c) (Z.to_nat BATCH_SIZE) c (le_n _)) as Hnil.
  destruct (chunks (length c) (Z.to_nat BATCH_SIZE) c) as [|b bs]; cbn [map].
  - now apply Hnil.
  - split.
    + intro H. apply Hnil in H. discriminate.
    + cbn [concat] in Hcat. rewrite <- Hcat. now apply fold_add_quad.
Qed.
End Frame.

(* ---------- numbers ---------- *)
Lemma Z_total_order : total_order Z.leb Z.eqb.
Proof.
  repeat split.
  - apply Z.eqb_eq.
  - intros ->. apply Z.eqb_refl.
  - intros a b. destruct (Z.leb_spec a b); [now left|right; apply Z.leb_le; lia].
  - intros a b c H1 H2. apply Z.leb_le in H1, H2. apply Z.leb_le. lia.
  - intros a b H1 H2. apply Z.leb_le in H1, H2. lia.
Qed.

Lemma trunc_mono scale : 0 < scale -> forall a b, True -> True -> Z.leb a b = true -> trunc_z scale a <= trunc_z scale b.
Proof.
  intros Hs a b _ _ H. apply Z.leb_le in H. unfold trunc_z. now apply Z.quot_le_mono.
Qed.

Lemma Forall_True {B} (l : list B) : Forall (fun _ => True) l.
Proof. induction l; constructor; auto. Qed.

(* int() truncates toward zero: the result is the integer part, of the same sign *)
Lemma trunc_toward_zero scale z : 0 < scale ->
  Z.abs (trunc_z scale z) * scale <= Z.abs z < (Z.abs (trunc_z scale z) + 1) * scale /\
  (0 <= z -> 0 <= trunc_z scale z) /\ (z <= 0 -> trunc_z scale z <= 0).
Proof.
  intro Hs. unfold trunc_z.
  pose proof (Z.quot_rem z scale ltac:(lia)) as Hqr.
  pose proof (Z.rem_bound_pos (Z.abs z) scale ltac:(lia) Hs) as Hb.
  destruct (Z_le_gt_dec 0 z) as [Hz|Hz].
  - pose proof (Z.quot_pos z scale Hz Hs).
    pose proof (Z.rem_bound_pos z scale Hz Hs). repeat split; try lia; nia.
  - assert (Hneg : z = - (- z)) by lia.
    pose proof (Z.quot_opp_l (-z) scale ltac:(lia)) as Hq. rewrite <- Hneg in Hq.
    pose proof (Z.quot_pos (-z) scale ltac:(lia) Hs) as Hp.
    pose proof (Z.quot_rem (-z) scale ltac:(lia)) as Hqr'.
    pose proof (Z.rem_bound_pos (-z) scale ltac:(lia) Hs) as Hb'.
    repeat split; try lia; nia.
Qed.

(* ---------- the profilers without extremes ---------- *)
Lemma profile_bool_quad {E} (c : list (option bool)) :
  quad (@profile_bool E c) = (zlen c, zlen (filter is_none c), None, None).
Proof.
  unfold profile_bool. rewrite nonnull_missing. destruct (nonnull c); reflexivity.
Qed.

Lemma filter_none_app {B} (a b : list (option B)) :
  zlen (filter is_none (a ++ b)) = zlen (filter is_none a) + zlen (filter is_none b).
Proof. now rewrite filter_app, zlen_app. Qed.

Lemma profile_bool_additive {E} (c1 c2 : list (option bool)) :
  quad (@profile_bool E (c1 ++ c2)) = quad_add (quad (@profile_bool E c1)) (quad (@profile_bool E c2)).
Proof.
  rewrite !profile_bool_quad. unfold quad_add. rewrite zlen_app, filter_none_app. reflexivity.
Qed.

Lemma profile_bool_mfv {E} (c : list (option bool)) :
  nonnull c <> [] ->
  p_mfv (@profile_bool E c) = [(true, occ Bool.eqb true (nonnull c)); (false, occ Bool.eqb false (nonnull c))].
Proof. unfold profile_bool. destruct (nonnull c) eqn:H; [congruence|]. reflexivity. Qed.

Lemma occ_bool_total (d : list bool) : occ Bool.eqb true d + occ Bool.eqb false d = zlen d.
Proof.
  unfold occ. induction d as [|b d IH]; [reflexivity|].
  cbn [filter]. destruct b; cbn [Bool.eqb]; rewrite !zlen_cons; lia.
Qed.

Lemma profile_plain_additive {V E B} (c1 c2 : list (option B)) :
  quad (@profile_plain V E B (c1 ++ c2)) = quad_add (quad (@profile_plain V E B c1)) (quad (@profile_plain V E B c2)).
Proof. unfold profile_plain, quad, quad_add. cbn. now rewrite zlen_app, filter_none_app. Qed.

Lemma profile_default_additive {V E} (c1 c2 : list ucell) :
  quad (@profile_default V E (c1 ++ c2)) = quad_add (quad (@profile_default V E c1)) (quad (@profile_default V E c2)).
Proof. unfold profile_default, quad, quad_add. cbn. now rewrite filter_app, !zlen_app. Qed.

(* ---------- the sketch of a sum (ColumnProfile.__add__), hash injective on the sample ---------- *)
Lemma insertN_perm x l : Permutation (insertN x l) (x :: l).
Proof.
  induction l as [|y l IH]; cbn [insertN]; [reflexivity|].
  destruct (x <=? y)%N; [reflexivity|]. rewrite IH. apply perm_swap.
Qed.

Lemma sortN_perm l : Permutation (sortN l) l.
Proof.
  induction l as [|x l IH]; [reflexivity|]. cbn [sortN fold_right]. fold (sortN l).
  now rewrite insertN_perm, IH.
Qed.

Lemma existsb_Neqb_In x l : existsb (N.eqb x) l = true <-> In x l.
Proof.
  rewrite existsb_exists. split.
  - intros (y & Hy & He). apply N.eqb_eq in He. now subst.
  - intro H. exists x. split; [assumption|apply N.eqb_refl].
Qed.

Lemma dedupN_spec l : NoDup (dedupN l) /\ forall x, In x (dedupN l) <-> In x l.
Proof.
  induction l as [|y l [IHn IHi]]; [split; [constructor|tauto]|].
  cbn [dedupN]. destruct (existsb (N.eqb y) l) eqn:Hex.
  - apply existsb_Neqb_In in Hex. split; [assumption|]. intro x. rewrite IHi. cbn [In].
    split; [auto|intros [<-|H]; auto].
  - assert (Hnot : ~ In y l) by (intro H; apply existsb_Neqb_In in H; congruence).
    split.
    + constructor; [now rewrite IHi|assumption].
    + intro x. cbn [In]. now rewrite IHi.
Qed.

Lemma NoDup_map_inj_in {B C} (f : B -> C) (l : list B) :
  (forall a b, In a l -> In b l -> f a = f b -> a = b) -> NoDup l -> NoDup (map f l).
Proof.
  intros Hinj Hn. induction Hn as [|x l Hx Hn IH]; cbn [map]; constructor.
  - intro H. apply in_map_iff in H. destruct H as (y & Hy & Hin).
    assert (y = x) by (apply Hinj; [now right|now left|assumption]). subst. contradiction.
  - apply IH. intros a b Ha Hb. apply Hinj; now right.
Qed.

Section SketchSum.
Variable A : Type.
Variable leb : A -> A -> bool.
Variable eqb : A -> A -> bool.
Variable enc : A -> Z.
Variable hash : A -> N.
Variable E : Type.
Variable np_hist : list A -> list (E * Z).
Variable hist_merge : list (E * Z) -> list (E * Z) -> list (E * Z).
Hypothesis ord : total_order leb eqb.

Lemma distinct_app_incl d1 d2 :
  (length (distinct eqb d1) <= length (distinct eqb (d1 ++ d2)))%nat /\
  (length (distinct eqb d2) <= length (distinct eqb (d1 ++ d2)))%nat.
Proof.
  destruct (counter_keys A leb eqb ord d1) as [N1 I1].
  destruct (counter_keys A leb eqb ord d2) as [N2 I2].
  destruct (counter_keys A leb eqb ord (d1 ++ d2)) as [N12 I12].
  split; apply NoDup_incl_length; auto; intros x Hx; apply I12, in_or_app;
    [left; now apply I1|right; now apply I2].
Qed.

Lemma kmv_small d : (length (distinct eqb d) < KVM_SIZE)%nat ->
  kmv_of eqb hash KVM_SIZE d = sortN (map hash (distinct eqb d)).
Proof.
  intro H. unfold kmv_of. apply firstn_all2. rewrite sortN_length, map_length. lia.
Qed.

Lemma sum_estimate wh wo c1 c2 dk1 dk2 d1 d2 :
  (d1 = [] <-> dk1 = []) -> (d2 = [] <-> dk2 = []) -> dk1 <> [] -> dk2 <> [] ->
  (forall a b, In a (dk1 ++ dk2) -> In b (dk1 ++ dk2) -> hash a = hash b -> a = b) ->
  (length (distinct eqb (dk1 ++ dk2)) < KVM_SIZE)%nat ->
  estimate_cardinality
    (add eqb E hist_merge (profile_core leb eqb enc hash E np_hist wh wo c1 dk1 d1)
                          (profile_core leb eqb enc hash E np_hist wh wo c2 dk2 d2))
  = Some (zlen (distinct eqb (dk1 ++ dk2))).
Proof.
  intros Hn1 Hn2 Hne1 Hne2 Hinj Hlt.
  destruct (distinct_app_incl dk1 dk2) as [L1 L2].
  destruct (counter_keys A leb eqb ord dk1) as [N1 I1].
  destruct (counter_keys A leb eqb ord dk2) as [N2 I2].
  destruct (counter_keys A leb eqb ord (dk1 ++ dk2)) as [N12 I12].
  assert (K1 : p_kmv (profile_core leb eqb enc hash E np_hist wh wo c1 dk1 d1) = sortN (map hash (distinct eqb dk1))).
  { unfold profile_core. destruct d1 as [|x xs]; [exfalso; apply Hne1; now apply Hn1|].
    cbn [p_kmv]. apply kmv_small. lia. }
  assert (K2 : p_kmv (profile_core leb eqb enc hash E np_hist wh wo c2 dk2 d2) = sortN (map hash (distinct eqb dk2))).
  { unfold profile_core. destruct d2 as [|x xs]; [exfalso; apply Hne2; now apply Hn2|].
    cbn [p_kmv]. apply kmv_small. lia. }
  set (k1 := sortN (map hash (distinct eqb dk1))) in *.
  set (k2 := sortN (map hash (distinct eqb dk2))) in *.
  assert (Hk1 : k1 <> []).
  { intro H. apply (f_equal (@length N)) in H. unfold k1 in H. rewrite sortN_length, map_length in H.
    destruct dk1 as [|x r]; [congruence|]. assert (In x (distinct eqb (x :: r))) by (apply I1; now left).
    destruct (distinct eqb (x :: r)); [contradiction|discriminate]. }
  assert (Hk2 : k2 <> []).
  { intro H. apply (f_equal (@length N)) in H. unfold k2 in H. rewrite sortN_length, map_length in H.
    destruct dk2 as [|x r]; [congruence|]. assert (In x (distinct eqb (x :: r))) by (apply I2; now left).
    destruct (distinct eqb (x :: r)); [contradiction|discriminate]. }
  (* the merged sketch has one hash per distinct value *)
  assert (Hlen : length (dedupN (k1 ++ k2)) = length (distinct eqb (dk1 ++ dk2))).
  { destruct (dedupN_spec (k1 ++ k2)) as [Nd Id].
    rewrite <- (map_length hash (distinct eqb (dk1 ++ dk2))).
    apply Permutation_length. apply NoDup_Permutation; [assumption| |].
    - apply NoDup_map_inj_in; [|assumption].
      intros a b Ha Hb. apply Hinj; now apply I12.
    - intro h. rewrite Id, in_app_iff. unfold k1, k2.
      rewrite (in_map_iff hash (distinct eqb (dk1 ++ dk2))).
      split.
      + intros [H|H]; apply (Permutation_in _ (sortN_perm _)) in H; apply in_map_iff in H;
          destruct H as (a & <- & Ha); exists a; split; auto; apply I12, in_or_app;
          [left; now apply I1|right; now apply I2].
      + intros (a & <- & Ha). apply I12, in_app_or in Ha. destruct Ha as [Ha|Ha]; [left|right];
          apply (Permutation_in _ (Permutation_sym (sortN_perm _))); apply in_map; [now apply I1|now apply I2]. }
  unfold estimate_cardinality, add. cbn [p_kmv]. rewrite K1, K2.
  destruct k1 as [|h1 t1] eqn:E1; [congruence|]. destruct k2 as [|h2 t2] eqn:E2; [congruence|].
  cbn [is_nil orb]. rewrite <- E1, <- E2 in *.
  assert (Hm : length (firstn KVM_SIZE (sortN (dedupN (k1 ++ k2)))) = length (distinct eqb (dk1 ++ dk2))).
  { rewrite firstn_length, sortN_length, Hlen. lia. }
  destruct (firstn KVM_SIZE (sortN (dedupN (k1 ++ k2)))) as [|h t] eqn:Ef.
  - cbn [length] in Hm. unfold zlen. now rewrite <- Hm.
  - replace (Nat.ltb (length (h :: t)) KVM_SIZE) with true by (symmetry; apply Nat.ltb_lt; lia).
    unfold zlen. now rewrite Hm.
Qed.
End SketchSum.
