(* C19, round 6 - the DataFrame session model: as long as no schema object is changed in place, the shared
   single-item caches behind column_names / columncount are unobservable. *)
From Coq Require Import List ZArith NArith Bool Lia.
From Orso Require Import Model.C19.
Import ListNotations.

Definition df_inv (st : df_st) : Prop :=
  (match d_cn st with Some (g, v) => df_schema st g = Some v | None => True end) /\
  (match d_cc st with Some (g, n) => exists l, df_schema st g = Some l /\ n = length l | None => True end).

Definition df_same (a b : df_st) : Prop := d_sch a = d_sch b /\ d_fr a = d_fr b.

Lemma nth_error_app_some {X} (l e : list X) n v : nth_error l n = Some v -> nth_error (l ++ e) n = Some v.
Proof. intros H. rewrite nth_error_app1; auto. apply nth_error_Some. congruence. Qed.

Lemma df_schema_more_sch st g v vals cn cc :
  df_schema st g = Some v -> df_schema (mkDF (d_sch st ++ [vals]) (d_fr st) cn cc) g = Some v.
Proof.
  unfold df_schema. cbn [d_fr d_sch]. destruct (nth_error (d_fr st) g); [|discriminate]. apply nth_error_app_some.
Qed.

Lemma df_schema_more_fr st g v s cn cc :
  df_schema st g = Some v -> df_schema (mkDF (d_sch st) (d_fr st ++ [s]) cn cc) g = Some v.
Proof.
  unfold df_schema. cbn [d_fr d_sch]. destruct (nth_error (d_fr st) g) eqn:E; [|discriminate].
  rewrite (nth_error_app_some _ [s] _ _ E). auto.
Qed.

Lemma df_step_agree st sp o :
  df_inplace o = false -> df_inv st -> df_same st sp ->
  df_inv (fst (df_step st o)) /\ df_same (fst (df_step st o)) (fst (df_spec_step sp o)) /\
  snd (df_step st o) = snd (df_spec_step sp o).
Proof.
  intros Hp [Hn Hc] [Es Ef].
  assert (Esch : forall fr, df_schema sp fr = df_schema st fr) by (intros fr; unfold df_schema; rewrite Es, Ef; reflexivity).
  destruct o as [vals|s|s v|s v|s|fr|fr]; try discriminate; cbn [df_step df_spec_step].
  - cbn [fst snd]. split; [|split; [split; cbn; congruence|reflexivity]].
    split; cbn [d_cn d_cc].
    + destruct (d_cn st) as [[g v]|]; auto. apply df_schema_more_sch. exact Hn.
    + destruct (d_cc st) as [[g n]|]; auto. destruct Hc as (l & H1 & H2). exists l. split; auto. apply df_schema_more_sch. exact H1.
  - rewrite <- Es. destruct (Nat.ltb s (length (d_sch st))); cbn [fst snd]; [|split; [split; auto|split; [split; auto|reflexivity]]].
    split; [|split; [split; cbn; congruence|reflexivity]].
    split; cbn [d_cn d_cc].
    + destruct (d_cn st) as [[g v]|]; auto. apply df_schema_more_fr. exact Hn.
    + destruct (d_cc st) as [[g n]|]; auto. destruct Hc as (l & H1 & H2). exists l. split; auto. apply df_schema_more_fr. exact H1.
  - rewrite Esch. destruct (df_schema st fr) as [cur|] eqn:Ecur; [|cbn; split; [split; auto|split; [split; auto|reflexivity]]].
    assert (Hmiss : df_inv (mkDF (d_sch st) (d_fr st) (Some (fr, cur)) (d_cc st))).
    { split; cbn [d_cn d_cc]; [exact Ecur|]. destruct (d_cc st) as [[g n]|]; auto. }
    destruct (d_cn st) as [[g v]|] eqn:Ecn.
    + destruct (Nat.eqb g fr) eqn:Eg; cbn [fst snd].
      * apply Nat.eqb_eq in Eg. subst g. rewrite Ecur in Hn. injection Hn as <-.
        split; [split; [rewrite Ecn; exact Ecur|exact Hc]|split; [split; auto|reflexivity]].
      * split; [exact Hmiss|split; [split; auto|reflexivity]].
    + cbn [fst snd]. split; [exact Hmiss|split; [split; auto|reflexivity]].
  - rewrite Esch. destruct (df_schema st fr) as [cur|] eqn:Ecur; [|cbn; split; [split; auto|split; [split; auto|reflexivity]]].
    assert (Hmiss : df_inv (mkDF (d_sch st) (d_fr st) (d_cn st) (Some (fr, length cur)))).
    { split; cbn [d_cn d_cc]; [destruct (d_cn st) as [[g v]|]; auto|]. exists cur. auto. }
    destruct (d_cc st) as [[g n]|] eqn:Ecc.
    + destruct (Nat.eqb g fr) eqn:Eg; cbn [fst snd].
      * apply Nat.eqb_eq in Eg. subst g. destruct Hc as (l & H1 & H2). rewrite Ecur in H1. injection H1 as <-. subst n.
        split; [split; [exact Hn|rewrite Ecc; exists cur; auto]|split; [split; auto|reflexivity]].
      * split; [exact Hmiss|split; [split; auto|reflexivity]].
    + cbn [fst snd]. split; [exact Hmiss|split; [split; auto|reflexivity]].
Qed.

Lemma df_run_agree ops : forall st sp,
  existsb df_inplace ops = false -> df_inv st -> df_same st sp ->
  snd (df_run st ops) = snd (df_spec sp ops).
Proof.
  induction ops as [|o r IH]; intros st sp Hp Hi Hs; cbn [df_run df_spec]; auto.
  cbn [existsb] in Hp. apply orb_false_iff in Hp as [Ho Hr].
  destruct (df_step_agree st sp o Ho Hi Hs) as (Hi' & Hs' & Eo).
  destruct (df_step st o) as [s1 o1]. destruct (df_spec_step sp o) as [p1 q1]. cbn [fst snd] in *.
  specialize (IH s1 p1 Hr Hi' Hs'). destruct (df_run s1 r) as [s2 o2]. destruct (df_spec p1 r) as [p2 q2].
  cbn [snd] in *. rewrite Eo, IH. reflexivity.
Qed.

(* no schema object changed in place: every lookup, on any frame, in any order, answers what that frame's own schema
   object spells - whatever other frames were looked up before, also when frames share a schema object or have equal
   schemas *)
Theorem df_cache_unobservable ops :
  existsb df_inplace ops = false -> snd (df_run df_init ops) = snd (df_spec df_init ops).
Proof.
  intros H. apply df_run_agree; auto. - split; exact I. - split; reflexivity.
Qed.
