(* C19 - lemmas about the sequential models of single_item_cache and lru_cache_with_expiry. *)
From Coq Require Import List ZArith NArith Bool Lia Sorted.
From Orso Require Import Model.C19.
Import ListNotations.


Section Seq.
Variables A K R : Type.
Variable key : A -> K.
Variable keqb : K -> K -> bool.
Variable f : A -> N -> R.
Variable valid : option Z.

Notation outcome := (@outcome A R).
Notation sic_st := (@sic_st A R).

Lemma count_miss_snoc (tr : list outcome) o :
  count_miss (tr ++ [o]) = if o_hit o then count_miss tr else N.succ (count_miss tr).
Proof.
  unfold count_miss, is_miss. rewrite filter_app, app_length. cbn [filter].
  destruct (o_hit o); cbn [negb length]; lia.
Qed.

Lemma last_miss_snoc (tr : list outcome) o :
  last_miss (rev (tr ++ [o])) = if o_hit o then last_miss (rev tr) else Some o.
Proof. rewrite rev_app_distr. reflexivity. Qed.

(* the state is what the history says: invocation counter = number of misses, entry = last invocation *)
Definition sic_rel (s : sic_st) (past : list outcome) : Prop :=
  s_calls s = count_miss past /\
  s_entry s = match last_miss (rev past) with
              | Some p => Some (o_arg p, o_res p, o_now p)
              | None => None
              end.

Lemma sic_call_expect s past a :
  sic_rel s past ->
  snd (sic_call key keqb f valid s a) = sic_expect key keqb f valid past a (s_now s) /\
  sic_rel (fst (sic_call key keqb f valid s a)) (past ++ [snd (sic_call key keqb f valid s a)]) /\
  s_now (fst (sic_call key keqb f valid s a)) = s_now s.
Proof.
  intros [Hc He]. unfold sic_call, sic_expect, sic_rel. rewrite He.
  destruct (last_miss (rev past)) as [p|] eqn:Elm.
  - destruct (keqb (key (o_arg p)) (key a) && fresh valid (s_now s) (o_now p)) eqn:Econd.
    + cbn [fst snd]. rewrite count_miss_snoc, last_miss_snoc. cbn [o_hit]. rewrite Elm. auto.
    + unfold sic_miss. cbn [fst snd s_calls s_entry s_now]. rewrite count_miss_snoc, last_miss_snoc. cbn [o_hit o_arg o_res o_now].
      rewrite Hc. auto.
  - unfold sic_miss. cbn [fst snd s_calls s_entry s_now]. rewrite count_miss_snoc, last_miss_snoc. cbn [o_hit o_arg o_res o_now].
    rewrite Hc. auto.
Qed.

Lemma sic_run_rel h : forall s past,
  sic_rel s past ->
  sic_rel (fst (sic_run key keqb f valid s h)) (past ++ snd (sic_run key keqb f valid s h)) /\
  snd (sic_run key keqb f valid s h) = sic_spec key keqb f valid (s_now s) past h.
Proof.
  induction h as [|[a|d] h IH]; intros s past Hrel.
  - cbn. rewrite app_nil_r. auto.
  - cbn [sic_run sic_spec].
    destruct (sic_call_expect s past a Hrel) as (Ho & Hrel' & Hnow).
    destruct (sic_call key keqb f valid s a) as [s1 o] eqn:Ecall. cbn [fst snd] in *.
    specialize (IH s1 (past ++ [o]) Hrel'). destruct (sic_run key keqb f valid s1 h) as [s2 os] eqn:Erun.
    cbn [fst snd] in *. destruct IH as [IH1 IH2]. rewrite <- app_assoc in IH1. cbn [app] in IH1.
    split; [exact IH1|]. rewrite IH2, Hnow, Ho. reflexivity.
  - cbn [sic_run sic_spec]. apply (IH (sic_tick s d) past). exact Hrel.
Qed.

Lemma sic_init_rel t0 : sic_rel (sic_init t0) [].
Proof. split; reflexivity. Qed.

Theorem sic_refines t0 h :
  snd (sic_run key keqb f valid (sic_init t0) h) = sic_spec key keqb f valid t0 [] h.
Proof. exact (proj2 (sic_run_rel h (sic_init t0) [] (sic_init_rel t0))). Qed.

Theorem sic_invocations t0 h :
  s_calls (fst (sic_run key keqb f valid (sic_init t0) h)) = count_miss (snd (sic_run key keqb f valid (sic_init t0) h)).
Proof. exact (proj1 (proj1 (sic_run_rel h (sic_init t0) [] (sic_init_rel t0)))). Qed.

Lemma sic_expect_arg past a now :
  o_arg (sic_expect key keqb f valid past a now) = a /\ o_now (sic_expect key keqb f valid past a now) = now.
Proof. unfold sic_expect. destruct (last_miss (rev past)) as [q|]; [destruct (_ && _)|]; split; reflexivity. Qed.

(* every element of the specification trace is what sic_expect says for its own prefix *)
Lemma sic_spec_split h : forall now past p1 o rest,
  sic_spec key keqb f valid now past h = p1 ++ o :: rest ->
  o = sic_expect key keqb f valid (past ++ p1) (o_arg o) (o_now o).
Proof.
  induction h as [|[a|d] h IH]; intros now past p1 o rest E.
  - destruct p1; discriminate.
  - cbn [sic_spec] in E. destruct p1 as [|x p1].
    + cbn [app] in E. injection E as E1 E2. rewrite app_nil_r. rewrite <- E1.
      rewrite (proj1 (sic_expect_arg past a now)), (proj2 (sic_expect_arg past a now)). reflexivity.
    + cbn [app] in E. injection E as E1 E2. apply IH in E2. subst x.
      rewrite <- app_assoc in E2. exact E2.
  - cbn [sic_spec] in E. eapply IH; eauto.
Qed.

Hypothesis keqb_spec : forall x y, keqb x y = true <-> x = y.

Theorem sic_contract t0 h past o rest :
  snd (sic_run key keqb f valid (sic_init t0) h) = past ++ o :: rest ->
  (o_hit o = true <->
     exists p, last_miss (rev past) = Some p /\ key (o_arg p) = key (o_arg o) /\
               fresh valid (o_now o) (o_now p) = true) /\
  (forall p, o_hit o = true -> last_miss (rev past) = Some p -> o_res o = o_res p) /\
  (o_hit o = false -> o_res o = f (o_arg o) (count_miss past)).
Proof.
  rewrite sic_refines. intros E. apply sic_spec_split in E. cbn [app] in E.
  unfold sic_expect in E. destruct (last_miss (rev past)) as [p|] eqn:Elm.
  - destruct (keqb (key (o_arg p)) (key (o_arg o)) && fresh valid (o_now o) (o_now p)) eqn:Ec.
    + apply andb_prop in Ec as [Ek Ef]. apply keqb_spec in Ek. rewrite E. cbn [o_hit o_res o_arg o_now].
      split; [split; auto; intros _; exists p; rewrite E in Ek, Ef; cbn in Ek, Ef; auto|].
      split; [intros q _ Hq; injection Hq as <-; reflexivity|discriminate].
    + rewrite E. cbn [o_hit o_res o_arg o_now]. split; [split; [discriminate|]|split; [discriminate|reflexivity]].
      intros (q & Hq & Hk & Hf). injection Hq as <-. rewrite E in Hk, Hf. cbn in Hk, Hf.
      apply keqb_spec in Hk. rewrite Hk, Hf in Ec. discriminate.
  - rewrite E. cbn [o_hit o_res o_arg o_now]. split; [split; [discriminate|]|split; [discriminate|reflexivity]].
    intros (q & Hq & _). discriminate.
Qed.

Lemma last_miss_split (past : list outcome) : forall p,
  last_miss (rev past) = Some p ->
  exists p1 p2, past = p1 ++ p :: p2 /\ o_hit p = false.
Proof.
  induction past as [|x l IH] using rev_ind; intros p H; [discriminate|].
  rewrite last_miss_snoc in H. destruct (o_hit x) eqn:Ex.
  - destruct (IH p H) as (p1 & p2 & E & Hp). exists p1, (p2 ++ [x]). split; auto.
    rewrite E, <- app_assoc. reflexivity.
  - injection H as <-. exists l, []. auto.
Qed.

(* soundness in history-only terms: what a call returns is the value of an invocation of f, made
   for arguments with an equal key, earlier in the history (or by this very call); if it was served
   from the cache that invocation is no older than the validity period *)
Theorem sic_sound t0 h past o rest :
  snd (sic_run key keqb f valid (sic_init t0) h) = past ++ o :: rest ->
  exists past' p rest', past ++ [o] = past' ++ p :: rest' /\ o_hit p = false /\
     key (o_arg p) = key (o_arg o) /\ o_res o = f (o_arg p) (count_miss past') /\
     (o_hit o = true -> fresh valid (o_now o) (o_now p) = true).
Proof.
  intros E. destruct (sic_contract t0 h past o rest E) as (H1 & H2 & H3).
  destruct (o_hit o) eqn:Eh.
  - destruct (proj1 H1 eq_refl) as (p & Hlm & Hk & Hf).
    destruct (last_miss_split past p Hlm) as (p1 & p2 & Ep & Hp).
    assert (E' : snd (sic_run key keqb f valid (sic_init t0) h) = p1 ++ p :: (p2 ++ o :: rest)).
    { rewrite E, Ep, <- app_assoc. reflexivity. }
    destruct (sic_contract t0 h p1 p _ E') as (_ & _ & H3').
    exists p1, p, (p2 ++ [o]). split; [rewrite Ep, <- app_assoc; reflexivity|].
    split; auto. split; auto. split; [rewrite (H2 p eq_refl Hlm); auto|auto].
  - exists past, o, []. split; auto. split; auto. split; auto. split; auto. discriminate.
Qed.

End Seq.


Section Lru.
Variables A K R : Type.
Variable key : A -> K.
Variable keqb : K -> K -> bool.
Variable f : A -> N -> R.
Variable valid : option Z.
Variable mx : nat.
Hypothesis keqb_spec : forall x y, keqb x y = true <-> x = y.

Notation outcome := (@outcome A R).
Notation lru_st := (@lru_st K R).
Notation item := (K * (Z * R))%type.
Notation lastuse := (last_use key keqb).

Lemma keqb_refl k : keqb k k = true.
Proof. apply keqb_spec. reflexivity. Qed.
Lemma keqb_false_sym x y : keqb x y = false -> keqb y x = false.
Proof.
  intros H. destruct (keqb y x) eqn:E; auto. apply keqb_spec in E. subst. rewrite keqb_refl in H. discriminate.
Qed.

(* ---- generic list facts ---- *)
Lemma count_miss_snoc' (tr : list outcome) o :
  count_miss (tr ++ [o]) = if o_hit o then count_miss tr else N.succ (count_miss tr).
Proof.
  unfold count_miss, is_miss. rewrite filter_app, app_length. cbn [filter].
  destruct (o_hit o); cbn [negb length]; lia.
Qed.

Lemma filter_partition_length {X} (g : X -> bool) l :
  length (filter g l) + length (filter (fun x => negb (g x)) l) = length l.
Proof. induction l as [|x l IH]; cbn; auto. destruct (g x); cbn; lia. Qed.

Lemma filter_length_le' {X} (g : X -> bool) l : length (filter g l) <= length l.
Proof. pose proof (filter_partition_length g l). lia. Qed.

Lemma filter_pos {X} (g : X -> bool) l e : In e l -> g e = true -> 1 <= length (filter g l).
Proof.
  intros Hin Hg. assert (H : In e (filter g l)) by (apply filter_In; auto).
  destruct (filter g l); [destruct H|cbn; lia].
Qed.

Lemma Forall_filter {X} (P : X -> Prop) g l : Forall P l -> Forall P (filter g l).
Proof. intros H. apply Forall_forall. intros x Hx. apply filter_In in Hx as [Hx _]. rewrite Forall_forall in H. auto. Qed.

Lemma SSorted_filter {X} (Rel : X -> X -> Prop) g l : StronglySorted Rel l -> StronglySorted Rel (filter g l).
Proof.
  induction 1 as [|x l Hs IH Hf]; cbn; [constructor|].
  destruct (g x); auto. constructor; auto. apply Forall_filter. exact Hf.
Qed.

Lemma SSorted_snoc {X} (Rel : X -> X -> Prop) l e :
  StronglySorted Rel l -> Forall (fun x => Rel x e) l -> StronglySorted Rel (l ++ [e]).
Proof.
  induction 1 as [|x l Hs IH Hf]; intros Hl; cbn.
  - constructor; constructor.
  - inversion Hl; subst. constructor; auto. apply Forall_app. split; auto.
Qed.

Lemma SSorted_ext {X} (R1 R2 : X -> X -> Prop) l :
  (forall x y, In x l -> In y l -> R1 x y -> R2 x y) -> StronglySorted R1 l -> StronglySorted R2 l.
Proof.
  intros Hext Hs. induction Hs as [|x l Hs IH Hf]; [constructor|].
  constructor.
  - apply IH. intros a b Ha Hb. apply Hext; right; auto.
  - rewrite Forall_forall in *. intros y Hy. apply Hext; [left; auto|right; auto|auto].
Qed.

Lemma SSorted_tl {X} (Rel : X -> X -> Prop) l : StronglySorted Rel l -> StronglySorted Rel (tl l).
Proof. destruct 1; cbn; [constructor|auto]. Qed.

Lemma Forall_tl {X} (P : X -> Prop) l : Forall P l -> Forall P (tl l).
Proof. destruct 1; cbn; auto. Qed.

Lemma snoc_split {X} (tr : list X) o past x rest :
  tr ++ [o] = past ++ x :: rest ->
  (rest = [] /\ past = tr /\ x = o) \/ (exists rest0, rest = rest0 ++ [o] /\ tr = past ++ x :: rest0).
Proof.
  intros E. destruct (@exists_last _ (x :: rest)) as (l & y & El); [discriminate|].
  destruct rest as [|z rest].
  - left. change (past ++ [x]) with (past ++ [x]) in E. apply app_inj_tail in E as [E1 E2]. auto.
  - right. destruct (@exists_last _ (z :: rest)) as (r0 & y0 & Er); [discriminate|].
    rewrite Er in E. change (past ++ x :: r0 ++ [y0]) with (past ++ (x :: r0) ++ [y0]) in E.
    rewrite app_assoc in E. apply app_inj_tail in E as [E1 E2]. subst y0. exists r0. rewrite Er. auto.
Qed.

(* ---- last use ---- *)
Lemma last_use_from_snoc k (tr : list outcome) o : forall i acc,
  last_use_from key keqb k (tr ++ [o]) i acc =
  if keqb (key (o_arg o)) k then S (i + length tr) else last_use_from key keqb k tr i acc.
Proof.
  induction tr as [|x tr IH]; intros i acc; cbn [app last_use_from length].
  - rewrite Nat.add_0_r. reflexivity.
  - rewrite IH. destruct (keqb (key (o_arg o)) k); auto. f_equal. lia.
Qed.

Lemma last_use_snoc k (tr : list outcome) o :
  lastuse k (tr ++ [o]) = if keqb (key (o_arg o)) k then S (length tr) else lastuse k tr.
Proof. unfold last_use. rewrite last_use_from_snoc. reflexivity. Qed.

Lemma last_use_from_le k (tr : list outcome) : forall i acc, acc <= i -> last_use_from key keqb k tr i acc <= i + length tr.
Proof.
  induction tr as [|x tr IH]; intros i acc H; cbn [last_use_from length]; [lia|].
  destruct (keqb (key (o_arg x)) k).
  - specialize (IH (S i) (S i)). lia.
  - specialize (IH (S i) acc). lia.
Qed.

Lemma last_use_le k (tr : list outcome) : lastuse k tr <= length tr.
Proof. unfold last_use. pose proof (last_use_from_le k tr 0 0). lia. Qed.

Lemma last_use_mono k (tr : list outcome) o : lastuse k tr <= lastuse k (tr ++ [o]).
Proof. rewrite last_use_snoc. destruct (keqb _ _); auto. pose proof (last_use_le k tr). lia. Qed.

Lemma last_miss_for_snoc k (tr : list outcome) o :
  last_miss_for key keqb k (rev (tr ++ [o])) =
  if negb (o_hit o) && keqb (key (o_arg o)) k then Some o else last_miss_for key keqb k (rev tr).
Proof. rewrite rev_app_distr. reflexivity. Qed.

Lemma fresh_earlier now d ts : fresh valid (now + Z.of_N d) ts = true -> fresh valid now ts = true.
Proof. unfold fresh. destruct valid; auto. intros H. apply Z.leb_le in H. apply Z.leb_le. lia. Qed.

(* ---- the invariant of reachable states, relative to the trace that led there ---- *)
Definition lu_lt (tr : list outcome) (e1 e2 : item) : Prop := lastuse (fst e1) tr < lastuse (fst e2) tr.

(* the entry is the record of an invocation of f in the trace *)
Definition held_ok (tr : list outcome) (e : item) : Prop :=
  exists past p rest, tr = past ++ p :: rest /\ o_hit p = false /\ key (o_arg p) = fst e /\
                      o_now p = fst (snd e) /\ snd (snd e) = f (o_arg p) (count_miss past).

(* the value a call returned was produced by an invocation for an equal key, within the validity period *)
Definition sound_at (past : list outcome) (o : outcome) : Prop :=
  exists past' p rest', past ++ [o] = past' ++ p :: rest' /\ o_hit p = false /\
     key (o_arg p) = key (o_arg o) /\ o_res o = f (o_arg p) (count_miss past') /\
     (o_hit o = true -> fresh valid (o_now o) (o_now p) = true).
Definition trace_sound (tr : list outcome) : Prop :=
  forall past o rest, tr = past ++ o :: rest -> sound_at past o.

(* the entry of a key carries the timestamp of the most recent invocation for that key *)
Definition last_ok (tr : list outcome) (e : item) : Prop :=
  exists p, last_miss_for key keqb (fst e) (rev tr) = Some p /\ o_now p = fst (snd e) /\ o_res p = snd (snd e).

(* a key whose most recent invocation is unexpired is held, unless max_size distinct keys have
   been used after its last use *)
Definition mru_ok (s : lru_st) (tr : list outcome) : Prop :=
  forall k p, last_miss_for key keqb k (rev tr) = Some p -> fresh valid (l_now s) (o_now p) = true ->
    In k (map fst (l_items s)) \/
    exists ks, NoDup ks /\ (forall k', In k' ks -> lastuse k tr < lastuse k' tr) /\ mx <= length ks.

Record lru_inv (s : lru_st) (tr : list outcome) : Prop := mkInv {
  inv_size : length (l_items s) <= mx;
  inv_calls : l_calls s = count_miss tr;
  inv_held : Forall (held_ok tr) (l_items s);
  inv_order : StronglySorted (lu_lt tr) (l_items s);
  inv_sound : trace_sound tr;
  inv_last : Forall (last_ok tr) (l_items s);
  inv_mru : mru_ok s tr
}.

Lemma last_ok_snoc tr o (e : item) :
  (o_hit o = true \/ keqb (key (o_arg o)) (fst e) = false) -> last_ok tr e -> last_ok (tr ++ [o]) e.
Proof.
  intros H (p & Hp & Hn). exists p. split; auto. rewrite last_miss_for_snoc.
  destruct H as [H|H]; rewrite H; cbn; auto. rewrite andb_false_r. auto.
Qed.

Lemma held_ok_snoc tr o e : held_ok tr e -> held_ok (tr ++ [o]) e.
Proof.
  intros (past & p & rest & E & H). exists past, p, (rest ++ [o]). split; auto.
  rewrite E, <- app_assoc. reflexivity.
Qed.

Lemma trace_sound_snoc tr o : trace_sound tr -> sound_at tr o -> trace_sound (tr ++ [o]).
Proof.
  intros Ht Ho past x rest E. apply snoc_split in E as [(E1 & E2 & E3)|(r0 & E1 & E2)].
  - subst. exact Ho.
  - eapply Ht; eauto.
Qed.

Lemma SSorted_nodup tr (l : list item) : StronglySorted (lu_lt tr) l -> NoDup (map fst l).
Proof.
  induction 1 as [|x l Hs IH Hf]; cbn; constructor; auto.
  intros Hin. apply in_map_iff in Hin as (y & Ey & Hy). rewrite Forall_forall in Hf.
  specialize (Hf y Hy). unfold lu_lt in Hf. rewrite Ey in Hf. lia.
Qed.

Lemma nodup_fst_inj (l : list item) k v1 v2 : NoDup (map fst l) -> In (k, v1) l -> In (k, v2) l -> v1 = v2.
Proof.
  induction l as [|x l IH]; cbn; intros Hnd H1 H2; [destruct H1|].
  inversion Hnd as [|? ? Hni Hnd']; subst.
  destruct H1 as [H1|H1], H2 as [H2|H2].
  - congruence.
  - subst x. exfalso. apply Hni. cbn. apply in_map_iff. exists (k, v2). auto.
  - subst x. exfalso. apply Hni. cbn. apply in_map_iff. exists (k, v1). auto.
  - auto.
Qed.

Lemma live_in now (it : list item) (e : item) : In e (lru_live valid now it) <-> In e it /\ fresh valid now (fst (snd e)) = true.
Proof. unfold lru_live. apply filter_In. Qed.

Lemma find_key_some k (it : list item) e : lru_find keqb k it = Some e -> In e it /\ fst e = k.
Proof. unfold lru_find. intros H. apply find_some in H as [H1 H2]. apply keqb_spec in H2. auto. Qed.

Lemma find_key_none k (it : list item) : lru_find keqb k it = None -> forall e, In e it -> keqb (fst e) k = false.
Proof. unfold lru_find. intros H e He. exact (find_none _ _ H e He). Qed.

Lemma filter_all_true {X} (g : X -> bool) l : (forall x, In x l -> g x = true) -> filter g l = l.
Proof.
  induction l as [|x l IH]; cbn; intros H; auto. rewrite (H x (or_introl eq_refl)). f_equal. apply IH. intros y Hy. apply H. right. exact Hy.
Qed.

Lemma lru_put_none k v (it : list item) : lru_find keqb k it = None -> lru_put keqb k v it = it ++ [(k, v)].
Proof.
  intros H. unfold lru_put, lru_remove. rewrite filter_all_true; auto.
  intros x Hx. rewrite (find_key_none k it H x Hx). reflexivity.
Qed.

Lemma lu_other (tr : list outcome) (o : outcome) (e : item) : keqb (fst e) (key (o_arg o)) = false -> lastuse (fst e) (tr ++ [o]) = lastuse (fst e) tr.
Proof. intros H. rewrite last_use_snoc. rewrite (keqb_false_sym _ _ H). reflexivity. Qed.

Lemma order_extend (tr : list outcome) (o : outcome) (l : list item) :
  (forall e, In e l -> keqb (fst e) (key (o_arg o)) = false) ->
  StronglySorted (lu_lt tr) l -> StronglySorted (lu_lt (tr ++ [o])) l.
Proof.
  intros Hne. apply SSorted_ext. intros x y Hx Hy. unfold lu_lt.
  rewrite (lu_other tr o x (Hne x Hx)), (lu_other tr o y (Hne y Hy)). auto.
Qed.

Lemma order_snoc (tr : list outcome) (o : outcome) (l : list item) (e : item) :
  (forall x, In x l -> keqb (fst x) (key (o_arg o)) = false) -> fst e = key (o_arg o) ->
  StronglySorted (lu_lt tr) l -> StronglySorted (lu_lt (tr ++ [o])) (l ++ [e]).
Proof.
  intros Hne He Hs. apply SSorted_snoc; [apply order_extend; auto|].
  apply Forall_forall. intros x Hx. unfold lu_lt. rewrite (lu_other tr o x (Hne x Hx)).
  rewrite last_use_snoc, He, keqb_refl. pose proof (last_use_le (fst x) tr). lia.
Qed.

Lemma lru_call_inv s tr a :
  lru_inv s tr ->
  lru_inv (fst (lru_call key keqb f mx valid s a)) (tr ++ [snd (lru_call key keqb f mx valid s a)]).
Proof.
  intros [Hsz Hc Hh Ho Hsd Hl Hm]. unfold lru_call.
  set (now := l_now s). set (k := key a). set (live := lru_live valid now (l_items s)).
  assert (Hlive_sz : length live <= mx) by (unfold live, lru_live; pose proof (filter_length_le' (fun e : item => fresh valid now (fst (snd e))) (l_items s)); lia).
  assert (Hlive_h : Forall (held_ok tr) live) by (apply Forall_filter; auto).
  assert (Hlive_o : StronglySorted (lu_lt tr) live) by (apply SSorted_filter; auto).
  assert (Hlive_l : Forall (last_ok tr) live) by (apply Forall_filter; auto).
  assert (Hlive_in : forall k2 p, last_miss_for key keqb k2 (rev tr) = Some p -> fresh valid now (o_now p) = true ->
                     forall e2, fst e2 = k2 -> In e2 (l_items s) -> In e2 live).
  { intros k2 p Hp Hfr e2 E2 Hin2. apply live_in. split; auto. rewrite Forall_forall in Hl.
    destruct (Hl e2 Hin2) as (p' & Hp' & Hn' & _). rewrite E2, Hp in Hp'. injection Hp' as <-. rewrite <- Hn'. exact Hfr. }
  destruct (lru_find keqb k live) as [e|] eqn:Ef.
  - (* hit: the entry found after the sweep is unexpired, so the stale-entry branch is dead here *)
    apply find_key_some in Ef as [Hin Hk].
    assert (Hfre : fresh valid now (fst (snd e)) = true) by (apply live_in in Hin; tauto).
    rewrite Hfre. cbn [fst snd l_items l_calls].
    set (o := mkO a now true (snd (snd e))).
    assert (Hrem : forall x, In x (lru_remove keqb k live) -> keqb (fst x) (key (o_arg o)) = false).
    { intros x Hx. unfold lru_remove in Hx. apply filter_In in Hx as [_ Hx]. cbn. apply negb_true_iff in Hx. exact Hx. }
    constructor; cbn [l_items l_calls].
    + rewrite app_length. cbn [length]. unfold lru_remove.
      pose proof (filter_partition_length (fun x : item => keqb (fst x) k) live).
      assert (1 <= length (filter (fun x : item => keqb (fst x) k) live)).
      { eapply filter_pos; eauto. cbn. rewrite Hk. apply keqb_refl. }
      lia.
    + rewrite count_miss_snoc'. cbn. exact Hc.
    + apply Forall_app. split.
      * apply Forall_filter. eapply Forall_impl; [|exact Hlive_h]. intros x. apply held_ok_snoc.
      * constructor; [|constructor]. apply held_ok_snoc. rewrite Forall_forall in Hlive_h. auto.
    + apply order_snoc; auto. apply SSorted_filter. exact Hlive_o.
    + apply trace_sound_snoc; auto.
      rewrite Forall_forall in Hlive_h. destruct (Hlive_h e Hin) as (past & p & rest & E & Hp & Hkp & Hnp & Hr).
      exists past, p, (rest ++ [o]). split; [rewrite E, <- app_assoc; reflexivity|].
      split; auto. split; [cbn; rewrite Hkp; exact Hk|]. split; [exact Hr|].
      intros _. cbn. rewrite Hnp. apply live_in in Hin. tauto.
    + apply Forall_app; split.
      * apply Forall_filter. eapply Forall_impl; [|exact Hlive_l]. intros x. apply last_ok_snoc. left; reflexivity.
      * constructor; [|constructor]. apply last_ok_snoc; [left; reflexivity|]. rewrite Forall_forall in Hlive_l; auto.
    + intros k2 p. rewrite last_miss_for_snoc. cbn [o_hit negb andb l_now l_items]. intros Hp Hfr.
      destruct (keqb k k2) eqn:Ekk.
      * apply keqb_spec in Ekk. subst k2. left. rewrite map_app. apply in_or_app. right. cbn. left. exact Hk.
      * destruct (Hm k2 p Hp Hfr) as [Hin2|(ks & Hnd & Hlt & Hlen)].
        -- left. apply in_map_iff in Hin2 as (e2 & E2 & Hin2).
           pose proof (Hlive_in k2 p Hp Hfr e2 E2 Hin2) as He2.
           rewrite map_app. apply in_or_app. left. apply in_map_iff. exists e2. split; auto.
           apply filter_In. split; auto. rewrite E2. apply negb_true_iff. apply keqb_false_sym. exact Ekk.
        -- right. exists ks. split; auto. split; auto. intros k' Hk'. specialize (Hlt k' Hk').
           rewrite (last_use_snoc k2). change (keqb (key (o_arg o)) k2) with (keqb k k2). rewrite Ekk. pose proof (last_use_mono k' tr o). lia.
  - (* miss *)
    pose proof (find_key_none k live Ef) as Hne. rewrite (lru_put_none _ _ _ Ef). cbn [fst snd l_items l_calls].
    set (r := f a (l_calls s)). set (o := mkO a now false r).
    assert (Hord : StronglySorted (lu_lt (tr ++ [o])) (live ++ [(k, (now, r))])).
    { apply order_snoc; auto. }
    assert (Hheld : Forall (held_ok (tr ++ [o])) (live ++ [(k, (now, r))])).
    { apply Forall_app. split.
      - eapply Forall_impl; [|exact Hlive_h]. intros x. apply held_ok_snoc.
      - constructor; [|constructor]. exists tr, o, []. cbn. repeat split; auto. unfold r. rewrite Hc. reflexivity. }
    assert (Hlast : Forall (last_ok (tr ++ [o])) (live ++ [(k, (now, r))])).
    { apply Forall_app; split.
      - apply Forall_forall. intros x Hx. apply last_ok_snoc.
        + right. cbn. apply keqb_false_sym. apply Hne; auto.
        + rewrite Forall_forall in Hlive_l; auto.
      - constructor; [|constructor]. exists o. split; [|split; reflexivity]. rewrite last_miss_for_snoc. cbn. rewrite keqb_refl. reflexivity. }
    constructor; cbn [l_items l_calls].
    + unfold lru_trim. destruct (Nat.ltb mx (length (live ++ [(k, (now, r))]))) eqn:El.
      * destruct live; cbn in *; rewrite ?app_length in *; cbn in *; lia.
      * apply Nat.ltb_ge in El. exact El.
    + rewrite count_miss_snoc'. cbn. rewrite Hc. reflexivity.
    + unfold lru_trim. destruct (Nat.ltb _ _); auto. apply Forall_tl. auto.
    + unfold lru_trim. destruct (Nat.ltb _ _); auto. apply SSorted_tl. auto.
    + apply trace_sound_snoc; auto. exists tr, o, []. cbn. repeat split; auto.
      * unfold r. rewrite Hc. reflexivity.
      * discriminate.
    + unfold lru_trim. destruct (Nat.ltb _ _); auto. apply Forall_tl. auto.
    + intros k2 p. rewrite last_miss_for_snoc.
      change (negb (o_hit o) && keqb (key (o_arg o)) k2) with (keqb k k2). cbn [l_now l_items]. intros Hp Hfr.
      destruct (keqb k k2) eqn:Ekk.
      * apply keqb_spec in Ekk. subst k2.
        unfold lru_trim. destruct (Nat.ltb mx (length (live ++ [(k, (now, r))]))) eqn:El.
        -- destruct live as [|x l].
           ++ right. exists []. split; [constructor|]. split; [intros ? []|]. apply Nat.ltb_lt in El. cbn in El. cbn. lia.
           ++ left. cbn [app tl]. rewrite map_app. apply in_or_app. right. cbn. auto.
        -- left. rewrite map_app. apply in_or_app. right. cbn. auto.
      * destruct (Hm k2 p Hp Hfr) as [Hin2|(ks & Hnd & Hlt & Hlen)].
        -- apply in_map_iff in Hin2 as (e2 & E2 & Hin2).
           pose proof (Hlive_in k2 p Hp Hfr e2 E2 Hin2) as He2.
           unfold lru_trim. destruct (Nat.ltb mx (length (live ++ [(k, (now, r))]))) eqn:El.
           ++ destruct live as [|x l]; [destruct He2|].
              cbn [app tl]. destruct He2 as [He2|He2].
              ** subst x. right. exists (map fst (l ++ [(k, (now, r))])).
                 cbn [app] in Hord. inversion Hord as [|? ? Hs Hf]; subst.
                 split; [eapply SSorted_nodup; exact Hs|]. split.
                 --- intros k' Hk'. apply in_map_iff in Hk' as (y & <- & Hy). rewrite Forall_forall in Hf.
                     specialize (Hf y Hy). unfold lu_lt in Hf. exact Hf.
                 --- rewrite map_length. apply Nat.ltb_lt in El. cbn [app length] in El. lia.
              ** left. rewrite map_app. apply in_or_app. left. apply in_map_iff. exists e2; auto.
           ++ left. rewrite map_app. apply in_or_app. left. apply in_map_iff. exists e2; auto.
        -- right. exists ks. split; auto. split; auto. intros k' Hk'. specialize (Hlt k' Hk').
           rewrite (last_use_snoc k2). change (keqb (key (o_arg o)) k2) with (keqb k k2). rewrite Ekk. pose proof (last_use_mono k' tr o). lia.
Qed.

Lemma lru_tick_inv s tr d : lru_inv s tr -> lru_inv (lru_tick s d) tr.
Proof.
  intros [H1 H2 H3 H4 H5 H6 H7]. constructor; auto.
  intros k p Hp Hfr. cbn [lru_tick l_now l_items] in *. apply (H7 k p Hp). eapply fresh_earlier; eauto.
Qed.

Lemma lru_run_inv h : forall s tr,
  lru_inv s tr ->
  lru_inv (fst (lru_run key keqb f mx valid s h)) (tr ++ map fst (snd (lru_run key keqb f mx valid s h))).
Proof.
  induction h as [|[a|d] h IH]; intros s tr Hinv.
  - cbn. rewrite app_nil_r. exact Hinv.
  - cbn [lru_run]. pose proof (lru_call_inv s tr a Hinv) as H1.
    destruct (lru_call key keqb f mx valid s a) as [s1 o]. cbn [fst snd] in H1.
    specialize (IH s1 (tr ++ [o]) H1). destruct (lru_run key keqb f mx valid s1 h) as [s2 os].
    cbn [fst snd map] in *. rewrite <- app_assoc in IH. exact IH.
  - cbn [lru_run]. apply IH. apply lru_tick_inv. exact Hinv.
Qed.

Lemma lru_init_inv t0 : lru_inv (lru_init t0) [].
Proof.
  constructor.
  - cbn. lia.
  - reflexivity.
  - constructor.
  - constructor.
  - intros past o rest E. destruct past; discriminate.
  - constructor.
  - intros k0 p0 Hp. discriminate.
Qed.

Theorem lru_reachable_inv t0 h :
  lru_inv (fst (lru_run key keqb f mx valid (lru_init t0) h)) (map fst (snd (lru_run key keqb f mx valid (lru_init t0) h))).
Proof. exact (lru_run_inv h (lru_init t0) [] (lru_init_inv t0)). Qed.

(* what one call does in a state satisfying the invariant *)
Lemma lru_call_contract s tr a :
  lru_inv s tr ->
  let s' := fst (lru_call key keqb f mx valid s a) in
  let o := snd (lru_call key keqb f mx valid s a) in
  (o_hit o = true <-> exists ts r, In (key a, (ts, r)) (l_items s) /\ fresh valid (l_now s) ts = true) /\
  (o_hit o = true -> forall ts r, In (key a, (ts, r)) (l_items s) -> o_res o = r) /\
  (o_hit o = true -> l_calls s' = l_calls s) /\
  (o_hit o = false -> o_res o = f a (l_calls s) /\ l_calls s' = N.succ (l_calls s)) /\
  o_arg o = a /\ o_now o = l_now s.
Proof.
  intros Hinv. pose proof (SSorted_nodup tr _ (inv_order _ _ Hinv)) as Hnd.
  unfold lru_call. destruct (lru_find keqb (key a) (lru_live valid (l_now s) (l_items s))) as [e|] eqn:Ef; cbn [fst snd o_hit o_res o_arg o_now l_calls].
  - apply find_key_some in Ef as [Hin Hk]. apply live_in in Hin as [Hin Hfr]. rewrite Hfr.
    cbn [fst snd o_hit o_res o_arg o_now l_calls].
    destruct e as [k [ts r]]. cbn in Hk, Hfr. subst k.
    split; [split; auto; intros _; exists ts, r; auto|].
    split; [intros _ ts' r' Hin'; cbn; pose proof (nodup_fst_inj _ _ _ _ Hnd Hin Hin') as E; congruence|].
    split; auto. split; [discriminate|auto].
  - pose proof (find_key_none _ _ Ef) as Hne.
    split; [split; [discriminate|]|].
    + intros (ts & r & Hin & Hfr). assert (Hl : In (key a, (ts, r)) (lru_live valid (l_now s) (l_items s))) by (apply live_in; auto).
      specialize (Hne _ Hl). cbn in Hne. rewrite keqb_refl in Hne. discriminate.
    + split; [discriminate|]. split; [discriminate|]. split; auto.
Qed.

(* the "max_size most recently used unexpired keys" are held: if the most recent invocation for the
   caller's key is unexpired and fewer than max_size distinct keys have been used since that key's
   last use, the call is served from the cache, with that invocation's value *)
Lemma lru_recent_hit s tr a p :
  lru_inv s tr ->
  last_miss_for key keqb (key a) (rev tr) = Some p -> fresh valid (l_now s) (o_now p) = true ->
  (forall ks, NoDup ks -> (forall k', In k' ks -> lastuse (key a) tr < lastuse k' tr) -> length ks < mx) ->
  o_hit (snd (lru_call key keqb f mx valid s a)) = true /\
  o_res (snd (lru_call key keqb f mx valid s a)) = o_res p.
Proof.
  intros Hinv Hp Hfr Hfew.
  destruct (inv_mru _ _ Hinv (key a) p Hp Hfr) as [Hin|(ks & Hnd & Hlt & Hlen)].
  - apply in_map_iff in Hin as ([k [ts r]] & Ek & Hin). cbn in Ek. subst k.
    pose proof (inv_last _ _ Hinv) as Hl. rewrite Forall_forall in Hl.
    destruct (Hl _ Hin) as (p' & Hp' & Hn' & Hr'). cbn in Hp', Hn', Hr'. rewrite Hp in Hp'. injection Hp' as <-.
    destruct (lru_call_contract s tr a Hinv) as (H1 & H2 & _).
    assert (Hhit : o_hit (snd (lru_call key keqb f mx valid s a)) = true).
    { apply H1. exists ts, r. split; auto. rewrite <- Hn'. exact Hfr. }
    split; auto. rewrite (H2 Hhit ts r Hin). auto.
  - specialize (Hfew ks Hnd Hlt). lia.
Qed.

(* eviction takes the least recently used of the unexpired keys *)
Lemma lru_eviction s tr a :
  lru_inv s tr ->
  let live := lru_live valid (l_now s) (l_items s) in
  o_hit (snd (lru_call key keqb f mx valid s a)) = false ->
  length live = mx -> 0 < mx ->
  exists victim rest,
    live = victim :: rest /\
    l_items (fst (lru_call key keqb f mx valid s a)) = rest ++ [(key a, (l_now s, f a (l_calls s)))] /\
    Forall (fun e => lastuse (fst victim) tr < lastuse (fst e) tr) rest.
Proof.
  intros Hinv live Hmiss Hlen Hpos.
  assert (Hlive_o : StronglySorted (lu_lt tr) live) by (apply SSorted_filter; apply (inv_order _ _ Hinv)).
  unfold lru_call in *. fold live in Hmiss |- *.
  destruct (lru_find keqb (key a) live) as [e|] eqn:Ef.
  { apply find_key_some in Ef as [Hin _]. apply live_in in Hin as [_ Hfr]. rewrite Hfr in Hmiss. discriminate. }
  rewrite (lru_put_none _ _ _ Ef). cbn [fst l_items]. destruct live as [|v rest] eqn:El; [cbn in Hlen; lia|].
  exists v, rest. split; auto. split.
  - unfold lru_trim. rewrite app_length. cbn [length] in *.
    assert (E : Nat.ltb mx (S (length rest) + 1) = true) by (apply Nat.ltb_lt; lia). rewrite E. reflexivity.
  - inversion Hlive_o; subst. auto.
Qed.

End Lru.
