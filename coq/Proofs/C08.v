From Coq Require Import List ZArith NArith Bool Lia.
From Orso Require Import Base.Civil Gen.C08_Tables Model.C08 Proofs.C08_Epoch Proofs.C08_Str Proofs.C08_Utf8.
Import ListNotations.
Open Scope Z_scope.
Lemma stub_other : parse_iso VOther = Ok None.
Proof. reflexivity. Qed.
