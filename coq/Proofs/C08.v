(* C08 - top-level lemmas about parse_iso (the statements Props/C08.v exports). *)
From Coq Require Import List ZArith NArith Bool Lia ZifyBool.
From Orso Require Import Base.Civil Gen.C08_Tables Model.C08.
From Orso Require Import Proofs.C08_Epoch Proofs.C08_Str Proofs.C08_Utf8 Proofs.C08_Strip Proofs.C08_Core Proofs.C08_Render.
Import ListNotations.
Open Scope Z_scope.

(* ---------- the handler list read from the source covers what the body can raise ---------- *)
Lemma caught_three : caught ValueError = true /\ caught OverflowError = true /\ caught OSError = true.
Proof. vm_compute. repeat split; reflexivity. Qed.

Definition body_exn (e : exn) : Prop := e = ValueError \/ e = OverflowError \/ e = OSError.

Lemma epoch_branch_raises n e : epoch_branch n = Raise e -> body_exn e.
Proof.
  unfold epoch_branch. destruct (fromtimestamp_utc n) as [t|e'] eqn:E; cbn [bind]; [discriminate|].
  intros [= <-]. now apply fromtimestamp_raises in E.
Qed.

Lemma str_branch_raises s e : str_branch s = Raise e -> body_exn e.
Proof.
  unfold str_branch. destruct (str_isdigit s).
  - destruct (py_int s) as [n|e'] eqn:E; cbn [bind].
    + apply epoch_branch_raises.
    + intros [= <-]. apply py_int_raises in E. subst. now left.
  - intros H. apply only_ve_parse_text in H. subst. now left.
Qed.

Lemma body_raises x e : parse_iso_body x = Raise e -> body_exn e.
Proof.
  destruct x as [n|n|f|f|s|b|y m d|y m d h mi s us|a|r|h mi s us|]; cbn [parse_iso_body]; try discriminate.
  - apply epoch_branch_raises.
  - apply epoch_branch_raises.
  - destruct f as [| |m e']; cbn [floor_of_float bind]; try (intros [= <-]; unfold body_exn; tauto). apply epoch_branch_raises.
  - destruct f as [| |m e']; cbn [floor_of_float bind]; try (intros [= <-]; unfold body_exn; tauto). apply epoch_branch_raises.
  - apply str_branch_raises.
  - destruct (utf8_decode b); [apply str_branch_raises|intros [= <-]; now left].
  - destruct a as [n|]; [apply epoch_branch_raises|intros [= <-]; unfold body_exn; tauto].
  - destruct r; discriminate.
Qed.

(* totality: parse_iso never raises *)
Lemma parse_iso_total x : exists r, parse_iso x = Ok r.
Proof.
  unfold parse_iso. destruct (parse_iso_body x) as [r|e] eqn:E; [now exists r|].
  apply body_raises in E. destruct caught_three as (H1 & H2 & H3).
  destruct E as [-> | [-> | ->]]; rewrite ?H1, ?H2, ?H3; now exists None.
Qed.

Lemma parse_iso_of_body_ok x r : parse_iso_body x = Ok r -> parse_iso x = Ok r.
Proof. unfold parse_iso. now intros ->. Qed.

Lemma parse_iso_of_body_raise x e : parse_iso_body x = Raise e -> body_exn e -> parse_iso x = Ok None.
Proof.
  unfold parse_iso. intros -> H. destruct caught_three as (H1 & H2 & H3).
  destruct H as [-> | [-> | ->]]; now rewrite ?H1, ?H2, ?H3.
Qed.

(* ---------- text and bytes ---------- *)
Lemma parse_iso_bytes s : forallb scalar s = true -> parse_iso (VBytes (utf8_encode s)) = parse_iso (VStr s).
Proof. intros H. unfold parse_iso. cbn [parse_iso_body]. now rewrite utf8_decode_encode. Qed.

Lemma parse_iso_bad_bytes b : utf8_decode b = None -> parse_iso (VBytes b) = Ok None.
Proof. intros H. apply (parse_iso_of_body_raise _ ValueError); [cbn [parse_iso_body]; now rewrite H|now left]. Qed.

Definition ascii7 (c : N) : bool := (c <? 128)%N.

Lemma ascii7_scalar s : forallb ascii7 s = true -> forallb scalar s = true.
Proof.
  intros H. apply forallb_forall. intros x Hx. rewrite forallb_forall in H. specialize (H x Hx).
  unfold ascii7, scalar in *. lia.
Qed.

Lemma ascii7_dig k : 0 <= k <= 9 -> ascii7 (dig k) = true.
Proof. unfold ascii7, dig. lia. Qed.

Lemma ascii7_suffix sf : valid_suffix sf = true -> forallb ascii7 (render_suffix sf) = true.
Proof.
  Local Ltac Zify.zify_post_hook ::= Z.to_euclidean_division_equations.
  destruct sf as [| |[] oh om|[] oh om]; cbn [valid_suffix render_suffix d2 app forallb]; intros H; try reflexivity;
  rewrite !ascii7_dig by lia; reflexivity.
Qed.

Lemma ascii7_frac fr : forallb ascii_digit fr = true -> forallb ascii7 (render_frac fr) = true.
Proof.
  intros H. destruct fr as [|x fr]; [reflexivity|]. unfold render_frac.
  change (forallb ascii7 (cDot :: x :: fr)) with (ascii7 cDot && forallb ascii7 (x :: fr)).
  change (ascii7 cDot) with true. cbn [andb]. apply forallb_forall. intros z Hz.
  rewrite forallb_forall in H. specialize (H z Hz). unfold ascii7, ascii_digit in *. lia.
Qed.

Lemma ascii7_sep sep : is_sep sep = true -> ascii7 sep = true.
Proof. unfold is_sep, ascii7, cT, cSp. lia. Qed.

Section Ascii.
Local Ltac Zify.zify_post_hook ::= Z.to_euclidean_division_equations.

Lemma ascii7_date y m d : valid_date y m d = true -> forallb ascii7 (render_date y m d) = true.
Proof.
  intros Hd. pose proof (valid_date_bounds y m d Hd) as (By & Bm & Bd).
  unfold render_date, d4, d2. cbn [app forallb]. rewrite !ascii7_dig by lia. reflexivity.
Qed.

Lemma ascii7_d2 n : 0 <= n < 100 -> forallb ascii7 (d2 n) = true.
Proof. intros H. unfold d2. cbn [forallb]. rewrite !ascii7_dig by lia. reflexivity. Qed.
End Ascii.

Lemma ascii7_seconds y m d h mi s sep fr sf :
  valid_date y m d = true -> valid_time h mi s = true -> is_sep sep = true ->
  forallb ascii_digit fr = true -> valid_suffix sf = true ->
  forallb ascii7 (render_seconds y m d h mi s sep fr sf) = true.
Proof.
  intros Hd Ht Hsep Hfr Hsf. unfold valid_time in Ht. unfold render_seconds.
  rewrite !forallb_app. rewrite ascii7_date, ascii7_suffix, ascii7_frac, !ascii7_d2 by (try assumption; lia).
  cbn [forallb]. rewrite ascii7_sep by assumption. reflexivity.
Qed.

Lemma ascii7_minutes y m d h mi sep sf :
  valid_date y m d = true -> valid_time h mi 0 = true -> is_sep sep = true -> valid_suffix sf = true ->
  forallb ascii7 (render_minutes y m d h mi sep sf) = true.
Proof.
  intros Hd Ht Hsep Hsf. unfold valid_time in Ht. unfold render_minutes.
  rewrite !forallb_app. rewrite ascii7_date, ascii7_suffix, !ascii7_d2 by (try assumption; lia).
  cbn [forallb]. rewrite ascii7_sep by assumption. reflexivity.
Qed.

Lemma ascii7_dateonly y m d sf :
  valid_date y m d = true -> valid_suffix sf = true -> forallb ascii7 (render_dateonly y m d sf) = true.
Proof.
  intros Hd Hsf. unfold render_dateonly. rewrite forallb_app, ascii7_date, ascii7_suffix by assumption. reflexivity.
Qed.

(* both encodings of a text whose string branch succeeds *)
Lemma text_and_bytes s r : forallb ascii7 s = true -> str_branch s = Ok r ->
  parse_iso (VStr s) = Ok r /\ parse_iso (VBytes (utf8_encode s)) = Ok r.
Proof.
  intros Ha Hs. assert (parse_iso (VStr s) = Ok r) as H by (apply parse_iso_of_body_ok; exact Hs).
  split; [exact H|]. rewrite parse_iso_bytes by now apply ascii7_scalar. exact H.
Qed.

(* ---------- the round trips ---------- *)
Lemma frac6_len fr : (length fr <= 6)%nat -> zlen (render_frac fr) <= 7.
Proof. intros H. rewrite zlen_render_frac. destruct fr; [lia|]. unfold zlen in *. lia. Qed.

Lemma seconds_len y m d h mi s sep fr sf :
  zlen (render_seconds y m d h mi s sep fr sf) = 19 + zlen (render_frac fr) + zlen (render_suffix sf).
Proof.
  unfold render_seconds, render_date. rewrite !zlen_app. change (zlen (d4 y)) with 4. change (zlen (d2 m)) with 2.
  change (zlen (d2 d)) with 2. change (zlen (d2 h)) with 2. change (zlen (d2 mi)) with 2. change (zlen (d2 s)) with 2.
  change (zlen [cDash]) with 1. change (zlen [sep]) with 1. change (zlen [cColon]) with 1. lia.
Qed.

Lemma iso_seconds_gen y m d h mi s sep fr sf :
  valid_date y m d = true -> valid_time h mi s = true -> is_sep sep = true ->
  forallb ascii_digit fr = true -> valid_suffix sf = true ->
  zlen (render_seconds y m d h mi s sep fr sf) <= 33 ->
  (match sf with SPlus _ _ _ => zlen (render_frac fr) <= 9 | _ => True end) ->
  let text := render_seconds y m d h mi s sep fr sf in
  parse_iso (VStr text) = Ok (Some (y, m, d, h, mi, s, 0)) /\
  parse_iso (VBytes (utf8_encode text)) = Ok (Some (y, m, d, h, mi, s, 0)).
Proof.
  intros Hd Ht Hsep Hfr Hsf H33 Hp text. apply text_and_bytes.
  - now apply ascii7_seconds.
  - now apply seconds_roundtrip_gen.
Qed.

Lemma iso_seconds y m d h mi s sep fr sf :
  valid_date y m d = true -> valid_time h mi s = true -> is_sep sep = true ->
  forallb ascii_digit fr = true -> (length fr <= 6)%nat -> valid_suffix sf = true ->
  let text := render_seconds y m d h mi s sep fr sf in
  parse_iso (VStr text) = Ok (Some (y, m, d, h, mi, s, 0)) /\
  parse_iso (VBytes (utf8_encode text)) = Ok (Some (y, m, d, h, mi, s, 0)).
Proof.
  intros Hd Ht Hsep Hfr Hlen Hsf. apply iso_seconds_gen; try assumption.
  - rewrite seconds_len. pose proof (frac6_len fr Hlen). rewrite zlen_render_suffix.
    destruct sf as [| |[] ? ?|[] ? ?]; lia.
  - pose proof (frac6_len fr Hlen). destruct sf; try exact I. lia.
Qed.

Lemma iso_minutes y m d h mi sep sf :
  valid_date y m d = true -> valid_time h mi 0 = true -> is_sep sep = true -> valid_suffix sf = true ->
  let text := render_minutes y m d h mi sep sf in
  parse_iso (VStr text) = Ok (Some (y, m, d, h, mi, 0, 0)) /\
  parse_iso (VBytes (utf8_encode text)) = Ok (Some (y, m, d, h, mi, 0, 0)).
Proof.
  intros Hd Ht Hsep Hsf text. apply text_and_bytes; [now apply ascii7_minutes|now apply minutes_roundtrip].
Qed.

Lemma iso_dateonly y m d sf :
  valid_date y m d = true -> valid_suffix sf = true -> not_minus sf = true ->
  let text := render_dateonly y m d sf in
  parse_iso (VStr text) = Ok (Some (y, m, d, 0, 0, 0, 0)) /\
  parse_iso (VBytes (utf8_encode text)) = Ok (Some (y, m, d, 0, 0, 0, 0)).
Proof.
  intros Hd Hsf Hnm text. apply text_and_bytes; [now apply ascii7_dateonly|now apply dateonly_roundtrip].
Qed.

(* beyond the length window nothing parses *)
Lemma too_long_none s : 33 < zlen s -> str_isdigit s = false -> parse_iso (VStr s) = Ok None.
Proof.
  intros Hl Hd. apply parse_iso_of_body_ok. cbn [parse_iso_body]. unfold str_branch, parse_text. rewrite Hd.
  replace ((10 <=? zlen s) && (zlen s <=? 33)) with false by lia. reflexivity.
Qed.
Lemma too_short_none s : zlen s < 10 -> str_isdigit s = false -> parse_iso (VStr s) = Ok None.
Proof.
  intros Hl Hd. apply parse_iso_of_body_ok. cbn [parse_iso_body]. unfold str_branch, parse_text. rewrite Hd.
  replace ((10 <=? zlen s) && (zlen s <=? 33)) with false by lia. reflexivity.
Qed.

(* ---------- epoch ---------- *)
Lemma epoch_in_range n : min_epoch <= n <= max_epoch ->
  exists y m d h mi s,
    parse_iso (VInt n) = Ok (Some (y, m, d, h, mi, s, 0)) /\
    valid_date y m d = true /\ valid_time h mi s = true /\ epoch_of (y, m, d, h, mi, s, 0) = n.
Proof.
  intros H. destruct (fromtimestamp_in_range n H) as (y & m & d & h & mi & s & Hf & Hv).
  exists y, m, d, h, mi, s. split; [|exact Hv]. apply parse_iso_of_body_ok. cbn [parse_iso_body].
  unfold epoch_branch. now rewrite Hf.
Qed.

Lemma epoch_out_of_range n : n < min_epoch \/ max_epoch < n -> parse_iso (VInt n) = Ok None.
Proof.
  intros H. destruct (fromtimestamp_out_of_range n H) as (e & He & Hc).
  apply (parse_iso_of_body_raise _ e); [|exact Hc]. cbn [parse_iso_body]. unfold epoch_branch. now rewrite He.
Qed.

Lemma np_int64_same n : parse_iso (VNpInt64 n) = parse_iso (VInt n).
Proof. reflexivity. Qed.

(* a string of ASCII digits is the integer it spells *)
Lemma digit_string s : s <> [] -> forallb ascii_digit s = true -> zlen s <= int_max_str_digits ->
  parse_iso (VStr s) = parse_iso (VInt (digits_value s)) /\
  parse_iso (VBytes (utf8_encode s)) = parse_iso (VInt (digits_value s)).
Proof.
  intros Hne Hd Hl.
  assert (parse_iso (VStr s) = parse_iso (VInt (digits_value s))) as H.
  { unfold parse_iso. cbn [parse_iso_body]. unfold str_branch.
    rewrite str_isdigit_ascii, py_int_digits by assumption. reflexivity. }
  split; [exact H|]. rewrite parse_iso_bytes; [exact H|].
  apply forallb_forall. intros x Hx. rewrite forallb_forall in Hd. specialize (Hd x Hx).
  unfold scalar, ascii_digit in *. lia.
Qed.

Lemma digit_string_too_long s : forallb ascii_digit s = true -> int_max_str_digits < zlen s ->
  parse_iso (VStr s) = Ok None.
Proof.
  intros Hd Hl. destruct s as [|c s]; [rewrite zlen_nil in Hl; vm_compute in Hl; discriminate|].
  apply (parse_iso_of_body_raise _ ValueError); [|now left]. cbn [parse_iso_body]. unfold str_branch.
  rewrite str_isdigit_ascii by (assumption || discriminate).
  unfold py_int. pose proof (int_scan_digits (c :: s) 0 Hd) as Hscan.
  cbn [forallb] in Hd. apply andb_true_iff in Hd. destruct Hd as [Hc Hs].
  cbn [map] in *. rewrite classify_digit in * by assumption. cbn [skip_space]. rewrite Hscan. cbn [skip_space].
  replace (0 + zlen (c :: s) >? int_max_str_digits) with true by lia. reflexivity.
Qed.

(* floats: NaN and infinities give None, finite values are truncated by int() *)
Lemma float_nan : parse_iso (VFloat FNan) = Ok None /\ parse_iso (VNpFloat64 FNan) = Ok None.
Proof. split; apply (parse_iso_of_body_raise _ ValueError); (reflexivity || now left). Qed.
Lemma float_inf : parse_iso (VFloat FInf) = Ok None /\ parse_iso (VNpFloat64 FInf) = Ok None.
Proof. split; apply (parse_iso_of_body_raise _ OverflowError); (reflexivity || (right; now left)). Qed.
Lemma float_finite m e :
  parse_iso (VFloat (FFin m e)) = parse_iso (VInt (floor_of m e)) /\
  parse_iso (VNpFloat64 (FFin m e)) = parse_iso (VInt (floor_of m e)).
Proof. split; reflexivity. Qed.

(* ---------- native inputs, other inputs, casts ---------- *)
Lemma native_date y m d : parse_iso (VDate y m d) = Ok (Some (y, m, d, 0, 0, 0, 0)).
Proof. reflexivity. Qed.
Lemma native_datetime y m d h mi s us : parse_iso (VDatetime y m d h mi s us) = Ok (Some (y, m, d, h, mi, s, 0)).
Proof. reflexivity. Qed.
Lemma other_none : parse_iso VOther = Ok None.
Proof. reflexivity. Qed.

Lemma casts_agree x :
  (forall t, parse_iso x = Ok (Some t) ->
     cast_timestamp x = Ok t /\ cast_date x = Ok (date_of t) /\ cast_time x = Ok (time_of t)) /\
  (parse_iso x = Ok None ->
     cast_timestamp x = Raise ValueError /\ cast_date x = Raise ValueError /\
     (is_time x = false -> cast_time x = Raise ValueError)).
Proof.
  unfold cast_timestamp, cast_date, dateval_of, timestamp_of.
  split; [intros t H|intros H]; rewrite H; cbn [bind]; repeat split; try reflexivity.
  - destruct x; try (unfold cast_time, timeval_of, timestamp_of; rewrite H; reflexivity). discriminate H.
  - intros Ht. destruct x; try discriminate Ht; unfold cast_time, timeval_of, timestamp_of; rewrite H; reflexivity.
Qed.

(* a native time is nothing like a date for parse_iso, DATE and TIMESTAMP; the TIME cast returns it unchanged *)
Lemma native_time h mi s us :
  parse_iso (VTime h mi s us) = Ok None /\ cast_time (VTime h mi s us) = Ok (h, mi, s, us) /\
  cast_timestamp (VTime h mi s us) = Raise ValueError /\ cast_date (VTime h mi s us) = Raise ValueError.
Proof. repeat split. Qed.

(* ---------- a date or nothing ---------- *)
Lemma valid_dt_epoch n t : fromtimestamp_utc n = Ok t -> valid_dt t = true.
Proof.
  intros H. destruct (Z_le_gt_dec min_epoch n) as [H1|H1]; [destruct (Z_le_gt_dec n max_epoch) as [H2|H2]|].
  - destruct (fromtimestamp_in_range n (conj H1 H2)) as (y & m & d & h & mi & s & Hf & Hd & Ht & _).
    rewrite Hf in H. injection H as <-. unfold valid_dt. now rewrite Hd, Ht.
  - destruct (fromtimestamp_out_of_range n) as (e & He & _); [lia|congruence].
  - destruct (fromtimestamp_out_of_range n) as (e & He & _); [lia|congruence].
Qed.

Lemma string_result s t : parse_iso (VStr s) = Ok (Some t) ->
  valid_dt t = true /\
  (str_isdigit s = true \/
   (10 <= zlen s <= 33 /\ exists v, strip_suffix s = Ok (Some v) /\ shape_ok v = true)).
Proof.
  unfold parse_iso. cbn [parse_iso_body]. destruct (str_branch s) as [r|e] eqn:E.
  2:{ destruct (caught e); discriminate. }
  intros [= ->]. unfold str_branch in E. destruct (str_isdigit s) eqn:Ed.
  - split; [|now left]. destruct (py_int s) as [n|e]; cbn [bind] in E; [|discriminate].
    unfold epoch_branch in E. destruct (fromtimestamp_utc n) as [t'|e] eqn:Ef; cbn [bind] in E; [|discriminate].
    injection E as <-. now apply valid_dt_epoch in Ef.
  - apply parse_text_some in E. destruct E as (Hl & v & Hs & Hsh & Hv). split; [exact Hv|]. right. split; [exact Hl|]. now exists v.
Qed.

(* contrapositive, as DESIGN states it: failing the positional shape test gives None *)
Lemma shape_fail_none s :
  str_isdigit s = false ->
  (forall v, strip_suffix s = Ok (Some v) -> shape_ok v = false) ->
  parse_iso (VStr s) = Ok None.
Proof.
  intros Hd Hsh. destruct (parse_iso_total (VStr s)) as (r & Hr). destruct r as [t|]; [|exact Hr].
  apply string_result in Hr. destruct Hr as (_ & [H|(_ & v & Hs & Hv)]); [congruence|].
  rewrite (Hsh v Hs) in Hv. discriminate.
Qed.

(* the floor really is the floor: floor_of m e <= m * 2^e < floor_of m e + 1 (scaled by 2^-e when e < 0) *)
Lemma floor_of_spec m e :
  (0 <= e -> floor_of m e = m * 2 ^ e) /\
  (e < 0 -> floor_of m e * 2 ^ (- e) <= m < (floor_of m e + 1) * 2 ^ (- e)).
Proof.
  unfold floor_of. split; intros H.
  - replace (0 <=? e) with true by lia. reflexivity.
  - replace (0 <=? e) with false by lia.
    assert (0 < 2 ^ (- e)) as Hp by (apply Z.pow_pos_nonneg; lia).
    pose proof (Z.div_mod m (2 ^ (- e)) ltac:(lia)) as Hd.
    pose proof (Z.mod_pos_bound m (2 ^ (- e)) Hp) as Hm. nia.
Qed.

(* ---------- numpy.datetime64 and objects with to_pydatetime ---------- *)
Lemma np_datetime64_secs n : parse_iso (VNpDatetime64 (NpSecs n)) = parse_iso (VInt n).
Proof. reflexivity. Qed.
Lemma np_datetime64_overflow : parse_iso (VNpDatetime64 NpOverflow) = Ok None.
Proof. apply (parse_iso_of_body_raise _ OverflowError); [reflexivity|right; now left]. Qed.
Lemma np_datetime64_nat : parse_iso (VNpDatetime64 (NpSecs int64_min)) = Ok None.
Proof. rewrite np_datetime64_secs. apply epoch_out_of_range. left. reflexivity. Qed.

Lemma topy_native :
  (forall y m d h mi s us, parse_iso (VToPy (ToDatetime y m d h mi s us)) = parse_iso (VDatetime y m d h mi s us)) /\
  (forall y m d, parse_iso (VToPy (ToDate y m d)) = parse_iso (VDate y m d)) /\
  parse_iso (VToPy ToOther) = Ok None.
Proof. repeat split. Qed.
