(* C07 - Decimal: the syntax read by create_decimal inverts Decimal.__str__, and
   DecimalFactory is exact on values that fit DECIMAL(p, s). *)
From Coq Require Import List ZArith NArith Bool Lia ZifyBool.
From Orso Require Import Base.Civil Gen.C08_Tables Model.C08 Gen.C07_Tables Model.C07.
From Orso Require Import Proofs.C08_Str Proofs.C07_Int.
Import ListNotations.
Open Scope Z_scope.

(* ---------- characters of a decimal rendering ---------- *)
Definition dchar (c : N) : bool := ascii_digit c || N.eqb c 43 || N.eqb c 45 || N.eqb c 46 || N.eqb c 69.

Lemma dchar_cases c : dchar c = true ->
  (c = 43 \/ c = 45 \/ c = 46 \/ c = 69 \/ c = 48 \/ c = 49 \/ c = 50 \/ c = 51 \/ c = 52 \/ c = 53 \/ c = 54 \/ c = 55 \/ c = 56 \/ c = 57)%N.
Proof. unfold dchar, ascii_digit. lia. Qed.

Lemma dchar_props c : dchar c = true -> in_space c = false /\ dec_ascii c = Some c.
Proof.
  intros H. apply dchar_cases in H.
  repeat (destruct H as [->|H]; [split; vm_compute; reflexivity|]). subst. split; vm_compute; reflexivity.
Qed.

Lemma dchar_digit c : ascii_digit c = true -> dchar c = true.
Proof. unfold dchar. intros ->. reflexivity. Qed.

Lemma forallb_dchar_digits ds : forallb ascii_digit ds = true -> forallb dchar ds = true.
Proof.
  intros H. apply forallb_forall. intros c Hc. rewrite forallb_forall in H. apply dchar_digit. auto.
Qed.

Lemma map_opt_dchar s : forallb dchar s = true -> map_opt dec_ascii s = Some s.
Proof.
  induction s as [|c s IH]; intros H; [reflexivity|].
  cbn [forallb] in H. apply andb_true_iff in H. destruct H as [Hc Hs].
  cbn [map_opt]. rewrite (proj2 (dchar_props c Hc)), IH by assumption. reflexivity.
Qed.

Lemma drop_space_nospace s : forallb dchar s = true -> drop_space s = s.
Proof.
  destruct s as [|c s]; [reflexivity|]. cbn [forallb]. intros H. apply andb_true_iff in H. destruct H as [Hc _].
  destruct (dchar_props c Hc) as [Hs _]. cbn [drop_space]. rewrite Hs. reflexivity.
Qed.

Lemma py_strip_dchar s : forallb dchar s = true -> py_strip s = s.
Proof.
  intros H. unfold py_strip. rewrite (drop_space_nospace s H).
  rewrite drop_space_nospace; [apply rev_involutive|].
  apply forallb_forall. intros c Hc. rewrite forallb_forall in H. apply H. now apply in_rev.
Qed.

(* ---------- scanning ---------- *)
Definition nondigit_head (r : list N) : Prop := match r with [] => True | x :: _ => ascii_digit x = false end.

Lemma span_digits_app ds r : forallb ascii_digit ds = true -> nondigit_head r -> span_digits (ds ++ r) = (ds, r).
Proof.
  induction ds as [|c ds IH]; intros H Hr.
  - cbn [app]. destruct r as [|x r]; [reflexivity|]. cbn [span_digits]. cbn in Hr. now rewrite Hr.
  - cbn [forallb] in H. apply andb_true_iff in H. destruct H as [Hc Hs].
    cbn [app span_digits]. rewrite Hc, IH by assumption. reflexivity.
Qed.

Lemma span_digits_all ds : forallb ascii_digit ds = true -> span_digits ds = (ds, []).
Proof. intros H. rewrite <- (app_nil_r ds) at 1. now apply span_digits_app. Qed.

Lemma lower_digit c : ascii_digit c = true -> lower_ascii c = c.
Proof. unfold ascii_digit, lower_ascii. intros H. replace ((65 <=? c)%N && (c <=? 90)%N) with false by lia. reflexivity. Qed.

Lemma starts_with_digit p pr c r : ascii_digit c = true -> ascii_digit p = false -> starts_with (p :: pr) (c :: r) = None.
Proof.
  intros Hc Hp. cbn [starts_with]. rewrite lower_digit by assumption.
  destruct (N.eqb p c) eqn:E; [|reflexivity]. apply N.eqb_eq in E. subst. congruence.
Qed.

Definition sign_chars (neg : bool) : list N := if neg then [45%N] else [].

Lemma split_sign_digit neg c r : ascii_digit c = true -> split_sign (sign_chars neg ++ c :: r) = (neg, c :: r).
Proof.
  intros Hc. destruct neg; [reflexivity|]. cbn [sign_chars app]. unfold split_sign.
  unfold ascii_digit in Hc.
  destruct c as [|p]; [reflexivity|].
  destruct (N.eq_dec (N.pos p) 43) as [E|E]; [rewrite E in Hc; discriminate|].
  destruct (N.eq_dec (N.pos p) 45) as [E'|E']; [rewrite E' in Hc; discriminate|].
  repeat (destruct p as [p|p|]; try reflexivity; try congruence).
Qed.

Lemma render_exp_split x : split_sign (render_exp x) = (x <? 0, render_nat (Z.abs x)).
Proof. unfold render_exp. destruct (x <? 0); reflexivity. Qed.

(* the exponent part of a rendering: nothing, or E followed by a signed integer *)
Definition exp_chars (x : option Z) : list N := match x with None => [] | Some x => 69%N :: render_exp x end.
Definition exp_val (x : option Z) : Z := match x with None => 0 | Some x => x end.
Definition frac_chars (dot : bool) (fd : list N) : list N := if dot then 46%N :: fd else [].

Lemma nondigit_exp x : nondigit_head (exp_chars x).
Proof. destruct x; cbn; [reflexivity|exact I]. Qed.

(* digits [. digits] [E sign digits] reads as its coefficient and exponent *)
Lemma dec_syntax_shape neg ip (dot : bool) fd x :
  ip <> [] -> forallb ascii_digit ip = true -> forallb ascii_digit fd = true -> (dot = false -> fd = []) ->
  dec_syntax (sign_chars neg ++ ip ++ frac_chars dot fd ++ exp_chars x)
  = Some (SynNum neg (digits_value (ip ++ fd)) (exp_val x - zlen fd)).
Proof.
  intros Hne Hip Hfd Hdot. destruct ip as [|c ip]; [congruence|].
  pose proof Hip as Hip'. cbn [forallb] in Hip'. apply andb_true_iff in Hip'. destruct Hip' as [Hc Hrest].
  unfold dec_syntax. cbn [app]. rewrite split_sign_digit by assumption.
  rewrite !starts_with_digit by (try assumption; reflexivity).
  change (c :: ip ++ frac_chars dot fd ++ exp_chars x) with ((c :: ip) ++ frac_chars dot fd ++ exp_chars x).
  assert (nondigit_head (frac_chars dot fd ++ exp_chars x)) as Hnd.
  { destruct dot; cbn [frac_chars app]; [reflexivity|apply nondigit_exp]. }
  rewrite span_digits_app by assumption.
  assert ((let '(fp, r2) := match frac_chars dot fd ++ exp_chars x with
                            | 46%N :: r1' => span_digits r1'
                            | _ => ([], frac_chars dot fd ++ exp_chars x)
                            end in (fp, r2)) = (fd, exp_chars x)) as Hfrac.
  { destruct dot; cbn [frac_chars app].
    - rewrite span_digits_app by (try assumption; apply nondigit_exp). reflexivity.
    - rewrite (Hdot eq_refl). destruct x as [x|]; cbn [exp_chars]; reflexivity. }
  destruct (match frac_chars dot fd ++ exp_chars x with
            | 46%N :: r1' => span_digits r1'
            | _ => ([], frac_chars dot fd ++ exp_chars x)
            end) as [fp r2]. injection Hfrac as -> ->.
  cbn [app]. destruct x as [x|]; cbn [exp_chars exp_val].
  - change (lower_ascii 69) with 101%N. cbn [N.eqb Pos.eqb]. rewrite render_exp_split.
    rewrite span_digits_all by (apply render_nat_digits; lia).
    pose proof (render_nat_nonempty (Z.abs x) ltac:(lia)) as Hn.
    destruct (render_nat (Z.abs x)) as [|e0 er] eqn:Er; [congruence|].
    rewrite <- Er. rewrite render_nat_value by lia.
    do 2 f_equal. destruct (x <? 0) eqn:Ex; lia.
  - do 2 f_equal.
Qed.

(* ---------- Decimal.__str__ of a finite value ---------- *)
Lemma zlen_firstn {A} (l : list A) k : 0 <= k <= zlen l -> zlen (firstn (Z.to_nat k) l) = k.
Proof. intros H. unfold zlen in *. rewrite firstn_length. lia. Qed.
Lemma zlen_skipn {A} (l : list A) k : 0 <= k <= zlen l -> zlen (skipn (Z.to_nat k) l) = zlen l - k.
Proof. intros H. unfold zlen in *. rewrite skipn_length. lia. Qed.
Lemma zlen_repeat {A} (x : A) n : zlen (repeat x n) = Z.of_nat n.
Proof. unfold zlen. now rewrite repeat_length. Qed.

Lemma forallb_firstn {A} (f : A -> bool) l k : forallb f l = true -> forallb f (firstn k l) = true.
Proof.
  intros H. apply forallb_forall. intros x Hx. rewrite forallb_forall in H. apply H.
  rewrite <- (firstn_skipn k l). apply in_or_app. now left.
Qed.
Lemma forallb_skipn {A} (f : A -> bool) l k : forallb f l = true -> forallb f (skipn k l) = true.
Proof.
  intros H. apply forallb_forall. intros x Hx. rewrite forallb_forall in H. apply H.
  rewrite <- (firstn_skipn k l). apply in_or_app. now right.
Qed.

Ltac absurd_hyp := match goal with H : _ /\ _ |- _ => destruct H as [? ?]; discriminate end.

(* the shape of the rendering: sign, integer digits, optional fraction, optional exponent *)
Lemma dec_str_shape neg c e : 0 <= c ->
  exists ip dot fd x,
    dec_str (DFin neg c e) = sign_chars neg ++ ip ++ frac_chars dot fd ++ exp_chars x /\
    ip <> [] /\ forallb ascii_digit ip = true /\ forallb ascii_digit fd = true /\ (dot = false -> fd = []) /\
    digits_value (ip ++ fd) = c /\ exp_val x - zlen fd = e /\
    (* all digits exactly when there is neither fraction nor exponent *)
    ((dot = false /\ x = None) -> e = 0 /\ ip = render_nat c).
Proof.
  intros Hc. pose proof (render_nat_spec c Hc) as (Hne & Hall & Hval & _).
  unfold dec_str. set (ds := render_nat c) in *. set (n := zlen ds).
  assert (1 <= n) as Hn by (subst n; destruct ds; [congruence|rewrite zlen_cons; pose proof (zlen_nonneg ds); lia]).
  fold (sign_chars neg).
  destruct ((e <=? 0) && (-6 <? e + n)) eqn:Eplain.
  - (* positional notation, dot = e + n *)
    replace (e + n =? e + n) with true by lia.
    destruct (e + n <=? 0) eqn:E1.
    + exists [48%N], true, (repeat 48%N (Z.to_nat (- (e + n))) ++ ds), None.
      cbn [frac_chars exp_chars]. rewrite app_nil_r.
      split; [reflexivity|]. split; [discriminate|]. split; [reflexivity|].
      split; [rewrite forallb_app, forallb_repeat_zero, Hall; reflexivity|]. split; [discriminate|].
      split.
      { change ([48%N] ++ repeat 48%N (Z.to_nat (- (e + n))) ++ ds) with (repeat 48%N (S (Z.to_nat (- (e + n)))) ++ ds).
        now rewrite digits_value_zeros. }
      split; [cbn [exp_val]; rewrite zlen_app, zlen_repeat; fold n; lia|].
      intros [? _]. discriminate.
    + destruct (n <=? e + n) eqn:E2.
      * assert (e = 0) by lia. subst e.
        exists ds, false, [], None. replace (0 + n - n) with 0 by lia. cbn [Z.to_nat repeat frac_chars exp_chars].
        rewrite !app_nil_r.
        split; [reflexivity|]. split; [assumption|]. split; [assumption|]. split; [reflexivity|]. split; [reflexivity|].
        split; [assumption|]. split; [cbn; lia|]. intros _. split; reflexivity.
      * exists (firstn (Z.to_nat (e + n)) ds), true, (skipn (Z.to_nat (e + n)) ds), None.
        cbn [frac_chars exp_chars]. rewrite app_nil_r.
        split; [reflexivity|]. split.
        { intros Hf. assert (zlen (firstn (Z.to_nat (e + n)) ds) = e + n) as Hz by (apply zlen_firstn; fold n; lia).
          rewrite Hf in Hz. cbn in Hz. lia. }
        split; [now apply forallb_firstn|]. split; [now apply forallb_skipn|]. split; [discriminate|].
        split; [now rewrite firstn_skipn|].
        split; [cbn [exp_val]; rewrite zlen_skipn by (fold n; lia); fold n; lia|].
        intros [? _]. discriminate.
  - (* scientific notation, dot = 1 *)
    replace (1 <=? 0) with false by reflexivity.
    assert (e + n <> 1) as Hne1 by lia.
    replace (e + n =? 1) with false by lia.
    destruct (n <=? 1) eqn:E2.
    + assert (n = 1) by lia.
      exists ds, false, [], (Some (e + n - 1)). replace (1 - n) with 0 by lia. cbn [Z.to_nat repeat frac_chars exp_chars].
      rewrite !app_nil_r. cbn [app].
      split; [reflexivity|]. split; [assumption|]. split; [assumption|]. split; [reflexivity|]. split; [reflexivity|].
      split; [assumption|]. split; [cbn; lia|]. intros [_ ?]. discriminate.
    + exists (firstn (Z.to_nat 1) ds), true, (skipn (Z.to_nat 1) ds), (Some (e + n - 1)).
      cbn [frac_chars exp_chars].
      split; [reflexivity|]. split.
      { intros Hf. assert (zlen (firstn (Z.to_nat 1) ds) = 1) as Hz by (apply zlen_firstn; fold n; lia).
        rewrite Hf in Hz. cbn in Hz. lia. }
      split; [now apply forallb_firstn|]. split; [now apply forallb_skipn|]. split; [discriminate|].
      split; [now rewrite firstn_skipn|].
      split; [cbn [exp_val]; rewrite zlen_skipn by (fold n; lia); fold n; lia|].
      intros [? _]. discriminate.
Qed.

(* ---------- create_decimal on a rendering ---------- *)
Lemma shape_dchar neg ip dot fd x :
  forallb ascii_digit ip = true -> forallb ascii_digit fd = true ->
  forallb dchar (sign_chars neg ++ ip ++ frac_chars dot fd ++ exp_chars x) = true.
Proof.
  intros Hip Hfd. rewrite !forallb_app.
  rewrite (forallb_dchar_digits ip Hip).
  assert (forallb dchar (sign_chars neg) = true) as -> by (destruct neg; reflexivity).
  assert (forallb dchar (frac_chars dot fd) = true) as ->.
  { destruct dot; [|reflexivity]. cbn [frac_chars forallb]. now rewrite (forallb_dchar_digits fd Hfd). }
  assert (forallb dchar (exp_chars x) = true) as ->; [|reflexivity].
  destruct x as [x|]; [|reflexivity]. cbn [exp_chars forallb]. unfold render_exp. cbn [forallb].
  rewrite (forallb_dchar_digits _ (render_nat_digits (Z.abs x) ltac:(lia))). destruct (x <? 0); reflexivity.
Qed.

Lemma dec_str_dchar neg c e : 0 <= c -> forallb dchar (dec_str (DFin neg c e)) = true.
Proof.
  intros Hc. destruct (dec_str_shape neg c e Hc) as (ip & dot & fd & x & Heq & _ & Hip & Hfd & _).
  rewrite Heq. now apply shape_dchar.
Qed.

Lemma create_decimal_str p neg c e : 0 <= c ->
  create_decimal p (dec_str (DFin neg c e)) = dec_fix p neg c e.
Proof.
  intros Hc. destruct (dec_str_shape neg c e Hc) as (ip & dot & fd & x & Heq & Hne & Hip & Hfd & Hdot & Hval & Hexp & _).
  unfold create_decimal. rewrite map_opt_dchar by (now apply dec_str_dchar).
  rewrite Heq, dec_syntax_shape by assumption. now rewrite Hval, Hexp.
Qed.

(* the text DecimalFactory builds for an all-digit input: digits, a point, z zeros *)
Lemma create_decimal_padded p c z : 0 <= c ->
  create_decimal p (render_nat c ++ 46%N :: repeat 48%N z) = dec_fix p false (c * 10 ^ Z.of_nat z) (- Z.of_nat z).
Proof.
  intros Hc. pose proof (render_nat_spec c Hc) as (Hne & Hall & Hval & _).
  assert (render_nat c ++ 46%N :: repeat 48%N z
          = sign_chars false ++ render_nat c ++ frac_chars true (repeat 48%N z) ++ exp_chars None) as Heq.
  { cbn [sign_chars frac_chars exp_chars app]. now rewrite app_nil_r. }
  unfold create_decimal. rewrite Heq.
  rewrite map_opt_dchar by (apply shape_dchar; [assumption|apply forallb_repeat_zero]).
  rewrite dec_syntax_shape by (try assumption; try apply forallb_repeat_zero; discriminate).
  rewrite digits_value_app_zeros by assumption. rewrite Hval, zlen_repeat. cbn [exp_val].
  replace (0 - Z.of_nat z) with (- Z.of_nat z) by lia. reflexivity.
Qed.

Lemma str_isdigit_all s : str_isdigit s = true -> forall c, In c s -> is_digit_char c = true.
Proof.
  unfold str_isdigit. destruct s as [|a s]; [discriminate|]. intros H c Hc. rewrite forallb_forall in H. auto.
Qed.

Lemma isdigit_shape neg ip dot fd x :
  str_isdigit (sign_chars neg ++ ip ++ frac_chars dot fd ++ exp_chars x) = true ->
  neg = false /\ dot = false /\ x = None.
Proof.
  intros H. pose proof (str_isdigit_all _ H) as A.
  repeat split.
  - destruct neg; [|reflexivity]. specialize (A 45%N). cbn [sign_chars app] in A.
    assert (is_digit_char 45 = true) as C by (apply A; now left). vm_compute in C. discriminate.
  - destruct dot; [|reflexivity]. specialize (A 46%N).
    assert (is_digit_char 46 = true) as C.
    { apply A. apply in_or_app. right. apply in_or_app. right. apply in_or_app. left. now left. }
    vm_compute in C. discriminate.
  - destruct x as [x|]; [|reflexivity]. specialize (A 69%N).
    assert (is_digit_char 69 = true) as C.
    { apply A. apply in_or_app. right. apply in_or_app. right. apply in_or_app. right. now left. }
    vm_compute in C. discriminate.
Qed.

(* ---------- no rounding when the value fits ---------- *)
Lemma ctx_range : dec_emin <= -2000 /\ 2000 <= dec_emax /\ 38 <= dec_max_prec /\
                  0 <= isdigit_pad_cap /\ 0 <= safe_scale_cap <= 1000.
Proof. vm_compute. repeat split; discriminate. Qed.

Lemma dec_fix_exact p neg c e : 1 <= p <= 38 -> 0 <= c -> (c = 0 \/ ndig c <= p) -> -1000 <= e <= 1000 ->
  dec_fix p neg c e = ROk (DFin neg c e).
Proof.
  intros Hp Hc Hfit He. destruct ctx_range as (Hmin & Hmax & _). unfold dec_fix. cbv zeta.
  destruct (c =? 0) eqn:E0.
  - assert (c = 0) by lia. subst. do 2 f_equal. lia.
  - destruct Hfit as [->|Hfit]; [discriminate|].
    replace (dec_emax - p + 1 <? ndig c + e - p) with false by lia.
    replace (e <? Z.max (ndig c + e - p) (dec_emin - p + 1)) with false by lia. reflexivity.
Qed.

Lemma quantize_exact p s neg c e : 1 <= p <= 38 -> 0 <= s <= 1000 -> - s <= e <= 1000 -> 0 <= c ->
  (c = 0 \/ ndig c + (e + s) <= p) ->
  dec_quantize p (- s) (DFin neg c e) = ROk (DFin neg (c * 10 ^ (e + s)) (- s)).
Proof.
  intros Hp Hs He Hc Hfit. destruct ctx_range as (Hmin & Hmax & _). unfold dec_quantize. cbv zeta.
  replace ((dec_emax <? - s) || (- s <? dec_emin - p + 1)) with false by lia.
  destruct (c =? 0) eqn:E0.
  - assert (c = 0) by lia. subst. rewrite dec_fix_exact by lia. now rewrite Z.mul_0_l.
  - destruct Hfit as [->|Hfit]; [discriminate|]. assert (0 < c) by lia.
    replace (e - - s) with (e + s) by lia.
    replace (p <? ndig c + (e + s)) with false by lia.
    replace (- s <=? e) with true by lia.
    assert (0 < 10 ^ (e + s)) by (apply Z.pow_pos_nonneg; lia).
    rewrite ndig_mul_pow by lia.
    replace (p <? ndig c + (e + s)) with false by lia.
    pose proof (ndig_pos c ltac:(lia)).
    replace ((dec_emax <? ndig c + (e + s) + - s - 1) || (ndig c + (e + s) + - s - 1 <? dec_emin - p + 1)) with false by lia.
    assert (0 <= c * 10 ^ (e + s)) by nia.
    apply dec_fix_exact; [lia|assumption| |lia]. right. rewrite ndig_mul_pow by lia. lia.
Qed.

(* DecimalFactory(p, s) on the rendering of a decimal that fits DECIMAL(p, s): the value,
   exactly, at exponent -s *)
Lemma factory_exact p s neg c e :
  1 <= p <= 38 -> 0 <= s <= safe_scale_cap -> - s <= e <= 1000 -> 0 <= c ->
  (c = 0 \/ ndig c + (e + s) <= p) ->
  decimal_factory p s (dec_str (DFin neg c e)) = ROk (DFin neg (c * 10 ^ (e + s)) (- s)).
Proof.
  intros Hp Hs He Hc Hfit. destruct ctx_range as (Hmin & Hmax & Hprec & Hpad & Hcap).
  unfold decimal_factory.
  replace ((p <? 1) || (dec_max_prec <? p)) with false by lia.
  replace (Z.min s safe_scale_cap) with s by lia.
  destruct (str_isdigit (dec_str (DFin neg c e))) eqn:Ed.
  - destruct (dec_str_shape neg c e Hc) as (ip & dot & fd & x & Heq & Hne & Hip & Hfd & Hdot & Hval & Hexp & Hplain).
    rewrite Heq in Ed. apply isdigit_shape in Ed. destruct Ed as (-> & -> & ->).
    destruct (Hplain (conj eq_refl eq_refl)) as (-> & ->).
    rewrite Heq. cbn [sign_chars frac_chars exp_chars app]. rewrite !app_nil_r.
    rewrite create_decimal_padded by assumption.
    set (z := Z.of_nat (Z.to_nat (Z.min s isdigit_pad_cap))).
    assert (0 <= z <= s) as Hz by (subst z; lia).
    assert (0 < 10 ^ z) by (apply Z.pow_pos_nonneg; lia).
    assert (0 <= c * 10 ^ z) as Hcz by nia.
    assert (c * 10 ^ z = 0 \/ ndig (c * 10 ^ z) + (- z + s) <= p) as Hfit'.
    { destruct Hfit as [->|Hfit]; [left; lia|].
      destruct (Z.eq_dec c 0) as [->|Hnz]; [left; lia|]. right. rewrite ndig_mul_pow by lia. lia. }
    rewrite dec_fix_exact; [|lia|assumption| |lia].
    + cbn [rbind]. rewrite quantize_exact; [|lia|lia|lia|assumption|assumption].
      do 2 f_equal. rewrite <- Z.mul_assoc, <- Z.pow_add_r by lia. do 2 f_equal. lia.
    + destruct Hfit' as [->|Hf]; [now left|right; lia].
  - rewrite create_decimal_str by assumption.
    rewrite dec_fix_exact; [|lia|assumption| |lia].
    + cbn [rbind]. rewrite quantize_exact; [reflexivity|lia|lia|lia|assumption|assumption].
    + destruct Hfit as [->|Hfit]; [now left|]. right. lia.
Qed.

(* ---------- stripping ---------- *)
Lemma drop_space_spaces ws r : forallb in_space ws = true -> drop_space (ws ++ r) = drop_space r.
Proof.
  induction ws as [|c ws IH]; intros H; [reflexivity|].
  cbn [forallb] in H. apply andb_true_iff in H. destruct H as [Hc Hs].
  cbn [app drop_space]. rewrite Hc. now apply IH.
Qed.

Lemma py_strip_padded ws1 ws2 text :
  forallb in_space ws1 = true -> forallb in_space ws2 = true -> forallb dchar text = true ->
  py_strip (ws1 ++ text ++ ws2) = text.
Proof.
  intros H1 H2 Ht. unfold py_strip. rewrite drop_space_spaces by assumption.
  destruct text as [|c text].
  - cbn [app]. rewrite <- (app_nil_r ws2) at 1. rewrite drop_space_spaces by assumption. cbn [drop_space rev].
    reflexivity.
  - assert (drop_space ((c :: text) ++ ws2) = (c :: text) ++ ws2) as ->.
    { cbn [forallb] in Ht. apply andb_true_iff in Ht. cbn [app drop_space]. now rewrite (proj1 (dchar_props c (proj1 Ht))). }
    rewrite rev_app_distr. rewrite drop_space_spaces.
    + rewrite drop_space_nospace; [apply rev_involutive|].
      apply forallb_forall. intros x Hx. rewrite forallb_forall in Ht. apply Ht. now apply in_rev.
    + apply forallb_forall. intros x Hx. rewrite forallb_forall in H2. apply H2. now apply in_rev.
Qed.

Lemma utf8_decode_ascii s : forallb (fun c => c <? 128)%N s = true -> utf8_decode s = Some s.
Proof.
  induction s as [|c s IH]; intros H; [reflexivity|].
  cbn [forallb] in H. apply andb_true_iff in H. destruct H as [Hc Hs].
  cbn [utf8_decode]. rewrite Hc, IH by assumption. reflexivity.
Qed.

Lemma dchar_ascii s : forallb dchar s = true -> forallb (fun c => c <? 128)%N s = true.
Proof.
  intros H. apply forallb_forall. intros c Hc. rewrite forallb_forall in H. specialize (H c Hc).
  apply dchar_cases in H. lia.
Qed.

Lemma space_ascii_blank ws : forallb blank ws = true -> forallb in_space ws = true.
Proof.
  intros H. apply forallb_forall. intros c Hc. rewrite forallb_forall in H. specialize (H c Hc).
  unfold blank in H.
  assert (c = 32 \/ c = 9 \/ c = 10 \/ c = 11 \/ c = 12 \/ c = 13)%N as D by lia.
  repeat (destruct D as [->|D]; [vm_compute; reflexivity|]). subst. vm_compute. reflexivity.
Qed.

(* ---------- numerically exact even when the value does not fit DECIMAL(p, s) ---------- *)
(* quantize either pads to exponent -s exactly or signals InvalidOperation; it never rounds
   a value whose exponent is already >= -s *)
Lemma quantize_cases p s neg c e : 1 <= p <= 38 -> 0 <= s <= 1000 -> - s <= e <= 1000 -> 0 <= c ->
  dec_quantize p (- s) (DFin neg c e) = ROk (DFin neg (c * 10 ^ (e + s)) (- s)) \/
  dec_quantize p (- s) (DFin neg c e) = RErr XInvalidOp.
Proof.
  intros Hp Hs He Hc.
  destruct (Z.eq_dec c 0) as [->|Hnz]; [left; apply quantize_exact; try lia; now left|].
  destruct (Z_le_gt_dec (ndig c + (e + s)) p) as [Hfit|Hbig]; [left; apply quantize_exact; try lia; now right|].
  right. destruct ctx_range as (Hmin & Hmax & _). unfold dec_quantize. cbv zeta.
  replace ((dec_emax <? - s) || (- s <? dec_emin - p + 1)) with false by lia.
  replace (c =? 0) with false by lia. replace (e - - s) with (e + s) by lia.
  replace (p <? ndig c + (e + s)) with true by lia. reflexivity.
Qed.

(* rounding c * 10^z to p digits only drops zeros when c itself has at most p digits *)
Lemma dec_fix_trailing_zeros p c z : 1 <= p <= 38 -> 0 < c -> ndig c <= p -> 0 <= z <= 1000 ->
  exists z', 0 <= z' <= z /\ dec_fix p false (c * 10 ^ z) (- z) = ROk (DFin false (c * 10 ^ z') (- z')).
Proof.
  intros Hp Hc Hd Hz. destruct ctx_range as (Hmin & Hmax & _).
  assert (0 < 10 ^ z) by (apply Z.pow_pos_nonneg; lia).
  destruct (Z_le_gt_dec (ndig c + z) p) as [Hfit|Hbig].
  - exists z. split; [lia|]. apply dec_fix_exact; [lia|nia| |lia]. right. rewrite ndig_mul_pow by lia. lia.
  - set (j := ndig c + z - p). assert (0 < j <= z) as Hj by (subst j; lia).
    exists (z - j). split; [lia|].
    unfold dec_fix. cbv zeta. replace (c * 10 ^ z =? 0) with false by nia.
    rewrite ndig_mul_pow by lia.
    replace (dec_emax - p + 1 <? ndig c + z + - z - p) with false by lia.
    replace (Z.max (ndig c + z + - z - p) (dec_emin - p + 1)) with (ndig c - p) by lia.
    replace (- z <? ndig c - p) with true by lia.
    replace (ndig c - p - - z) with j by (subst j; lia).
    assert (0 < 10 ^ j) by (apply Z.pow_pos_nonneg; lia).
    assert (0 < 10 ^ (z - j)) by (apply Z.pow_pos_nonneg; lia).
    assert (c * 10 ^ z = c * 10 ^ (z - j) * 10 ^ j) as Hsplit.
    { rewrite <- Z.mul_assoc, <- Z.pow_add_r by lia. do 2 f_equal. lia. }
    assert (round_he (c * 10 ^ z) j = c * 10 ^ (z - j)) as ->.
    { unfold round_he. rewrite ndig_mul_pow by lia. replace (ndig c + z <? j) with false by (subst j; lia).
      cbv zeta. rewrite Hsplit. rewrite Z.div_mul, Z.mod_mul by lia.
      replace (10 ^ j <? 2 * 0) with false by lia. replace (10 ^ j =? 2 * 0) with false by lia. reflexivity. }
    rewrite ndig_mul_pow by lia.
    replace (p <? ndig c + (z - j)) with false by (subst j; lia).
    replace (dec_emax - p + 1 <? ndig c - p) with false by lia.
    do 2 f_equal. subst j. lia.
Qed.

(* every decimal with at most p significant digits and exponent >= -s comes back with the
   same numerical value (c2 * 10^e2 = c * 10^e, stated after scaling by 10^s) *)
Lemma factory_numeric p s neg c e :
  1 <= p <= 38 -> 0 <= s <= safe_scale_cap -> - s <= e <= 1000 -> 0 <= c -> (c = 0 \/ ndig c <= p) ->
  exists c2 e2, decimal_factory p s (dec_str (DFin neg c e)) = ROk (DFin neg c2 e2) /\
                - s <= e2 /\ c2 * 10 ^ (e2 + s) = c * 10 ^ (e + s).
Proof.
  intros Hp Hs He Hc Hfit. destruct ctx_range as (Hmin & Hmax & Hprec & Hpad & Hcap).
  unfold decimal_factory.
  replace ((p <? 1) || (dec_max_prec <? p)) with false by lia.
  replace (Z.min s safe_scale_cap) with s by lia.
  assert (forall c1 e1, 0 <= c1 -> - s <= e1 <= 1000 -> c1 * 10 ^ (e1 + s) = c * 10 ^ (e + s) ->
          exists c2 e2,
            match dec_quantize p (- s) (DFin neg c1 e1) with
            | ROk r => ROk r | RErr XInvalidOp => ROk (DFin neg c1 e1) | RErr e0 => RErr e0
            end = ROk (DFin neg c2 e2) /\ - s <= e2 /\ c2 * 10 ^ (e2 + s) = c * 10 ^ (e + s)) as Hq.
  { intros c1 e1 Hc1 He1 Hv. destruct (quantize_cases p s neg c1 e1) as [-> | ->]; try lia.
    - exists (c1 * 10 ^ (e1 + s)), (- s). split; [reflexivity|]. split; [lia|].
      replace (- s + s) with 0 by lia. rewrite Z.pow_0_r. lia.
    - exists c1, e1. split; [reflexivity|]. split; [lia|exact Hv]. }
  destruct (str_isdigit (dec_str (DFin neg c e))) eqn:Ed.
  - destruct (dec_str_shape neg c e Hc) as (ip & dot & fd & x & Heq & Hne & Hip & Hfd & Hdot & Hval & Hexp & Hplain).
    rewrite Heq in Ed. apply isdigit_shape in Ed. destruct Ed as (-> & -> & ->).
    destruct (Hplain (conj eq_refl eq_refl)) as (-> & ->).
    rewrite Heq. cbn [sign_chars frac_chars exp_chars app]. rewrite !app_nil_r.
    rewrite create_decimal_padded by assumption.
    set (z := Z.of_nat (Z.to_nat (Z.min s isdigit_pad_cap))).
    assert (0 <= z <= s) as Hz by (subst z; lia).
    destruct (Z.eq_dec c 0) as [->|Hnz].
    + rewrite Z.mul_0_l. rewrite dec_fix_exact; [|lia|lia|now left|lia]. cbn [rbind].
      apply Hq; try lia.
    + destruct Hfit as [->|Hd]; [congruence|].
      destruct (dec_fix_trailing_zeros p c z Hp ltac:(lia) Hd ltac:(lia)) as (z' & Hz' & ->). cbn [rbind].
      assert (0 < 10 ^ z') by (apply Z.pow_pos_nonneg; lia).
      apply Hq; [nia|lia|].
      rewrite <- Z.mul_assoc, <- Z.pow_add_r by lia. do 2 f_equal. lia.
  - rewrite create_decimal_str by assumption.
    rewrite dec_fix_exact; [|lia|assumption|assumption|lia]. cbn [rbind]. apply Hq; try lia.
Qed.
