(* C07 - Decimal: the syntax read by create_decimal inverts Decimal.__str__, and
   DecimalFactory is exact on values that fit DECIMAL(p, s). *)
From Coq Require Import List ZArith NArith Bool Lia ZifyBool.
From Orso Require Import Base.Civil Gen.C08_Tables Model.C08 Gen.C07_Tables Model.C07.
From Orso Require Import Proofs.C08_Str Proofs.C07_Int.
Import ListNotations.
Open Scope Z_scope.

(* ---------- characters of a decimal rendering ---------- *)
Definition dchar (c : N) : bool := ascii_digit c || N.eqb c 43 || N.eqb c 45 || N.eqb c 46 || N.eqb c 69.

Lemma dchar_cases c : dchar c = true ->
  (c = 43 \/ c = 45 \/ c = 46 \/ c = 69 \/ c = 48 \/ c = 49 \/ c = 50 \/ c = 51 \/ c = 52 \/ c = 53 \/ c = 54 \/ c = 55 \/ c = 56 \/ c = 57)%N.
Proof. unfold dchar, ascii_digit. lia. Qed.

Lemma dchar_props c : dchar c = true -> in_space c = false /\ dec_ascii c = Some c.
Proof.
  intros H. apply dchar_cases in H.
  repeat (destruct H as [->|H]; [split; vm_compute; reflexivity|]). subst. split; vm_compute; reflexivity.
Qed.

Lemma dchar_digit c : ascii_digit c = true -> dchar c = true.
Proof. unfold dchar. intros ->. reflexivity. Qed.

Lemma forallb_dchar_digits ds : forallb ascii_digit ds = true -> forallb dchar ds = true.
Proof.
  intros H. apply forallb_forall. intros c Hc. rewrite forallb_forall in H. apply dchar_digit. auto.
Qed.

Lemma map_opt_dchar s : forallb dchar s = true -> map_opt dec_ascii s = Some s.
Proof.
  induction s as [|c s IH]; intros H; [reflexivity|].
  cbn [forallb] in H. apply andb_true_iff in H. destruct H as [Hc Hs].
  cbn [map_opt]. rewrite (proj2 (dchar_props c Hc)), IH by assumption. reflexivity.
Qed.

Lemma drop_space_nospace s : forallb dchar s = true -> drop_space s = s.
Proof.
  destruct s as [|c s]; [reflexivity|]. cbn [forallb]. intros H. apply andb_true_iff in H. destruct H as [Hc _].
  destruct (dchar_props c Hc) as [Hs _]. cbn [drop_space]. rewrite Hs. reflexivity.
Qed.

Lemma py_strip_dchar s : forallb dchar s = true -> py_strip s = s.
Proof.
  intros H. unfold py_strip. rewrite (drop_space_nospace s H).
  rewrite drop_space_nospace; [apply rev_involutive|].
  apply forallb_forall. intros c Hc. rewrite forallb_forall in H. apply H. now apply in_rev.
Qed.

(* ---------- scanning ---------- *)
Definition nondigit_head (r : list N) : Prop := match r with [] => True | x :: _ => ascii_digit x = false end.

Lemma span_digits_app ds r : forallb ascii_digit ds = true -> nondigit_head r -> span_digits (ds ++ r) = (ds, r).
Proof.
  induction ds as [|c ds IH]; intros H Hr.
  - cbn [app]. destruct r as [|x r]; [reflexivity|]. cbn [span_digits]. cbn in Hr. now rewrite Hr.
  - cbn [forallb] in H. apply andb_true_iff in H. destruct H as [Hc Hs].
    cbn [app span_digits]. rewrite Hc, IH by assumption. reflexivity.
Qed.

Lemma span_digits_all ds : forallb ascii_digit ds = true -> span_digits ds = (ds, []).
Proof. intros H. rewrite <- (app_nil_r ds) at 1. now apply span_digits_app. Qed.

Lemma lower_digit c : ascii_digit c = true -> lower_ascii c = c.
Proof. unfold ascii_digit, lower_ascii. intros H. replace ((65 <=? c)%N && (c <=? 90)%N) with false by lia. reflexivity. Qed.

Lemma starts_with_digit p pr c r : ascii_digit c = true -> ascii_digit p = false -> starts_with (p :: pr) (c :: r) = None.
Proof.
  intros Hc Hp. cbn [starts_with]. rewrite lower_digit by assumption.
  destruct (N.eqb p c) eqn:E; [|reflexivity]. apply N.eqb_eq in E. subst. congruence.
Qed.

Definition sign_chars (neg : bool) : list N := if neg then [45%N] else [].

Lemma split_sign_digit neg c r : ascii_digit c = true -> split_sign (sign_chars neg ++ c :: r) = (neg, c :: r).
Proof.
  intros Hc. destruct neg; [reflexivity|]. cbn [sign_chars app]. unfold split_sign.
  unfold ascii_digit in Hc.
  destruct c as [|p]; [reflexivity|].
  destruct (N.eq_dec (N.pos p) 43) as [E|E]; [rewrite E in Hc; discriminate|].
  destruct (N.eq_dec (N.pos p) 45) as [E'|E']; [rewrite E' in Hc; discriminate|].
  repeat (destruct p as [p|p|]; try reflexivity; try congruence).
Qed.

Lemma render_exp_split x : split_sign (render_exp x) = (x <? 0, render_nat (Z.abs x)).
Proof. unfold render_exp. destruct (x <? 0); reflexivity. Qed.

(* the exponent part of a rendering: nothing, or E followed by a signed integer *)
Definition exp_chars (x : option Z) : list N := match x with None => [] | Some x => 69%N :: render_exp x end.
Definition exp_val (x : option Z) : Z := match x with None => 0 | Some x => x end.
Definition frac_chars (dot : bool) (fd : list N) : list N := if dot then 46%N :: fd else [].

Lemma nondigit_exp x : nondigit_head (exp_chars x).
Proof. destruct x; cbn; [reflexivity|exact I]. Qed.

(* digits [. digits] [E sign digits] reads as its coefficient and exponent *)
Lemma dec_syntax_shape neg ip (dot : bool) fd x :
  ip <> [] -> forallb ascii_digit ip = true -> forallb ascii_digit fd = true -> (dot = false -> fd = []) ->
  dec_syntax (sign_chars neg ++ ip ++ frac_chars dot fd ++ exp_chars x)
  = Some (SynNum neg (digits_value (ip ++ fd)) (exp_val x - zlen fd)).
Proof.
  intros Hne Hip Hfd Hdot. destruct ip as [|c ip]; [congruence|].
  pose proof Hip as Hip'. cbn [forallb] in Hip'. apply andb_true_iff in Hip'. destruct Hip' as [Hc Hrest].
  unfold dec_syntax. cbn [app]. rewrite split_sign_digit by assumption.
  rewrite !starts_with_digit by (try assumption; reflexivity).
  change (c :: ip ++ frac_chars dot fd ++ exp_chars x) with ((c :: ip) ++ frac_chars dot fd ++ exp_chars x).
  assert (nondigit_head (frac_chars dot fd ++ exp_chars x)) as Hnd.
  { destruct dot; cbn [frac_chars app]; [reflexivity|apply nondigit_exp]. }
  rewrite span_digits_app by assumption.
  assert ((let '(fp, r2) := match frac_chars dot fd ++ exp_chars x with
                            | 46%N :: r1' => span_digits r1'
                            | _ => ([], frac_chars dot fd ++ exp_chars x)
                            end in (fp, r2)) = (fd, exp_chars x)) as Hfrac.
  { destruct dot; cbn [frac_chars app].
    - rewrite span_digits_app by (try assumption; apply nondigit_exp). reflexivity.
    - rewrite (Hdot eq_refl). destruct x as [x|]; cbn [exp_chars]; reflexivity. }
  destruct (match frac_chars dot fd ++ exp_chars x with
            | 46%N :: r1' => span_digits r1'
            | _ => ([], frac_chars dot fd ++ exp_chars x)
            end) as [fp r2]. injection Hfrac as -> ->.
  cbn [app]. destruct x as [x|]; cbn [exp_chars exp_val].
  - change (lower_ascii 69) with 101%N. cbn [N.eqb Pos.eqb]. rewrite render_exp_split.
    rewrite span_digits_all by (apply render_nat_digits; lia).
    pose proof (render_nat_nonempty (Z.abs x) ltac:(lia)) as Hn.
    destruct (render_nat (Z.abs x)) as [|e0 er] eqn:Er; [congruence|].
    rewrite <- Er. rewrite render_nat_value by lia.
    do 2 f_equal. destruct (x <? 0) eqn:Ex; lia.
  - do 2 f_equal.
Qed.

(* ---------- Decimal.__str__ of a finite value ---------- *)
Lemma zlen_firstn {A} (l : list A) k : 0 <= k <= zlen l -> zlen (firstn (Z.to_nat k) l) = k.
Proof. intros H. unfold zlen in *. rewrite firstn_length. lia. Qed.
Lemma zlen_skipn {A} (l : list A) k : 0 <= k <= zlen l -> zlen (skipn (Z.to_nat k) l) = zlen l - k.
Proof. intros H. unfold zlen in *. rewrite skipn_length. lia. Qed.
Lemma zlen_repeat {A} (x : A) n : zlen (repeat x n) = Z.of_nat n.
Proof. unfold zlen. now rewrite repeat_length. Qed.

Lemma forallb_firstn {A} (f : A -> bool) l k : forallb f l = true -> forallb f (firstn k l) = true.
Proof.
  intros H. apply forallb_forall. intros x Hx. rewrite forallb_forall in H. apply H.
  rewrite <- (firstn_skipn k l). apply in_or_app. now left.
Qed.
Lemma forallb_skipn {A} (f : A -> bool) l k : forallb f l = true -> forallb f (skipn k l) = true.
Proof.
  intros H. apply forallb_forall. intros x Hx. rewrite forallb_forall in H. apply H.
  rewrite <- (firstn_skipn k l). apply in_or_app. now right.
Qed.

(* the shape of the rendering: sign, integer digits, optional fraction, optional exponent *)
Lemma dec_str_shape neg c e : 0 <= c ->
  exists ip dot fd x,
    dec_str (DFin neg c e) = sign_chars neg ++ ip ++ frac_chars dot fd ++ exp_chars x /\
    ip <> [] /\ forallb ascii_digit ip = true /\ forallb ascii_digit fd = true /\ (dot = false -> fd = []) /\
    digits_value (ip ++ fd) = c /\ exp_val x - zlen fd = e /\
    (* all digits exactly when there is neither fraction nor exponent *)
    ((dot = false /\ x = None) -> e = 0 /\ ip = render_nat c).
Proof.
  intros Hc. pose proof (render_nat_spec c Hc) as (Hne & Hall & Hval & _).
  unfold dec_str. set (ds := render_nat c) in *. set (n := zlen ds).
  assert (1 <= n) as Hn by (subst n; destruct ds; [congruence|rewrite zlen_cons; pose proof (zlen_nonneg ds); lia]).
  fold (sign_chars neg).
  destruct ((e <=? 0) && (-6 <? e + n)) eqn:Eplain.
  - (* positional notation, dot = e + n *)
    destruct (e + n <=? 0) eqn:E1.
    + exists [48%N], true, (repeat 48%N (Z.to_nat (- (e + n))) ++ ds), None.
      replace (e + n =? e + n) with true by lia. cbn [frac_chars exp_chars]. rewrite app_nil_r.
      repeat split; try reflexivity; try discriminate.
      * rewrite forallb_app, forallb_repeat_zero, Hall. reflexivity.
      * change ([48%N] ++ repeat 48%N (Z.to_nat (- (e + n))) ++ ds) with (repeat 48%N (S (Z.to_nat (- (e + n)))) ++ ds).
        now rewrite digits_value_zeros.
      * cbn [exp_val]. rewrite zlen_app, zlen_repeat. fold n. lia.
      * intros [? _]. discriminate.
      * intros [? _]. discriminate.
    + destruct (n <=? e + n) eqn:E2.
      * assert (e = 0) by lia. subst e.
        exists ds, false, [], None. replace (0 + n - n) with 0 by lia. cbn [Z.to_nat repeat].
        replace (0 + n =? 0 + n) with true by lia. cbn [frac_chars exp_chars]. rewrite !app_nil_r.
        repeat split; try reflexivity; try assumption.
      * exists (firstn (Z.to_nat (e + n)) ds), true, (skipn (Z.to_nat (e + n)) ds), None.
        replace (e + n =? e + n) with true by lia. cbn [frac_chars exp_chars]. rewrite app_nil_r.
        repeat split; try reflexivity.
        -- intros Hf. apply (f_equal (@length N)) in Hf. rewrite firstn_length in Hf. cbn in Hf. subst n. unfold zlen in *. lia.
        -- now apply forallb_firstn.
        -- now apply forallb_skipn.
        -- discriminate.
        -- now rewrite firstn_skipn.
        -- cbn [exp_val]. rewrite zlen_skipn by (fold n; lia). fold n. lia.
        -- intros [? _]. discriminate.
        -- intros [? _]. discriminate.
  - (* scientific notation, dot = 1 *)
    replace (1 <=? 0) with false by reflexivity.
    assert (e + n <> 1) as Hne1 by lia.
    replace (e + n =? 1) with false by lia.
    destruct (n <=? 1) eqn:E2.
    + assert (n = 1) by lia.
      exists ds, false, [], (Some (e + n - 1)). replace (1 - n) with 0 by lia. cbn [Z.to_nat repeat frac_chars exp_chars].
      rewrite !app_nil_r. cbn [app].
      repeat split; try reflexivity; try assumption.
      * cbn [exp_val]. rewrite zlen_nil. lia.
      * intros [_ ?]. discriminate.
      * intros [_ ?]. discriminate.
    + exists (firstn (Z.to_nat 1) ds), true, (skipn (Z.to_nat 1) ds), (Some (e + n - 1)).
      cbn [frac_chars exp_chars].
      repeat split; try reflexivity.
      * intros Hf. apply (f_equal (@length N)) in Hf. rewrite firstn_length in Hf. cbn in Hf. subst n. unfold zlen in *. lia.
      * now apply forallb_firstn.
      * now apply forallb_skipn.
      * discriminate.
      * now rewrite firstn_skipn.
      * cbn [exp_val]. rewrite zlen_skipn by (fold n; lia). fold n. lia.
      * intros [? _]. discriminate.
      * intros [? _]. discriminate.
Qed.
