(* C19, round 5 - several decorated functions do not interfere: what function j experiences in a program
   with n decorated functions is what it experiences alone on its own calls and the common clock. *)
From Coq Require Import List ZArith NArith Bool Lia.
From Orso Require Import Model.C19.
Import ListNotations.

Section Multi.
Variables S A O : Type.
Variable call : nat -> S -> A -> S * O.
Variable tick : S -> N -> S.

Lemma upd_nth_same {X} (l : list X) : forall i x y, nth_error l i = Some y -> nth_error (upd l i x) i = Some x.
Proof. induction l as [|h l IH]; intros [|i] x y H; cbn in *; try discriminate; eauto. Qed.

Lemma upd_nth_other {X} (l : list X) : forall i j x, i <> j -> nth_error (upd l i x) j = nth_error l j.
Proof.
  induction l as [|h l IH]; intros [|i] [|j] x H; cbn; auto; try congruence; try (apply IH; congruence).
Qed.

Theorem multi_proj (h : list (@mev A)) : forall ss j s,
  nth_error ss j = Some s ->
  nth_error (fst (multi_run call tick ss h)) j = Some (fst (grun call tick j s (mproj j h))) /\
  outs_of j (snd (multi_run call tick ss h)) = snd (grun call tick j s (mproj j h)).
Proof.
  induction h as [|[i a|d] h IH]; intros ss j s Hj.
  - cbn. auto.
  - cbn [multi_run mproj]. destruct (nth_error ss i) as [si|] eqn:Ei.
    + destruct (Nat.eqb i j) eqn:Eij.
      * apply Nat.eqb_eq in Eij. subst i. rewrite Hj in Ei. injection Ei as <-.
        cbn [grun]. destruct (call j s a) as [s1 o].
        specialize (IH (upd ss j s1) j s1 (upd_nth_same ss j s1 s Hj)).
        destruct (multi_run call tick (upd ss j s1) h) as [ss2 os]. destruct (grun call tick j s1 (mproj j h)) as [s2 os'].
        cbn [fst snd] in *. destruct IH as [IH1 IH2]. split; auto.
        unfold outs_of in *. cbn [filter fst]. rewrite Nat.eqb_refl. cbn [map snd]. rewrite IH2. reflexivity.
      * apply Nat.eqb_neq in Eij. destruct (call i si a) as [s1 o].
        assert (Hj' : nth_error (upd ss i s1) j = Some s) by (rewrite upd_nth_other; auto).
        specialize (IH (upd ss i s1) j s Hj').
        destruct (multi_run call tick (upd ss i s1) h) as [ss2 os]. cbn [fst snd] in *. destruct IH as [IH1 IH2]. split; auto.
        unfold outs_of in *. cbn [filter fst]. apply Nat.eqb_neq in Eij. rewrite Eij. exact IH2.
    + assert (Eij : Nat.eqb i j = false).
      { apply Nat.eqb_neq. intros ->. congruence. }
      rewrite Eij. apply IH. exact Hj.
  - cbn [multi_run mproj grun]. apply IH. exact (map_nth_error (fun s0 : S => tick s0 d) j ss Hj).
Qed.
End Multi.

Section Instances.
Variables A K R : Type.
Variable key : A -> K.
Variable keqb : K -> K -> bool.
Variable f : nat -> A -> N -> R.
Variable valid : option Z.

Lemma grun_sic j h : forall s,
  grun (msic_call key keqb f valid) sic_tick j s h = sic_run key keqb (f j) valid s h.
Proof.
  induction h as [|[a|d] h IH]; intros s; cbn [grun sic_run]; auto.
  unfold msic_call at 1. destruct (sic_call key keqb (f j) valid s a) as [s1 o]. rewrite IH. reflexivity.
Qed.

Lemma grun_lru mx j h : forall s,
  grun (mlru_call key keqb f mx valid) lru_tick j s h = lru_run key keqb (f j) mx valid s h.
Proof.
  induction h as [|[a|d] h IH]; intros s; cbn [grun lru_run]; auto.
  unfold mlru_call at 1. destruct (lru_call key keqb (f j) mx valid s a) as [s1 o]. cbn [fst snd]. rewrite IH. reflexivity.
Qed.

Lemma nth_repeat {X} (x : X) n j : j < n -> nth_error (repeat x n) j = Some x.
Proof. revert j. induction n as [|n IH]; intros [|j] H; cbn; auto; try lia. apply IH. lia. Qed.

Theorem sic_functions_independent t0 n (h : list (@mev A)) j : j < n ->
  let res := multi_run (msic_call key keqb f valid) sic_tick (repeat (sic_init t0) n) h in
  nth_error (fst res) j = Some (fst (sic_run key keqb (f j) valid (sic_init t0) (mproj j h))) /\
  outs_of j (snd res) = snd (sic_run key keqb (f j) valid (sic_init t0) (mproj j h)).
Proof. intros Hj res. rewrite <- grun_sic. apply multi_proj. apply nth_repeat. exact Hj. Qed.

Theorem lru_functions_independent mx t0 n (h : list (@mev A)) j : j < n ->
  let res := multi_run (mlru_call key keqb f mx valid) lru_tick (repeat (lru_init t0) n) h in
  nth_error (fst res) j = Some (fst (lru_run key keqb (f j) mx valid (lru_init t0) (mproj j h))) /\
  outs_of j (snd res) = snd (lru_run key keqb (f j) mx valid (lru_init t0) (mproj j h)).
Proof. intros Hj res. rewrite <- grun_lru. apply multi_proj. apply nth_repeat. exact Hj. Qed.
End Instances.
