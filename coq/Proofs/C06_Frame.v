(* C06 round 2 - lemmas about DataFrame.description over a whole schema
   (Model/C06.v: find_column, description, declared, schema_of, frame_desc). *)
From Coq Require Import List NArith ZArith Bool String.
From Orso Require Import Base.C06_Defs Gen.C06_Types Gen.C06_Names Gen.C06_Env Model.C06 Proofs.C06.
Import ListNotations.
Open Scope N_scope.

(* ------------------------------------------------------------------ *)
(* find_column *)
Lemma find_column_head : forall n c r, find_column n ((n, c) :: r) = Some c.
Proof. intros. cbn [find_column]. rewrite str_eqb_refl. reflexivity. Qed.

Lemma find_column_in : forall n sch c, find_column n sch = Some c -> In (n, c) sch.
Proof.
  intros n sch. induction sch as [|[m c0] r IH]; intros c H; [discriminate H|].
  cbn [find_column] in H. destruct (str_eqb n m) eqn:E.
  - apply str_eqb_eq in E. subst m. inversion H. subst. left. reflexivity.
  - right. apply IH. exact H.
Qed.

(* with distinct column names the lookup by name returns the column itself *)
Lemma find_column_nodup : forall sch n c,
  NoDup (map fst sch) -> In (n, c) sch -> find_column n sch = Some c.
Proof.
  induction sch as [|[m c0] r IH]; intros n c ND Hin; [destruct Hin|].
  cbn [map fst] in ND. inversion ND as [|x l Hnot ND']. subst.
  cbn [find_column]. destruct Hin as [Heq|Hin].
  - inversion Heq. subst. rewrite str_eqb_refl. reflexivity.
  - destruct (str_eqb n m) eqn:E.
    + apply str_eqb_eq in E. subst m. exfalso. apply Hnot.
      change n with (fst (n, c)). apply in_map. exact Hin.
    + apply IH; assumption.
Qed.

Lemma nodup_names_functional : forall (sch : schema) n c c',
  NoDup (map fst sch) -> In (n, c) sch -> In (n, c') sch -> c = c'.
Proof.
  intros sch n c c' ND H1 H2.
  pose proof (find_column_nodup sch n c ND H1) as F1.
  pose proof (find_column_nodup sch n c' ND H2) as F2.
  rewrite F1 in F2. inversion F2. reflexivity.
Qed.

(* a name taken from the schema is always found: the first column carrying it *)
Lemma find_column_some : forall sch n, In n (map fst sch) -> exists c, find_column n sch = Some c.
Proof.
  induction sch as [|[m c0] r IH]; intros n Hin; [destruct Hin|].
  cbn [find_column]. destruct (str_eqb n m) eqn:E.
  - eexists. reflexivity.
  - cbn [map fst] in Hin. destruct Hin as [Heq|Hin].
    + subst m. rewrite str_eqb_refl in E. discriminate E.
    + apply IH. exact Hin.
Qed.

(* ------------------------------------------------------------------ *)
(* description *)
Lemma description_length : forall sch, List.length (description sch) = List.length sch.
Proof. intros. unfold description. rewrite !map_length. reflexivity. Qed.

(* whatever the names: entry k carries the name of column k and renders the FIRST column of that name *)
Lemma description_first_match : forall sch k n c,
  nth_error sch k = Some (n, c) ->
  exists c', find_column n sch = Some c' /\ nth_error (description sch) k = Some (entry_of n c').
Proof.
  intros sch k n c H.
  assert (Hin : In n (map fst sch)).
  { change n with (fst (n, c)). apply in_map. eapply nth_error_In. exact H. }
  destruct (find_column_some sch n Hin) as [c' F]. exists c'. split; [exact F|].
  unfold description. rewrite map_map.
  rewrite (map_nth_error (fun x => describe_column sch (fst x)) k sch H).
  cbn [fst]. unfold describe_column. rewrite F. reflexivity.
Qed.

Lemma description_first_match_len : forall (sch : schema) (k : nat) (n : str) (c : descr),
  nth_error sch k = Some (n, c) ->
  List.length (description sch) = List.length sch /\
  exists c', find_column n sch = Some c' /\ nth_error (description sch) k = Some (entry_of n c').
Proof. intros sch k n c H. split; [apply description_length|exact (description_first_match sch k n c H)]. Qed.

(* with distinct names every entry is a function of its own column alone *)
Lemma description_per_column : forall sch,
  NoDup (map fst sch) -> description sch = map (fun nc => entry_of (fst nc) (snd nc)) sch.
Proof.
  intros sch ND. unfold description. rewrite map_map. apply map_ext_in.
  intros [n c] Hin. cbn [fst snd]. unfold describe_column.
  rewrite (find_column_nodup sch n c ND Hin). reflexivity.
Qed.

Lemma description_nth : forall sch k n c,
  NoDup (map fst sch) -> nth_error sch k = Some (n, c) ->
  nth_error (description sch) k = Some (entry_of n c).
Proof.
  intros sch k n c ND H. rewrite (description_per_column sch ND).
  rewrite (map_nth_error (fun nc => entry_of (fst nc) (snd nc)) k sch H). reflexivity.
Qed.

(* the type code of column k resolves back to column k's type, whatever the other columns are *)
Lemma frame_type_code_round_trip : forall (sch : schema) (k : nat) (n : str) (d : descr),
  NoDup (map fst sch) -> nth_error sch k = Some (n, column_of d) ->
  wfb d = true -> proper d = true ->
  exists d',
    nth_error (description sch) k =
      Some (n, type_code (column_of d), desc_prec (column_of d), desc_scale (column_of d)) /\
    from_name (type_code (column_of d)) = Ok d' /\
    d_ty d' = d_ty (column_of d) /\
    d_prec d' = desc_prec (column_of d) /\ d_scale d' = desc_scale (column_of d) /\
    (forall e, d_elt (column_of d) = Some e -> d_elt d' = Some e).
Proof.
  intros sch k n d ND H W P.
  destruct (typecode_roundtrip d W P) as [d' [H1 [H2 [H3 [H4 H5]]]]].
  exists d'. split; [|repeat split; assumption].
  rewrite (description_nth sch k n (column_of d) ND H). reflexivity.
Qed.

(* ------------------------------------------------------------------ *)
(* the schema built from declared columns *)
Lemma schema_of_cons : forall ci r,
  schema_of (ci :: r) =
  (match declared ci with Ok c => [(ci_name ci, c)] | Raise _ => [] end) ++ schema_of r.
Proof. reflexivity. Qed.

Lemma schema_of_names : forall cols n, In n (map fst (schema_of cols)) -> In n (map ci_name cols).
Proof.
  induction cols as [|ci r IH]; intros n Hin; [destruct Hin|].
  rewrite schema_of_cons in Hin. cbn [map]. destruct (declared ci) as [c|e].
  - cbn [app map fst] in Hin. destruct Hin as [Heq|Hin]; [left; exact Heq|right; apply IH; exact Hin].
  - cbn [app] in Hin. right. apply IH. exact Hin.
Qed.

Lemma schema_of_nodup : forall cols, NoDup (map ci_name cols) -> NoDup (map fst (schema_of cols)).
Proof.
  induction cols as [|ci r IH]; intros ND; [constructor|].
  cbn [map] in ND. inversion ND as [|x l Hnot ND']. subst.
  rewrite schema_of_cons. destruct (declared ci) as [c|e].
  - cbn [app map fst]. constructor; [|apply IH; exact ND'].
    intros Hin. apply Hnot. apply schema_of_names. exact Hin.
  - cbn [app]. apply IH. exact ND'.
Qed.

Lemma schema_of_in : forall cols ci c,
  In ci cols -> declared ci = Ok c -> In (ci_name ci, c) (schema_of cols).
Proof.
  intros cols ci c Hin D. unfold schema_of. apply in_flat_map. exists ci. split; [exact Hin|].
  rewrite D. left. reflexivity.
Qed.

Lemma schema_of_length : forall cols,
  List.length (schema_of cols) =
  List.length (filter (fun ci => match declared ci with Ok _ => true | Raise _ => false end) cols).
Proof.
  induction cols as [|ci r IH]; [reflexivity|].
  rewrite schema_of_cons. cbn [filter]. destruct (declared ci); cbn [app List.length]; rewrite IH; reflexivity.
Qed.

(* ------------------------------------------------------------------ *)
(* end to end on what the correspondence evaluates *)
Lemma declared_frame : forall (cols : list col_in) (ci : col_in) (t : tname),
  NoDup (map ci_name cols) -> In ci cols ->
  wf_name t = true -> ci_upper ci = render t -> proper (denote t) = true ->
  exists c d',
    declared ci = Ok c /\
    In (entry_of (ci_name ci) c, Ok d') (frame_desc cols) /\
    (forall o, In o (frame_desc cols) -> e_name (fst o) = ci_name ci -> o = (entry_of (ci_name ci) c, Ok d')) /\
    d_ty c = d_ty (denote t) /\ d_len c = d_len (denote t) /\ d_elt c = d_elt (denote t) /\
    (forall p, d_prec (denote t) = Some p -> d_prec c = Some p) /\
    (forall sc, d_scale (denote t) = Some sc -> d_scale c = Some sc) /\
    d_ty d' = d_ty c /\ d_prec d' = desc_prec c /\ d_scale d' = desc_scale c /\
    (forall e, d_elt c = Some e -> d_elt d' = Some e).
Proof.
  intros cols ci t ND Hin W E P.
  pose proof (declared_column (ci_X ci) (fun _ => ci_upper ci) t (ci_text ci) W E P) as DC.
  destruct DC as [c [d' [CM Rest]]].
  unfold column_model in CM. fold (ci_resolve ci) in CM.
  destruct (ci_resolve ci) as [d0|e0] eqn:R; [|discriminate CM].
  injection CM as Hc _ _ _ Hback. subst c.
  assert (D : declared ci = Ok (column_of d0)). { unfold declared. rewrite R. reflexivity. }
  pose proof (schema_of_nodup cols ND) as ND'.
  pose proof (schema_of_in cols ci _ Hin D) as Hs.
  assert (FD : frame_desc cols =
               map (fun nc => (entry_of (fst nc) (snd nc), from_name (type_code (snd nc)))) (schema_of cols)).
  { unfold frame_desc. rewrite (description_per_column _ ND'). rewrite map_map. reflexivity. }
  exists (column_of d0), d'. split; [exact D|]. split; [|split; [|exact Rest]].
  - rewrite FD. apply in_map_iff. exists (ci_name ci, column_of d0). cbn [fst snd]. split; [|exact Hs].
    rewrite Hback. reflexivity.
  - intros o Ho Hn. rewrite FD in Ho. apply in_map_iff in Ho. destruct Ho as [[n' c'] [Eo Hin']].
    cbn [fst snd] in Eo. subst o. cbn [fst e_name entry_of] in Hn. subst n'.
    pose proof (nodup_names_functional _ _ _ _ ND' Hin' Hs) as Ec. subst c'.
    rewrite Hback. reflexivity.
Qed.
