(* C07 - lemmas about the cast model (Model/C07.v). *)
From Coq Require Import List ZArith NArith Bool Lia ZifyBool.
From Orso Require Import Base.Civil Gen.C08_Tables Model.C08 Gen.C07_Tables Model.C07.
Import ListNotations.
Open Scope Z_scope.

Section Oracles.
Variable float_of_text : list N -> res N.
Variable float_of_bytes : list N -> res N.
Variable repr_float : N -> list N.
Variable json_loads : bool -> list N -> res pyval.
Variable json_dumps : pyval -> res (list N).
Variable str_container : pyval -> list N.

Notation parse' := (parse float_of_text float_of_bytes repr_float json_loads json_dumps str_container).

Lemma parse_none t k : parse' t k PNone = ROk PNone.
Proof. reflexivity. Qed.

End Oracles.
