(* C07 - lemmas about the cast model (Model/C07.v) that Props/C07.v exports. *)
From Coq Require Import List ZArith NArith Bool Lia ZifyBool.
From Orso Require Import Base.Civil Gen.C08_Tables Model.C08 Gen.C07_Tables Model.C07.
From Orso Require Import Proofs.C08_Str Proofs.C08_Utf8 Proofs.C08_Render Proofs.C08 Proofs.C07_Int Proofs.C07_Dec.
Import ListNotations.
Open Scope Z_scope.

(* ---------- generic helpers ---------- *)
Lemma rbind_ok {A B} (r : res A) (f : A -> res B) v : rbind r f = ROk v -> exists a, r = ROk a /\ f a = ROk v.
Proof. destruct r as [a|e]; cbn [rbind]; [eauto|discriminate]. Qed.

Lemma nlist_eqb_eq a : forall b, nlist_eqb a b = true <-> a = b.
Proof.
  induction a as [|x a IH]; intros [|y b]; cbn [nlist_eqb]; split; try discriminate; try reflexivity.
  - intros H. apply andb_true_iff in H. destruct H as [Hx Hr]. apply N.eqb_eq in Hx. apply IH in Hr. now subst.
  - intros [= -> ->]. rewrite N.eqb_refl. now apply IH.
Qed.

Lemma in_boolean_strings_iff yb w : in_boolean_strings yb w = true <-> In (yb, w) boolean_strings.
Proof.
  unfold in_boolean_strings. rewrite existsb_exists. split.
  - intros ((b', w') & Hin & H). apply andb_true_iff in H. destruct H as [Hb Hw]. cbn [fst snd] in *.
    apply eqb_prop in Hb. apply nlist_eqb_eq in Hw. now subst.
  - intros Hin. exists (yb, w). split; [assumption|]. cbn [fst snd]. rewrite eqb_reflx. cbn [andb].
    now apply nlist_eqb_eq.
Qed.

Lemma mapM_ok {A B} (f : A -> res B) l l' : mapM f l = ROk l' -> Forall2 (fun x y => f x = ROk y) l l'.
Proof.
  revert l'. induction l as [|x l IH]; intros l' H; cbn [mapM] in H.
  - injection H as <-. constructor.
  - apply rbind_ok in H. destruct H as (y & Hy & H). apply rbind_ok in H. destruct H as (ys & Hys & H).
    injection H as <-. constructor; [assumption|]. now apply IH.
Qed.

Lemma mapM_all_ok {A B} (f : A -> res B) l l' : Forall2 (fun x y => f x = ROk y) l l' -> mapM f l = ROk l'.
Proof. induction 1 as [|x y l l' Hxy _ IH]; cbn [mapM]; [reflexivity|]. rewrite Hxy. cbn [rbind]. rewrite IH. reflexivity. Qed.

Lemma py_upper_ascii s : forallb (fun c => c <? 128)%N s = true -> py_upper s = map upper_ascii s.
Proof.
  induction s as [|c s IH]; intros H; [reflexivity|].
  cbn [forallb] in H. apply andb_true_iff in H. destruct H as [Hc Hs].
  unfold py_upper in *. cbn [flat_map map]. unfold upper1 at 1. rewrite Hc. cbn [app]. f_equal. now apply IH.
Qed.


Lemma firstn_longest_prefix {A} (t : list A) n :
  prefix (firstn n t) t /\ (length (firstn n t) <= n)%nat /\ length (firstn n t) = Nat.min n (length t) /\
  forall r, prefix r t -> (length r <= n)%nat -> prefix r (firstn n t).
Proof.
  split; [exists (skipn n t); now rewrite firstn_skipn|].
  split; [apply firstn_le_length|]. split; [apply firstn_length|].
  intros r [c ->] Hlen. exists (firstn (n - length r) c).
  rewrite firstn_app. rewrite firstn_all2 by assumption. reflexivity.
Qed.



Section Oracles.
Variable float_of_text : list N -> res N.
Variable float_of_bytes : list N -> res N.
Variable repr_float : N -> list N.
Variable json_loads : bool -> list N -> res pyval.
Variable json_dumps : pyval -> res (list N).
Variable str_container : pyval -> list N.

Notation parse' := (parse float_of_text float_of_bytes repr_float json_loads json_dumps str_container).
Notation parse_elem' := (parse_elem float_of_text float_of_bytes repr_float json_loads json_dumps str_container).
Notation parse_scalar' := (parse_scalar float_of_text float_of_bytes repr_float json_loads json_dumps str_container).
Notation column' := (column_default float_of_text float_of_bytes repr_float json_loads json_dumps str_container).
Notation py_str' := (py_str repr_float str_container).

(* ---------- null ---------- *)
Lemma parse_none t k : parse' t k PNone = ROk PNone.
Proof. reflexivity. Qed.

Lemma parse_elem_none et : parse_elem' et PNone = ROk PNone.
Proof. reflexivity. Qed.

(* element_type.parse(v) is the cast without keyword arguments *)
Lemma parse_elem_eq et v : parse_elem' et v = parse' et nokw v.
Proof.
  unfold parse_elem, parse. destruct v; try reflexivity; destruct (parser_table et) as [[]|]; reflexivity.
Qed.

(* ---------- INTEGER ---------- *)
Lemma integer_native k z : parse' T_INTEGER k (PInt z) = ROk (PInt z).
Proof. reflexivity. Qed.

Lemma integer_of_bool k b : parse' T_INTEGER k (PBool b) = ROk (PInt (if b then 1 else 0)).
Proof. reflexivity. Qed.

Lemma integer_str_defined z : ndig (Z.abs z) <= int_max_str_digits -> py_str' (PInt z) = ROk (render_Z z).
Proof. intros H. cbn [py_str]. now apply str_of_int_ok. Qed.

Lemma integer_roundtrip k z s ws1 ws2 :
  py_str' (PInt z) = ROk s -> forallb blank ws1 = true -> forallb blank ws2 = true ->
  parse' T_INTEGER k (PStr (ws1 ++ s ++ ws2)) = ROk (PInt z) /\
  parse' T_INTEGER k (PBytes (utf8_encode (ws1 ++ s ++ ws2))) = ROk (PInt z).
Proof.
  intros Hs H1 H2. cbn [py_str] in Hs. apply str_of_int_inv in Hs. destruct Hs as [-> Hd].
  destruct (int_of_rendering z ws1 ws2 Hd H1 H2) as [Ht Hb].
  assert (forallb (fun c => c <? 128)%N (ws1 ++ render_Z z ++ ws2) = true) as Hascii.
  { rewrite !forallb_app, (blank_ascii _ H1), (blank_ascii _ H2), render_Z_ascii. reflexivity. }
  rewrite (utf8_encode_ascii _ Hascii).
  unfold parse. cbv beta iota delta [parser_table parse_scalar parse_integer]. rewrite Ht, Hb. split; reflexivity.
Qed.

(* ---------- BOOLEAN ---------- *)
Lemma boolean_of_str k s : parse' T_BOOLEAN k (PStr s) = ROk (PBool (in_boolean_strings false (py_upper s))).
Proof. reflexivity. Qed.

Lemma boolean_of_bytes k b : parse' T_BOOLEAN k (PBytes b) = ROk (PBool (in_boolean_strings true (bytes_upper b))).
Proof. reflexivity. Qed.

Lemma boolean_true_iff k s :
  (parse' T_BOOLEAN k (PStr s) = ROk (PBool true) <-> In (false, py_upper s) boolean_strings) /\
  (parse' T_BOOLEAN k (PBytes s) = ROk (PBool true) <-> In (true, bytes_upper s) boolean_strings).
Proof.
  rewrite boolean_of_str, boolean_of_bytes. rewrite <- !in_boolean_strings_iff. split; split.
  - intros [= H]. exact H.
  - intros ->. reflexivity.
  - intros [= H]. exact H.
  - intros ->. reflexivity.
Qed.

Lemma boolean_render k b :
  parse' T_BOOLEAN k (PBool b) = ROk (PBool b) /\
  (exists s, py_str' (PBool b) = ROk s /\ parse' T_BOOLEAN k (PStr s) = ROk (PBool b) /\
             parse' T_BOOLEAN k (PBytes (utf8_encode s)) = ROk (PBool b)).
Proof.
  destruct b.
  - split; [vm_compute; reflexivity|]. eexists. split; [reflexivity|]. split; vm_compute; reflexivity.
  - split; [vm_compute; reflexivity|]. eexists. split; [reflexivity|]. split; vm_compute; reflexivity.
Qed.

(* ---------- VARCHAR / BLOB ---------- *)
Lemma py_prefix_pos {A} n (l : list A) : 1 <= n -> py_prefix (Some n) l = firstn (Z.to_nat n) l.
Proof. intros H. unfold py_prefix. replace (n =? 0) with false by lia. replace (n <? 0) with false by lia. reflexivity. Qed.

Lemma varchar_prefix n t : 1 <= n ->
  parse' T_VARCHAR (mkkw (Some n) None None None) (PStr t) = ROk (PStr (firstn (Z.to_nat n) t)) /\
  (forallb scalar t = true ->
   parse' T_VARCHAR (mkkw (Some n) None None None) (PBytes (utf8_encode t)) = ROk (PStr (firstn (Z.to_nat n) t))).
Proof.
  intros Hn. unfold parse. cbv beta iota delta [parser_table parse_scalar parse_varchar py_str rbind kw_length].
  rewrite py_prefix_pos by assumption. split; [reflexivity|].
  intros Hs. unfold utf8_decode_strict. rewrite utf8_decode_encode by assumption. cbn [rbind].
  now rewrite py_prefix_pos.
Qed.

Lemma varchar_unbounded t :
  parse' T_VARCHAR nokw (PStr t) = ROk (PStr t) /\
  (forallb scalar t = true -> parse' T_VARCHAR nokw (PBytes (utf8_encode t)) = ROk (PStr t)).
Proof.
  unfold parse. cbv beta iota delta [parser_table parse_scalar parse_varchar py_str rbind kw_length nokw py_prefix].
  split; [reflexivity|]. intros Hs. unfold utf8_decode_strict. now rewrite utf8_decode_encode.
Qed.

Lemma blob_prefix n b t : 1 <= n ->
  parse' T_BLOB (mkkw (Some n) None None None) (PBytes b) = ROk (PBytes (firstn (Z.to_nat n) b)) /\
  (forallb scalar t = true ->
   parse' T_BLOB (mkkw (Some n) None None None) (PStr t) = ROk (PBytes (firstn (Z.to_nat n) (utf8_encode t)))).
Proof.
  intros Hn. unfold parse. cbv beta iota delta [parser_table parse_scalar parse_bytes is_container py_str rbind kw_length].
  rewrite py_prefix_pos by assumption. split; [reflexivity|].
  intros Hs. unfold utf8_encode_strict. rewrite Hs. cbn [rbind]. now rewrite py_prefix_pos.
Qed.

Lemma blob_unbounded b t :
  parse' T_BLOB nokw (PBytes b) = ROk (PBytes b) /\
  (forallb scalar t = true -> parse' T_BLOB nokw (PStr t) = ROk (PBytes (utf8_encode t))).
Proof.
  unfold parse. cbv beta iota delta [parser_table parse_scalar parse_bytes is_container py_str rbind kw_length nokw py_prefix].
  split; [reflexivity|]. intros Hs. unfold utf8_encode_strict. now rewrite Hs.
Qed.

(* VARCHAR[n] / BLOB[n]: the result is the longest prefix of length <= n *)
Lemma varchar_longest n t : 1 <= n ->
  let r := firstn (Z.to_nat n) t in
  parse' T_VARCHAR (mkkw (Some n) None None None) (PStr t) = ROk (PStr r) /\
  (forallb scalar t = true -> parse' T_VARCHAR (mkkw (Some n) None None None) (PBytes (utf8_encode t)) = ROk (PStr r)) /\
  prefix r t /\ zlen r <= n /\ zlen r = Z.min n (zlen t) /\
  (forall r', prefix r' t -> zlen r' <= n -> prefix r' r).
Proof.
  intros Hn r. destruct (varchar_prefix n t Hn) as [H1 H2].
  destruct (firstn_longest_prefix t (Z.to_nat n)) as (P1 & P2 & P3 & P4). fold r in P1, P2, P3, P4.
  split; [exact H1|]. split; [exact H2|]. split; [exact P1|]. unfold zlen.
  split; [lia|]. split; [lia|]. intros r' Hp Hl. apply P4; [assumption|]. unfold zlen in Hl. lia.
Qed.

Lemma blob_longest n b : 1 <= n ->
  let r := firstn (Z.to_nat n) b in
  parse' T_BLOB (mkkw (Some n) None None None) (PBytes b) = ROk (PBytes r) /\
  (forall t, forallb scalar t = true -> utf8_encode t = b -> parse' T_BLOB (mkkw (Some n) None None None) (PStr t) = ROk (PBytes r)) /\
  prefix r b /\ zlen r <= n /\ zlen r = Z.min n (zlen b) /\
  (forall r', prefix r' b -> zlen r' <= n -> prefix r' r).
Proof.
  intros Hn r. destruct (firstn_longest_prefix b (Z.to_nat n)) as (P1 & P2 & P3 & P4). fold r in P1, P2, P3, P4.
  split; [exact (proj1 (blob_prefix n b [] Hn))|].
  split; [intros t Ht <-; exact (proj2 (blob_prefix n [] t Hn) Ht)|].
  split; [exact P1|]. unfold zlen.
  split; [lia|]. split; [lia|]. intros r' Hp Hl. apply P4; [assumption|]. unfold zlen in Hl. lia.
Qed.

(* ---------- ARRAY ---------- *)
Lemma array_items_container x l :
  (x = PList l \/ x = PTuple l \/ x = PSet l) ->
  array_items json_loads x = ROk l.
Proof. intros [->|[->| ->]]; reflexivity. Qed.

Lemma array_no_element x l :
  (x = PList l \/ x = PTuple l \/ x = PSet l) -> parse' T_ARRAY nokw x = ROk (PList l).
Proof. intros [->|[->| ->]]; reflexivity. Qed.

Lemma array_elementwise et x l (k : kwargs) :
  kw_element k = Some et -> (x = PList l \/ x = PTuple l \/ x = PSet l) ->
  parse' T_ARRAY k x = rbind (mapM (fun v => parse' et nokw v) l) (fun l' => ROk (PList l')).
Proof.
  intros Hk Hx. unfold parse.
  assert (mapM (parse_elem' et) l = mapM (fun v => parse' et nokw v) l) as Hm.
  { clear. induction l as [|v l IH]; [reflexivity|]. cbn [mapM]. now rewrite parse_elem_eq, IH. }
  destruct Hx as [->|[->| ->]]; cbv beta iota delta [parser_table array_items is_container rbind py_iter]; rewrite Hk, Hm; reflexivity.
Qed.

Lemma array_elements_spec et x l l' (k : kwargs) :
  kw_element k = Some et -> (x = PList l \/ x = PTuple l \/ x = PSet l) ->
  parse' T_ARRAY k x = ROk l' ->
  exists r, l' = PList r /\ Forall2 (fun v y => parse' et nokw v = ROk y /\ (v = PNone -> y = PNone)) l r.
Proof.
  intros Hk Hx H. rewrite (array_elementwise et x l k Hk Hx) in H.
  apply rbind_ok in H. destruct H as (r & Hr & H). injection H as <-. exists r. split; [reflexivity|].
  apply mapM_ok in Hr. clear Hx. induction Hr as [|v y l r Hvy _ IH]; [constructor|]. constructor; [|exact IH].
  split; [assumption|]. intros ->. rewrite parse_none in Hvy. now injection Hvy as <-.
Qed.

Lemma array_all_ok et x l r (k : kwargs) :
  kw_element k = Some et -> (x = PList l \/ x = PTuple l \/ x = PSet l) ->
  Forall2 (fun v y => parse' et nokw v = ROk y) l r -> parse' T_ARRAY k x = ROk (PList r).
Proof.
  intros Hk Hx H. rewrite (array_elementwise et x l k Hk Hx). now rewrite (mapM_all_ok (fun v => parse' et nokw v) _ _ H).
Qed.

Lemma array_json k (yb : bool) s l :
  json_loads yb s = ROk (PList l) ->
  parse' T_ARRAY k (if yb then PBytes s else PStr s) = parse' T_ARRAY k (PList l).
Proof.
  intros H. unfold parse. destruct yb; cbv beta iota delta [parser_table array_items is_container]; rewrite H; reflexivity.
Qed.

Lemma array_idempotent et l (k : kwargs) :
  kw_element k = Some et -> Forall (fun v => parse' et nokw v = ROk v) l ->
  parse' T_ARRAY k (PList l) = ROk (PList l).
Proof.
  intros Hk H. apply (array_all_ok et (PList l) l l k Hk); [now left|].
  induction H; constructor; assumption.
Qed.

(* ---------- DOUBLE ---------- *)
Lemma double_native k f : parse' T_DOUBLE k (PFloat f) = ROk (PFloat f).
Proof. reflexivity. Qed.

Hypothesis repr_inverse : forall f, float_canonical f = true -> float_of_text (repr_float f) = ROk f.
Hypothesis float_skips_blanks : forall ws1 s ws2, forallb blank ws1 = true -> forallb blank ws2 = true ->
  float_of_text (ws1 ++ s ++ ws2) = float_of_text s.
Hypothesis float_bytes_as_text : forall b, forallb (fun c => c <? 128)%N b = true -> float_of_bytes b = float_of_text b.
Hypothesis repr_is_ascii : forall f, forallb (fun c => c <? 128)%N (repr_float f) = true.

Lemma double_roundtrip k f ws1 ws2 :
  float_canonical f = true -> forallb blank ws1 = true -> forallb blank ws2 = true ->
  parse' T_DOUBLE k (PStr (ws1 ++ repr_float f ++ ws2)) = ROk (PFloat f) /\
  parse' T_DOUBLE k (PBytes (utf8_encode (ws1 ++ repr_float f ++ ws2))) = ROk (PFloat f).
Proof.
  intros Hc H1 H2.
  assert (forallb (fun c => c <? 128)%N (ws1 ++ repr_float f ++ ws2) = true) as Hascii.
  { rewrite !forallb_app, (blank_ascii _ H1), (blank_ascii _ H2), repr_is_ascii. reflexivity. }
  rewrite (utf8_encode_ascii _ Hascii).
  unfold parse. cbv beta iota delta [parser_table parse_scalar parse_double].
  rewrite (float_bytes_as_text _ Hascii), float_skips_blanks, repr_inverse by assumption. split; reflexivity.
Qed.

(* ---------- DATE / TIMESTAMP ---------- *)
Lemma date_native k y m d : parse' T_DATE k (PDate y m d) = ROk (PDate y m d).
Proof.
  unfold parse. cbv beta iota delta [parser_table parse_scalar parse_date to_c08]. unfold cast_date. rewrite native_date. reflexivity.
Qed.

Lemma timestamp_native k y m d h mi s us : parse' T_TIMESTAMP k (PDatetime y m d h mi s us) = ROk (PDatetime y m d h mi s 0).
Proof.
  unfold parse. cbv beta iota delta [parser_table parse_scalar parse_timestamp to_c08]. unfold cast_timestamp. rewrite native_datetime. reflexivity.
Qed.

(* round 7: zone-aware values - the zone is part of the value and survives the cast; casting twice is
   casting once; the DATE of it is its calendar date; an ARRAY<TIMESTAMP> of such values is the list of them *)
Lemma timestamp_aware k y m d h mi s us off :
  parse' T_TIMESTAMP k (PAware y m d h mi s us off) = ROk (PAware y m d h mi s 0 off) /\
  parse' T_TIMESTAMP k (PAware y m d h mi s 0 off) = ROk (PAware y m d h mi s 0 off) /\
  parse' T_DATE k (PAware y m d h mi s us off) = ROk (PDate y m d) /\
  PAware y m d h mi s 0 off <> PDatetime y m d h mi s 0.
Proof.
  unfold parse. cbv beta iota delta [parser_table parse_scalar parse_timestamp parse_date to_c08]. unfold cast_timestamp, cast_date.
  rewrite !native_datetime. repeat split; try reflexivity. discriminate.
Qed.

Lemma timestamp_zone_kept k x r :
  parse' T_TIMESTAMP k x = ROk r ->
  match x, r with
  | PAware _ _ _ _ _ _ _ off, PAware _ _ _ _ _ _ _ off' => off' = off
  | PAware _ _ _ _ _ _ _ _, _ => False
  | _, PAware _ _ _ _ _ _ _ _ => False
  | _, _ => True
  end.
Proof.
  unfold parse. destruct x; try (intros H; injection H as <-; exact I);
    cbv beta iota delta [parser_table parse_scalar parse_timestamp]; intros H;
    apply rbind_ok in H; destruct H as ([[[[[[y' m'] d'] h'] mi'] s'] us'] & _ & H); injection H as <-; cbn [keep_zone]; auto.
Qed.

Lemma date_roundtrip k y m d : valid_date y m d = true ->
  py_str' (PDate y m d) = ROk (render_date y m d) /\
  parse' T_DATE k (PStr (render_date y m d)) = ROk (PDate y m d) /\
  parse' T_DATE k (PBytes (utf8_encode (render_date y m d))) = ROk (PDate y m d).
Proof.
  intros Hv. split; [reflexivity|].
  pose proof (iso_dateonly y m d SNone Hv eq_refl eq_refl) as H. cbv zeta in H.
  unfold render_dateonly in H. cbn [render_suffix] in H. rewrite app_nil_r in H. destruct H as [Ht Hb].
  unfold parse. cbv beta iota delta [parser_table parse_scalar parse_date to_c08]. unfold cast_date. rewrite Ht, Hb. split; reflexivity.
Qed.


Lemma d6_digits us : 0 <= us < 1000000 -> forallb ascii_digit (d6 us) = true.
Proof.
  intros H. unfold d6. cbn [forallb]. rewrite !dig_digit by lia. reflexivity.
Qed.

Lemma render_datetime_seconds y m d h mi s us :
  render_datetime y m d h mi s us = render_seconds y m d h mi s cSp (frac_of us) SNone.
Proof.
  unfold render_datetime, render_seconds, frac_of. destruct (us =? 0).
  - cbn [render_frac render_suffix app]. now rewrite app_nil_r.
  - unfold d6. cbn [render_frac render_suffix]. now rewrite app_nil_r.
Qed.

Lemma timestamp_roundtrip k y m d h mi s us :
  valid_date y m d = true -> valid_time h mi s = true -> 0 <= us < 1000000 ->
  py_str' (PDatetime y m d h mi s us) = ROk (render_datetime y m d h mi s us) /\
  parse' T_TIMESTAMP k (PStr (render_datetime y m d h mi s us)) = ROk (PDatetime y m d h mi s 0) /\
  parse' T_TIMESTAMP k (PBytes (utf8_encode (render_datetime y m d h mi s us))) = ROk (PDatetime y m d h mi s 0) /\
  (* isoformat(): the same with a T *)
  parse' T_TIMESTAMP k (PStr (render_seconds y m d h mi s cT (frac_of us) SNone)) = ROk (PDatetime y m d h mi s 0).
Proof.
  intros Hd Ht Hus. split; [reflexivity|].
  assert (forallb ascii_digit (frac_of us) = true /\ (length (frac_of us) <= 6)%nat) as [Hf Hl].
  { unfold frac_of. destruct (us =? 0); [split; [reflexivity|cbn; lia]|]. split; [now apply d6_digits|cbn; lia]. }
  pose proof (iso_seconds y m d h mi s cSp (frac_of us) SNone Hd Ht eq_refl Hf Hl eq_refl) as H1.
  pose proof (iso_seconds y m d h mi s cT (frac_of us) SNone Hd Ht eq_refl Hf Hl eq_refl) as H2.
  cbv zeta in H1, H2. rewrite <- render_datetime_seconds in H1. destruct H1 as [Ha Hb]. destruct H2 as [Hc _].
  unfold parse. cbv beta iota delta [parser_table parse_scalar parse_timestamp to_c08]. unfold cast_timestamp.
  rewrite Ha, Hb, Hc. repeat split; reflexivity.
Qed.

(* ---------- DECIMAL ---------- *)

Lemma decimal_exact p s neg c e ws1 ws2 :
  1 <= p <= 38 -> 0 <= s <= safe_scale_cap -> - s <= e <= 1000 -> 0 <= c ->
  (c = 0 \/ ndig c + (e + s) <= p) ->
  forallb blank ws1 = true -> forallb blank ws2 = true ->
  let d := DFin neg c e in
  let r := ROk (PDecimal (DFin neg (c * 10 ^ (e + s)) (- s))) in
  py_str' (PDecimal d) = ROk (dec_str d) /\
  parse' T_DECIMAL (dec_kw p s) (PDecimal d) = r /\
  parse' T_DECIMAL (dec_kw p s) (PStr (ws1 ++ dec_str d ++ ws2)) = r /\
  parse' T_DECIMAL (dec_kw p s) (PBytes (utf8_encode (ws1 ++ dec_str d ++ ws2))) = r.
Proof.
  intros Hp Hs He Hc Hfit H1 H2 d r. split; [reflexivity|].
  pose proof (dec_str_dchar neg c e Hc) as Hd. fold d in Hd.
  pose proof (factory_exact p s neg c e Hp Hs He Hc Hfit) as F. fold d in F.
  assert (forallb (fun c => c <? 128)%N (ws1 ++ dec_str d ++ ws2) = true) as Hascii.
  { rewrite !forallb_app, (blank_ascii _ H1), (blank_ascii _ H2), (dchar_ascii _ Hd). reflexivity. }
  rewrite (utf8_encode_ascii _ Hascii).
  unfold parse. cbv beta iota delta [parser_table parse_scalar parse_decimal dec_kw kw_scale kw_precision py_str rbind].
  unfold utf8_decode_strict. rewrite (utf8_decode_ascii _ Hascii). cbn [rbind].
  rewrite (py_strip_dchar _ Hd).
  rewrite (py_strip_padded ws1 ws2 (dec_str d) (space_ascii_blank _ H1) (space_ascii_blank _ H2) Hd).
  rewrite F. cbn [rbind]. repeat split; reflexivity.
Qed.

(* numerically exact for every decimal with at most p digits, whether or not it fits *)
Lemma decimal_numeric p s neg c e ws1 ws2 :
  1 <= p <= 38 -> 0 <= s <= safe_scale_cap -> - s <= e <= 1000 -> 0 <= c -> (c = 0 \/ ndig c <= p) ->
  forallb blank ws1 = true -> forallb blank ws2 = true ->
  let d := DFin neg c e in
  exists c2 e2, let r := ROk (PDecimal (DFin neg c2 e2)) in
    - s <= e2 /\ c2 * 10 ^ (e2 + s) = c * 10 ^ (e + s) /\
    parse' T_DECIMAL (dec_kw p s) (PDecimal d) = r /\
    parse' T_DECIMAL (dec_kw p s) (PStr (ws1 ++ dec_str d ++ ws2)) = r /\
    parse' T_DECIMAL (dec_kw p s) (PBytes (utf8_encode (ws1 ++ dec_str d ++ ws2))) = r.
Proof.
  intros Hp Hs He Hc Hfit H1 H2 d.
  destruct (factory_numeric p s neg c e Hp Hs He Hc Hfit) as (c2 & e2 & F & He2 & Hv). fold d in F.
  exists c2, e2. cbv zeta. split; [assumption|]. split; [assumption|].
  pose proof (dec_str_dchar neg c e Hc) as Hd. fold d in Hd.
  assert (forallb (fun c => c <? 128)%N (ws1 ++ dec_str d ++ ws2) = true) as Hascii.
  { rewrite !forallb_app, (blank_ascii _ H1), (blank_ascii _ H2), (dchar_ascii _ Hd). reflexivity. }
  rewrite (utf8_encode_ascii _ Hascii).
  unfold parse. cbv beta iota delta [parser_table parse_scalar parse_decimal dec_kw kw_scale kw_precision py_str rbind].
  unfold utf8_decode_strict. rewrite (utf8_decode_ascii _ Hascii). cbn [rbind].
  rewrite (py_strip_dchar _ Hd).
  rewrite (py_strip_padded ws1 ws2 (dec_str d) (space_ascii_blank _ H1) (space_ascii_blank _ H2) Hd).
  rewrite F. cbn [rbind]. repeat split; reflexivity.
Qed.

(* without keyword arguments parse_decimal uses its own precision and scale *)
Lemma decimal_defaults x : parse' T_DECIMAL nokw x = parse' T_DECIMAL (dec_kw default_precision default_scale) x.
Proof. destruct x; reflexivity. Qed.

(* ---------- idempotence on values that already have the type ---------- *)
Lemma idempotent_scalars k :
  (forall b, parse' T_BOOLEAN k (PBool b) = ROk (PBool b)) /\
  (forall z, parse' T_INTEGER k (PInt z) = ROk (PInt z)) /\
  (forall f, parse' T_DOUBLE k (PFloat f) = ROk (PFloat f)) /\
  (forall t, kw_length k = None \/ (exists n, kw_length k = Some n /\ zlen t <= n) -> parse' T_VARCHAR k (PStr t) = ROk (PStr t)) /\
  (forall b, kw_length k = None \/ (exists n, kw_length k = Some n /\ zlen b <= n) -> parse' T_BLOB k (PBytes b) = ROk (PBytes b)) /\
  (forall y m d, parse' T_DATE k (PDate y m d) = ROk (PDate y m d)) /\
  (forall y m d h mi s us, parse' T_TIMESTAMP k (PDatetime y m d h mi s us) = ROk (PDatetime y m d h mi s 0)) /\
  (forall l, kw_element k = None -> parse' T_ARRAY k (PList l) = ROk (PList l)).
Proof.
  assert (forall {A} (l : list A) n, zlen l <= n -> py_prefix (Some n) l = l) as Hpre.
  { intros A l n Hl. unfold py_prefix. destruct (n =? 0); [reflexivity|].
    pose proof (zlen_nonneg l). replace (n <? 0) with false by lia. apply firstn_all2. unfold zlen in Hl. lia. }
  split; [intros b; exact (proj1 (boolean_render k b))|].
  split; [reflexivity|]. split; [reflexivity|].
  split.
  { intros t Hl. unfold parse. cbv beta iota delta [parser_table parse_scalar parse_varchar py_str rbind].
    destruct Hl as [->|(n & -> & Hl)]; [reflexivity|]. now rewrite Hpre. }
  split.
  { intros b Hl. unfold parse. cbv beta iota delta [parser_table parse_scalar parse_bytes is_container rbind].
    destruct Hl as [->|(n & -> & Hl)]; [reflexivity|]. now rewrite Hpre. }
  split; [intros; apply date_native|]. split; [intros; apply timestamp_native|].
  intros l Hk. unfold parse. cbv beta iota delta [parser_table array_items is_container rbind py_iter]. now rewrite Hk.
Qed.

(* ---------- class preservation ---------- *)
Lemma class_boolean x r : parse_boolean repr_float str_container x = ROk r -> class_of r = K_bool.
Proof.
  unfold parse_boolean. destruct x; intros H; try (apply rbind_ok in H; destruct H as (s & _ & H)); injection H as <-; reflexivity.
Qed.

Lemma class_scalar pn k x r :
  parse_scalar' pn k x = ROk r ->
  match pn with
  | P_parse_boolean => class_of r = K_bool
  | P_parse_bytes => class_of r = K_bytes
  | P_parse_date => class_of r = K_date
  | P_parse_timestamp => class_of r = K_datetime
  | P_parse_decimal => class_of r = K_Decimal
  | P_parse_double => class_of r = K_float
  | P_parse_integer => class_of r = K_int
  | P_parse_varchar => class_of r = K_str
  | P_parse_null => class_of r = K_NoneType
  | P_parse_array => class_of r = K_list
  | P_parse_time | P_parse_interval => False
  end.
Proof.
  destruct pn; cbn [parse_scalar]; intros H.
  - now apply class_boolean in H.
  - unfold parse_bytes in H. apply rbind_ok in H. destruct H as (v & _ & H). now injection H as <-.
  - unfold parse_date in H. apply rbind_ok in H. destruct H as ([[y m] d] & _ & H). now injection H as <-.
  - unfold parse_timestamp in H. apply rbind_ok in H. destruct H as ([[[[[[y m] d] h] mi] s] us] & _ & H). injection H as <-. now destruct x.
  - discriminate.
  - discriminate.
  - unfold parse_decimal in H. apply rbind_ok in H. destruct H as (t & _ & H).
    apply rbind_ok in H. destruct H as (d & _ & H). now injection H as <-.
  - unfold parse_double in H. apply rbind_ok in H. destruct H as (f & _ & H). now injection H as <-.
  - unfold parse_integer in H. apply rbind_ok in H. destruct H as (z & _ & H). now injection H as <-.
  - apply rbind_ok in H. destruct H as (l & _ & H). now injection H as <-.
  - unfold parse_varchar in H. apply rbind_ok in H. destruct H as (v & _ & H). now injection H as <-.
  - now injection H as <-.
Qed.

Lemma class_preserved t k x r :
  In t value_types -> x <> PNone -> parse' t k x = ROk r -> Some (class_of r) = python_class t.
Proof.
  intros Ht Hx H. unfold parse in H.
  assert (match parser_table t with
          | None => RErr XKey
          | Some P_parse_array =>
              rbind (array_items json_loads x) (fun l =>
                match kw_element k with
                | None => ROk (PList l)
                | Some et => rbind (mapM (parse_elem' et) l) (fun l' => ROk (PList l'))
                end)
          | Some pn => parse_scalar' pn k x
          end = ROk r) as H'.
  { destruct x; try congruence; exact H. }
  clear H. unfold value_types in Ht. cbn [In] in Ht.
  destruct Ht as [<-|[<-|[<-|[<-|[<-|[<-|[<-|[<-|[<-|[]]]]]]]]]]; cbn [parser_table python_class] in *.
  1-8: apply class_scalar in H'; now rewrite H'.
  apply rbind_ok in H'. destruct H' as (l & _ & H'). destruct (kw_element k).
  - apply rbind_ok in H'. destruct H' as (l' & _ & H'). now injection H' as <-.
  - now injection H' as <-.
Qed.

Lemma class_elements et k x r :
  In et value_types -> kw_element k = Some et -> parse' T_ARRAY k x = ROk r ->
  r = PNone \/ exists l, r = PList l /\ Forall (fun y => y = PNone \/ Some (class_of y) = python_class et) l.
Proof.
  intros Het Hk H.
  assert (x = PNone \/ x <> PNone) as [->|Hx] by (destruct x; (now left) || (right; discriminate)).
  { left. now injection H as <-. }
  right.
  assert (rbind (array_items json_loads x) (fun items =>
            rbind (mapM (parse_elem' et) items) (fun l' => ROk (PList l'))) = ROk r) as H'.
  { unfold parse in H. cbv beta iota delta [parser_table] in H. rewrite Hk in H. destruct x; try congruence; exact H. }
  clear H. apply rbind_ok in H'. destruct H' as (items & _ & H'). apply rbind_ok in H'. destruct H' as (out & Hm & H').
  injection H' as <-. exists out. split; [reflexivity|]. apply mapM_ok in Hm.
  induction Hm as [|v y l0 l1 Hvy _ IH]; [constructor|]. constructor; [|exact IH].
  rewrite parse_elem_eq in Hvy.
  assert (v = PNone \/ v <> PNone) as [->|Hv] by (destruct v; (now left) || (right; discriminate)).
  - left. rewrite parse_none in Hvy. now injection Hvy as <-.
  - right. eapply class_preserved; eauto.
Qed.

(* ---------- FlatColumn(default=...) ---------- *)
Definition wrap_value_error (r : res pyval) : res pyval := match r with ROk v => ROk v | RErr _ => RErr XValue end.

(* a typed column: the cast of the default with the column's own keyword arguments, for every
   default (None and falsy ones included); an untyped column keeps it *)
Lemma column_default_spec t k x :
  (untyped t = false -> column' t k x = wrap_value_error (parse' t (column_kwargs t k) x)) /\
  (untyped t = true -> column' t k x = ROk x) /\
  (t <> T_DECIMAL -> column_kwargs t k = k) /\
  column_kwargs T_DECIMAL k =
    (let p := match kw_precision k with Some p => p | None => context_prec end in
     let s := match kw_scale k with Some s => s | None => Z.quot (column_scale_num * p) column_scale_den end in
     mkkw (kw_length k) (Some p) (Some s) (kw_element k)).
Proof.
  split; [|split; [|split]].
  - intros Ht. unfold column_default. rewrite Ht. destruct x; reflexivity.
  - intros Ht. unfold column_default. rewrite Ht. destruct x; reflexivity.
  - intros Ht. destruct t; try reflexivity. congruence.
  - reflexivity.
Qed.

(* so a typed column's default has the column type's class (or the constructor raised) *)
Lemma column_class t k x r :
  In t value_types -> x <> PNone -> column' t k x = ROk r -> Some (class_of r) = python_class t.
Proof.
  intros Ht Hx H.
  assert (untyped t = false) as Hu.
  { unfold value_types in Ht. cbn [In] in Ht. destruct Ht as [<-|[<-|[<-|[<-|[<-|[<-|[<-|[<-|[<-|[]]]]]]]]]]; reflexivity. }
  rewrite (proj1 (column_default_spec t k x) Hu) in H. unfold wrap_value_error in H.
  destruct (parse' t (column_kwargs t k) x) as [v|e] eqn:E; [|discriminate]. injection H as <-.
  eapply class_preserved; eauto.
Qed.

Lemma boolean_total k s :
  parse' T_BOOLEAN k (PStr s) = ROk (PBool (in_boolean_strings false (py_upper s))) /\
  parse' T_BOOLEAN k (PBytes s) = ROk (PBool (in_boolean_strings true (bytes_upper s))).
Proof. split; reflexivity. Qed.

Lemma text_unbounded t b :
  parse' T_VARCHAR nokw (PStr t) = ROk (PStr t) /\
  (forallb scalar t = true -> parse' T_VARCHAR nokw (PBytes (utf8_encode t)) = ROk (PStr t)) /\
  parse' T_BLOB nokw (PBytes b) = ROk (PBytes b) /\
  (forallb scalar t = true -> parse' T_BLOB nokw (PStr t) = ROk (PBytes (utf8_encode t))).
Proof.
  split; [exact (proj1 (varchar_unbounded t))|]. split; [exact (proj2 (varchar_unbounded t))|].
  split; [exact (proj1 (blob_unbounded b t))|exact (proj2 (blob_unbounded b t))].
Qed.

End Oracles.

(* ---------- witnesses ---------- *)
(* DECIMAL(5,3) of 12345: five significant digits, no fractional digit - the value comes back,
   but at exponent 0, not -3 (quantize would need eight digits) *)
Lemma decimal_exponent_witness ft fb rp jl jd sc :
  parse ft fb rp jl jd sc T_DECIMAL (dec_kw 5 3) (PStr (dec_str (DFin false 12345 0))) = ROk (PDecimal (DFin false 12345 0)).
Proof. vm_compute. reflexivity. Qed.

(* F-C07-3 / F-C07-4 (fixed): the default of a VARCHAR[3] column is cut to 3 characters; the falsy
   default b"" of a VARCHAR column is cast to ""; a DECIMAL column without precision / scale *)
Lemma column_witnesses ft fb rp jl jd sc :
  column_default ft fb rp jl jd sc T_VARCHAR (mkkw (Some 3) None None None) (PStr [97; 98; 99; 100; 101; 102]%N) = ROk (PStr [97; 98; 99]%N) /\
  column_default ft fb rp jl jd sc T_VARCHAR nokw (PBytes []) = ROk (PStr []) /\
  column_default ft fb rp jl jd sc T_DOUBLE nokw (PInt 0) = ROk (PFloat 0) /\
  column_kwargs T_DECIMAL nokw = mkkw None (Some context_prec) (Some 21) None /\
  column_default ft fb rp jl jd sc T__MISSING_TYPE (mkkw (Some 3) None None None) (PStr [97; 98; 99; 100]%N) = ROk (PStr [97; 98; 99; 100]%N) /\
  column_default ft fb rp jl jd sc T_INTEGER nokw (PStr [120]%N) = RErr XValue.
Proof. repeat split; vm_compute; reflexivity. Qed.

(* the hypotheses of double_roundtrip are satisfiable: a toy float()/repr() pair (the bits
   written in decimal; float() reads the digits and ignores everything else) *)
Definition toy_float (s : list N) : res N := ROk (Z.to_N (digits_value (filter ascii_digit s))).
Definition toy_repr (f : N) : list N := render_nat (Z.of_N f).

Lemma filter_digits ds : forallb ascii_digit ds = true -> filter ascii_digit ds = ds.
Proof.
  induction ds as [|c ds IH]; intros H; [reflexivity|]. cbn [forallb] in H. apply andb_true_iff in H.
  cbn [filter]. rewrite (proj1 H), IH by apply H. reflexivity.
Qed.

Lemma filter_blanks ws : forallb blank ws = true -> filter ascii_digit ws = [].
Proof.
  induction ws as [|c ws IH]; intros H; [reflexivity|]. cbn [forallb] in H. apply andb_true_iff in H.
  cbn [filter]. replace (ascii_digit c) with false by (destruct H as [H _]; unfold blank in H; unfold ascii_digit; lia).
  now apply IH.
Qed.

Lemma double_hypotheses_satisfiable :
  (forall f, float_canonical f = true -> toy_float (toy_repr f) = ROk f) /\
  (forall ws1 s ws2, forallb blank ws1 = true -> forallb blank ws2 = true -> toy_float (ws1 ++ s ++ ws2) = toy_float s) /\
  (forall b, forallb (fun c => c <? 128)%N b = true -> toy_float b = toy_float b) /\
  (forall f, forallb (fun c => c <? 128)%N (toy_repr f) = true).
Proof.
  split.
  { intros f _. unfold toy_float, toy_repr. rewrite filter_digits by (apply render_nat_digits; lia).
    rewrite render_nat_value by lia. now rewrite N2Z.id. }
  split.
  { intros ws1 s ws2 H1 H2. unfold toy_float. rewrite !filter_app, (filter_blanks _ H1), (filter_blanks _ H2).
    now rewrite app_nil_r. }
  split; [reflexivity|].
  intros f. apply digit_ascii. apply render_nat_digits. lia.
Qed.

Lemma decimal_exponent_refuted ft fb rp jl jd sc :
  exists p s c e, 1 <= p <= 38 /\ 0 <= s <= safe_scale_cap /\ - s <= e <= 0 /\ ndig c <= p /\
    exists c2 e2, parse ft fb rp jl jd sc T_DECIMAL (dec_kw p s) (PStr (dec_str (DFin false c e))) = ROk (PDecimal (DFin false c2 e2))
                  /\ e2 <> - s.
Proof.
  exists 5, 3, 12345, 0.
  split; [vm_compute; split; discriminate|]. split; [vm_compute; split; discriminate|].
  split; [vm_compute; split; discriminate|]. split; [vm_compute; discriminate|].
  exists 12345, 0. split; [exact (decimal_exponent_witness ft fb rp jl jd sc)|discriminate].
Qed.
